#!/bin/bash
# MANIFEST.setup_cmd: builds the harness (and warms the Go build cache) from files on disk only.
set -e
cd "$(dirname "$0")"
. ./env.sh
./gen_gomod.sh
( cd harness && go build -tags verif -o $VERIF_DIR/.cache/bin/vcheck ./cmd/vcheck )
( cd harness && go build -tags verif -o $VERIF_DIR/.cache/bin/vrun ./cmd/vrun )
if [ -f ./build_octosql.sh ]; then ./build_octosql.sh; fi
echo "setup ok"
