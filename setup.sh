#!/bin/bash
# MANIFEST.setup_cmd: builds the harness (and warms the Go build cache) from files on disk only.
set -e
cd /verif
. /verif/env.sh
./gen_gomod.sh
( cd harness && go build -tags verif -o /verif/.cache/bin/vcheck ./cmd/vcheck )
if [ -f /verif/build_octosql.sh ]; then /verif/build_octosql.sh; fi
echo "setup ok"
