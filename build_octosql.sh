#!/bin/bash
# builds the real octosql binary from /repo's current tree (tag verif: hooks compiled in but inert without a controller)
set -e
cd "$(dirname "$0")"
. ./env.sh
( cd $REPO_DIR && go build -tags verif -o $VERIF_DIR/.cache/bin/octosql . )
