// testplugin: a real octosql plugin (built on the repository's plugins.Run) used by the C26 check.
// It serves every table <name> of its database from the JSON-lines file <dir>/<name>.json through
// the repository's own json datasource, ACCEPTS every pushed-down predicate and applies the
// pushed-down predicates as a Filter inside the plugin process, i.e. the predicates are evaluated
// on the far side of the plugin boundary after the JSON hop + RepopulatePhysicalExpressionFunctions.
//
// config (databases[].config in octosql.yml):   dir: /path/to/dir     (or env VERIF_TESTPLUGIN_DIR)
package main

import (
	"context"
	"fmt"
	"os"
	"path/filepath"
	"strings"
	"time"

	"github.com/cube2222/octosql/config"
	"github.com/cube2222/octosql/datasources/json"
	"github.com/cube2222/octosql/execution"
	"github.com/cube2222/octosql/execution/nodes"
	"github.com/cube2222/octosql/octosql"
	"github.com/cube2222/octosql/physical"
	"github.com/cube2222/octosql/plugins"
)

type pluginConfig struct {
	Dir string `yaml:"dir"`
}

// the json datasource reads its buffer sizes from the config in the context; a plugin process has none
var fileConfig = func() *config.Config {
	c := &config.Config{}
	c.Files.BufferSizeBytes = 4096 * 1024
	c.Files.JSON.MaxLineSizeBytes = 1024 * 1024
	return c
}()

type database struct {
	dir string
}

func (d *database) ListTables(ctx context.Context) ([]string, error) {
	entries, err := os.ReadDir(d.dir)
	if err != nil {
		return nil, err
	}
	var out []string
	for _, e := range entries {
		if strings.HasSuffix(e.Name(), ".json") {
			out = append(out, strings.TrimSuffix(e.Name(), ".json"))
		}
	}
	return out, nil
}

// vstream: a scripted changelog with records, a retraction and watermarks (records and watermarks interleaved),
// so that the whole stream protocol of the plugin boundary is exercised, not just record batches.
type vstream struct{}

func vstreamTime(sec int) time.Time { return time.Unix(int64(sec), 0).UTC() }

func (v *vstream) PushDownPredicates(newPredicates, pushedDownPredicates []physical.Expression) (rejected, pushedDown []physical.Expression, changed bool) {
	return newPredicates, pushedDownPredicates, false
}

func (v *vstream) Materialize(ctx context.Context, env physical.Environment, schema physical.Schema, pushedDownPredicates []physical.Expression) (execution.Node, error) {
	return v, nil
}

func (v *vstream) Run(ctx execution.ExecutionContext, produce execution.ProduceFn, metaSend execution.MetaSendFn) error {
	pctx := execution.ProduceFromExecutionContext(ctx)
	rec := func(i int64, retraction bool, sec int) error {
		return produce(pctx, execution.NewRecord([]octosql.Value{octosql.NewInt(i)}, retraction, vstreamTime(sec)))
	}
	wm := func(sec int) error {
		return metaSend(pctx, execution.MetadataMessage{Type: execution.MetadataMessageTypeWatermark, Watermark: vstreamTime(sec)})
	}
	steps := []func() error{
		func() error { return wm(1) },
		func() error { return rec(1, false, 2) },
		func() error { return wm(2) },
		func() error { return rec(2, false, 3) },
		func() error { return rec(1, true, 3) },
		func() error { return wm(3) },
		func() error { return wm(4) },
		func() error { return rec(3, false, 5) },
		func() error { return wm(5) },
	}
	for _, s := range steps {
		if err := s(); err != nil {
			return err
		}
	}
	return nil
}

func (d *database) GetTable(ctx context.Context, name string, options map[string]string) (physical.DatasourceImplementation, physical.Schema, error) {
	if name == "vstream" {
		return &vstream{}, physical.Schema{Fields: []physical.SchemaField{{Name: "i", Type: octosql.Int}}, TimeField: -1, NoRetractions: false}, nil
	}
	if strings.ContainsAny(name, "/\\") {
		return nil, physical.Schema{}, fmt.Errorf("no such table: %s", name)
	}
	path := filepath.Join(d.dir, name+".json")
	if _, err := os.Stat(path); err != nil {
		return nil, physical.Schema{}, fmt.Errorf("no such table: %s", name)
	}
	inner, schema, err := json.Creator(config.ContextWithConfig(ctx, fileConfig), path, options)
	if err != nil {
		return nil, physical.Schema{}, err
	}
	return &table{inner: inner}, schema, nil
}

type table struct {
	inner physical.DatasourceImplementation
}

// PushDownPredicates accepts everything.
func (t *table) PushDownPredicates(newPredicates, pushedDownPredicates []physical.Expression) (rejected, pushedDown []physical.Expression, changed bool) {
	pushedDown = append(append([]physical.Expression{}, pushedDownPredicates...), newPredicates...)
	return nil, pushedDown, len(newPredicates) > 0
}

func (t *table) Materialize(ctx context.Context, env physical.Environment, schema physical.Schema, pushedDownPredicates []physical.Expression) (execution.Node, error) {
	source, err := t.inner.Materialize(ctx, env, schema, nil)
	if err != nil {
		return nil, err
	}
	var node execution.Node = source
	if len(pushedDownPredicates) > 0 {
		// the same shape physical.Node.Materialize builds for a Filter node over this datasource
		predicate := physical.Expression{
			Type:           octosql.Boolean,
			ExpressionType: physical.ExpressionTypeAnd,
			And:            &physical.And{Arguments: pushedDownPredicates},
		}
		materialized, err := predicate.Materialize(ctx, env.WithRecordSchema(schema))
		if err != nil {
			return nil, fmt.Errorf("couldn't materialize pushed down predicates: %w", err)
		}
		node = nodes.NewFilter(source, materialized)
	}
	return &withConfig{inner: node}, nil
}

type withConfig struct {
	inner execution.Node
}

func (n *withConfig) Run(ctx execution.ExecutionContext, produce execution.ProduceFn, metaSend execution.MetaSendFn) error {
	ctx.Context = config.ContextWithConfig(ctx.Context, fileConfig)
	return n.inner.Run(ctx, produce, metaSend)
}

func main() {
	plugins.Run(func(ctx context.Context, configDecoder plugins.ConfigDecoder) (physical.Database, error) {
		var cfg pluginConfig
		if err := configDecoder.Decode(&cfg); err != nil {
			// no config given (default database of the plugin): fall back to the environment
			cfg = pluginConfig{}
		}
		if cfg.Dir == "" {
			cfg.Dir = os.Getenv("VERIF_TESTPLUGIN_DIR")
		}
		if cfg.Dir == "" {
			return nil, fmt.Errorf("testplugin: no dir configured")
		}
		return &database{dir: cfg.Dir}, nil
	})
}
