// vrun: worker process that runs octosql's root command in-process, once per
// request. Requests are JSON lines on stdin, responses JSON lines on fd 3.
// stdout of the command is captured at fd level (dup2) because parts of
// octosql grab os.Stdout at package init.
package main

import (
	"bufio"
	"context"
	"encoding/json"
	"fmt"
	"os"
	"runtime"
	"runtime/pprof"
	"strings"
	"syscall"

	"github.com/cube2222/octosql/cmd"
)

type req struct {
	Args  []string `json:"args"`
	Stdin string   `json:"stdin,omitempty"` // path of a file to use as stdin
}

type resp struct {
	Out   string `json:"out"`
	Err   string `json:"err,omitempty"`
	Panic string `json:"panic,omitempty"`
	Frame string `json:"frame,omitempty"`
}

func topFrame() string {
	pcs := make([]uintptr, 64)
	n := runtime.Callers(3, pcs)
	frames := runtime.CallersFrames(pcs[:n])
	for {
		f, more := frames.Next()
		if strings.Contains(f.Function, "github.com/cube2222/octosql/") && !strings.Contains(f.File, "verif_") {
			file := f.File
			if i := strings.Index(file, "/repo/"); i >= 0 {
				file = file[i+6:]
			}
			fn := f.Function[strings.LastIndex(f.Function, "/")+1:]
			return fmt.Sprintf("%s:%s", file, fn)
		}
		if !more {
			break
		}
	}
	return "?"
}

func runOne(r req, capture *os.File, savedOut int) (out resp) {
	capture.Truncate(0)
	capture.Seek(0, 0)
	syscall.Dup2(int(capture.Fd()), 1)
	savedIn := -1
	if r.Stdin != "" {
		f, err := os.Open(r.Stdin)
		if err == nil {
			savedIn, _ = syscall.Dup(0)
			syscall.Dup2(int(f.Fd()), 0)
			defer func() {
				syscall.Dup2(savedIn, 0)
				syscall.Close(savedIn)
				f.Close()
			}()
		}
	}
	func() {
		defer func() {
			if p := recover(); p != nil {
				out.Panic = fmt.Sprint(p)
				out.Frame = topFrame()
			}
		}()
		if err := cmd.VerifExecute(context.Background(), r.Args); err != nil {
			out.Err = err.Error()
		}
	}()
	syscall.Dup2(savedOut, 1)
	capture.Seek(0, 0)
	b := make([]byte, 0, 4096)
	buf := make([]byte, 65536)
	for {
		n, err := capture.Read(buf)
		b = append(b, buf[:n]...)
		if err != nil || n == 0 {
			break
		}
		if len(b) > 8<<20 {
			break
		}
	}
	out.Out = string(b)
	return out
}

func main() {
	if pf := os.Getenv("VRUN_CPUPROFILE"); pf != "" {
		f, _ := os.Create(pf)
		pprof.StartCPUProfile(f)
		defer pprof.StopCPUProfile()
	}
	respFile := os.NewFile(3, "resp")
	w := bufio.NewWriter(respFile)
	capture, err := os.CreateTemp("", "vrun-out")
	if err != nil {
		panic(err)
	}
	os.Remove(capture.Name())
	savedOut, _ := syscall.Dup(1)
	sc := bufio.NewScanner(os.Stdin)
	sc.Buffer(make([]byte, 1<<20), 64<<20)
	for sc.Scan() {
		var r req
		if err := json.Unmarshal(sc.Bytes(), &r); err != nil {
			fmt.Fprintln(os.Stderr, "vrun: bad request:", err)
			os.Exit(2)
		}
		out := runOne(r, capture, savedOut)
		b, _ := json.Marshal(out)
		w.Write(b)
		w.WriteByte('\n')
		w.Flush()
	}
}
