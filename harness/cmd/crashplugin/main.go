// crashplugin: a tiny real octosql plugin used by the C27 crash checks.
// It serves one table `t` with two fixed rows; the column `version` carries the
// version string baked into the binary with -ldflags "-X main.Version=<v>", so a
// query through octosql shows which installed version answered.
package main

import (
	"context"
	"fmt"
	"os"
	"path/filepath"
	"time"

	"github.com/cube2222/octosql/execution"
	"github.com/cube2222/octosql/octosql"
	"github.com/cube2222/octosql/physical"
	"github.com/cube2222/octosql/plugins"
)

var Version = "unset"

type database struct{}

func (d *database) ListTables(ctx context.Context) ([]string, error) { return []string{"t"}, nil }

func (d *database) GetTable(ctx context.Context, name string, options map[string]string) (physical.DatasourceImplementation, physical.Schema, error) {
	if name != "t" {
		return nil, physical.Schema{}, fmt.Errorf("unknown table: %s", name)
	}
	return &impl{}, physical.Schema{
		TimeField: -1,
		Fields: []physical.SchemaField{
			{Name: "id", Type: octosql.Int},
			{Name: "version", Type: octosql.String},
		},
		NoRetractions: true,
	}, nil
}

type impl struct{}

func (i *impl) Materialize(ctx context.Context, env physical.Environment, schema physical.Schema, pushedDownPredicates []physical.Expression) (execution.Node, error) {
	return &node{fields: schema.Fields}, nil
}

func (i *impl) PushDownPredicates(newPredicates, pushedDownPredicates []physical.Expression) (rejected, pushedDown []physical.Expression, changed bool) {
	return newPredicates, []physical.Expression{}, false
}

type node struct{ fields []physical.SchemaField }

func (n *node) Run(ctx execution.ExecutionContext, produce execution.ProduceFn, metaSend execution.MetaSendFn) error {
	for id := 1; id <= 2; id++ {
		row := make([]octosql.Value, len(n.fields))
		for i, f := range n.fields {
			switch f.Name {
			case "id":
				row[i] = octosql.NewInt(int64(id))
			case "version":
				row[i] = octosql.NewString(Version)
			}
		}
		if err := produce(execution.ProduceFromExecutionContext(ctx), execution.NewRecord(row, false, time.Time{})); err != nil {
			return fmt.Errorf("couldn't produce record: %w", err)
		}
	}
	return nil
}

// The archive ships lib/marker.txt next to the executable; a version directory without it is incomplete.
const libMarker = "octosql-crashplugin-lib v1\n"

func main() {
	exe, err := os.Executable()
	if err == nil {
		b, rerr := os.ReadFile(filepath.Join(filepath.Dir(exe), "lib", "marker.txt"))
		if rerr != nil || string(b) != libMarker {
			fmt.Fprintf(os.Stderr, "crashplugin %s: installation incomplete: lib/marker.txt missing or damaged (%v)\n", Version, rerr)
			os.Exit(3)
		}
	}
	plugins.Run(func(ctx context.Context, configDecoder plugins.ConfigDecoder) (physical.Database, error) {
		return &database{}, nil
	})
}
