package main

import (
	"fmt"
	"os"
	"runtime/pprof"
	"strconv"
	"time"

	"verif/harness/internal/findings"
	"verif/harness/props"
)

func main() {
	if len(os.Args) < 3 {
		fmt.Fprintln(os.Stderr, "usage: vcheck <ID> quick|thorough")
		os.Exit(2)
	}
	id, tier := os.Args[1], os.Args[2]
	c, ok := props.Registry[id]
	if !ok {
		fmt.Fprintf(os.Stderr, "unknown property %s\n", id)
		os.Exit(2)
	}
	r := findings.New(id, tier, c.Level)
	if d := os.Getenv("VERIF_DEADLINE_S"); d != "" {
		if dur, err := time.ParseDuration(d + "s"); err == nil {
			r.Deadline = time.Now().Add(dur)
		}
	}
	if at, err := strconv.ParseInt(os.Getenv("VERIF_DEADLINE_AT"), 10, 64); err == nil && at > 0 {
		r.Deadline = time.Unix(at, 0) // shard child: the parent's absolute deadline
	}
	if pf := os.Getenv("VERIF_CPUPROFILE"); pf != "" {
		f, _ := os.Create(pf)
		pprof.StartCPUProfile(f)
		c.Run(r)
		pprof.StopCPUProfile()
		f.Close()
	} else {
		c.Run(r)
	}
	os.Exit(r.Finish())
}
