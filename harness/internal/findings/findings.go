// Package findings: violation fingerprints, known-findings matching, replay
// files and evidence writing shared by every property check.
package findings

import (
	"bufio"
	"crypto/sha1"
	"encoding/hex"
	"encoding/json"
	"fmt"
	"os"
	"path/filepath"
	"sort"
	"strconv"
	"strings"
	"sync"
	"time"
)

type Known struct {
	Property    string `json:"property"`
	Fingerprint string `json:"fingerprint"`
	Status      string `json:"status"` // known | fixed
	Commit      string `json:"commit,omitempty"`
	What        string `json:"what"`
}

type violation struct {
	Fingerprint string      `json:"fingerprint"`
	What        string      `json:"what"`
	Replay      interface{} `json:"replay"`
	Count       int         `json:"count"`
}

type Run struct {
	Prop  string
	Tier  string
	Level string
	Seed  int

	start time.Time
	mu    sync.Mutex

	Evaluations int64
	States      int64
	Transitions int64
	Traces      int64
	Rejected    int64
	Exhaustive  bool
	Rule        string
	Bound       interface{}
	Extra       map[string]interface{}
	Assumptions []string

	nontrivial       map[string]struct{}
	nontrivialCapped bool
	outcomes         map[string]int64
	samples          []interface{}
	maxSamples       int

	viol      map[string]*violation
	violOrder []string
	known     map[string]Known
	knownHit  map[string]int
	knownSeen map[string]string // fingerprint -> first what
	Deadline  time.Time
	sums      map[string]int64
	stage     int
}

func VerifDir() string {
	if d := os.Getenv("VERIF_DIR"); d != "" {
		return d
	}
	return "/verif"
}

func New(prop, tier, level string) *Run {
	seed, _ := strconv.Atoi(os.Getenv("VERIF_SEED"))
	r := &Run{
		Prop: prop, Tier: tier, Level: level, Seed: seed,
		start:      time.Now(),
		Exhaustive: true,
		Extra:      map[string]interface{}{},
		nontrivial: map[string]struct{}{},
		outcomes:   map[string]int64{},
		maxSamples: 5,
		viol:       map[string]*violation{},
		known:      map[string]Known{},
		knownHit:   map[string]int{},
		knownSeen:  map[string]string{},
	}
	// known_findings.txt, one entry per line:
	//   known: property=<id> fingerprint=<fp> <what fails>
	//   fixed: property=<id> <commit> <what failed>      (suppresses nothing)
	f, err := os.Open(filepath.Join(VerifDir(), "known_findings.txt"))
	if err == nil {
		defer f.Close()
		sc := bufio.NewScanner(f)
		sc.Buffer(make([]byte, 1<<20), 1<<20)
		for sc.Scan() {
			line := strings.TrimSpace(sc.Text())
			if line == "" || strings.HasPrefix(line, "#") || strings.HasPrefix(line, "fixed:") {
				continue
			}
			if !strings.HasPrefix(line, "known:") {
				fmt.Fprintf(os.Stderr, "bad known_findings line: %s\n", line)
				os.Exit(2)
			}
			fields := strings.Fields(strings.TrimPrefix(line, "known:"))
			if len(fields) < 3 || !strings.HasPrefix(fields[0], "property=") || !strings.HasPrefix(fields[1], "fingerprint=") {
				fmt.Fprintf(os.Stderr, "bad known_findings line: %s\n", line)
				os.Exit(2)
			}
			k := Known{Property: strings.TrimPrefix(fields[0], "property="), Fingerprint: strings.TrimPrefix(fields[1], "fingerprint="),
				Status: "known", What: strings.Join(fields[2:], " ")}
			if k.Property == prop {
				r.known[k.Fingerprint] = k
			}
		}
	}
	return r
}

func (r *Run) Thorough() bool { return r.Tier == "thorough" }

// Pick returns q for the quick tier and t for thorough.
func (r *Run) Pick(q, t int) int {
	if r.Thorough() {
		return t
	}
	return q
}

func (r *Run) Eval(n int64) {
	r.mu.Lock()
	r.Evaluations += n
	r.mu.Unlock()
}

func (r *Run) AddCounts(states, transitions, traces int64) {
	r.mu.Lock()
	r.States += states
	r.Transitions += transitions
	r.Traces += traces
	r.mu.Unlock()
}

func (r *Run) Reject(n int64) {
	r.mu.Lock()
	r.Rejected += n
	r.mu.Unlock()
}

// Nontrivial records a distinct non-trivial case by key.
// nontrivialCap bounds the memory of the distinct-non-trivial set (about 60 bytes per entry).
const nontrivialCap = 3_000_000

func (r *Run) Nontrivial(key string) {
	h := sha1.Sum([]byte(key))
	k := string(h[:8])
	r.mu.Lock()
	// memory bound: beyond the cap the set stops growing and the reported number is a lower bound
	if len(r.nontrivial) < nontrivialCap {
		r.nontrivial[k] = struct{}{}
	} else if _, ok := r.nontrivial[k]; !ok {
		r.nontrivialCapped = true
	}
	r.mu.Unlock()
}

func (r *Run) Outcome(class string) {
	r.mu.Lock()
	r.outcomes[class]++
	r.mu.Unlock()
}

func (r *Run) Sample(s interface{}) {
	r.mu.Lock()
	if len(r.samples) < r.maxSamples {
		r.samples = append(r.samples, s)
	}
	r.mu.Unlock()
}

func (r *Run) NeedSample() bool {
	r.mu.Lock()
	defer r.mu.Unlock()
	return len(r.samples) < r.maxSamples
}

func (r *Run) Assume(s ...string) { r.Assumptions = append(r.Assumptions, s...) }

// TimeUp reports whether an internal deadline was hit; the caller stops and
// the evidence says exhaustive:false.
func (r *Run) TimeUp() bool {
	if r.Deadline.IsZero() {
		return false
	}
	if time.Now().After(r.Deadline) {
		r.mu.Lock()
		r.Exhaustive = false
		r.mu.Unlock()
		return true
	}
	return false
}

func matchFP(pattern, fp string) bool {
	if strings.HasSuffix(pattern, "*") {
		return strings.HasPrefix(fp, strings.TrimSuffix(pattern, "*"))
	}
	return pattern == fp
}

// Violation records one failing case. fp is the narrow fingerprint; replay is
// whatever is needed to re-run the case.
func (r *Run) Violation(fp, what string, replay interface{}) {
	r.mu.Lock()
	defer r.mu.Unlock()
	for pat := range r.known {
		if matchFP(pat, fp) {
			r.knownHit[pat]++
			if _, ok := r.knownSeen[pat]; !ok {
				r.knownSeen[pat] = what
			}
			return
		}
	}
	v, ok := r.viol[fp]
	if !ok {
		v = &violation{Fingerprint: fp, What: what, Replay: replay}
		r.viol[fp] = v
		r.violOrder = append(r.violOrder, fp)
	}
	v.Count++
}

func (r *Run) ViolationCount() int {
	r.mu.Lock()
	defer r.mu.Unlock()
	return len(r.viol)
}

func safeName(s string) string {
	h := sha1.Sum([]byte(s))
	var b strings.Builder
	for _, c := range s {
		if (c >= 'a' && c <= 'z') || (c >= 'A' && c <= 'Z') || (c >= '0' && c <= '9') || c == '-' || c == '_' {
			b.WriteRune(c)
		} else {
			b.WriteByte('_')
		}
		if b.Len() > 60 {
			break
		}
	}
	return b.String() + "-" + hex.EncodeToString(h[:4])
}

// Finish writes evidence and replay files, prints the interface lines and
// returns the process exit code.
func (r *Run) Finish() int {
	r.mu.Lock()
	defer r.mu.Unlock()
	wall := time.Since(r.start).Seconds()

	// replay files + VIOLATION lines
	replayDir := filepath.Join(VerifDir(), "replays", r.Prop)
	sort.Strings(r.violOrder)
	var vsum []map[string]interface{}
	for _, fp := range r.violOrder {
		v := r.viol[fp]
		os.MkdirAll(replayDir, 0o755)
		path := filepath.Join(replayDir, safeName(fp)+".json")
		b, _ := json.MarshalIndent(map[string]interface{}{
			"property": r.Prop, "fingerprint": fp, "what": v.What, "count": v.Count, "case": v.Replay,
		}, "", " ")
		os.WriteFile(path, b, 0o644)
		fmt.Printf("VIOLATION property=%s replay=%s fingerprint=%q count=%d %s\n", r.Prop, path, fp, v.Count, oneLine(v.What))
		vsum = append(vsum, map[string]interface{}{"fingerprint": fp, "count": v.Count, "what": oneLine(v.What)})
	}
	var knownList []map[string]interface{}
	var pats []string
	for pat := range r.known {
		pats = append(pats, pat)
	}
	sort.Strings(pats)
	for _, pat := range pats {
		k := r.known[pat]
		if n := r.knownHit[pat]; n > 0 {
			fmt.Printf("KNOWN-FINDING: property=%s %s (fingerprint %s, %d cases this run)\n", r.Prop, k.What, pat, n)
			knownList = append(knownList, map[string]interface{}{"fingerprint": pat, "cases": n, "what": k.What})
		} else if r.Exhaustive {
			fmt.Fprintf(os.Stderr, "note: known finding %s/%s was not hit in this run (stale?)\n", r.Prop, pat)
		}
	}

	cov := map[string]interface{}{
		"exhaustive": r.Exhaustive,
		"rule":       r.Rule,
		"samples":    r.samples,
	}
	if r.Bound != nil {
		cov["bound"] = r.Bound
	}
	cov["evaluations"] = r.Evaluations
	cov["distinct_nontrivial"] = len(r.nontrivial)
	if r.nontrivialCapped || len(r.nontrivial) >= nontrivialCap {
		cov["distinct_nontrivial_is_lower_bound"] = fmt.Sprintf("the set of distinct non-trivial cases is capped at %d entries per process to bound memory", nontrivialCap)
	}
	if r.States > 0 || r.Level == "model_checking" {
		cov["states"] = r.States
		cov["transitions"] = r.Transitions
		cov["traces_validated_against_impl"] = r.Traces
	}
	if r.Rejected > 0 {
		cov["rejected"] = r.Rejected
	}
	cov["distinct_outcomes"] = len(r.outcomes)
	if len(r.outcomes) <= 40 {
		cov["outcome_histogram"] = r.outcomes
	}
	if len(knownList) > 0 {
		cov["known_findings_hit"] = knownList
	}
	if len(vsum) > 0 {
		cov["violations"] = vsum
	}
	for k, v := range r.sums {
		cov[k] = v
	}
	for k, v := range r.Extra {
		cov[k] = v
	}
	if len(r.samples) == 0 {
		cov["samples"] = []interface{}{"(no case explored)"}
	}
	ev := map[string]interface{}{
		"property_id": r.Prop,
		"tier":        r.Tier,
		"seed":        r.Seed,
		"level":       r.Level,
		"coverage":    cov,
		"assumptions": r.Assumptions,
		"wall_s":      float64(int(wall*100)) / 100,
		"violations":  len(r.viol),
	}
	if r.Assumptions == nil {
		ev["assumptions"] = []string{}
	}
	os.MkdirAll(filepath.Join(VerifDir(), "evidence"), 0o755)
	b, _ := json.MarshalIndent(ev, "", " ")
	os.WriteFile(filepath.Join(VerifDir(), "evidence", r.Prop+".json"), append(b, '\n'), 0o644)

	fmt.Printf("%s %s: evaluations=%d states=%d transitions=%d distinct_nontrivial=%d outcomes=%d rejected=%d exhaustive=%v known_hit=%d violations=%d wall=%.1fs\n",
		r.Prop, r.Tier, r.Evaluations, r.States, r.Transitions, len(r.nontrivial), len(r.outcomes), r.Rejected, r.Exhaustive, len(knownList), len(r.viol), wall)
	if len(r.viol) > 0 {
		return 1
	}
	return 0
}

func oneLine(s string) string {
	s = strings.ReplaceAll(s, "\n", " ⏎ ")
	if len(s) > 300 {
		s = s[:300] + "…"
	}
	return s
}
