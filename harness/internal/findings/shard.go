package findings

import (
	"encoding/hex"
	"encoding/json"
	"fmt"
	"os"
	"os/exec"
	"strconv"
	"strings"
	"sync"
)

type partial struct {
	Evaluations, States, Transitions, Traces, Rejected int64
	Exhaustive                                         bool
	Nontrivial                                         []string
	Outcomes                                           map[string]int64
	Samples                                            []interface{}
	Viol                                               map[string]*violation
	KnownHit                                           map[string]int
	KnownSeen                                          map[string]string
	Sums                                               map[string]int64
}

// ShardChild reports whether this process is a shard worker: everything outside
// the Sharded body must be skipped there (the parent does it once).
// deadlineUnix: the parent's absolute deadline (0 = none), handed to shard children so that stages do not add up.
func (r *Run) deadlineUnix() int64 {
	if r.Deadline.IsZero() {
		return 0
	}
	return r.Deadline.Unix()
}

func (r *Run) ShardChild() bool { return os.Getenv("VERIF_SHARD") != "" }

// Sum adds n to a named counter reported in coverage (merged across shards).
func (r *Run) Sum(name string, n int64) {
	r.mu.Lock()
	if r.sums == nil {
		r.sums = map[string]int64{}
	}
	r.sums[name] += n
	r.mu.Unlock()
}

// Sharded runs body(shard, n) in n child processes (each with GOMAXPROCS=procs
// and the given GOGC) and merges their results into r. In a child process
// (VERIF_SHARD set) it runs body for that shard, writes the partial result and
// exits. The set covered is the union over shards and is independent of the seed.
func (r *Run) Sharded(n, procs int, body func(shard, n int)) {
	r.mu.Lock()
	r.stage++
	stage := r.stage
	r.mu.Unlock()
	if sh := os.Getenv("VERIF_SHARD"); sh != "" {
		if st, _ := strconv.Atoi(os.Getenv("VERIF_SHARD_STAGE")); st != stage {
			return // this child belongs to another Sharded call of the same check
		}
		parts := strings.Split(sh, "/")
		i, _ := strconv.Atoi(parts[0])
		nn, _ := strconv.Atoi(parts[1])
		// a child only contributes what the sharded body does: drop anything counted before this call
		r.mu.Lock()
		r.Evaluations, r.States, r.Transitions, r.Traces, r.Rejected = 0, 0, 0, 0, 0
		r.nontrivial = map[string]struct{}{}
		r.outcomes = map[string]int64{}
		r.samples = nil
		r.viol = map[string]*violation{}
		r.violOrder = nil
		r.knownHit = map[string]int{}
		r.knownSeen = map[string]string{}
		r.sums = nil
		r.mu.Unlock()
		body(i, nn)
		r.mu.Lock()
		p := partial{Evaluations: r.Evaluations, States: r.States, Transitions: r.Transitions, Traces: r.Traces, Rejected: r.Rejected,
			Exhaustive: r.Exhaustive, Outcomes: r.outcomes, Samples: r.samples, Viol: r.viol, KnownHit: r.knownHit, KnownSeen: r.knownSeen, Sums: r.sums}
		for k := range r.nontrivial {
			p.Nontrivial = append(p.Nontrivial, hex.EncodeToString([]byte(k)))
		}
		r.mu.Unlock()
		b, _ := json.Marshal(p)
		if err := os.WriteFile(os.Getenv("VERIF_SHARD_OUT"), b, 0o644); err != nil {
			fmt.Fprintln(os.Stderr, "shard: cannot write result:", err)
			os.Exit(3)
		}
		os.Exit(0)
	}
	dir, err := os.MkdirTemp("", "vshard")
	if err != nil {
		panic(err)
	}
	defer os.RemoveAll(dir)
	var wg sync.WaitGroup
	errs := make([]error, n)
	for i := 0; i < n; i++ {
		wg.Add(1)
		go func(i int) {
			defer wg.Done()
			cmd := exec.Command(os.Args[0], os.Args[1:]...)
			cmd.Env = append(os.Environ(),
				fmt.Sprintf("VERIF_SHARD=%d/%d", (i+r.Seed)%n, n),
				fmt.Sprintf("VERIF_SHARD_OUT=%s/%d.json", dir, i),
				fmt.Sprintf("VERIF_SHARD_STAGE=%d", stage),
				fmt.Sprintf("VERIF_DEADLINE_AT=%d", r.deadlineUnix()),
				fmt.Sprintf("GOMAXPROCS=%d", procs))
			cmd.Stdout = os.Stderr
			cmd.Stderr = os.Stderr
			errs[i] = cmd.Run()
		}(i)
	}
	wg.Wait()
	for i := 0; i < n; i++ {
		if errs[i] != nil {
			fmt.Printf("HARNESS ERROR: shard %d failed: %v\n", i, errs[i])
			os.Exit(2)
		}
		b, err := os.ReadFile(fmt.Sprintf("%s/%d.json", dir, i))
		if err != nil {
			fmt.Printf("HARNESS ERROR: shard %d wrote no result: %v\n", i, err)
			os.Exit(2)
		}
		var p partial
		if err := json.Unmarshal(b, &p); err != nil {
			fmt.Printf("HARNESS ERROR: shard %d result unreadable: %v\n", i, err)
			os.Exit(2)
		}
		r.Evaluations += p.Evaluations
		r.States += p.States
		r.Transitions += p.Transitions
		r.Traces += p.Traces
		r.Rejected += p.Rejected
		r.Exhaustive = r.Exhaustive && p.Exhaustive
		for _, k := range p.Nontrivial {
			kb, _ := hex.DecodeString(k)
			if len(r.nontrivial) < 4*nontrivialCap {
				r.nontrivial[string(kb)] = struct{}{}
			} else {
				r.nontrivialCapped = true
			}
		}
		for k, v := range p.Outcomes {
			r.outcomes[k] += v
		}
		for _, s := range p.Samples {
			if len(r.samples) < r.maxSamples {
				r.samples = append(r.samples, s)
			}
		}
		for fp, v := range p.Viol {
			if old, ok := r.viol[fp]; ok {
				old.Count += v.Count
			} else {
				r.viol[fp] = v
				r.violOrder = append(r.violOrder, fp)
			}
		}
		for k, v := range p.KnownHit {
			r.knownHit[k] += v
		}
		for k, v := range p.KnownSeen {
			if _, ok := r.knownSeen[k]; !ok {
				r.knownSeen[k] = v
			}
		}
		for k, v := range p.Sums {
			if r.sums == nil {
				r.sums = map[string]int64{}
			}
			r.sums[k] += v
		}
	}
}
