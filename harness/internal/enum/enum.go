// Package enum: small enumeration and parallel-execution helpers.
package enum

import (
	"runtime"
	"sync"
	"sync/atomic"
)

// Parallel runs f(i) for i in [0,n) on all cores; f must be goroutine-safe.
func Parallel(n int, f func(i int)) {
	w := runtime.NumCPU()
	if w > n {
		w = n
	}
	if w < 1 {
		w = 1
	}
	var next int64 = -1
	var wg sync.WaitGroup
	for k := 0; k < w; k++ {
		wg.Add(1)
		go func() {
			defer wg.Done()
			for {
				i := int(atomic.AddInt64(&next, 1))
				if i >= n {
					return
				}
				f(i)
			}
		}()
	}
	wg.Wait()
}

// Product calls f with every tuple of indexes idx[i] in [0,sizes[i]).
func Product(sizes []int, f func(idx []int) bool) {
	idx := make([]int, len(sizes))
	for _, s := range sizes {
		if s == 0 {
			return
		}
	}
	for {
		if !f(idx) {
			return
		}
		i := len(idx) - 1
		for i >= 0 {
			idx[i]++
			if idx[i] < sizes[i] {
				break
			}
			idx[i] = 0
			i--
		}
		if i < 0 {
			return
		}
	}
}

// Sequences calls f with every sequence of length <= maxLen over [0,k), in
// shortlex order. ok(prefix) prunes: only prefixes for which ok returns true
// are extended or reported.
func Sequences(k, maxLen int, ok func(seq []int) bool, f func(seq []int)) {
	seq := []int{}
	var rec func()
	rec = func() {
		f(seq)
		if len(seq) == maxLen {
			return
		}
		for s := 0; s < k; s++ {
			seq = append(seq, s)
			if ok == nil || ok(seq) {
				rec()
			}
			seq = seq[:len(seq)-1]
		}
	}
	rec()
}

// Multisets calls f with every multiset (non-decreasing index sequence) of size <= max over [0,k).
func Multisets(k, max int, f func(ms []int)) {
	ms := []int{}
	var rec func(start int)
	rec = func(start int) {
		f(ms)
		if len(ms) == max {
			return
		}
		for s := start; s < k; s++ {
			ms = append(ms, s)
			rec(s)
			ms = ms[:len(ms)-1]
		}
	}
	rec(0)
}
