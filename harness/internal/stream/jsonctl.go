package stream

import (
	"context"
	"fmt"
	"runtime"
	"sort"
	"time"

	"github.com/cube2222/octosql/config"
	"github.com/cube2222/octosql/datasources/json"
	"github.com/cube2222/octosql/execution"
	"github.com/cube2222/octosql/physical"
)

// JSONRun: one controlled execution of the real JSON datasource.
type JSONRun struct {
	Records []string // rendered values of the produced records, in order
	Err     error
	Panic   interface{}
	Stuck   string
	// Options[k] = number of batches held by workers at decision k; Chosen[k] = first line of the released batch
	Options []int
	Chosen  []int
}

func jsonCtx(gate func(ctx context.Context, firstLine int)) context.Context {
	cfg := &config.Config{}
	cfg.Files.BufferSizeBytes = 4096 * 1024
	cfg.Files.JSON.MaxLineSizeBytes = 1024 * 1024
	ctx := config.ContextWithConfig(context.Background(), cfg)
	if gate != nil {
		ctx = context.WithValue(ctx, json.VerifJSONGateKey{}, gate)
	}
	return ctx
}

// RunJSON reads path through the real json datasource (schema inference, reader goroutine, global
// parser worker pool, reorder queue). If controlled, every parsed batch is held at hook H2 until the
// controller releases it; at decision k the controller waits until min(workers, undelivered) batches
// are held (workers take jobs FIFO, so that set is a function of the release history alone), sorts them
// by first line and releases the choices[k]-th (0 beyond len(choices)). stopAfter > 0 makes the consumer
// fail after that many records.
func RunJSON(path string, batches int, controlled bool, choices []int, stopAfter int) JSONRun {
	var res JSONRun
	type arrival struct {
		first   int
		release chan struct{}
	}
	arrivals := make(chan arrival, 1024)
	var gate func(ctx context.Context, firstLine int)
	if controlled {
		gate = func(ctx context.Context, firstLine int) {
			a := arrival{firstLine, make(chan struct{})}
			select {
			case arrivals <- a:
			case <-ctx.Done():
				return
			}
			select {
			case <-a.release:
			case <-ctx.Done():
			}
		}
	}
	ctx, cancel := context.WithCancel(jsonCtx(gate))
	defer cancel()
	done := make(chan struct{})
	go func() {
		defer close(done)
		defer func() {
			if p := recover(); p != nil {
				res.Panic = p
			}
		}()
		impl, schema, err := json.Creator(ctx, path, map[string]string{})
		if err != nil {
			res.Err = fmt.Errorf("creator: %w", err)
			return
		}
		node, err := impl.Materialize(ctx, physical.Environment{}, schema, nil)
		if err != nil {
			res.Err = fmt.Errorf("materialize: %w", err)
			return
		}
		n := 0
		res.Err = node.Run(execution.ExecutionContext{Context: ctx},
			func(pctx execution.ProduceContext, rec execution.Record) error {
				res.Records = append(res.Records, ValsKey(rec.Values))
				n++
				if stopAfter > 0 && n >= stopAfter {
					return ErrStop
				}
				return nil
			},
			func(pctx execution.ProduceContext, msg execution.MetadataMessage) error { return nil })
	}()
	timer := time.NewTimer(StuckAfter)
	defer timer.Stop()
	if controlled {
		workers := runtime.GOMAXPROCS(0)
		held := map[int]chan struct{}{}
		delivered := 0
	loop:
		for delivered < batches {
			want := batches - delivered
			if want > workers {
				want = workers
			}
			for len(held) < want {
				select {
				case a := <-arrivals:
					held[a.first] = a.release
				case <-done:
					break loop
				case <-timer.C:
					res.Stuck = fmt.Sprintf("waiting for %d held batches, have %d, delivered %d of %d", want, len(held), delivered, batches)
					return res
				}
			}
			firsts := make([]int, 0, len(held))
			for f := range held {
				firsts = append(firsts, f)
			}
			sort.Ints(firsts)
			k := len(res.Options)
			c := 0
			if k < len(choices) {
				c = choices[k]
			}
			if c >= len(firsts) {
				panic(fmt.Sprintf("RunJSON: choice %d out of range at decision %d (%d options): replay diverged", c, k, len(firsts)))
			}
			res.Options = append(res.Options, len(firsts))
			res.Chosen = append(res.Chosen, firsts[c])
			close(held[firsts[c]])
			delete(held, firsts[c])
			delivered++
		}
	}
	select {
	case <-done:
	case <-timer.C:
		res.Stuck = "Run did not return after the last batch was released"
	}
	return res
}
