package stream

import (
	"context"
	"fmt"
	"time"

	"github.com/cube2222/octosql/execution"
	"github.com/cube2222/octosql/execution/nodes"
)

// StuckAfter: a controlled execution that has not returned after this long is reported as stuck.
var StuckAfter = 120 * time.Second

// JoinResult is what one controlled execution of a two-input node produced.
type JoinResult struct {
	Log   []Out
	Err   error
	Panic interface{}
	Stuck bool
	// StepAt[i] = len(Log) right after step i of the schedule was *taken* by the
	// join loop (outputs of step i appear after StepAt[i]).
	Taken []int
}

// RunJoin runs build(left,right) under the schedule (sequence of sides, one
// entry per event of each script including the final EOS of each side).
// Exactly one message is released at a time; the next one is only released
// after the H1 hook reported that the join loop has taken the previous one,
// so at every select exactly one channel is ready and the order in which the
// join sees its inputs is the schedule.
func RunJoin(build func(l, r execution.Node) execution.Node, left, right []Ev, schedule []int, stopAt int) JoinResult {
	permit := [2]chan struct{}{make(chan struct{}), make(chan struct{})}
	scripts := [2][]Ev{left, right}
	srcs := [2]*Src{}
	for side := 0; side < 2; side++ {
		side := side
		srcs[side] = &Src{Events: scripts[side], Gate: func(i int, e Ev) { <-permit[side] }}
	}
	taken := make(chan struct{}, 4)
	sink := &Sink{StopAt: stopAt}
	var res JoinResult
	hook := func(side int, closed, metadata bool) {
		res.Taken = append(res.Taken, len(sink.Log))
		taken <- struct{}{}
	}
	ctx := execution.ExecutionContext{Context: context.WithValue(context.Background(), nodes.VerifJoinHookKey{}, hook)}
	done := make(chan struct{})
	go func() {
		defer close(done)
		defer func() {
			if r := recover(); r != nil {
				res.Panic = r
			}
		}()
		node := build(srcs[0], srcs[1])
		res.Err = node.Run(ctx, sink.Produce, sink.Meta)
	}()
	finished := false
	released := [2]int{}
	timer := time.NewTimer(StuckAfter)
	defer timer.Stop()
	for _, side := range schedule {
		if finished {
			break
		}
		// a script with an explicit Fail/EOS event ends early; skip permits beyond it
		select {
		case permit[side] <- struct{}{}:
			released[side]++
		case <-done:
			finished = true
			continue
		case <-timer.C:
			res.Stuck = true
			return res
		}
		select {
		case <-taken:
		case <-done:
			finished = true
		case <-timer.C:
			res.Stuck = true
			return res
		}
	}
	if !finished {
		select {
		case <-done:
		case <-timer.C:
			res.Stuck = true
			return res
		}
	}
	// let source goroutines that are still blocked on a gate go away
	for side := 0; side < 2; side++ {
		if released[side] >= len(scripts[side])+1 {
			continue
		}
		go func(side int) {
			for {
				select {
				case permit[side] <- struct{}{}:
				case <-time.After(2 * time.Second):
					return
				}
			}
		}(side)
	}
	res.Log = sink.Log
	return res
}

// Schedules enumerates all interleavings of m left steps and n right steps.
func Schedules(m, n int, f func(s []int) bool) {
	s := make([]int, 0, m+n)
	var rec func(a, b int) bool
	rec = func(a, b int) bool {
		if a == m && b == n {
			return f(s)
		}
		if a < m {
			s = append(s, 0)
			if !rec(a+1, b) {
				return false
			}
			s = s[:len(s)-1]
		}
		if b < n {
			s = append(s, 1)
			if !rec(a, b+1) {
				return false
			}
			s = s[:len(s)-1]
		}
		return true
	}
	rec(0, 0)
}

func SchedStr(s []int) string {
	b := make([]byte, len(s))
	for i, x := range s {
		b[i] = "LR"[x]
	}
	return string(b)
}

func ParseSched(s string) []int {
	out := make([]int, len(s))
	for i := range s {
		if s[i] == 'R' {
			out[i] = 1
		}
	}
	return out
}

var _ = fmt.Sprint
