package stream

import "os"

// The joins allocate two 10 000-slot channels (≈2.4 MB) per run. With a tiny
// live heap the Go scavenger keeps returning that memory to the OS and every
// run page-faults it back in (very expensive inside this VM). A pointer-free
// ballast raises the heap goal so freed spans are retained and reused.
var ballast []byte

func init() {
	if os.Getenv("VERIF_NO_BALLAST") == "" {
		ballast = make([]byte, 96<<20)
	}
}
