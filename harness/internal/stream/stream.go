// Package stream: scripted sources, recording sinks, signed-multiset
// consolidation and the join controller used by the stream-level explorers.
package stream

import (
	"context"
	"fmt"
	"sort"
	"strings"
	"time"

	"github.com/cube2222/octosql/execution"
	"github.com/cube2222/octosql/octosql"
)

type Kind int

const (
	Rec Kind = iota
	WM
	EOS
	Fail // source returns an error here
)

// Ev is one event of a scripted stream.
type Ev struct {
	Kind    Kind
	Vals    []octosql.Value
	Retract bool
	T       time.Time // event time (Rec) or watermark (WM)
}

func T(n int) time.Time {
	if n == 0 {
		return time.Time{}
	}
	return time.Unix(int64(n), 0).UTC()
}

func R(t int, vals ...octosql.Value) Ev { return Ev{Kind: Rec, Vals: vals, T: T(t)} }
func Rt(t int, vals ...octosql.Value) Ev {
	return Ev{Kind: Rec, Vals: vals, T: T(t), Retract: true}
}
func W(t int) Ev { return Ev{Kind: WM, T: T(t)} }

func tstr(t time.Time) string {
	if t.IsZero() {
		return "0"
	}
	if t.Equal(execution.WatermarkMaxValue) {
		return "max"
	}
	if t.Nanosecond() == 0 {
		return fmt.Sprint(t.Unix())
	}
	return fmt.Sprint(t.UnixNano()) + "ns"
}

func (e Ev) String() string {
	switch e.Kind {
	case WM:
		return "wm" + tstr(e.T)
	case EOS:
		return "eos"
	case Fail:
		return "fail"
	}
	s := "+"
	if e.Retract {
		s = "-"
	}
	return s + ValsKey(e.Vals) + "@" + tstr(e.T)
}

func Strs(evs []Ev) []string {
	out := make([]string, len(evs))
	for i := range evs {
		out[i] = evs[i].String()
	}
	return out
}

// ValKey is a canonical, injective rendering of a value (by representation).
func ValKey(v octosql.Value) string {
	switch v.TypeID {
	case octosql.TypeIDNull:
		return "N"
	case octosql.TypeIDInt:
		return fmt.Sprintf("%d", v.Int)
	case octosql.TypeIDFloat:
		return fmt.Sprintf("f%v", v.Float)
	case octosql.TypeIDBoolean:
		if v.Boolean {
			return "T"
		}
		return "F"
	case octosql.TypeIDString:
		return fmt.Sprintf("%q", v.Str)
	case octosql.TypeIDTime:
		return "t" + tstr(v.Time)
	case octosql.TypeIDDuration:
		return "d" + v.Duration.String()
	case octosql.TypeIDList:
		return "[" + ValsKey(v.List) + "]"
	case octosql.TypeIDStruct:
		return "{" + ValsKey(v.Struct) + "}"
	case octosql.TypeIDTuple:
		return "(" + ValsKey(v.Tuple) + ")"
	}
	return fmt.Sprintf("?%d", v.TypeID)
}

func ValsKey(vs []octosql.Value) string {
	parts := make([]string, len(vs))
	for i := range vs {
		parts[i] = ValKey(vs[i])
	}
	return strings.Join(parts, ",")
}

// Src is a scripted source node.
type Src struct {
	Events []Ev
	// Gate, if set, is called before every event and before returning (EOS);
	// it blocks until the controller permits the step.
	Gate func(i int, e Ev)
}

var ErrInjected = fmt.Errorf("injected source failure")

func (s *Src) Run(ctx execution.ExecutionContext, produce execution.ProduceFn, metaSend execution.MetaSendFn) error {
	pctx := execution.ProduceFromExecutionContext(ctx)
	for i, e := range s.Events {
		if s.Gate != nil {
			s.Gate(i, e)
		}
		switch e.Kind {
		case Rec:
			vals := make([]octosql.Value, len(e.Vals))
			copy(vals, e.Vals)
			if err := produce(pctx, execution.NewRecord(vals, e.Retract, e.T)); err != nil {
				return err
			}
		case WM:
			if err := metaSend(pctx, execution.MetadataMessage{Type: execution.MetadataMessageTypeWatermark, Watermark: e.T}); err != nil {
				return err
			}
		case Fail:
			return ErrInjected
		case EOS:
			return nil
		}
	}
	if s.Gate != nil {
		s.Gate(len(s.Events), Ev{Kind: EOS})
	}
	return nil
}

// Out is one logged output event.
type Out struct {
	WM      bool
	Vals    []octosql.Value
	Retract bool
	T       time.Time
	// InputsSeen is the number of input events delivered when this was emitted
	// (set by single-input drivers).
	InputsSeen int
}

func (o Out) String() string {
	if o.WM {
		return "wm" + tstr(o.T)
	}
	s := "+"
	if o.Retract {
		s = "-"
	}
	return s + ValsKey(o.Vals) + "@" + tstr(o.T)
}

type Sink struct {
	Log     []Out
	StopAt  int // if >0, produce returns an error after this many records
	Counter *int
}

var ErrStop = fmt.Errorf("consumer stopped")

func (s *Sink) Produce(ctx execution.ProduceContext, rec execution.Record) error {
	vals := make([]octosql.Value, len(rec.Values))
	copy(vals, rec.Values)
	seen := 0
	if s.Counter != nil {
		seen = *s.Counter
	}
	s.Log = append(s.Log, Out{Vals: vals, Retract: rec.Retraction, T: rec.EventTime, InputsSeen: seen})
	if s.StopAt > 0 {
		n := 0
		for _, o := range s.Log {
			if !o.WM {
				n++
			}
		}
		if n >= s.StopAt {
			return ErrStop
		}
	}
	return nil
}

func (s *Sink) Meta(ctx execution.ProduceContext, msg execution.MetadataMessage) error {
	seen := 0
	if s.Counter != nil {
		seen = *s.Counter
	}
	s.Log = append(s.Log, Out{WM: true, T: msg.Watermark, InputsSeen: seen})
	return nil
}

func LogStrs(log []Out) []string {
	out := make([]string, len(log))
	for i := range log {
		out[i] = log[i].String()
	}
	return out
}

// Bag is a signed multiset of rows keyed by canonical rendering.
type Bag map[string]int

func (b Bag) Add(key string, n int) {
	b[key] += n
	if b[key] == 0 {
		delete(b, key)
	}
}

func (b Bag) Equal(o Bag) bool {
	if len(b) != len(o) {
		return false
	}
	for k, v := range b {
		if o[k] != v {
			return false
		}
	}
	return true
}

func (b Bag) HasNegative() (string, bool) {
	for k, v := range b {
		if v < 0 {
			return k, true
		}
	}
	return "", false
}

func (b Bag) String() string {
	keys := make([]string, 0, len(b))
	for k := range b {
		keys = append(keys, k)
	}
	sort.Strings(keys)
	var sb strings.Builder
	sb.WriteString("{")
	for i, k := range keys {
		if i > 0 {
			sb.WriteString("; ")
		}
		fmt.Fprintf(&sb, "%s×%d", k, b[k])
	}
	sb.WriteString("}")
	return sb.String()
}

func (b Bag) Clone() Bag {
	c := Bag{}
	for k, v := range b {
		c[k] = v
	}
	return c
}

func Ctx() execution.ExecutionContext {
	return execution.ExecutionContext{Context: context.Background(), VariableContext: nil}
}

// RunSingle runs a single-input node over a scripted source; counter tracks
// how many input events were delivered when each output was logged.
func RunSingle(build func(src execution.Node) execution.Node, events []Ev) (log []Out, err error, panicked interface{}) {
	counter := 0
	src := &Src{Events: events, Gate: func(i int, e Ev) { counter = i + 1 }}
	sink := &Sink{Counter: &counter}
	func() {
		defer func() {
			if r := recover(); r != nil {
				panicked = r
			}
		}()
		node := build(src)
		err = node.Run(Ctx(), sink.Produce, sink.Meta)
	}()
	return sink.Log, err, panicked
}

// RerunDiff builds the node once and runs the SAME instance twice over the same input (LOOKUP JOIN and subquery
// expressions run one node instance once per outer record). Returns "" when both runs log the same output,
// otherwise a description of the first difference.
func RerunDiff(build func(src execution.Node) execution.Node, events []Ev) (diff string) {
	defer func() {
		if r := recover(); r != nil {
			diff = fmt.Sprintf("panic while re-running: %v", r)
		}
	}()
	counter := 0
	src := &Src{Events: events, Gate: func(i int, e Ev) { counter = i + 1 }}
	node := build(src)
	var logs [2][]string
	for run := 0; run < 2; run++ {
		counter = 0
		sink := &Sink{Counter: &counter}
		if err := node.Run(Ctx(), sink.Produce, sink.Meta); err != nil {
			return fmt.Sprintf("run %d fails: %v", run+1, err)
		}
		logs[run] = LogStrs(sink.Log)
	}
	a, b := strings.Join(logs[0], " "), strings.Join(logs[1], " ")
	if a != b {
		return fmt.Sprintf("first run emits [%s], second run of the same node emits [%s]", a, b)
	}
	return ""
}
