package stream

import (
	"strings"

	"github.com/cube2222/octosql/octosql"
)

// ScriptOpts bounds the enumeration of valid per-input scripts.
type ScriptOpts struct {
	Keys        []int // key values; a negative key stands for NULL
	Times       []int // event times / watermark values (seconds); 0 = zero time
	MaxLen      int
	Retractions bool  // allow retraction of a still-present earlier row (event time >= the row's)
	UniqueID    bool  // second column is a per-position id (rows never repeat); else rows are [key] only... see Width
	Payloads    []int // if non-empty (and !UniqueID): second column values
	Watermarks  bool
	RecTimes    []int             // if set, event times used for records (default Times)
	AllowLate   bool              // records at or below the last watermark allowed
	EqualWM     bool              // repeated equal watermark allowed
	Rows        [][]octosql.Value // if set: the record rows (Keys/Payloads ignored)
	ZeroAfterWM bool              // allow a zero-event-time record after a watermark on the same input (default: treated as late)
}

func keyVal(k int) octosql.Value {
	if k < 0 {
		return octosql.NewNull()
	}
	return octosql.NewInt(int64(k))
}

// GenScripts enumerates all valid scripts up to MaxLen events (without EOS),
// in shortlex order, deduplicated by rendering.
func GenScripts(o ScriptOpts) [][]Ev {
	var out [][]Ev
	seen := map[string]bool{}
	type st struct {
		evs     []Ev
		wm      int
		present []int
	}
	recTimes := o.RecTimes
	if recTimes == nil {
		recTimes = o.Times
	}
	var rec func(s st)
	rec = func(s st) {
		key := strings.Join(Strs(s.evs), " ")
		if seen[key] {
			return
		}
		seen[key] = true
		cp := make([]Ev, len(s.evs))
		copy(cp, s.evs)
		out = append(out, cp)
		if len(s.evs) == o.MaxLen {
			return
		}
		if o.Watermarks {
			for _, t := range o.Times {
				if t > s.wm || (o.EqualWM && t == s.wm && t != 0) {
					n := s
					n.evs = append(append([]Ev{}, s.evs...), W(t))
					n.wm = t
					rec(n)
				}
			}
		}
		keys := o.Keys
		if len(o.Rows) > 0 {
			keys = []int{0}
		}
		for _, k := range keys {
			for _, t := range recTimes {
				if t != 0 && t <= s.wm && !o.AllowLate {
					continue
				}
				if t == 0 && s.wm > 0 && !o.ZeroAfterWM && !o.AllowLate {
					continue
				}
				var rows [][]octosql.Value
				if len(o.Rows) > 0 {
					rows = o.Rows
				} else if o.UniqueID {
					rows = [][]octosql.Value{{keyVal(k), octosql.NewInt(int64(10*len(s.evs) + t))}}
				} else if len(o.Payloads) > 0 {
					for _, p := range o.Payloads {
						rows = append(rows, []octosql.Value{keyVal(k), octosql.NewInt(int64(p))})
					}
				} else {
					rows = [][]octosql.Value{{keyVal(k)}}
				}
				for _, row := range rows {
					n := s
					n.evs = append(append([]Ev{}, s.evs...), R(t, row...))
					n.present = append(append([]int{}, s.present...), len(s.evs))
					rec(n)
				}
			}
		}
		if o.Retractions {
			for pi, idx := range s.present {
				ins := s.evs[idx]
				for _, t := range recTimes {
					if t != 0 && ((t <= s.wm && !o.AllowLate) || T(t).Before(ins.T)) {
						continue
					}
					if t == 0 && !ins.T.IsZero() {
						continue
					}
					if t == 0 && s.wm > 0 && !o.ZeroAfterWM && !o.AllowLate {
						continue
					}
					n := s
					n.evs = append(append([]Ev{}, s.evs...), Ev{Kind: Rec, Vals: ins.Vals, Retract: true, T: T(t)})
					n.present = append(append([]int{}, s.present[:pi]...), s.present[pi+1:]...)
					rec(n)
				}
			}
		}
	}
	rec(st{})
	return out
}

// ConsolidateEvs: signed multiset (by values) of the records of evs[:upto]
// that satisfy keep (nil = all).
func ConsolidateEvs(evs []Ev, keep func(e Ev) bool) Bag {
	b := Bag{}
	for _, e := range evs {
		if e.Kind != Rec || (keep != nil && !keep(e)) {
			continue
		}
		if e.Retract {
			b.Add(ValsKey(e.Vals), -1)
		} else {
			b.Add(ValsKey(e.Vals), 1)
		}
	}
	return b
}

func ConsolidateOut(log []Out, upto int) Bag {
	b := Bag{}
	for i := 0; i < upto; i++ {
		if log[i].WM {
			continue
		}
		if log[i].Retract {
			b.Add(ValsKey(log[i].Vals), -1)
		} else {
			b.Add(ValsKey(log[i].Vals), 1)
		}
	}
	return b
}
