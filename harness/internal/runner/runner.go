// Package runner runs octosql queries: in-process workers (vrun) for speed and
// the real binary for confirmation and for everything involving stdin/exit codes.
package runner

import (
	"bufio"
	"bytes"
	"encoding/json"
	"fmt"
	"os"
	"os/exec"
	"path/filepath"
	"runtime"
	"strconv"
	"strings"
	"sync"
	"time"
)

type Result struct {
	Out    string `json:"out"`
	Err    string `json:"err,omitempty"`   // reported error (non-zero exit)
	Panic  string `json:"panic,omitempty"` // recovered panic message (main goroutine)
	Frame  string `json:"frame,omitempty"` // top octosql frame of the panic
	Crash  string `json:"crash,omitempty"` // worker died: stderr tail (panic on another goroutine, fatal error)
	Hang   bool   `json:"hang,omitempty"`
	Exit   int    `json:"exit,omitempty"` // real binary only
	Stderr string `json:"stderr,omitempty"`
}

// Class: coarse outcome class.
func (r Result) Class() string {
	switch {
	case r.Hang:
		return "HANG"
	case r.Crash != "":
		return "CRASH"
	case r.Panic != "":
		return "PANIC"
	case r.Err != "" || r.Exit != 0:
		return "error"
	}
	return "ok"
}

func binDir() string {
	d := os.Getenv("VERIF_DIR")
	if d == "" {
		d = "/verif"
	}
	return filepath.Join(d, ".cache", "bin")
}

var homeOnce sync.Once
var scratchHome string

// ScratchHome: an empty HOME for octosql runs (no user config, no plugins).
func ScratchHome() string {
	homeOnce.Do(func() {
		d, err := os.MkdirTemp("", "vhome")
		if err != nil {
			panic(err)
		}
		scratchHome = d
	})
	return scratchHome
}

func childEnv(extra ...string) []string {
	env := []string{}
	for _, e := range os.Environ() {
		if strings.HasPrefix(e, "HOME=") || strings.HasPrefix(e, "VERIF_SHARD") || strings.HasPrefix(e, "GOMAXPROCS=") || strings.HasPrefix(e, "OCTOSQL_") {
			continue
		}
		env = append(env, e)
	}
	env = append(env, "HOME="+ScratchHome(), "OCTOSQL_NO_TELEMETRY=1")
	return append(env, extra...)
}

type worker struct {
	cmd    *exec.Cmd
	in     *bufio.Writer
	inPipe interface{ Close() error }
	resp   *bufio.Reader
	respF  *os.File
	stderr *bytes.Buffer
	n      int
}

// Pool of in-process workers.
type Pool struct {
	mu      sync.Mutex
	idle    []*worker
	sem     chan struct{}
	Env     []string
	Recycle int
	Horizon time.Duration
}

func NewPool(size int, extraEnv ...string) *Pool {
	if size <= 0 {
		// measured in this VM: throughput peaks around 10 single-threaded workers (each query allocates
		// ~12 MB of I/O buffers; more workers only contend on page faults and memory bandwidth)
		size = runtime.NumCPU()
		if size > 10 {
			size = 10
		}
		if v, err := strconv.Atoi(os.Getenv("VERIF_POOL")); err == nil && v > 0 {
			size = v
		}
	}
	return &Pool{sem: make(chan struct{}, size), Env: extraEnv, Recycle: 1500, Horizon: 90 * time.Second}
}

func (p *Pool) start() (*worker, error) {
	c := exec.Command(filepath.Join(binDir(), "vrun"))
	c.Env = childEnv(append([]string{"GOMAXPROCS=1"}, p.Env...)...)
	stdin, err := c.StdinPipe()
	if err != nil {
		return nil, err
	}
	pr, pw, err := os.Pipe()
	if err != nil {
		return nil, err
	}
	c.ExtraFiles = []*os.File{pw}
	var stderr bytes.Buffer
	c.Stderr = &stderr
	c.Stdout = nil
	if err := c.Start(); err != nil {
		return nil, err
	}
	pw.Close()
	r := bufio.NewReaderSize(pr, 1<<20)
	return &worker{cmd: c, in: bufio.NewWriter(stdin), inPipe: stdin, resp: r, respF: pr, stderr: &stderr}, nil
}

func (w *worker) kill() {
	w.inPipe.Close()
	w.cmd.Process.Kill()
	w.cmd.Wait()
	w.respF.Close()
}

// Run executes one octosql invocation (args as on the command line).
func (p *Pool) Run(args []string, stdinFile string) Result {
	p.sem <- struct{}{}
	defer func() { <-p.sem }()
	p.mu.Lock()
	var w *worker
	if n := len(p.idle); n > 0 {
		w = p.idle[n-1]
		p.idle = p.idle[:n-1]
	}
	p.mu.Unlock()
	if w == nil {
		var err error
		w, err = p.start()
		if err != nil {
			panic(fmt.Sprintf("runner: cannot start worker: %v", err))
		}
	}
	req, _ := json.Marshal(map[string]interface{}{"args": args, "stdin": stdinFile})
	w.in.Write(req)
	w.in.WriteByte('\n')
	w.in.Flush()
	type rd struct {
		line []byte
		err  error
	}
	ch := make(chan rd, 1)
	go func() {
		line, err := w.resp.ReadBytes('\n')
		ch <- rd{line, err}
	}()
	var res Result
	select {
	case x := <-ch:
		if x.err != nil {
			// worker died
			w.cmd.Wait()
			tail := w.stderr.String()
			if len(tail) > 3000 {
				tail = tail[:3000]
			}
			res.Crash = tail
			if res.Crash == "" {
				res.Crash = "worker exited: " + x.err.Error()
			}
			w.respF.Close()
			return res
		}
		if err := json.Unmarshal(x.line, &res); err != nil {
			panic("runner: bad response: " + err.Error())
		}
	case <-time.After(p.Horizon):
		res.Hang = true
		w.kill()
		return res
	}
	w.n++
	if w.n >= p.Recycle {
		w.kill()
		return res
	}
	p.mu.Lock()
	p.idle = append(p.idle, w)
	p.mu.Unlock()
	return res
}

func (p *Pool) Close() {
	p.mu.Lock()
	defer p.mu.Unlock()
	for _, w := range p.idle {
		w.kill()
	}
	p.idle = nil
}

// RunBinary runs the real octosql binary (one process per call).
func RunBinary(args []string, stdin []byte, extraEnv ...string) Result {
	c := exec.Command(filepath.Join(binDir(), "octosql"), args...)
	c.Env = childEnv(extraEnv...)
	var out, errb bytes.Buffer
	c.Stdout = &out
	c.Stderr = &errb
	if stdin != nil {
		c.Stdin = bytes.NewReader(stdin)
	}
	done := make(chan error, 1)
	if err := c.Start(); err != nil {
		return Result{Crash: "cannot start: " + err.Error()}
	}
	go func() { done <- c.Wait() }()
	var res Result
	select {
	case err := <-done:
		res.Out = out.String()
		res.Stderr = errb.String()
		if err != nil {
			if ee, ok := err.(*exec.ExitError); ok {
				res.Exit = ee.ExitCode()
			} else {
				res.Exit = -1
			}
			res.Err = strings.TrimSpace(res.Stderr)
			if res.Err == "" {
				res.Err = err.Error()
			}
		}
		if strings.Contains(res.Stderr, "panic:") || strings.Contains(res.Stderr, "fatal error:") || strings.Contains(res.Stderr, "goroutine ") {
			res.Crash = res.Stderr
			if len(res.Crash) > 3000 {
				res.Crash = res.Crash[:3000]
			}
		}
	case <-time.After(90 * time.Second):
		c.Process.Kill()
		<-done
		res.Hang = true
	}
	return res
}

// BinaryPath: path of the real octosql binary built by build_octosql.sh.
func BinaryPath() string { return filepath.Join(binDir(), "octosql") }

// RunCommand runs an arbitrary program (e.g. strace wrapping the real binary) with the same child
// environment as RunBinary. Exit is -1 when the program was terminated by a signal.
func RunCommand(path string, args []string, stdin []byte, extraEnv ...string) Result {
	c := exec.Command(path, args...)
	c.Env = childEnv(extraEnv...)
	var out, errb bytes.Buffer
	c.Stdout = &out
	c.Stderr = &errb
	if stdin != nil {
		c.Stdin = bytes.NewReader(stdin)
	}
	if err := c.Start(); err != nil {
		return Result{Crash: "cannot start: " + err.Error()}
	}
	done := make(chan error, 1)
	go func() { done <- c.Wait() }()
	var res Result
	select {
	case err := <-done:
		res.Out = out.String()
		res.Stderr = errb.String()
		if err != nil {
			if ee, ok := err.(*exec.ExitError); ok {
				res.Exit = ee.ExitCode()
			} else {
				res.Exit = -1
			}
			res.Err = strings.TrimSpace(res.Stderr)
			if res.Err == "" {
				res.Err = err.Error()
			}
		}
	case <-time.After(90 * time.Second):
		c.Process.Kill()
		<-done
		res.Hang = true
	}
	return res
}

// BatchReq is one request for RunBatch.
type BatchReq struct {
	Args  []string `json:"args"`
	Stdin string   `json:"stdin,omitempty"`
}

// RunBatch starts one fresh worker binary (e.g. the -race build of vrun), feeds it the requests one
// after the other, closes it and returns the per-request results plus everything the process wrote
// to stderr (race reports). Exit is the worker's exit code.
func RunBatch(bin string, reqs []BatchReq, horizon time.Duration, extraEnv ...string) (results []Result, stderr string, exit int, hang bool) {
	c := exec.Command(filepath.Join(binDir(), bin))
	c.Env = childEnv(extraEnv...)
	stdin, err := c.StdinPipe()
	if err != nil {
		panic(err)
	}
	pr, pw, err := os.Pipe()
	if err != nil {
		panic(err)
	}
	c.ExtraFiles = []*os.File{pw}
	var errb bytes.Buffer
	c.Stderr = &errb
	if err := c.Start(); err != nil {
		panic("runner: cannot start " + bin + ": " + err.Error())
	}
	pw.Close()
	rd := bufio.NewReaderSize(pr, 1<<20)
	deadline := time.After(horizon)
	type rl struct {
		line []byte
		err  error
	}
	for _, rq := range reqs {
		b, _ := json.Marshal(rq)
		stdin.Write(append(b, '\n'))
		ch := make(chan rl, 1)
		go func() {
			line, err := rd.ReadBytes('\n')
			ch <- rl{line, err}
		}()
		select {
		case x := <-ch:
			if x.err != nil {
				stdin.Close()
				werr := c.Wait()
				exit = -1
				if ee, ok := werr.(*exec.ExitError); ok {
					exit = ee.ExitCode()
				}
				results = append(results, Result{Crash: "worker died"})
				pr.Close()
				return results, errb.String(), exit, false
			}
			var res Result
			json.Unmarshal(x.line, &res)
			results = append(results, res)
		case <-deadline:
			c.Process.Kill()
			c.Wait()
			pr.Close()
			return results, errb.String(), -1, true
		}
	}
	stdin.Close()
	done := make(chan error, 1)
	go func() { done <- c.Wait() }()
	select {
	case werr := <-done:
		if ee, ok := werr.(*exec.ExitError); ok {
			exit = ee.ExitCode()
		}
	case <-time.After(60 * time.Second):
		c.Process.Kill()
		<-done
		hang = true
	}
	pr.Close()
	return results, errb.String(), exit, hang
}
