// Package refsql: a deliberately boring reference evaluator for the SQL subset
// the checks generate, plus the query AST and its SQL rendering.
// Conventions (OctoSQL's documented ones): three-valued logic, NULL sorts
// first, cross-type order by type id, strings compare bytewise, ints wrap.
package refsql

import (
	"fmt"
	"math"
	"sort"
	"strings"
)

// ---------- values ----------

type Kind int

const (
	KNull Kind = iota
	KInt
	KFloat
	KBool
	KStr
)

type V struct {
	K Kind
	I int64
	F float64
	B bool
	S string
}

var Null = V{}

func Int(i int64) V     { return V{K: KInt, I: i} }
func Float(f float64) V { return V{K: KFloat, F: f} }
func Bool(b bool) V     { return V{K: KBool, B: b} }
func Str(s string) V    { return V{K: KStr, S: s} }

func (v V) IsNull() bool { return v.K == KNull }

func (v V) String() string {
	switch v.K {
	case KNull:
		return "NULL"
	case KInt:
		return fmt.Sprint(v.I)
	case KFloat:
		return "f" + fmt.Sprint(v.F)
	case KBool:
		if v.B {
			return "TRUE"
		}
		return "FALSE"
	}
	return fmt.Sprintf("%q", v.S)
}

// Key: canonical text where Int 2 and Float 2 coincide (outputs print both as 2).
func (v V) Key() string {
	switch v.K {
	case KInt:
		return fmt.Sprint(float64(v.I))
	case KFloat:
		return fmt.Sprint(v.F)
	}
	return v.String()
}

func RowKey(r []V) string {
	p := make([]string, len(r))
	for i := range r {
		p[i] = r[i].Key()
	}
	return strings.Join(p, "|")
}

// Cmp: total order: NULL < Int < Float < Bool < Str; within a kind natural order (bytewise strings, false<true).
func Cmp(a, b V) int {
	if a.K != b.K {
		if a.K < b.K {
			return -1
		}
		return 1
	}
	switch a.K {
	case KInt:
		if a.I < b.I {
			return -1
		} else if a.I > b.I {
			return 1
		}
	case KFloat:
		if a.F < b.F {
			return -1
		} else if a.F > b.F {
			return 1
		}
	case KBool:
		if a.B != b.B {
			if !a.B {
				return -1
			}
			return 1
		}
	case KStr:
		return strings.Compare(a.S, b.S)
	}
	return 0
}

// ---------- expressions ----------

type Expr struct {
	Op   string // col lit + - * neg = != < <= > >= and or not isnull isnotnull like in
	Args []*Expr
	Col  string // qualified or bare column reference as written in SQL
	Lit  V
}

func Col(name string) *Expr          { return &Expr{Op: "col", Col: name} }
func Lit(v V) *Expr                  { return &Expr{Op: "lit", Lit: v} }
func Op(op string, a ...*Expr) *Expr { return &Expr{Op: op, Args: a} }

func litSQL(v V) string {
	switch v.K {
	case KNull:
		return "NULL"
	case KInt:
		return fmt.Sprint(v.I)
	case KFloat:
		s := fmt.Sprintf("%g", v.F)
		if !strings.ContainsAny(s, ".e") {
			s += ".0"
		}
		return s
	case KBool:
		if v.B {
			return "TRUE"
		}
		return "FALSE"
	}
	return "'" + strings.ReplaceAll(v.S, "'", "''") + "'"
}

func (e *Expr) SQL() string {
	switch e.Op {
	case "col":
		return e.Col
	case "lit":
		return litSQL(e.Lit)
	case "neg":
		return "(-" + e.Args[0].SQL() + ")"
	case "not":
		return "(NOT " + e.Args[0].SQL() + ")"
	case "isnull":
		return "(" + e.Args[0].SQL() + " IS NULL)"
	case "isnotnull":
		return "(" + e.Args[0].SQL() + " IS NOT NULL)"
	case "and", "or", "like":
		return "(" + e.Args[0].SQL() + " " + strings.ToUpper(e.Op) + " " + e.Args[1].SQL() + ")"
	case "in":
		p := make([]string, len(e.Args)-1)
		for i, a := range e.Args[1:] {
			p[i] = a.SQL()
		}
		return "(" + e.Args[0].SQL() + " IN (" + strings.Join(p, ", ") + "))"
	case "coalesce":
		p := make([]string, len(e.Args))
		for i, a := range e.Args {
			p[i] = a.SQL()
		}
		return "COALESCE(" + strings.Join(p, ", ") + ")"
	}
	return "(" + e.Args[0].SQL() + " " + e.Op + " " + e.Args[1].SQL() + ")"
}

// Env resolves column references for one row.
type Env struct {
	Names []string // qualified names "t.a"
	Row   []V
}

func (env Env) lookup(name string) (V, bool) {
	idx := -1
	for i, n := range env.Names {
		if n == name || (!strings.Contains(name, ".") && strings.HasSuffix(n, "."+name)) || (!strings.Contains(n, ".") && strings.HasSuffix(name, "."+n)) {
			if idx != -1 {
				return Null, false // ambiguous
			}
			idx = i
		}
	}
	if idx == -1 {
		return Null, false
	}
	return env.Row[idx], true
}

type EvalError struct{ Msg string }

func (e EvalError) Error() string { return e.Msg }

func like(s, p []rune) bool {
	if len(p) == 0 {
		return len(s) == 0
	}
	switch p[0] {
	case '%':
		for i := 0; i <= len(s); i++ {
			if like(s[i:], p[1:]) {
				return true
			}
		}
		return false
	case '_':
		return len(s) > 0 && like(s[1:], p[1:])
	}
	return len(s) > 0 && s[0] == p[0] && like(s[1:], p[1:])
}

func (e *Expr) Eval(env Env) V {
	switch e.Op {
	case "col":
		v, ok := env.lookup(e.Col)
		if !ok {
			panic(EvalError{"unresolved column " + e.Col})
		}
		return v
	case "lit":
		return e.Lit
	case "and":
		a, b := e.Args[0].Eval(env), e.Args[1].Eval(env)
		if (a.K == KBool && !a.B) || (b.K == KBool && !b.B) {
			return Bool(false)
		}
		if a.IsNull() || b.IsNull() {
			return Null
		}
		return Bool(true)
	case "or":
		a, b := e.Args[0].Eval(env), e.Args[1].Eval(env)
		if (a.K == KBool && a.B) || (b.K == KBool && b.B) {
			return Bool(true)
		}
		if a.IsNull() || b.IsNull() {
			return Null
		}
		return Bool(false)
	case "not":
		a := e.Args[0].Eval(env)
		if a.IsNull() {
			return Null
		}
		return Bool(!a.B)
	case "isnull":
		return Bool(e.Args[0].Eval(env).IsNull())
	case "isnotnull":
		return Bool(!e.Args[0].Eval(env).IsNull())
	case "neg":
		a := e.Args[0].Eval(env)
		switch a.K {
		case KInt:
			return Int(-a.I)
		case KFloat:
			return Float(-a.F)
		}
		return Null
	case "coalesce":
		for _, x := range e.Args {
			if v := x.Eval(env); !v.IsNull() {
				return v
			}
		}
		return Null
	case "in":
		a := e.Args[0].Eval(env)
		if a.IsNull() {
			return Null
		}
		for _, x := range e.Args[1:] {
			b := x.Eval(env)
			if !b.IsNull() && Cmp(a, b) == 0 {
				return Bool(true)
			}
		}
		return Bool(false)
	}
	a, b := e.Args[0].Eval(env), e.Args[1].Eval(env)
	if a.IsNull() || b.IsNull() {
		return Null
	}
	switch e.Op {
	case "+":
		if a.K == KInt {
			return Int(a.I + b.I)
		}
		if a.K == KStr {
			return Str(a.S + b.S)
		}
		return Float(a.F + b.F)
	case "-":
		if a.K == KInt {
			return Int(a.I - b.I)
		}
		return Float(a.F - b.F)
	case "*":
		if a.K == KInt {
			return Int(a.I * b.I)
		}
		return Float(a.F * b.F)
	case "=":
		return Bool(Cmp(a, b) == 0)
	case "!=":
		return Bool(Cmp(a, b) != 0)
	case "<":
		return Bool(Cmp(a, b) < 0)
	case "<=":
		return Bool(Cmp(a, b) <= 0)
	case ">":
		return Bool(Cmp(a, b) > 0)
	case ">=":
		return Bool(Cmp(a, b) >= 0)
	case "like":
		return Bool(like([]rune(a.S), []rune(b.S)))
	}
	panic(EvalError{"unknown op " + e.Op})
}

// ---------- relations ----------

type Rel struct {
	Names []string
	Rows  [][]V
	// Ambiguous: the rows depend on an unspecified choice made below (LIMIT that cuts through a tie group / has no ORDER BY)
	Ambiguous bool
}

func (r Rel) Clone() Rel {
	return Rel{Names: append([]string{}, r.Names...), Rows: append([][]V{}, r.Rows...)}
}

func isTrue(v V) bool { return v.K == KBool && v.B }

// ---------- query AST ----------

type Table struct {
	Path  string // as written in SQL
	Alias string
	Cols  []string
	Rows  [][]V
}

type From struct {
	Table *Table
	Sub   *Query
	Alias string // for Sub
	Join  *Join
	CTE   string // reference to a WITH name
}

type Join struct {
	Kind  string // "JOIN", "LEFT JOIN", "RIGHT JOIN", "OUTER JOIN", "LOOKUP JOIN"
	L, R  *From
	On    *Expr
	Using []string // JOIN ... USING (cols): equality of the same-named columns (columns are not merged)
}

type Proj struct {
	Star        bool
	E           *Expr
	Alias       string
	Agg         string // "", "count", "sum", ... ; E nil with Agg=="count" means count(*)
	AggDistinct bool
}

type Order struct {
	E    *Expr
	Desc bool
}

type CTE struct {
	Name string
	Q    *Query
}

type Query struct {
	With     []CTE
	Distinct bool
	Proj     []Proj
	From     *From
	Where    *Expr
	GroupBy  []*Expr
	Trigger  string // e.g. "TRIGGER COUNTING 1000"
	OrderBy  []Order
	Limit    int // -1 = none
}

func NewQuery() *Query { return &Query{Limit: -1} }

func (f *From) SQL() string {
	switch {
	case f.Table != nil:
		return f.Table.Path + " " + f.Table.Alias
	case f.CTE != "":
		if f.Alias != "" {
			return f.CTE + " " + f.Alias
		}
		return f.CTE
	case f.Sub != nil:
		return "(" + f.Sub.SQL() + ") " + f.Alias
	}
	if len(f.Join.Using) > 0 {
		return f.Join.L.SQL() + " " + f.Join.Kind + " " + f.Join.R.SQL() + " USING (" + strings.Join(f.Join.Using, ", ") + ")"
	}
	return f.Join.L.SQL() + " " + f.Join.Kind + " " + f.Join.R.SQL() + " ON " + f.Join.On.SQL()
}

func (p Proj) SQL() string {
	var s string
	switch {
	case p.Star:
		return "*"
	case p.Agg != "":
		arg := "*"
		if p.E != nil {
			arg = p.E.SQL()
		}
		d := ""
		if p.AggDistinct {
			d = "DISTINCT "
		}
		s = strings.ToUpper(p.Agg) + "(" + d + arg + ")"
	default:
		s = p.E.SQL()
	}
	if p.Alias != "" {
		s += " AS " + p.Alias
	}
	return s
}

func (q *Query) SQL() string {
	var b strings.Builder
	if len(q.With) > 0 {
		b.WriteString("WITH ")
		for i, c := range q.With {
			if i > 0 {
				b.WriteString(", ")
			}
			b.WriteString(c.Name + " AS (" + c.Q.SQL() + ")")
		}
		b.WriteString(" ")
	}
	b.WriteString("SELECT ")
	if q.Distinct {
		b.WriteString("DISTINCT ")
	}
	for i, p := range q.Proj {
		if i > 0 {
			b.WriteString(", ")
		}
		b.WriteString(p.SQL())
	}
	b.WriteString(" FROM " + q.From.SQL())
	if q.Where != nil {
		b.WriteString(" WHERE " + q.Where.SQL())
	}
	if len(q.GroupBy) > 0 {
		b.WriteString(" GROUP BY ")
		for i, g := range q.GroupBy {
			if i > 0 {
				b.WriteString(", ")
			}
			b.WriteString(g.SQL())
		}
	}
	if q.Trigger != "" {
		if len(q.GroupBy) == 0 {
			b.WriteString(" GROUP BY")
		}
		b.WriteString(" " + q.Trigger)
	}
	if len(q.OrderBy) > 0 {
		b.WriteString(" ORDER BY ")
		for i, o := range q.OrderBy {
			if i > 0 {
				b.WriteString(", ")
			}
			b.WriteString(o.E.SQL())
			if o.Desc {
				b.WriteString(" DESC")
			}
		}
	}
	if q.Limit >= 0 {
		fmt.Fprintf(&b, " LIMIT %d", q.Limit)
	}
	return b.String()
}

// ---------- evaluation ----------

type Result struct {
	Names []string
	Rows  [][]V
	// Sorted: rows are in ORDER BY order; SortKeys[i] = key of row i (for tie groups)
	Sorted   bool
	SortKeys [][]V
	Desc     []bool
	// LimitCut: LIMIT was applied on top (n); Pre = rows before the cut (sorted if Sorted)
	Limit   int
	Pre     [][]V
	PreKeys [][]V
	// Ambiguous: some nested query's LIMIT admits several answers, so this result is only one of the valid ones
	Ambiguous bool
}

// cutAmbiguous: this result's own LIMIT admits more than one answer (as a multiset of rows).
func (r Result) cutAmbiguous() bool {
	if r.Limit < 0 || len(r.Pre) <= r.Limit {
		return false
	}
	if r.Limit == 0 {
		return false
	}
	if !r.Sorted {
		// any n rows: ambiguous unless all rows are identical
		for _, row := range r.Pre[1:] {
			if RowKey(row) != RowKey(r.Pre[0]) {
				return true
			}
		}
		return false
	}
	// tie group containing the cut
	n := r.Limit
	s, e := n-1, n
	for s > 0 && keysEq(r.PreKeys[s-1], r.PreKeys[n-1]) {
		s--
	}
	for e < len(r.Pre) && keysEq(r.PreKeys[e], r.PreKeys[n-1]) {
		e++
	}
	if e == n {
		return false
	}
	for _, row := range r.Pre[s+1 : e] {
		if RowKey(row) != RowKey(r.Pre[s]) {
			return true
		}
	}
	return false
}

func evalFrom(f *From, ctes map[string]Rel) Rel {
	switch {
	case f.Table != nil:
		names := make([]string, len(f.Table.Cols))
		for i, c := range f.Table.Cols {
			names[i] = f.Table.Alias + "." + c
		}
		return Rel{Names: names, Rows: f.Table.Rows}
	case f.CTE != "":
		r := ctes[f.CTE]
		alias := f.Alias
		if alias == "" {
			alias = f.CTE
		}
		return requalify(r, alias)
	case f.Sub != nil:
		res := evalQuery(f.Sub, ctes)
		return requalify(Rel{Names: res.Names, Rows: res.Rows, Ambiguous: res.Ambiguous || res.cutAmbiguous()}, f.Alias)
	}
	l, r := evalFrom(f.Join.L, ctes), evalFrom(f.Join.R, ctes)
	names := append(append([]string{}, l.Names...), r.Names...)
	out := Rel{Names: names, Ambiguous: l.Ambiguous || r.Ambiguous}
	lm := make([]bool, len(l.Rows))
	rm := make([]bool, len(r.Rows))
	for i, lr := range l.Rows {
		for j, rr := range r.Rows {
			row := append(append([]V{}, lr...), rr...)
			match := false
			if len(f.Join.Using) > 0 {
				match = true
				for _, c := range f.Join.Using {
					lv, ok1 := Env{l.Names, lr}.lookup(c)
					rv, ok2 := Env{r.Names, rr}.lookup(c)
					if !ok1 || !ok2 {
						panic(EvalError{"USING column not found: " + c})
					}
					if lv.IsNull() || rv.IsNull() || Cmp(lv, rv) != 0 {
						match = false
					}
				}
			} else {
				match = isTrue(f.Join.On.Eval(Env{names, row}))
			}
			if match {
				out.Rows = append(out.Rows, row)
				lm[i], rm[j] = true, true
			}
		}
	}
	kind := f.Join.Kind
	if kind == "LEFT JOIN" || kind == "OUTER JOIN" {
		for i, lr := range l.Rows {
			if !lm[i] {
				out.Rows = append(out.Rows, append(append([]V{}, lr...), make([]V, len(r.Names))...))
			}
		}
	}
	if kind == "RIGHT JOIN" || kind == "OUTER JOIN" {
		for j, rr := range r.Rows {
			if !rm[j] {
				out.Rows = append(out.Rows, append(make([]V, len(l.Names)), rr...))
			}
		}
	}
	return out
}

func bare(n string) string {
	if i := strings.LastIndex(n, "."); i >= 0 {
		return n[i+1:]
	}
	return n
}

func requalify(r Rel, alias string) Rel {
	names := make([]string, len(r.Names))
	for i, n := range r.Names {
		names[i] = alias + "." + bare(n)
	}
	return Rel{Names: names, Rows: r.Rows, Ambiguous: r.Ambiguous}
}

func sortRows(rows [][]V, keys [][]V, desc []bool) ([][]V, [][]V) {
	idx := make([]int, len(rows))
	for i := range idx {
		idx[i] = i
	}
	sort.SliceStable(idx, func(a, b int) bool {
		for k := range desc {
			c := Cmp(keys[idx[a]][k], keys[idx[b]][k])
			if desc[k] {
				c = -c
			}
			if c != 0 {
				return c < 0
			}
		}
		return false
	})
	r2 := make([][]V, len(rows))
	k2 := make([][]V, len(rows))
	for i, j := range idx {
		r2[i], k2[i] = rows[j], keys[j]
	}
	return r2, k2
}

func Eval(q *Query) (res Result, err error) {
	defer func() {
		if p := recover(); p != nil {
			if ee, ok := p.(EvalError); ok {
				err = ee
				return
			}
			panic(p)
		}
	}()
	return evalQuery(q, map[string]Rel{}), nil
}

func evalQuery(q *Query, outer map[string]Rel) Result {
	ctes := map[string]Rel{}
	for k, v := range outer {
		ctes[k] = v
	}
	for _, c := range q.With {
		r := evalQuery(c.Q, ctes)
		ctes[c.Name] = Rel{Names: r.Names, Rows: r.Rows, Ambiguous: r.Ambiguous || r.cutAmbiguous()}
	}
	in := evalFrom(q.From, ctes)
	var rows [][]V
	for _, row := range in.Rows {
		if q.Where == nil || isTrue(q.Where.Eval(Env{in.Names, row})) {
			rows = append(rows, row)
		}
	}
	var outNames []string
	var out [][]V
	var srcRows [][]V // the pre-projection row for each out row (for ORDER BY on source columns)
	hasAgg := false
	for _, p := range q.Proj {
		hasAgg = hasAgg || p.Agg != ""
	}
	if hasAgg {
		outNames, out = groupBy(q, in.Names, rows)
		srcRows = nil
	} else {
		for _, p := range q.Proj {
			if p.Star {
				outNames = append(outNames, in.Names...)
			} else if p.Alias != "" {
				outNames = append(outNames, p.Alias)
			} else if p.E.Op == "col" {
				outNames = append(outNames, p.E.Col)
			} else {
				outNames = append(outNames, fmt.Sprintf("col_%d", len(outNames)))
			}
		}
		for _, row := range rows {
			var o []V
			for _, p := range q.Proj {
				if p.Star {
					o = append(o, row...)
				} else {
					o = append(o, p.E.Eval(Env{in.Names, row}))
				}
			}
			out = append(out, o)
			srcRows = append(srcRows, row)
		}
	}
	if q.Distinct {
		seen := map[string]bool{}
		var d, ds [][]V
		for i, r := range out {
			k := RowKey(r) + kindsOf(r)
			if !seen[k] {
				seen[k] = true
				d = append(d, r)
				if srcRows != nil {
					ds = append(ds, srcRows[i])
				}
			}
		}
		out = d
		if srcRows != nil {
			srcRows = ds
		}
	}
	res := Result{Names: outNames, Rows: out, Limit: -1, Ambiguous: in.Ambiguous}
	if len(q.OrderBy) > 0 {
		keys := make([][]V, len(out))
		desc := make([]bool, len(q.OrderBy))
		for i := range out {
			for k, o := range q.OrderBy {
				desc[k] = o.Desc
				keys[i] = append(keys[i], evalOrderKey(o.E, outNames, out[i], in.Names, srcRows, i))
			}
		}
		res.Rows, res.SortKeys = sortRows(out, keys, desc)
		res.Sorted = true
		res.Desc = desc
	}
	if q.Limit >= 0 {
		res.Limit = q.Limit
		res.Pre, res.PreKeys = res.Rows, res.SortKeys
		if len(res.Rows) > q.Limit {
			res.Rows = res.Rows[:q.Limit]
			if res.SortKeys != nil {
				res.SortKeys = res.SortKeys[:q.Limit]
			}
		}
	}
	return res
}

func kindsOf(r []V) string {
	b := make([]byte, len(r))
	for i := range r {
		b[i] = byte('0' + r[i].K)
	}
	return string(b)
}

// ORDER BY expressions are resolved against the output columns first, then the source columns.
func evalOrderKey(e *Expr, outNames []string, outRow []V, inNames []string, srcRows [][]V, i int) (v V) {
	defer func() {
		if p := recover(); p != nil {
			if _, ok := p.(EvalError); ok && srcRows != nil {
				v = e.Eval(Env{inNames, srcRows[i]})
				return
			}
			panic(p)
		}
	}()
	return e.Eval(Env{outNames, outRow})
}

func groupBy(q *Query, names []string, rows [][]V) ([]string, [][]V) {
	type grp struct {
		key  []V
		rows [][]V
	}
	var order []string
	groups := map[string]*grp{}
	for _, row := range rows {
		var key []V
		for _, g := range q.GroupBy {
			key = append(key, g.Eval(Env{names, row}))
		}
		k := RowKey(key) + kindsOf(key)
		gp, ok := groups[k]
		if !ok {
			gp = &grp{key: key}
			groups[k] = gp
			order = append(order, k)
		}
		gp.rows = append(gp.rows, row)
	}
	var outNames []string
	for i, p := range q.Proj {
		switch {
		case p.Alias != "":
			outNames = append(outNames, p.Alias)
		case p.Agg == "" && p.E.Op == "col":
			outNames = append(outNames, p.E.Col)
		default:
			outNames = append(outNames, fmt.Sprintf("col_%d", i))
		}
	}
	var out [][]V
	for _, k := range order {
		gp := groups[k]
		var o []V
		for _, p := range q.Proj {
			if p.Agg == "" {
				// must equal a group by expression: evaluate on the first row of the group
				o = append(o, p.E.Eval(Env{names, gp.rows[0]}))
				continue
			}
			var vals []V
			for _, row := range gp.rows {
				if p.E == nil {
					vals = append(vals, Int(1))
					continue
				}
				v := p.E.Eval(Env{names, row})
				if !v.IsNull() {
					vals = append(vals, v)
				}
			}
			o = append(o, Aggregate(p.Agg, p.AggDistinct, vals))
		}
		out = append(out, o)
	}
	return outNames, out
}

// Aggregate over the non-NULL inputs; NULL for an empty set (count included, as the statement says).
func Aggregate(name string, distinct bool, vals []V) V {
	if distinct {
		seen := map[string]bool{}
		var d []V
		for _, v := range vals {
			k := v.String()
			if !seen[k] {
				seen[k] = true
				d = append(d, v)
			}
		}
		vals = d
	}
	if len(vals) == 0 {
		return Null
	}
	switch name {
	case "count":
		return Int(int64(len(vals)))
	case "array_agg":
		// ascending order; rendered the way ParseJSONLines renders a printed list
		s := append([]V{}, vals...)
		sort.SliceStable(s, func(i, j int) bool { return Cmp(s[i], s[j]) < 0 })
		p := make([]string, len(s))
		for i, v := range s {
			switch v.K {
			case KInt:
				p[i] = fmt.Sprint(v.I)
			case KFloat:
				p[i] = fmt.Sprintf("%g", v.F)
			case KStr:
				p[i] = fmt.Sprintf("%q", v.S)
			default:
				p[i] = strings.ToLower(v.String())
			}
		}
		return Str("json:[" + strings.Join(p, ",") + "]")
	case "min", "max":
		best := vals[0]
		for _, v := range vals[1:] {
			c := Cmp(v, best)
			if (name == "min" && c < 0) || (name == "max" && c > 0) {
				best = v
			}
		}
		return best
	case "sum", "avg":
		if vals[0].K == KInt {
			var s int64
			for _, v := range vals {
				s += v.I
			}
			if name == "sum" {
				return Int(s)
			}
			return Int(s / int64(len(vals)))
		}
		var s float64
		for _, v := range vals {
			s += v.F
		}
		if name == "sum" {
			return Float(s)
		}
		return Float(s / float64(len(vals)))
	}
	panic(EvalError{"unknown aggregate " + name})
}

var _ = math.Abs
