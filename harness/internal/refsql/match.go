package refsql

import (
	"bytes"
	"encoding/json"
	"fmt"
	"strings"
)

func bagOf(rows [][]V) map[string]int {
	b := map[string]int{}
	for _, r := range rows {
		b[RowKey(r)]++
	}
	return b
}

func bagEq(a, b map[string]int) bool {
	if len(a) != len(b) {
		return false
	}
	for k, v := range a {
		if b[k] != v {
			return false
		}
	}
	return true
}

func bagSub(a, b map[string]int) bool {
	for k, v := range a {
		if b[k] < v {
			return false
		}
	}
	return true
}

func keysEq(a, b []V) bool {
	for i := range a {
		if Cmp(a[i], b[i]) != 0 {
			return false
		}
	}
	return true
}

// Match compares the rows octosql printed with the reference result.
// Returns "" when they agree, else a short classifier + explanation.
// Rules: multiset equality; with ORDER BY each tie group must match as a
// multiset in its position; with LIMIT n exactly min(n,N) rows, a tie group
// split by the cut may contribute any of its members; LIMIT without ORDER BY:
// any min(n,N) rows of the full result.
func Match(res Result, got [][]V) (class, why string) {
	pre, keys := res.Rows, res.SortKeys
	n := len(res.Rows)
	if res.Limit >= 0 {
		pre, keys = res.Pre, res.PreKeys
		n = res.Limit
		if n > len(pre) {
			n = len(pre)
		}
	}
	if len(got) != n {
		return "row-count", fmt.Sprintf("%d rows printed, expected %d", len(got), n)
	}
	if !res.Sorted {
		if res.Limit < 0 {
			if !bagEq(bagOf(got), bagOf(pre)) {
				return "rows-differ", "printed rows differ from the expected multiset"
			}
			return "", ""
		}
		if !bagSub(bagOf(got), bagOf(pre)) {
			return "rows-not-subset", "printed rows are not a sub-multiset of the full result"
		}
		return "", ""
	}
	s := 0
	for s < len(pre) && s < n {
		e := s + 1
		for e < len(pre) && keysEq(keys[s], keys[e]) {
			e++
		}
		if e <= n {
			if !bagEq(bagOf(got[s:e]), bagOf(pre[s:e])) {
				return "order-or-rows", fmt.Sprintf("rows at sorted positions %d..%d differ from the expected tie group", s, e-1)
			}
		} else {
			if !bagSub(bagOf(got[s:n]), bagOf(pre[s:e])) {
				return "order-or-rows-at-cut", fmt.Sprintf("rows at sorted positions %d..%d are not members of the boundary tie group", s, n-1)
			}
		}
		s = e
	}
	return "", ""
}

// ParseJSONLines parses `-o json` output into positional rows (key order of each object).
func ParseJSONLines(out string) (names []string, rows [][]V, err error) {
	for _, line := range strings.Split(out, "\n") {
		if strings.TrimSpace(line) == "" {
			continue
		}
		dec := json.NewDecoder(bytes.NewReader([]byte(line)))
		dec.UseNumber()
		tok, err := dec.Token()
		if err != nil || tok != json.Delim('{') {
			return nil, nil, fmt.Errorf("not a JSON object line: %q", line)
		}
		var row []V
		var ns []string
		for dec.More() {
			kt, err := dec.Token()
			if err != nil {
				return nil, nil, fmt.Errorf("bad JSON line %q: %v", line, err)
			}
			ns = append(ns, kt.(string))
			var raw json.RawMessage
			if err := dec.Decode(&raw); err != nil {
				return nil, nil, fmt.Errorf("bad JSON line %q: %v", line, err)
			}
			row = append(row, jsonToV(raw))
		}
		names = ns
		rows = append(rows, row)
	}
	return names, rows, nil
}

func jsonToV(raw json.RawMessage) V {
	s := strings.TrimSpace(string(raw))
	switch {
	case s == "null":
		return Null
	case s == "true":
		return Bool(true)
	case s == "false":
		return Bool(false)
	case strings.HasPrefix(s, "\""):
		var str string
		json.Unmarshal(raw, &str)
		return Str(str)
	case strings.HasPrefix(s, "[") || strings.HasPrefix(s, "{"):
		return Str("json:" + s)
	}
	var f float64
	fmt.Sscanf(s, "%g", &f)
	return Float(f)
}

func RowsString(rows [][]V) string {
	p := make([]string, len(rows))
	for i, r := range rows {
		p[i] = "(" + RowKey(r) + ")"
	}
	return strings.Join(p, " ")
}
