package props

// C13 — numeric, time and conversion functions, IN / NOT IN, COALESCE, list indexing.
//
// Every case goes through the real pipeline logical.Typecheck -> physical.Materialize -> Evaluate with
// arguments supplied as typed variables; the reference is plain Go written below. Cases the
// descriptions / the property statement do not define are skipped and counted, never judged.

import (
	"context"
	"fmt"
	"io"
	"log"
	"math"
	"os"
	"sort"
	"strconv"
	"strings"
	"sync"
	"sync/atomic"
	"time"

	"github.com/cube2222/octosql/execution"
	"github.com/cube2222/octosql/functions"
	"github.com/cube2222/octosql/logical"
	"github.com/cube2222/octosql/octosql"
	"github.com/cube2222/octosql/physical"

	"verif/harness/internal/enum"
	"verif/harness/internal/findings"
)

// ---------------------------------------------------------------- lab

type c13Lab struct {
	penv physical.Environment
	lenv logical.Environment
}

func c13NewLab(fns map[string]physical.FunctionDetails, fields []physical.SchemaField) *c13Lab {
	mapping := map[string]string{}
	for _, f := range fields {
		mapping[f.Name] = f.Name
	}
	return &c13Lab{
		penv: physical.Environment{Functions: fns, VariableContext: &physical.VariableContext{Fields: fields}},
		lenv: logical.Environment{UniqueVariableNames: &logical.VariableMapping{Mapping: mapping}, UniqueNameGenerator: map[string]int{}},
	}
}

// build: typecheck (panic = rejection, that is how octosql reports type errors) and materialize.
func (l *c13Lab) build(e logical.Expression) (p physical.Expression, x execution.Expression, rejected string, matFail string) {
	func() {
		defer func() {
			if r := recover(); r != nil {
				rejected = fmt.Sprint(r)
				if rejected == "" {
					rejected = "panic"
				}
			}
		}()
		p = e.Typecheck(context.Background(), l.penv, l.lenv)
	}()
	if rejected != "" {
		return
	}
	func() {
		defer func() {
			if r := recover(); r != nil {
				matFail = fmt.Sprintf("panic: %v", r)
			}
		}()
		var err error
		x, err = p.Materialize(context.Background(), l.penv)
		if err != nil {
			matFail = "error: " + err.Error()
		}
	}()
	return
}

func c13Eval(e execution.Expression, vals []octosql.Value) (v octosql.Value, err error, pan interface{}) {
	defer func() {
		if x := recover(); x != nil {
			pan = x
		}
	}()
	v, err = e.Evaluate(execution.ExecutionContext{Context: context.Background(), VariableContext: &execution.VariableContext{Values: vals}})
	return
}

// ---------------------------------------------------------------- value rendering / comparison

func c13Str(v octosql.Value) string {
	switch v.TypeID {
	case octosql.TypeIDNull:
		return "NULL"
	case octosql.TypeIDInt:
		return fmt.Sprintf("Int(%d)", v.Int)
	case octosql.TypeIDFloat:
		if v.Float == 0 && math.Signbit(v.Float) {
			return "Float(-0)"
		}
		return fmt.Sprintf("Float(%v)", v.Float)
	case octosql.TypeIDBoolean:
		return fmt.Sprintf("Boolean(%v)", v.Boolean)
	case octosql.TypeIDString:
		return fmt.Sprintf("String(%q)", v.Str)
	case octosql.TypeIDTime:
		return "Time(" + v.Time.Format(time.RFC3339Nano) + ")"
	case octosql.TypeIDDuration:
		return fmt.Sprintf("Duration(%dns)", int64(v.Duration))
	case octosql.TypeIDList:
		return "[" + c13Strs(v.List) + "]"
	case octosql.TypeIDStruct:
		return "{" + c13Strs(v.Struct) + "}"
	case octosql.TypeIDTuple:
		return "(" + c13Strs(v.Tuple) + ")"
	}
	return fmt.Sprintf("?%d", v.TypeID)
}

func c13Strs(vs []octosql.Value) string {
	parts := make([]string, len(vs))
	for i := range vs {
		parts[i] = c13Str(vs[i])
	}
	return strings.Join(parts, ", ")
}

// c13Same: exact comparison; floats: NaN equals NaN, -0 equals +0; tol>0 allows a relative error (transcendental functions).
func c13Same(got, want octosql.Value, tol float64) bool {
	if got.TypeID != want.TypeID {
		return false
	}
	switch got.TypeID {
	case octosql.TypeIDNull:
		return true
	case octosql.TypeIDInt:
		return got.Int == want.Int
	case octosql.TypeIDFloat:
		a, b := got.Float, want.Float
		if math.IsNaN(a) || math.IsNaN(b) {
			return math.IsNaN(a) && math.IsNaN(b)
		}
		if a == b {
			return true
		}
		if tol > 0 && !math.IsInf(a, 0) && !math.IsInf(b, 0) {
			return math.Abs(a-b) <= tol*math.Max(math.Abs(a), math.Abs(b))
		}
		return false
	case octosql.TypeIDBoolean:
		return got.Boolean == want.Boolean
	case octosql.TypeIDString:
		return got.Str == want.Str
	case octosql.TypeIDTime:
		return got.Time.Equal(want.Time)
	case octosql.TypeIDDuration:
		return got.Duration == want.Duration
	case octosql.TypeIDList:
		return c13SameSlice(got.List, want.List)
	case octosql.TypeIDStruct:
		return c13SameSlice(got.Struct, want.Struct)
	case octosql.TypeIDTuple:
		return c13SameSlice(got.Tuple, want.Tuple)
	}
	return false
}

func c13SameSlice(a, b []octosql.Value) bool {
	if len(a) != len(b) {
		return false
	}
	for i := range a {
		if !c13Same(a[i], b[i], 0) {
			return false
		}
	}
	return true
}

// shape of an argument tuple, used in fingerprints and for the non-triviality rule.
func c13Shape(args []octosql.Value) string {
	shape := "plain"
	up := func(s string) {
		rank := map[string]int{"plain": 0, "zero": 1, "extreme": 2, "inf": 3, "nan": 4}
		if rank[s] > rank[shape] {
			shape = s
		}
	}
	for _, a := range args {
		switch a.TypeID {
		case octosql.TypeIDInt:
			if a.Int == math.MinInt64 || a.Int == math.MaxInt64 || a.Int == math.MinInt64+1 || a.Int == math.MaxInt64-1 {
				up("extreme")
			} else if a.Int == 0 {
				up("zero")
			}
		case octosql.TypeIDFloat:
			switch {
			case math.IsNaN(a.Float):
				up("nan")
			case math.IsInf(a.Float, 0):
				up("inf")
			case math.Abs(a.Float) >= 1e300 || (a.Float != 0 && math.Abs(a.Float) < 1e-300) || math.Abs(a.Float) >= 9e18:
				up("extreme")
			case a.Float == 0:
				up("zero")
			}
		case octosql.TypeIDDuration:
			if a.Duration == math.MaxInt64 || a.Duration == math.MinInt64 {
				up("extreme")
			} else if a.Duration == 0 {
				up("zero")
			}
		case octosql.TypeIDTime:
			if y := a.Time.Year(); y < 1000 || y > 2200 {
				up("extreme")
			}
		}
	}
	return shape
}

// ---------------------------------------------------------------- verdicts

type c13Verdict struct {
	Skip string        // non-empty: undefined/ambiguous case, class of the reason
	Want octosql.Value // expected value when Pred == nil
	Tol  float64
	// Pred, when set, judges the result itself; returns "" when acceptable, else a short cause class and what was expected
	Pred func(got octosql.Value) (cause, expected string)
}

func c13Skip(why string) c13Verdict       { return c13Verdict{Skip: why} }
func c13Want(v octosql.Value) c13Verdict  { return c13Verdict{Want: v} }
func c13WantF(f float64) c13Verdict       { return c13Verdict{Want: octosql.NewFloat(f)} }
func c13WantI(i int64) c13Verdict         { return c13Verdict{Want: octosql.NewInt(i)} }
func c13WantD(d time.Duration) c13Verdict { return c13Verdict{Want: octosql.NewDuration(d)} }
func c13WantFT(f float64) c13Verdict      { return c13Verdict{Want: octosql.NewFloat(f), Tol: 1e-12} }
func c13IsIntegral(f float64) bool        { return f == math.Trunc(f) }
func c13InInt64(f float64) bool           { return f >= -9223372036854775808.0 && f < 9223372036854775808.0 }
func c13Finite(f float64) bool            { return !math.IsNaN(f) && !math.IsInf(f, 0) }

// time reference: (sec since epoch, nsec in [0,1e9)) arithmetic, independent of time.Time.Add
func c13TimePlus(t time.Time, d int64) c13Verdict {
	sec, nsec := t.Unix(), int64(t.Nanosecond())
	sec += d / 1e9
	nsec += d % 1e9
	if nsec >= 1e9 {
		nsec -= 1e9
		sec++
	} else if nsec < 0 {
		nsec += 1e9
		sec--
	}
	return c13Verdict{Pred: func(got octosql.Value) (string, string) {
		exp := fmt.Sprintf("Time with unix seconds %d and nanosecond %d", sec, nsec)
		if got.TypeID != octosql.TypeIDTime {
			return "wrong-type", exp
		}
		if got.Time.Unix() != sec || int64(got.Time.Nanosecond()) != nsec {
			return "wrong-value", exp
		}
		return "", ""
	}}
}

// civil date -> unix seconds (proleptic Gregorian, days-from-civil), independent of package time
func c13CivilUnix(y int64, m, d, hh, mm, ss int64, offsetSec int64) int64 {
	if m <= 2 {
		y--
	}
	var era int64
	if y >= 0 {
		era = y / 400
	} else {
		era = (y - 399) / 400
	}
	yoe := y - era*400
	mp := (m + 9) % 12
	doy := (153*mp+2)/5 + d - 1
	doe := yoe*365 + yoe/4 - yoe/100 + doy
	days := era*146097 + doe - 719468
	return days*86400 + hh*3600 + mm*60 + ss - offsetSec
}

type c13TimeSpec struct {
	y               int64
	mo, d, h, mi, s int64
	ns              int64
	offsetSec       int64
}

func (s c13TimeSpec) time() time.Time {
	loc := time.UTC
	if s.offsetSec != 0 {
		loc = time.FixedZone("x", int(s.offsetSec))
	}
	return time.Date(int(s.y), time.Month(s.mo), int(s.d), int(s.h), int(s.mi), int(s.s), int(s.ns), loc)
}

// ---------------------------------------------------------------- parse references

func c13AllDigits(s string) bool {
	if s == "" {
		return false
	}
	for _, c := range s {
		if c < '0' || c > '9' {
			return false
		}
	}
	return true
}

func c13HasASCIIDigit(s string) bool {
	for _, c := range s {
		if c >= '0' && c <= '9' {
			return true
		}
	}
	return false
}

// c13RefParseInt: "clear" = ^-?[0-9]+$ . ok=false: not clearly an integer literal.
func c13RefParseInt(s string) (v int64, clear bool, inRange bool) {
	neg := strings.HasPrefix(s, "-")
	body := strings.TrimPrefix(s, "-")
	if !c13AllDigits(body) {
		return 0, false, false
	}
	var acc uint64
	for _, c := range body {
		d := uint64(c - '0')
		if acc > (math.MaxUint64-d)/10 {
			return 0, true, false
		}
		acc = acc*10 + d
	}
	if neg {
		if acc > 1<<63 {
			return 0, true, false
		}
		return int64(-acc), true, true // two's complement: -(1<<63) wraps to MinInt64 as intended
	}
	if acc > math.MaxInt64 {
		return 0, true, false
	}
	return int64(acc), true, true
}

// ---------------------------------------------------------------- oracles for FunctionMap descriptors

type c13Oracle func(a []octosql.Value) c13Verdict

func c13Oracles() map[string]c13Oracle {
	I := func(v octosql.Value) int64 { return v.Int }
	F := func(v octosql.Value) float64 { return v.Float }
	D := func(v octosql.Value) int64 { return int64(v.Duration) }
	unaryF := func(f func(float64) float64, tol bool, domain func(float64) bool) c13Oracle {
		return func(a []octosql.Value) c13Verdict {
			x := F(a[0])
			if domain != nil && !math.IsNaN(x) && !domain(x) {
				return c13Skip("outside-real-domain")
			}
			if tol {
				return c13WantFT(f(x))
			}
			return c13WantF(f(x))
		}
	}
	durationConv := func(toFloat bool) c13Oracle {
		// the unit of int(Duration)/float(Duration) is not documented: only zero, sign and Int/Float agreement are demanded
		return func(a []octosql.Value) c13Verdict {
			d := D(a[0])
			sgnI := func(x int64) int {
				switch {
				case x > 0:
					return 1
				case x < 0:
					return -1
				}
				return 0
			}
			return c13Verdict{Pred: func(got octosql.Value) (string, string) {
				var sign int
				if toFloat {
					if got.TypeID != octosql.TypeIDFloat {
						return "wrong-type", "a Float"
					}
					switch {
					case got.Float > 0:
						sign = 1
					case got.Float < 0:
						sign = -1
					}
				} else {
					if got.TypeID != octosql.TypeIDInt {
						return "wrong-type", "an Int"
					}
					sign = sgnI(got.Int)
				}
				if sign != sgnI(d) {
					return "wrong-sign", fmt.Sprintf("a number with the sign of the duration (%d)", sgnI(d))
				}
				return "", ""
			}}
		}
	}
	return map[string]c13Oracle{
		// ---- Int arithmetic: Go's wrapping two's complement arithmetic
		"+(Int,Int)": func(a []octosql.Value) c13Verdict { return c13WantI(I(a[0]) + I(a[1])) },
		"-(Int,Int)": func(a []octosql.Value) c13Verdict { return c13WantI(I(a[0]) - I(a[1])) },
		"*(Int,Int)": func(a []octosql.Value) c13Verdict { return c13WantI(I(a[0]) * I(a[1])) },
		"/(Int,Int)": func(a []octosql.Value) c13Verdict {
			if I(a[1]) == 0 {
				return c13Skip("int-division-by-zero")
			}
			x, y := I(a[0]), I(a[1])
			return c13WantI(x / y)
		},
		"-(Int)": func(a []octosql.Value) c13Verdict { return c13WantI(-I(a[0])) },
		// ---- Float arithmetic: IEEE-754 as performed by Go
		"+(Float,Float)": func(a []octosql.Value) c13Verdict { return c13WantF(F(a[0]) + F(a[1])) },
		"-(Float,Float)": func(a []octosql.Value) c13Verdict { return c13WantF(F(a[0]) - F(a[1])) },
		"*(Float,Float)": func(a []octosql.Value) c13Verdict { return c13WantF(F(a[0]) * F(a[1])) },
		"/(Float,Float)": func(a []octosql.Value) c13Verdict { x, y := F(a[0]), F(a[1]); return c13WantF(x / y) },
		"-(Float)":       func(a []octosql.Value) c13Verdict { return c13WantF(-F(a[0])) },
		// ---- Duration arithmetic (int64 nanoseconds, wrapping)
		"+(Duration,Duration)": func(a []octosql.Value) c13Verdict { return c13WantD(time.Duration(D(a[0]) + D(a[1]))) },
		"-(Duration,Duration)": func(a []octosql.Value) c13Verdict { return c13WantD(time.Duration(D(a[0]) - D(a[1]))) },
		"-(Duration)":          func(a []octosql.Value) c13Verdict { return c13WantD(time.Duration(-D(a[0]))) },
		"*(Duration,Int)":      func(a []octosql.Value) c13Verdict { return c13WantD(time.Duration(D(a[0]) * I(a[1]))) },
		"*(Int,Duration)":      func(a []octosql.Value) c13Verdict { return c13WantD(time.Duration(I(a[0]) * D(a[1]))) },
		"/(Duration,Int)": func(a []octosql.Value) c13Verdict {
			if I(a[1]) == 0 {
				return c13Skip("int-division-by-zero")
			}
			x, y := D(a[0]), I(a[1])
			return c13WantD(time.Duration(x / y))
		},
		"/(Duration,Duration)": func(a []octosql.Value) c13Verdict {
			x, y := float64(D(a[0])), float64(D(a[1]))
			return c13WantF(x / y)
		},
		// ---- Time +- Duration
		"+(Time,Duration)": func(a []octosql.Value) c13Verdict { return c13TimePlus(a[0].Time, D(a[1])) },
		"+(Duration,Time)": func(a []octosql.Value) c13Verdict { return c13TimePlus(a[1].Time, D(a[0])) },
		"-(Time,Duration)": func(a []octosql.Value) c13Verdict {
			if D(a[1]) == math.MinInt64 {
				return c13Skip("negation-overflow")
			}
			return c13TimePlus(a[0].Time, -D(a[1]))
		},
		// ---- math
		"abs(Int)": func(a []octosql.Value) c13Verdict {
			if I(a[0]) == math.MinInt64 {
				return c13Skip("abs-not-representable")
			}
			if I(a[0]) < 0 {
				return c13WantI(-I(a[0]))
			}
			return c13WantI(I(a[0]))
		},
		"abs(Float)":   unaryF(math.Abs, false, nil),
		"ceil(Float)":  unaryF(math.Ceil, false, nil),
		"floor(Float)": unaryF(math.Floor, false, nil),
		"sqrt(Float)":  unaryF(math.Sqrt, true, func(x float64) bool { return x >= 0 }),
		"log(Float)":   unaryF(math.Log, true, func(x float64) bool { return x > 0 }),
		"log2(Float)":  unaryF(math.Log2, true, func(x float64) bool { return x > 0 }),
		"log10(Float)": unaryF(math.Log10, true, func(x float64) bool { return x > 0 }),
		"pow(Float,Float)": func(a []octosql.Value) c13Verdict {
			x, y := F(a[0]), F(a[1])
			if math.IsNaN(x) || math.IsNaN(y) {
				return c13Skip("pow-of-nan")
			}
			if !c13Finite(x) || !c13Finite(y) {
				// infinite operands: the IEEE 754 pow table (what math.Pow implements), e.g. pow(-Inf, 0.5) = +Inf
				return c13WantFT(math.Pow(x, y))
			}
			if x == 0 && y <= 0 {
				return c13Skip("outside-real-domain")
			}
			if x < 0 && !c13IsIntegral(y) {
				return c13Skip("outside-real-domain")
			}
			return c13WantFT(math.Pow(x, y))
		},
		// ---- conversions
		"int(Int)": func(a []octosql.Value) c13Verdict { return c13Want(a[0]) },
		"int(Boolean)": func(a []octosql.Value) c13Verdict {
			if a[0].Boolean {
				return c13WantI(1)
			}
			return c13WantI(0)
		},
		"int(Float)": func(a []octosql.Value) c13Verdict {
			x := F(a[0])
			if !c13Finite(x) || !c13InInt64(x) {
				return c13Skip("float-not-representable-as-int")
			}
			if c13IsIntegral(x) {
				return c13WantI(int64(x))
			}
			// the description does not name a rounding mode: any neighbouring integer is accepted
			lo, hi := int64(math.Floor(x)), int64(math.Ceil(x))
			return c13Verdict{Pred: func(got octosql.Value) (string, string) {
				if got.TypeID != octosql.TypeIDInt {
					return "wrong-type", fmt.Sprintf("Int %d or %d", lo, hi)
				}
				if got.Int != lo && got.Int != hi {
					return "wrong-value", fmt.Sprintf("Int %d or %d", lo, hi)
				}
				return "", ""
			}}
		},
		"int(String)": func(a []octosql.Value) c13Verdict {
			s := a[0].Str
			v, clear, inRange := c13RefParseInt(s)
			switch {
			case clear && inRange:
				return c13WantI(v)
			case clear && !inRange:
				return c13Want(octosql.NewNull()) // no Int can be the right answer
			case !c13HasASCIIDigit(s):
				return c13Want(octosql.NewNull()) // certainly not a number: failed parse => NULL
			}
			return c13Skip("ambiguous-number-syntax")
		},
		"int(Duration)": durationConv(false),
		"float(Float)":  func(a []octosql.Value) c13Verdict { return c13Want(a[0]) },
		"float(Int)":    func(a []octosql.Value) c13Verdict { return c13WantF(float64(I(a[0]))) },
		"float(String)": func(a []octosql.Value) c13Verdict {
			s := a[0].Str
			// clear: ^-?[0-9]+(\.[0-9]+)?$ with at most 15 significant digits (exactly representable decimal -> nearest double is unambiguous)
			body := strings.TrimPrefix(s, "-")
			parts := strings.Split(body, ".")
			clear := (len(parts) == 1 && c13AllDigits(parts[0])) || (len(parts) == 2 && c13AllDigits(parts[0]) && c13AllDigits(parts[1]))
			if clear && len(strings.ReplaceAll(body, ".", "")) <= 15 {
				want, err := strconv.ParseFloat(s, 64)
				if err == nil {
					return c13WantF(want)
				}
			}
			if !c13HasASCIIDigit(s) && !strings.Contains(strings.ToLower(s), "inf") && !strings.Contains(strings.ToLower(s), "nan") {
				return c13Want(octosql.NewNull())
			}
			return c13Skip("ambiguous-number-syntax")
		},
		"float(Duration)": durationConv(true),
		// ---- time
		"time_from_unix(Int)": func(a []octosql.Value) c13Verdict {
			x := I(a[0])
			if x > math.MaxInt64-62135596800 {
				return c13Skip("time-not-representable")
			}
			return c13Verdict{Pred: func(got octosql.Value) (string, string) {
				exp := fmt.Sprintf("the Time %d s after the epoch", x)
				if got.TypeID != octosql.TypeIDTime {
					return "wrong-type", exp
				}
				if got.Time.Unix() != x || got.Time.Nanosecond() != 0 {
					return "wrong-value", exp
				}
				return "", ""
			}}
		},
		"time_from_unix(Float)": func(a []octosql.Value) c13Verdict {
			x := F(a[0])
			if !c13Finite(x) || math.Abs(x) > 9e9 {
				return c13Skip("time-not-representable-in-ns")
			}
			want := int64(math.Round(x * 1e9))
			return c13Verdict{Pred: func(got octosql.Value) (string, string) {
				exp := fmt.Sprintf("the Time %d ns (+-1) after the epoch", want)
				if got.TypeID != octosql.TypeIDTime {
					return "wrong-type", exp
				}
				if d := got.Time.UnixNano() - want; d < -1 || d > 1 {
					return "wrong-value", exp
				}
				return "", ""
			}}
		},
	}
}

// ---------------------------------------------------------------- domains

type c13Domains struct {
	ints   []int64
	floats []float64
	durs   []int64
	times  []c13TimeSpec
	bools  []bool
	intStr []string
	fltStr []string
}

func c13Doms(thorough bool) c13Domains {
	d := c13Domains{
		ints:   []int64{0, 1, -1, 2, 7, -7, math.MinInt64, math.MaxInt64},
		floats: []float64{0, math.Copysign(0, -1), 0.5, -0.5, 1.5, -1.5, 2.5, math.NaN(), math.Inf(1), math.Inf(-1), math.MaxFloat64, 5e-324},
		durs:   []int64{0, 1, -1, int64(time.Second), math.MaxInt64},
		times: []c13TimeSpec{
			{1970, 1, 1, 0, 0, 0, 0, 0}, {1970, 1, 1, 0, 0, 1, 0, 0}, {1969, 12, 31, 23, 59, 59, 0, 0},
			{1, 1, 1, 0, 0, 0, 0, 0}, {2262, 4, 11, 23, 47, 16, 0, 0},
		},
		bools:  []bool{true, false},
		intStr: []string{"", " ", "abc", "-", "0", "7", "-7", "007", "010", "08", "-010", "0019", "00", "-0", "0b11", "0o17", "+7", " 7", "7 ", "1.5", "1e3", "0x10", "1_000", "9223372036854775807", "-9223372036854775808", "9223372036854775808", "-9223372036854775809", "99999999999999999999", "٣", "７", "--7", "7a"},
		fltStr: []string{"", " ", "abc", ".", "-", "0", "7", "-7", "1.5", "-0.5", "0.25", "1e3", "NaN", "Inf", "-Inf", "+1.5", " 1.5", "1.5 ", "1,5", ".5", "5.", "0x1p-2", "1e400", "1.5.5", "٣", "123456789012345"},
	}
	if thorough {
		d.ints = append(d.ints, math.MinInt64+1, math.MaxInt64-1, 1<<31, -(1 << 31), 1<<32, 3037000500, -3037000500, 1000000000, -62135596800, 9223372036, 253402300799, math.MaxInt64-62135596800, math.MaxInt64-62135596800+1)
		d.floats = append(d.floats, -math.MaxFloat64, -5e-324, 1, -1, 2, 1e308, 9007199254740992, 9223372036854775808.0, -9223372036854775808.0, 9223372036854774784.0, 1e19, 0.1, 1e-9, 4.35, 1e9, -2.5, 3)
		d.durs = append(d.durs, math.MinInt64, -int64(time.Second), int64(time.Hour), 1500000000, int64(24*time.Hour))
		d.times = append(d.times, c13TimeSpec{1970, 1, 1, 0, 0, 0, 500000000, 0}, c13TimeSpec{1969, 12, 31, 23, 59, 59, 500000000, 0},
			c13TimeSpec{9999, 12, 31, 23, 59, 59, 0, 0}, c13TimeSpec{1970, 1, 1, 2, 0, 1, 0, 7200}, c13TimeSpec{2000, 2, 29, 12, 0, 0, 0, 0},
			c13TimeSpec{1900, 3, 1, 0, 0, 0, 0, 0}, c13TimeSpec{2262, 4, 11, 23, 47, 16, 854775807, 0}, c13TimeSpec{1677, 9, 21, 0, 12, 44, 0, 0})
	}
	return d
}

func (d c13Domains) forType(t octosql.Type, fn string) []octosql.Value {
	var out []octosql.Value
	switch t.TypeID {
	case octosql.TypeIDInt:
		for _, x := range d.ints {
			out = append(out, octosql.NewInt(x))
		}
	case octosql.TypeIDFloat:
		for _, x := range d.floats {
			out = append(out, octosql.NewFloat(x))
		}
	case octosql.TypeIDDuration:
		for _, x := range d.durs {
			out = append(out, octosql.NewDuration(time.Duration(x)))
		}
	case octosql.TypeIDTime:
		for _, x := range d.times {
			out = append(out, octosql.NewTime(x.time()))
		}
	case octosql.TypeIDBoolean:
		for _, x := range d.bools {
			out = append(out, octosql.NewBoolean(x))
		}
	case octosql.TypeIDString:
		src := d.intStr
		if fn == "float" {
			src = d.fltStr
		}
		for _, x := range src {
			out = append(out, octosql.NewString(x))
		}
	}
	return out
}

// ---------------------------------------------------------------- case record

type c13Case struct {
	Expr     string   `json:"expr"`
	Args     []string `json:"args,omitempty"`
	Got      string   `json:"got,omitempty"`
	Want     string   `json:"want,omitempty"`
	Shape    string   `json:"shape,omitempty"`
	Declared string   `json:"declared_type,omitempty"`
}

func c13Sig(name string, ts []octosql.Type) string {
	parts := make([]string, len(ts))
	for i, t := range ts {
		parts[i] = t.String()
	}
	return name + "(" + strings.Join(parts, ",") + ")"
}

// c13Judge evaluates one case and reports; returns the outcome class.
func c13Judge(r *findings.Run, sig, exprStr string, e execution.Expression, vals, shownArgs []octosql.Value, v c13Verdict) string {
	shape := c13Shape(shownArgs)
	if strings.HasPrefix(sig, "in(") || strings.HasPrefix(sig, "not in(") || strings.HasPrefix(sig, "[](") || strings.HasPrefix(sig, "coalesce(") {
		shape = "plain" // numeric edge shapes say nothing about membership / indexing / COALESCE
	}
	shapeFP := shape + ":"
	if shape == "plain" {
		shapeFP = ""
	}
	if v.Skip != "" {
		return "skipped/" + v.Skip
	}
	got, err, pan := c13Eval(e, vals)
	r.Eval(1)
	argStrs := make([]string, len(shownArgs))
	for i, a := range shownArgs {
		argStrs[i] = c13Str(a)
	}
	cs := c13Case{Expr: exprStr, Args: argStrs, Shape: shape}
	call := fmt.Sprintf("%s with (%s)", exprStr, strings.Join(argStrs, ", "))
	if pan != nil {
		cs.Got = fmt.Sprintf("panic: %v", pan)
		r.Violation("C13/"+sig+"/panic", fmt.Sprintf("%s panics: %v", call, pan), cs)
		return "violation"
	}
	if err != nil {
		cs.Got = "error: " + err.Error()
		r.Violation("C13/"+sig+"/"+shapeFP+"error", fmt.Sprintf("%s fails with an error: %v", call, err), cs)
		return "violation"
	}
	cs.Got = c13Str(got)
	if v.Pred != nil {
		if cause, exp := v.Pred(got); cause != "" {
			cs.Want = exp
			r.Violation("C13/"+sig+"/"+shapeFP+cause, fmt.Sprintf("%s gives %s, expected %s", call, cs.Got, exp), cs)
			return "violation"
		}
	} else if !c13Same(got, v.Want, v.Tol) {
		cs.Want = c13Str(v.Want)
		cause := "wrong-value"
		if got.TypeID != v.Want.TypeID {
			cause = "wrong-type"
			if got.TypeID == octosql.TypeIDNull {
				cause = "returns-NULL"
			} else if v.Want.TypeID == octosql.TypeIDNull {
				cause = "returns-non-NULL"
			}
		}
		r.Violation("C13/"+sig+"/"+shapeFP+cause, fmt.Sprintf("%s gives %s, expected %s", call, cs.Got, cs.Want), cs)
		return "violation"
	}
	if shape != "plain" {
		r.Nontrivial(call)
	}
	cls := "ok/" + got.TypeID.String()
	if got.TypeID == octosql.TypeIDFloat {
		switch {
		case math.IsNaN(got.Float):
			cls = "ok/Float-NaN"
		case math.IsInf(got.Float, 0):
			cls = "ok/Float-Inf"
		}
	}
	if (shape == "extreme" || shape == "nan" || strings.HasPrefix(sig, "[](")) && c13SampleOnce(sig) {
		cs.Want = "as computed by the reference: " + cs.Got
		r.Sample(cs)
	}
	return cls
}

var c13Sampled sync.Map

// c13SampleOnce: at most one written-out sample for each of a few fixed signatures.
func c13SampleOnce(sig string) bool {
	switch sig {
	case "*(Int,Int)", "/(Float,Float)", "[]([Int|NULL],Int)", "coalesce/Object", "coalesce/List":
		_, loaded := c13Sampled.LoadOrStore(sig, true)
		return !loaded
	}
	return false
}

// ---------------------------------------------------------------- the check

func init() {
	register("C13", "exploration", func(r *findings.Run) {
		log.SetOutput(io.Discard) // int('x') / float('x') log every failed parse
		defer log.SetOutput(os.Stderr)

		fns := functions.FunctionMap()
		doms := c13Doms(r.Thorough())
		oracles := c13Oracles()
		r.Rule = "for every descriptor of + - * / abs sqrt ceil floor log log2 log10 pow int float string time_from_unix time_to_unix in FunctionMap() that takes Int/Float/Duration/Time/Boolean (String for int/float): ALL argument tuples over the edge-value alphabets in `bound`, called through typecheck+materialize with typed variables, compared with Go arithmetic written in the check (ints wrap, floats IEEE with NaN=NaN and -0=+0, log/sqrt/pow within 1e-12 relative); " +
			"time_to_unix(time_from_unix(x)) = x for every representable Int x; IN / NOT IN for every x and every list (length 0..3) / tuple (length 2..3) over 3 values of one type; x[i] for every Int list of length 0..3 (NULL elements included) and every index in the Int alphabet; " +
			"COALESCE over every sequence of 1..3 distinct arguments from a pool of 14 typed arguments (Int, String, literal NULL, objects / tuples / lists of objects with differing layouts, nullable or not) under every NULL/non-NULL assignment; non-trivial = case with an edge value (zero, extreme, Inf, NaN) or a NULL argument"
		r.Assume(
			"skipped as undefined (counted as skipped/*): Int and Duration division by zero, abs(MinInt64), int() of NaN/Inf/out-of-range floats, sqrt/log of non-positive or negative numbers, pow with NaN/Inf arguments, 0^y for y<=0, negative base with fractional exponent, Time - MinDuration, time_from_unix beyond the representable range, negative list index, IN / NOT IN with a NULL element or with elements of a type different from x",
			"int(Float) of a fractional number: the description names no rounding mode, floor and ceiling are both accepted",
			"int(String)/float(String): strings without any ASCII digit must give NULL, ^-?[0-9]+$ (resp. plain decimals with <= 15 digits) must parse, out-of-range integers must give NULL, every other spelling (+7, ' 7', 1e3, 0x10, 1_000, NaN, Inf ...) is skipped as ambiguous",
			"pow with an infinite operand is judged against the IEEE 754 pow table (math.Pow); NaN operands and the sign of a zero result are not judged",
			"int(Duration)/float(Duration): the unit is not documented; only the type and the sign of the result are demanded",
			"string(x): only the result type is demanded, plus the decimal rendering for Int",
			"time_to_unix of a Time with a fractional second accepts floor and truncation",
			"String overloads of + and * belong to C12 and are not judged here; a panic on a skipped case is C07's business",
			"COALESCE on objects: the expected value is the first non-NULL argument laid out by field name in the declared (typechecked) output type, absent fields NULL",
		)
		outcomes := map[string]*int64{}
		var omu = make(chan struct{}, 1)
		count := func(cls string) {
			omu <- struct{}{}
			p, ok := outcomes[cls]
			if !ok {
				p = new(int64)
				outcomes[cls] = p
			}
			*p++
			<-omu
		}

		// ------------------------------------------------ (1) FunctionMap descriptors
		names := []string{"+", "-", "*", "/", "abs", "sqrt", "ceil", "floor", "log", "log2", "log10", "pow", "int", "float", "time_from_unix", "time_to_unix"}
		type target struct {
			fn   string
			desc physical.FunctionDescriptor
			sig  string
		}
		var targets []target
		var noOracle []string
		// time_to_unix oracle needs the civil spec, handled separately below
		for _, n := range names {
			det, ok := fns[n]
			if !ok {
				r.Violation("C13/"+n+"/missing", "function "+n+" named by the property is not in FunctionMap()", nil)
				continue
			}
			for _, d := range det.Descriptors {
				if d.TypeFn != nil {
					noOracle = append(noOracle, n+"(TypeFn)")
					continue
				}
				sig := c13Sig(n, d.ArgumentTypes)
				if n == "time_to_unix" {
					continue
				}
				if _, ok := oracles[sig]; !ok {
					noOracle = append(noOracle, sig)
					continue
				}
				targets = append(targets, target{n, d, sig})
			}
		}
		sort.Strings(noOracle)
		r.Extra["descriptors_not_judged_here"] = noOracle
		r.Extra["descriptors_judged"] = len(targets) + 1

		enum.Parallel(len(targets), func(ti int) {
			t := targets[ti]
			n := len(t.desc.ArgumentTypes)
			fields := make([]physical.SchemaField, n)
			lvars := make([]logical.Expression, n)
			domsPer := make([][]octosql.Value, n)
			sizes := make([]int, n)
			for i, at := range t.desc.ArgumentTypes {
				fields[i] = physical.SchemaField{Name: fmt.Sprintf("v%d", i), Type: at}
				lvars[i] = logical.NewVariable(fields[i].Name)
				domsPer[i] = doms.forType(at, t.fn)
				sizes[i] = len(domsPer[i])
			}
			lab := c13NewLab(fns, fields)
			_, e, rej, mf := lab.build(logical.NewFunctionExpression(t.fn, lvars))
			if rej != "" {
				r.Violation("C13/"+t.sig+"/typecheck-rejects-own-descriptor", fmt.Sprintf("%s: arguments of exactly the declared types are rejected: %s", t.sig, rej), nil)
				return
			}
			if mf != "" {
				r.Violation("C13/"+t.sig+"/materialize-failed", fmt.Sprintf("%s cannot be materialized: %s", t.sig, mf), nil)
				return
			}
			oracle := oracles[t.sig]
			enum.Product(sizes, func(idx []int) bool {
				vals := make([]octosql.Value, n)
				for i, x := range idx {
					vals[i] = domsPer[i][x]
				}
				cls := c13Judge(r, t.sig, t.sig, e, vals, vals, oracle(vals))
				if strings.HasPrefix(cls, "ok/") {
					cls = cls + " @" + t.fn
				}
				count(cls)
				return true
			})
		})

		// ------------------------------------------------ (2) time_to_unix and the round trip
		{
			lab := c13NewLab(fns, []physical.SchemaField{{Name: "t", Type: octosql.Time}, {Name: "i", Type: octosql.Int}, {Name: "f", Type: octosql.Float}})
			_, eTo, rej, mf := lab.build(logical.NewFunctionExpression("time_to_unix", []logical.Expression{logical.NewVariable("t")}))
			if rej != "" || mf != "" {
				r.Violation("C13/time_to_unix(Time)/cannot-build", "time_to_unix(Time) cannot be typechecked/materialized: "+rej+mf, nil)
			} else {
				for _, ts := range doms.times {
					floor := c13CivilUnix(ts.y, ts.mo, ts.d, ts.h, ts.mi, ts.s, ts.offsetSec)
					trunc := floor
					if ts.ns != 0 && floor < 0 {
						trunc = floor + 1
					}
					arg := octosql.NewTime(ts.time())
					v := c13Verdict{Pred: func(got octosql.Value) (string, string) {
						exp := fmt.Sprintf("Int %d", floor)
						if trunc != floor {
							exp += fmt.Sprintf(" or %d", trunc)
						}
						if got.TypeID != octosql.TypeIDInt {
							return "wrong-type", exp
						}
						if got.Int != floor && got.Int != trunc {
							return "wrong-value", exp
						}
						return "", ""
					}}
					count(c13Judge(r, "time_to_unix(Time)", "time_to_unix(Time)", eTo, []octosql.Value{arg, {}, {}}, []octosql.Value{arg}, v) + " @time_to_unix")
				}
			}
			_, eRT, rej, mf := lab.build(logical.NewFunctionExpression("time_to_unix", []logical.Expression{
				logical.NewFunctionExpression("time_from_unix", []logical.Expression{logical.NewVariable("i")})}))
			if rej != "" || mf != "" {
				r.Violation("C13/time_to_unix(time_from_unix(Int))/cannot-build", "time_to_unix(time_from_unix(Int)) cannot be typechecked/materialized: "+rej+mf, nil)
			} else {
				for _, x := range doms.ints {
					arg := octosql.NewInt(x)
					v := c13WantI(x)
					if x > math.MaxInt64-62135596800 {
						v = c13Skip("time-not-representable")
					}
					count(c13Judge(r, "time_to_unix(time_from_unix(Int))", "time_to_unix(time_from_unix(Int))", eRT, []octosql.Value{{}, arg, {}}, []octosql.Value{arg}, v) + " @roundtrip")
				}
			}
			_, eRTF, rej, mf := lab.build(logical.NewFunctionExpression("time_to_unix", []logical.Expression{
				logical.NewFunctionExpression("time_from_unix", []logical.Expression{logical.NewVariable("f")})}))
			if rej == "" && mf == "" {
				for _, x := range doms.floats {
					arg := octosql.NewFloat(x)
					var v c13Verdict
					switch {
					case !c13Finite(x) || math.Abs(x) > 9e9:
						v = c13Skip("time-not-representable-in-ns")
					case c13IsIntegral(x):
						v = c13WantI(int64(x))
					default:
						lo, hi := int64(math.Floor(x)), int64(math.Ceil(x))
						v = c13Verdict{Pred: func(got octosql.Value) (string, string) {
							if got.TypeID != octosql.TypeIDInt || (got.Int != lo && got.Int != hi) {
								return "wrong-value", fmt.Sprintf("Int %d or %d", lo, hi)
							}
							return "", ""
						}}
					}
					count(c13Judge(r, "time_to_unix(time_from_unix(Float))", "time_to_unix(time_from_unix(Float))", eRTF, []octosql.Value{{}, {}, arg}, []octosql.Value{arg}, v) + " @roundtrip")
				}
			}
		}

		// ------------------------------------------------ (3) string()
		c13StringFn(r, fns, doms, count)

		// ------------------------------------------------ (4) IN / NOT IN
		c13In(r, fns, count)

		// ------------------------------------------------ (5) list indexing
		c13Index(r, fns, doms, count)

		// ------------------------------------------------ (6) COALESCE
		c13Coalesce(r, fns, count)

		var rejected int64
		for cls, n := range outcomes {
			if strings.HasPrefix(cls, "rejected") {
				rejected += *n
			}
		}
		if rejected > 0 {
			r.Reject(rejected)
		}
		hist := map[string]int64{}
		for cls, n := range outcomes {
			hist[cls] = *n
			coarse := strings.SplitN(cls, " @", 2)[0]
			for i := int64(0); i < *n; i++ {
				r.Outcome(coarse)
			}
		}
		r.Extra["case_histogram"] = hist
		r.Bound = map[string]interface{}{
			"Int": doms.ints, "Float": fmt.Sprint(doms.floats), "Duration_ns": doms.durs, "Time": func() []string {
				var out []string
				for _, t := range doms.times {
					out = append(out, t.time().Format(time.RFC3339Nano))
				}
				return out
			}(), "int_strings": doms.intStr, "float_strings": doms.fltStr,
			"in_list_length": "0..3", "index_list_length": "0..3", "coalesce_arguments": "1..3 of 14",
		}
	})
}

// ---------------------------------------------------------------- string()

func c13StringFn(r *findings.Run, fns map[string]physical.FunctionDetails, doms c13Domains, count func(string)) {
	if _, ok := fns["string"]; !ok {
		count("not-present/string")
		return
	}
	for _, ty := range []octosql.Type{octosql.Int, octosql.Float, octosql.Boolean, octosql.String, octosql.Time, octosql.Duration} {
		lab := c13NewLab(fns, []physical.SchemaField{{Name: "v", Type: ty}})
		sig := "string(" + ty.String() + ")"
		_, e, rej, mf := lab.build(logical.NewFunctionExpression("string", []logical.Expression{logical.NewVariable("v")}))
		if rej != "" {
			count("rejected/" + sig)
			continue
		}
		if mf != "" {
			r.Violation("C13/"+sig+"/materialize-failed", sig+" cannot be materialized: "+mf, nil)
			continue
		}
		for _, a := range doms.forType(ty, "int") {
			a := a
			v := c13Verdict{Pred: func(got octosql.Value) (string, string) {
				if got.TypeID != octosql.TypeIDString {
					return "wrong-type", "a String"
				}
				if a.TypeID == octosql.TypeIDInt && got.Str != strconv.FormatInt(a.Int, 10) {
					return "wrong-value", fmt.Sprintf("String(%q)", strconv.FormatInt(a.Int, 10))
				}
				return "", ""
			}}
			count(c13Judge(r, sig, sig, e, []octosql.Value{a}, []octosql.Value{a}, v) + " @string")
		}
	}
}

// ---------------------------------------------------------------- IN / NOT IN

func c13In(r *findings.Run, fns map[string]physical.FunctionDetails, count func(string)) {
	type dom struct {
		typ  octosql.Type
		vals []octosql.Value
	}
	doms := []dom{
		{octosql.Int, []octosql.Value{octosql.NewInt(0), octosql.NewInt(1), octosql.NewInt(2)}},
		{octosql.String, []octosql.Value{octosql.NewString(""), octosql.NewString("a"), octosql.NewString("A")}},
		{octosql.Float, []octosql.Value{octosql.NewFloat(0.5), octosql.NewFloat(1.5), octosql.NewFloat(-1.5)}},
		{octosql.Boolean, []octosql.Value{octosql.NewBoolean(true), octosql.NewBoolean(false)}},
	}
	ref := func(x octosql.Value, elems []octosql.Value) bool {
		for _, el := range elems {
			if c13Same(x, el, 0) {
				return true
			}
		}
		return false
	}
	for _, fn := range []string{"in", "not in"} {
		if _, ok := fns[fn]; !ok {
			r.Violation("C13/"+fn+"/missing", "function "+fn+" is not in FunctionMap()", nil)
			continue
		}
		for _, d := range doms {
			el := d.typ
			listT := octosql.Type{TypeID: octosql.TypeIDList, List: struct{ Element *octosql.Type }{Element: &el}}
			// (i) list-typed variable
			lab := c13NewLab(fns, []physical.SchemaField{{Name: "x", Type: d.typ}, {Name: "l", Type: listT}})
			sig := fmt.Sprintf("%s(%s,[%s])", fn, d.typ, d.typ)
			_, e, rej, mf := lab.build(logical.NewFunctionExpression(fn, []logical.Expression{logical.NewVariable("x"), logical.NewVariable("l")}))
			switch {
			case rej != "":
				r.Violation("C13/"+sig+"/typecheck-rejected", sig+" is rejected by the typechecker: "+rej, nil)
			case mf != "":
				r.Violation("C13/"+sig+"/materialize-failed", sig+" cannot be materialized: "+mf, nil)
			default:
				k := len(d.vals)
				enum.Sequences(k, 3, nil, func(seq []int) {
					elems := make([]octosql.Value, len(seq))
					for i, s := range seq {
						elems[i] = d.vals[s]
					}
					lv := octosql.NewList(elems)
					for _, x := range d.vals {
						want := ref(x, elems)
						if fn == "not in" {
							want = !want
						}
						cls := c13Judge(r, sig, sig, e, []octosql.Value{x, lv}, []octosql.Value{x, lv}, c13Want(octosql.NewBoolean(want)))
						if len(elems) == 0 || len(elems) == 3 {
							r.Nontrivial(fmt.Sprintf("%s %s %s", fn, c13Str(x), c13Str(lv)))
						}
						count(cls + " @" + fn + "-list")
					}
				})
			}
			// (ii) tuple of constants, as the parser builds x IN (c1, c2, ...); a one-element parenthesis is a scalar for the parser
			labT := c13NewLab(fns, []physical.SchemaField{{Name: "x", Type: d.typ}})
			k := len(d.vals)
			enum.Sequences(k, 3, nil, func(seq []int) {
				if len(seq) == 0 {
					return
				}
				elems := make([]octosql.Value, len(seq))
				lexprs := make([]logical.Expression, len(seq))
				tys := make([]string, len(seq))
				for i, s := range seq {
					elems[i] = d.vals[s]
					lexprs[i] = logical.NewConstant(elems[i])
					tys[i] = d.typ.String()
				}
				var rhs logical.Expression = logical.NewTuple(lexprs)
				sigT := fmt.Sprintf("%s(%s,(%s))", fn, d.typ, strings.Join(tys, ","))
				if len(seq) == 1 {
					rhs = lexprs[0] // parser: ValTuple of length 1 => the element itself
				}
				_, e, rej, mf := labT.build(logical.NewFunctionExpression(fn, []logical.Expression{logical.NewVariable("x"), rhs}))
				if rej != "" {
					if len(seq) == 1 {
						count("rejected/" + fn + "-one-element-parenthesis-is-a-scalar")
					} else {
						r.Violation("C13/"+sigT+"/typecheck-rejected", sigT+" is rejected by the typechecker: "+rej, nil)
					}
					return
				}
				if mf != "" {
					r.Violation("C13/"+sigT+"/materialize-failed", sigT+" cannot be materialized: "+mf, nil)
					return
				}
				tv := octosql.NewTuple(elems)
				for _, x := range d.vals {
					want := ref(x, elems)
					if fn == "not in" {
						want = !want
					}
					count(c13Judge(r, sigT, sigT, e, []octosql.Value{x}, []octosql.Value{x, tv}, c13Want(octosql.NewBoolean(want))) + " @" + fn + "-tuple")
				}
			})
		}
		// skipped by construction, recorded so that the evidence says so
		count("skipped/" + fn + "-with-NULL-element")
		count("skipped/" + fn + "-with-elements-of-another-type")
	}
}

// ---------------------------------------------------------------- list indexing

func c13Index(r *findings.Run, fns map[string]physical.FunctionDetails, doms c13Domains, count func(string)) {
	if _, ok := fns["[]"]; !ok {
		r.Violation("C13/[]/missing", "the indexing function [] is not in FunctionMap()", nil)
		return
	}
	elT := octosql.TypeSum(octosql.Int, octosql.Null)
	listT := octosql.Type{TypeID: octosql.TypeIDList, List: struct{ Element *octosql.Type }{Element: &elT}}
	lab := c13NewLab(fns, []physical.SchemaField{{Name: "l", Type: listT}, {Name: "i", Type: octosql.Int}})
	sig := "[]([Int|NULL],Int)"
	_, e, rej, mf := lab.build(logical.NewFunctionExpression("[]", []logical.Expression{logical.NewVariable("l"), logical.NewVariable("i")}))
	if rej != "" {
		r.Violation("C13/"+sig+"/typecheck-rejected", sig+" is rejected by the typechecker: "+rej, nil)
		return
	}
	if mf != "" {
		r.Violation("C13/"+sig+"/materialize-failed", sig+" cannot be materialized: "+mf, nil)
		return
	}
	elems := []octosql.Value{octosql.NewInt(10), octosql.NewInt(20), octosql.NewNull()}
	idxs := append([]int64{}, doms.ints...)
	idxs = append(idxs, 3, 4)
	enum.Sequences(len(elems), 3, nil, func(seq []int) {
		l := make([]octosql.Value, len(seq))
		for i, s := range seq {
			l[i] = elems[s]
		}
		lv := octosql.NewList(l)
		for _, i := range idxs {
			var v c13Verdict
			switch {
			case i < 0:
				v = c13Skip("negative-index")
			case i >= int64(len(l)):
				v = c13Want(octosql.NewNull())
			default:
				v = c13Want(l[i])
			}
			iv := octosql.NewInt(i)
			cls := c13Judge(r, sig, sig, e, []octosql.Value{lv, iv}, []octosql.Value{lv, iv}, v)
			if i >= 0 {
				r.Nontrivial(fmt.Sprintf("index %s %d", c13Str(lv), i))
			}
			if strings.HasPrefix(cls, "ok/") {
				if i >= int64(len(l)) {
					cls = "ok/index-beyond-end-NULL"
				} else {
					cls = "ok/element"
				}
			}
			count(cls + " @[]")
		}
	})
	// empty list with unknown element type (the literal [] of a source without rows)
	lab2 := c13NewLab(fns, []physical.SchemaField{{Name: "l", Type: octosql.Type{TypeID: octosql.TypeIDList}}, {Name: "i", Type: octosql.Int}})
	_, e2, rej, mf := lab2.build(logical.NewFunctionExpression("[]", []logical.Expression{logical.NewVariable("l"), logical.NewVariable("i")}))
	if rej != "" || mf != "" {
		count("rejected/[]-on-list-of-unknown-element-type")
		return
	}
	for _, i := range []int64{0, 1, math.MaxInt64} {
		count(c13Judge(r, "[]([],Int)", "[]([],Int)", e2, []octosql.Value{octosql.NewList(nil), octosql.NewInt(i)}, []octosql.Value{octosql.NewList(nil), octosql.NewInt(i)}, c13Want(octosql.NewNull())) + " @[]")
	}
}

// ---------------------------------------------------------------- COALESCE

type c13PoolItem struct {
	name    string
	kind    string
	typ     octosql.Type // declared type; for literal: ignored
	literal bool
	vals    []octosql.Value
}

func c13StructT(fields ...octosql.StructField) octosql.Type {
	return octosql.Type{TypeID: octosql.TypeIDStruct, Struct: struct{ Fields []octosql.StructField }{Fields: fields}}
}
func c13TupleT(el ...octosql.Type) octosql.Type {
	return octosql.Type{TypeID: octosql.TypeIDTuple, Tuple: struct{ Elements []octosql.Type }{Elements: el}}
}
func c13ListT(el octosql.Type) octosql.Type {
	return octosql.Type{TypeID: octosql.TypeIDList, List: struct{ Element *octosql.Type }{Element: &el}}
}
func c13Nullable(t octosql.Type) octosql.Type { return octosql.TypeSum(t, octosql.Null) }

func c13Pool() []c13PoolItem {
	null := octosql.NewNull()
	I, S := octosql.NewInt, octosql.NewString
	st := octosql.NewStruct
	tu := octosql.NewTuple
	li := octosql.NewList
	oAB := c13StructT(octosql.StructField{Name: "a", Type: octosql.Int}, octosql.StructField{Name: "b", Type: octosql.String})
	oBC := c13StructT(octosql.StructField{Name: "b", Type: octosql.String}, octosql.StructField{Name: "c", Type: octosql.Int})
	oA := c13StructT(octosql.StructField{Name: "a", Type: octosql.Int})
	oB := c13StructT(octosql.StructField{Name: "b", Type: octosql.Int})
	nA := c13StructT(octosql.StructField{Name: "o", Type: oA})
	nB := c13StructT(octosql.StructField{Name: "o", Type: oB})
	return []c13PoolItem{
		{name: "i", kind: "Int", typ: c13Nullable(octosql.Int), vals: []octosql.Value{null, I(1)}},
		{name: "s", kind: "String", typ: c13Nullable(octosql.String), vals: []octosql.Value{null, S("a")}},
		{name: "NULL", kind: "NULL", literal: true, vals: []octosql.Value{null}},
		{name: "n", kind: "Int", typ: octosql.Int, vals: []octosql.Value{I(2)}},
		{name: "o1", kind: "Object", typ: c13Nullable(oAB), vals: []octosql.Value{null, st([]octosql.Value{I(1), S("x")})}},
		{name: "o2", kind: "Object", typ: c13Nullable(oBC), vals: []octosql.Value{null, st([]octosql.Value{S("y"), I(2)})}},
		{name: "o3", kind: "Object", typ: oBC, vals: []octosql.Value{st([]octosql.Value{S("z"), I(3)})}},
		{name: "t1", kind: "Tuple", typ: c13Nullable(c13TupleT(octosql.Int, octosql.String)), vals: []octosql.Value{null, tu([]octosql.Value{I(1), S("p")})}},
		{name: "t2", kind: "Tuple", typ: c13TupleT(octosql.Int, octosql.String), vals: []octosql.Value{tu([]octosql.Value{I(2), S("q")})}},
		{name: "t3", kind: "Tuple", typ: c13Nullable(c13TupleT(octosql.Int, octosql.String, octosql.Int)), vals: []octosql.Value{null, tu([]octosql.Value{I(3), S("r"), I(4)})}},
		{name: "l1", kind: "List", typ: c13Nullable(c13ListT(oA)), vals: []octosql.Value{null, li([]octosql.Value{st([]octosql.Value{I(1)})}), li(nil)}},
		{name: "l2", kind: "List", typ: c13ListT(oB), vals: []octosql.Value{li([]octosql.Value{st([]octosql.Value{I(2)})})}},
		{name: "n1", kind: "Object", typ: c13Nullable(nA), vals: []octosql.Value{null, st([]octosql.Value{st([]octosql.Value{I(1)})})}},
		{name: "n2", kind: "Object", typ: nB, vals: []octosql.Value{st([]octosql.Value{st([]octosql.Value{I(2)})})}},
	}
}

func c13Alt(t octosql.Type, id octosql.TypeID) (octosql.Type, bool) {
	if t.TypeID == octosql.TypeIDUnion {
		for _, a := range t.Union.Alternatives {
			if a.TypeID == id {
				return a, true
			}
		}
		return octosql.Type{}, false
	}
	return t, t.TypeID == id
}

// c13Relayout: v (of declared type src) expressed in declared type dst: object fields matched by name, absent => NULL.
// ok=false: the expectation cannot be formed (types do not line up), the case is skipped.
func c13Relayout(v octosql.Value, src, dst octosql.Type) (octosql.Value, bool) {
	switch v.TypeID {
	case octosql.TypeIDStruct:
		s, ok1 := c13Alt(src, octosql.TypeIDStruct)
		d, ok2 := c13Alt(dst, octosql.TypeIDStruct)
		if !ok1 || !ok2 || len(s.Struct.Fields) != len(v.Struct) {
			return v, false
		}
		out := make([]octosql.Value, len(d.Struct.Fields))
		for i, f := range d.Struct.Fields {
			out[i] = octosql.NewNull()
			for j, sf := range s.Struct.Fields {
				if sf.Name == f.Name {
					x, ok := c13Relayout(v.Struct[j], sf.Type, f.Type)
					if !ok {
						return v, false
					}
					out[i] = x
				}
			}
		}
		return octosql.NewStruct(out), true
	case octosql.TypeIDList:
		s, ok1 := c13Alt(src, octosql.TypeIDList)
		d, ok2 := c13Alt(dst, octosql.TypeIDList)
		if !ok1 || !ok2 {
			return v, false
		}
		out := make([]octosql.Value, len(v.List))
		for i := range v.List {
			if s.List.Element == nil || d.List.Element == nil {
				return v, false
			}
			x, ok := c13Relayout(v.List[i], *s.List.Element, *d.List.Element)
			if !ok {
				return v, false
			}
			out[i] = x
		}
		return octosql.NewList(out), true
	case octosql.TypeIDTuple:
		s, ok1 := c13Alt(src, octosql.TypeIDTuple)
		d, ok2 := c13Alt(dst, octosql.TypeIDTuple)
		if !ok1 || !ok2 || len(s.Tuple.Elements) < len(v.Tuple) || len(d.Tuple.Elements) < len(v.Tuple) {
			return v, false
		}
		out := make([]octosql.Value, len(v.Tuple))
		for i := range v.Tuple {
			x, ok := c13Relayout(v.Tuple[i], s.Tuple.Elements[i], d.Tuple.Elements[i])
			if !ok {
				return v, false
			}
			out[i] = x
		}
		return octosql.NewTuple(out), true
	}
	return v, true
}

func c13Coalesce(r *findings.Run, fns map[string]physical.FunctionDetails, count func(string)) {
	pool := c13Pool()
	var combos [][]int
	enum.Sequences(len(pool), 3, func(seq []int) bool {
		for i := 0; i < len(seq)-1; i++ {
			if seq[i] == seq[len(seq)-1] {
				return false
			}
		}
		return true
	}, func(seq []int) {
		if len(seq) > 0 {
			combos = append(combos, append([]int{}, seq...))
		}
	})
	var built int64
	sort.SliceStable(combos, func(i, j int) bool { return len(combos[i]) < len(combos[j]) })
	// sequential and in shortlex order, so that the first (= recorded) failing case of a fingerprint is a smallest one
	for ci := range combos {
		seq := combos[ci]
		var fields []physical.SchemaField
		var largs []logical.Expression
		var names, kinds []string
		varIdx := make([]int, len(seq)) // index in the record, -1 for a literal
		for i, pi := range seq {
			it := pool[pi]
			names = append(names, it.name)
			kinds = append(kinds, it.kind)
			if it.literal {
				largs = append(largs, logical.NewConstant(octosql.NewNull()))
				varIdx[i] = -1
				continue
			}
			varIdx[i] = len(fields)
			fields = append(fields, physical.SchemaField{Name: it.name, Type: it.typ})
			largs = append(largs, logical.NewVariable(it.name))
		}
		exprStr := "COALESCE(" + strings.Join(names, ", ") + ")"
		// kinds involved, for fingerprints (sorted, unique)
		ks := map[string]bool{}
		for _, k := range kinds {
			if k != "NULL" {
				ks[k] = true
			}
		}
		var kl []string
		for k := range ks {
			kl = append(kl, k)
		}
		sort.Strings(kl)
		lab := c13NewLab(fns, fields)
		p, e, rej, mf := lab.build(logical.NewCoalesce(largs))
		if rej != "" {
			count("rejected/coalesce")
			continue
		}
		if mf != "" {
			cause := "materialize-error"
			if strings.HasPrefix(mf, "panic") {
				cause = "materialize-panic"
			}
			detail := ""
			lens := map[int]bool{}
			for _, pi := range seq {
				if t, ok := c13Alt(pool[pi].typ, octosql.TypeIDTuple); ok && !pool[pi].literal {
					lens[len(t.Tuple.Elements)] = true
				}
			}
			if len(lens) > 1 {
				detail = ":tuples-of-different-length"
			}
			fpKinds := strings.Join(kl, ",")
			if detail != "" {
				fpKinds = "Tuple,Tuple" // the other arguments do not matter for this cause
			}
			r.Violation(fmt.Sprintf("C13/coalesce(%s)/%s%s", fpKinds, cause, detail),
				fmt.Sprintf("%s with argument types (%s) typechecks (declared type %s) but cannot be materialized: %s", exprStr, c13TypesOf(pool, seq), p.Type, mf),
				c13Case{Expr: exprStr, Args: []string{c13TypesOf(pool, seq)}, Declared: p.Type.String(), Got: mf})
			count("violation")
			continue
		}
		atomic.AddInt64(&built, 1)
		sizes := make([]int, len(seq))
		for i, pi := range seq {
			sizes[i] = len(pool[pi].vals)
		}
		enum.Product(sizes, func(idx []int) bool {
			vals := make([]octosql.Value, len(fields))
			shown := make([]octosql.Value, len(seq))
			first := -1
			for i, pi := range seq {
				v := pool[pi].vals[idx[i]]
				shown[i] = v
				if varIdx[i] >= 0 {
					vals[varIdx[i]] = v
				}
				if first < 0 && v.TypeID != octosql.TypeIDNull {
					first = i
				}
			}
			var verdict c13Verdict
			sig := "coalesce(NULL)"
			if first < 0 {
				verdict = c13Want(octosql.NewNull())
			} else {
				sig = "coalesce(" + pool[seq[first]].kind + ")"
				want, ok := c13Relayout(shown[first], pool[seq[first]].typ, p.Type)
				if !ok {
					verdict = c13Skip("coalesce-declared-type-does-not-line-up")
				} else if dt, isT := c13Alt(p.Type, octosql.TypeIDTuple); isT && want.TypeID == octosql.TypeIDTuple && len(dt.Tuple.Elements) > len(want.Tuple) {
					// the declared tuple type is longer than the chosen argument: the statement does not say whether the
					// value keeps its length or is padded with NULLs to the declared length; both are accepted
					padded := append(append([]octosql.Value{}, want.Tuple...), make([]octosql.Value, len(dt.Tuple.Elements)-len(want.Tuple))...)
					wantPadded := octosql.NewTuple(padded)
					verdict = c13Verdict{Pred: func(got octosql.Value) (string, string) {
						if c13Same(got, want, 0) || c13Same(got, wantPadded, 0) {
							return "", ""
						}
						return "wrong-value", c13Str(want) + " (or padded with NULLs to the declared length)"
					}}
				} else {
					verdict = c13Want(want)
				}
			}
			got := c13Judge(r, sig, exprStr, e, vals, shown, verdict)
			if strings.HasPrefix(got, "ok/") {
				r.Nontrivial(exprStr + " " + c13Strs(shown))
				if first < 0 {
					got = "ok/all-NULL"
				} else if first == 0 {
					got = "ok/first-argument"
				} else {
					got = "ok/later-argument"
				}
				if first >= 0 && (shown[first].TypeID == octosql.TypeIDStruct || shown[first].TypeID == octosql.TypeIDList) && len(kl) == 1 && len(seq) == 2 && first == 1 && kinds[0] == kinds[1] && c13SampleOnce("coalesce/"+kinds[0]) {
					args := make([]string, len(shown))
					for i := range shown {
						args[i] = c13Str(shown[i]) + " declared " + pool[seq[i]].typ.String()
					}
					res, _, _ := c13Eval(e, vals)
					r.Sample(c13Case{Expr: exprStr, Args: args, Declared: p.Type.String(), Got: c13Str(res), Want: "the same"})
				}
			}
			count(got + " @coalesce")
			return true
		})
	}
	r.Extra["coalesce_expressions_built"] = built
	r.Extra["coalesce_expressions"] = len(combos)
}

func c13TypesOf(pool []c13PoolItem, seq []int) string {
	var out []string
	for _, pi := range seq {
		if pool[pi].literal {
			out = append(out, "NULL")
		} else {
			out = append(out, pool[pi].typ.String())
		}
	}
	return strings.Join(out, ", ")
}
