package props

// C10 — type algebra laws (octosql.Type: Is / Equals / TypeSum / TypeIntersection / NonNullable, Value.Type).
//
// Explicit-state closure: states are the types reachable from the start set by constructor applications
// (List(t), List(nil), Struct{a:t}, Struct{a:t,b:u}, Tuple(t), Tuple(t,u), TypeSum(t,u)), breadth first to a depth
// bound, deduplicated by a structural key written here (c10Key). Only types built this way are considered.
// The laws are evaluated on every state and on every pair of the stated pair set with the real functions.
//
// Fingerprints name the innermost structural reason found by a small blame walker (c10Blame, c10Conform):
//   C10/typesum/objects-with-different-fields-not-upper-bound   a.Is(TypeSum(a,b)) != Is because an object of a has another field set than the merged object
//   C10/typesum/tuples-of-different-length-not-upper-bound      same for tuples padded with NULL by TypeSum
//   C10/intersection/loop-variable-alias                        TypeIntersection(a,b) contains an input alternative that does not fit the other input
//   C10/value-type/object-fields-from-wrong-slice               Value.Type() of an object: all fields reported as unnamed NULL although the value's fields are not NULL
//   C10/<law>/<other blame>                                      anything else

import (
	"fmt"
	"sort"
	"strings"
	"sync"

	"github.com/cube2222/octosql/octosql"

	"verif/harness/internal/enum"
	"verif/harness/internal/findings"
)

type c10Case struct {
	Law  string `json:"law"`
	A    string `json:"a,omitempty"`
	B    string `json:"b,omitempty"`
	Got  string `json:"got"`
	Want string `json:"want"`
}

type c10State struct {
	t     octosql.Type
	key   string
	depth int
}

// c10Key: structural key of a type (independent of Type.String; keeps alternative and field order).
func c10Key(t octosql.Type) string {
	var b strings.Builder
	c10AppendKey(&b, t)
	return b.String()
}

func c10AppendKey(b *strings.Builder, t octosql.Type) {
	switch t.TypeID {
	case octosql.TypeIDList:
		if t.List.Element == nil {
			b.WriteString("[]")
			return
		}
		b.WriteString("[")
		c10AppendKey(b, *t.List.Element)
		b.WriteString("]")
	case octosql.TypeIDStruct:
		b.WriteString("{")
		for i, f := range t.Struct.Fields {
			if i > 0 {
				b.WriteString("; ")
			}
			b.WriteString(f.Name)
			b.WriteString(": ")
			c10AppendKey(b, f.Type)
		}
		b.WriteString("}")
	case octosql.TypeIDTuple:
		b.WriteString("(")
		for i, e := range t.Tuple.Elements {
			if i > 0 {
				b.WriteString(", ")
			}
			c10AppendKey(b, e)
		}
		b.WriteString(")")
	case octosql.TypeIDUnion:
		b.WriteString("<")
		for i, e := range t.Union.Alternatives {
			if i > 0 {
				b.WriteString(" | ")
			}
			c10AppendKey(b, e)
		}
		b.WriteString(">")
	default:
		b.WriteString(t.TypeID.String())
	}
}

func c10List(e *octosql.Type) octosql.Type {
	return octosql.Type{TypeID: octosql.TypeIDList, List: struct{ Element *octosql.Type }{Element: e}}
}

func c10Struct(fs ...octosql.StructField) octosql.Type {
	return octosql.Type{TypeID: octosql.TypeIDStruct, Struct: struct{ Fields []octosql.StructField }{Fields: fs}}
}

func c10Tuple(es ...octosql.Type) octosql.Type {
	return octosql.Type{TypeID: octosql.TypeIDTuple, Tuple: struct{ Elements []octosql.Type }{Elements: es}}
}

func c10SafeSum(a, b octosql.Type) (t octosql.Type, pan interface{}) {
	defer func() {
		if p := recover(); p != nil {
			pan = p
		}
	}()
	return octosql.TypeSum(a, b), nil
}

func c10SafeInter(a, b octosql.Type) (t *octosql.Type, pan interface{}) {
	defer func() {
		if p := recover(); p != nil {
			pan = p
		}
	}()
	return octosql.TypeIntersection(a, b), nil
}

func c10SafeIs(a, b octosql.Type) (rel octosql.TypeRelation, pan interface{}) {
	defer func() {
		if p := recover(); p != nil {
			pan = p
		}
	}()
	return a.Is(b), nil
}

func c10SafeNonNullable(a octosql.Type) (t octosql.Type, pan interface{}) {
	defer func() {
		if p := recover(); p != nil {
			pan = p
		}
	}()
	return octosql.NonNullable(a), nil
}

func c10SafeTypeOf(v octosql.Value) (t octosql.Type, pan interface{}) {
	defer func() {
		if p := recover(); p != nil {
			pan = p
		}
	}()
	return v.Type(), nil
}

func c10RelName(r octosql.TypeRelation) string {
	switch r {
	case octosql.TypeRelationIs:
		return "Is"
	case octosql.TypeRelationMaybe:
		return "Maybe"
	case octosql.TypeRelationIsnt:
		return "Isnt"
	}
	return fmt.Sprint(int(r))
}

// c10Blame: a.Is(s) is not Is; name the innermost structural reason (classification only, navigates with the real Is).
func c10Blame(a, s octosql.Type) string {
	is := func(x, y octosql.Type) bool { r, p := c10SafeIs(x, y); return p == nil && r == octosql.TypeRelationIs }
	if s.TypeID == octosql.TypeIDAny {
		return "not-is-any"
	}
	if a.TypeID == octosql.TypeIDUnion {
		for _, alt := range a.Union.Alternatives {
			if !is(alt, s) {
				return c10Blame(alt, s)
			}
		}
		return "union-whose-alternatives-all-fit"
	}
	if s.TypeID == octosql.TypeIDUnion {
		for _, alt := range s.Union.Alternatives {
			if alt.TypeID == a.TypeID {
				if is(a, alt) {
					return "fits-an-alternative-but-not-the-union"
				}
				return c10Blame(a, alt)
			}
		}
		return "alternative-missing:" + a.TypeID.String()
	}
	if a.TypeID != s.TypeID {
		return "typeid-mismatch"
	}
	switch a.TypeID {
	case octosql.TypeIDList:
		if a.List.Element == nil {
			return "empty-list-type"
		}
		if s.List.Element == nil {
			return "list-vs-empty-list-type"
		}
		if !is(*a.List.Element, *s.List.Element) {
			return c10Blame(*a.List.Element, *s.List.Element)
		}
		return "list-whose-element-fits"
	case octosql.TypeIDStruct:
		same := len(a.Struct.Fields) == len(s.Struct.Fields)
		for i := 0; same && i < len(a.Struct.Fields); i++ {
			same = a.Struct.Fields[i].Name == s.Struct.Fields[i].Name
		}
		if !same {
			return "objects-with-different-fields"
		}
		for i := range a.Struct.Fields {
			if !is(a.Struct.Fields[i].Type, s.Struct.Fields[i].Type) {
				return c10Blame(a.Struct.Fields[i].Type, s.Struct.Fields[i].Type)
			}
		}
		return "object-whose-fields-all-fit"
	case octosql.TypeIDTuple:
		if len(a.Tuple.Elements) != len(s.Tuple.Elements) {
			return "tuples-of-different-length"
		}
		for i := range a.Tuple.Elements {
			if !is(a.Tuple.Elements[i], s.Tuple.Elements[i]) {
				return c10Blame(a.Tuple.Elements[i], s.Tuple.Elements[i])
			}
		}
		return "tuple-whose-elements-all-fit"
	}
	return "same-primitive:" + a.TypeID.String()
}

// c10Prims: the non-union alternatives of a type (own walker).
func c10Prims(t octosql.Type) []octosql.Type {
	if t.TypeID != octosql.TypeIDUnion {
		return []octosql.Type{t}
	}
	var out []octosql.Type
	for _, a := range t.Union.Alternatives {
		out = append(out, c10Prims(a)...)
	}
	return out
}

// ---- value / type conformance (own predicate) ----

const (
	c10Conforms = iota
	c10DoesNot
	c10Ambiguous
)

// c10Conform: does value v belong to type t? Third result: ambiguous shape (skipped).
// Object field names are not checked (values carry no names). reason names the innermost mismatch.
func c10Conform(v octosql.Value, t octosql.Type) (int, string) {
	if t.TypeID == octosql.TypeIDAny {
		return c10Conforms, ""
	}
	if t.TypeID == octosql.TypeIDUnion {
		amb := false
		reason := "no-alternative:" + v.TypeID.String()
		for _, alt := range t.Union.Alternatives {
			res, why := c10Conform(v, alt)
			if res == c10Conforms {
				return c10Conforms, ""
			}
			if res == c10Ambiguous {
				amb = true
			}
			if alt.TypeID == v.TypeID {
				reason = why
			}
		}
		if amb {
			return c10Ambiguous, ""
		}
		return c10DoesNot, reason
	}
	if v.TypeID != t.TypeID {
		return c10DoesNot, "typeid-mismatch"
	}
	all := func(vs []octosql.Value, ts func(i int) octosql.Type) (int, string) {
		amb := false
		for i := range vs {
			res, why := c10Conform(vs[i], ts(i))
			if res == c10DoesNot {
				return res, why
			}
			if res == c10Ambiguous {
				amb = true
			}
		}
		if amb {
			return c10Ambiguous, ""
		}
		return c10Conforms, ""
	}
	switch v.TypeID {
	case octosql.TypeIDList:
		if len(v.List) == 0 {
			return c10Conforms, ""
		}
		if t.List.Element == nil {
			return c10DoesNot, "non-empty-list-in-empty-list-type"
		}
		return all(v.List, func(int) octosql.Type { return *t.List.Element })
	case octosql.TypeIDStruct:
		if len(v.Struct) != len(t.Struct.Fields) {
			return c10DoesNot, "object-field-count"
		}
		res, why := all(v.Struct, func(i int) octosql.Type { return t.Struct.Fields[i].Type })
		if res == c10DoesNot {
			allZero, anyNonNull := true, false
			for i, f := range t.Struct.Fields {
				allZero = allZero && f.Name == "" && f.Type.TypeID == octosql.TypeIDNull
				anyNonNull = anyNonNull || v.Struct[i].TypeID != octosql.TypeIDNull
			}
			if allZero && anyNonNull {
				return res, "object-fields-from-wrong-slice"
			}
		}
		return res, why
	case octosql.TypeIDTuple:
		if len(v.Tuple) > len(t.Tuple.Elements) {
			return c10DoesNot, "tuple-longer-than-type"
		}
		if len(v.Tuple) < len(t.Tuple.Elements) {
			// TypeSum pads the shorter tuple type with NULL; whether a shorter value belongs to the padded type is
			// not defined anywhere: skipped (the type-level law a.Is(TypeSum(a,b)) judges that construction).
			return c10Ambiguous, ""
		}
		return all(v.Tuple, func(i int) octosql.Type { return t.Tuple.Elements[i] })
	}
	return c10Conforms, ""
}

// c10ValueAmbiguous: v (deep) contains a list with two object-containing elements of different reported types.
// Value.Type() merges those with TypeSum, which matches object fields by name, and values have no field names
// (documented TODO in values.go): the expected type is not defined.
func c10ValueAmbiguous(v octosql.Value) bool {
	var hasObject func(x octosql.Value) bool
	hasObject = func(x octosql.Value) bool {
		if x.TypeID == octosql.TypeIDStruct {
			return true
		}
		for _, c := range c09Children(x) {
			if hasObject(c) {
				return true
			}
		}
		return false
	}
	if v.TypeID == octosql.TypeIDList {
		keys := map[string]bool{}
		for _, e := range v.List {
			if hasObject(e) {
				keys[c09TypeShape(e)] = true
			}
		}
		if len(keys) > 1 {
			return true
		}
	}
	for _, c := range c09Children(v) {
		if c10ValueAmbiguous(c) {
			return true
		}
	}
	return false
}

// c09TypeShape: shape of a value by TypeIDs (own walker, no Value.Type).
func c09TypeShape(v octosql.Value) string {
	cs := c09Children(v)
	if !c09IsContainer(v) {
		return v.TypeID.String()
	}
	parts := make([]string, len(cs))
	for i, c := range cs {
		parts[i] = c09TypeShape(c)
	}
	return v.TypeID.String() + "(" + strings.Join(parts, ",") + ")"
}

type c10Agg struct {
	mu       sync.Mutex
	totals   map[string]int64
	outcomes map[string]int64
}

type c10Local struct {
	cnt      map[string]int64
	first    map[string]func() (string, c10Case)
	outcomes map[string]int64
	laws     int64
}

func newC10Local() *c10Local {
	return &c10Local{cnt: map[string]int64{}, first: map[string]func() (string, c10Case){}, outcomes: map[string]int64{}}
}

func (l *c10Local) hit(fp string, mk func() (string, c10Case)) {
	if l.cnt[fp] == 0 {
		l.first[fp] = mk
	}
	l.cnt[fp]++
}

func (a *c10Agg) flush(r *findings.Run, l *c10Local) {
	fps := make([]string, 0, len(l.cnt))
	for fp := range l.cnt {
		fps = append(fps, fp)
	}
	sort.Strings(fps)
	for _, fp := range fps {
		what, cs := l.first[fp]()
		r.Violation(fp, what, cs)
	}
	a.mu.Lock()
	for fp, n := range l.cnt {
		a.totals[fp] += n
	}
	for c, n := range l.outcomes {
		a.outcomes[c] += n
	}
	a.mu.Unlock()
	for c := range l.outcomes {
		if !strings.HasPrefix(c, "_") {
			r.Outcome(c)
		}
	}
	r.AddCounts(0, 0, l.laws)
}

func init() {
	register("C10", "model_checking", func(r *findings.Run) {
		depth := r.Pick(2, 3)
		start := []octosql.Type{octosql.Null, octosql.Int, octosql.Float, octosql.Boolean, octosql.String, octosql.Time, octosql.Duration}
		if r.Thorough() {
			start = append(start, octosql.Any)
		}
		// partner bound: binary constructors at level d combine a frontier state (depth d-1) with any state of depth <= partnerDepth[d].
		// Levels 1 and 2 are the full closure. Level 3 (thorough) would have ~10^10 states in full; it is restricted to the
		// unary constructors and TypeSum(t, NULL) / TypeSum(NULL, t) (the nullable variant of every depth-2 type).
		partnerDepth := map[int]int{1: 0, 2: 1}
		level3 := "List(t), Struct{a:t}, Tuple(t), TypeSum(t,Null), TypeSum(Null,t) for every state t of depth 2"
		// pair laws are evaluated on {states of depth <= pairA} x {states of depth <= pairB} (unordered pairs, both argument orders)
		pairA, pairB := 1, depth

		agg := &c10Agg{totals: map[string]int64{}, outcomes: map[string]int64{}}
		var states []c10State
		index := map[string]int{}
		var transitions int64
		add := func(t octosql.Type, d int) {
			transitions++
			k := c10Key(t)
			if _, ok := index[k]; ok {
				return
			}
			index[k] = len(states)
			states = append(states, c10State{t: t, key: k, depth: d})
		}
		for _, t := range start {
			add(t, 0)
		}
		transitions = 0
		bfsLocal := newC10Local()
		for d := 1; d <= depth; d++ {
			var frontier, partners []int
			for i, s := range states {
				if s.depth == d-1 {
					frontier = append(frontier, i)
				}
				if s.depth <= partnerDepth[d] {
					partners = append(partners, i)
				}
			}
			if d == 1 {
				add(c10List(nil), d)
			}
			for _, fi := range frontier {
				t := states[fi].t
				tt := t
				add(c10List(&tt), d)
				add(c10Struct(octosql.StructField{Name: "a", Type: t}), d)
				add(c10Tuple(t), d)
				if d >= 3 {
					for _, p := range [][2]octosql.Type{{t, octosql.Null}, {octosql.Null, t}} {
						if s, pan := c10SafeSum(p[0], p[1]); pan == nil {
							add(s, d)
						}
					}
					continue
				}
				for _, pi := range partners {
					u := states[pi].t
					orders := [][2]octosql.Type{{t, u}, {u, t}}
					if pi == fi {
						orders = orders[:1]
					}
					for _, p := range orders {
						add(c10Struct(octosql.StructField{Name: "a", Type: p[0]}, octosql.StructField{Name: "b", Type: p[1]}), d)
						add(c10Tuple(p[0], p[1]), d)
						s, pan := c10SafeSum(p[0], p[1])
						if pan != nil {
							a, b := p[0], p[1]
							bfsLocal.hit("C10/panic@TypeSum", func() (string, c10Case) {
								return fmt.Sprintf("TypeSum(%s, %s) panics: %v", c10Key(a), c10Key(b), pan), c10Case{Law: "no panic", A: c10Key(a), B: c10Key(b), Got: fmt.Sprint(pan)}
							})
							continue
						}
						add(s, d)
					}
				}
			}
		}
		agg.flush(r, bfsLocal)
		n := len(states)
		byDepth := map[int]int{}
		for _, s := range states {
			byDepth[s.depth]++
			if s.depth > 0 {
				r.Nontrivial(s.key)
			}
		}

		r.Rule = "explicit-state closure of types: start set {Null,Int,Float,Boolean,String,Time,Duration} (+Any thorough); transitions List(t), List(nil), Struct{a:t}, Struct{a:t,b:u}, Tuple(t), Tuple(t,u), TypeSum(t,u) (real TypeSum; both argument orders); breadth first, level d applies the constructors to every state t first reached at level d-1, binary ones with every partner u of depth <= partner_depth[d] (levels 1 and 2: the full closure; level 3, thorough only: unary constructors and TypeSum with NULL only); states deduplicated by a structural key; " +
			"state laws on EVERY state: t.Is(t)=Is, TypeSum(t,t) Equals t, NonNullable; pair laws on EVERY unordered pair {a,b} with a of depth <= pair_a and b of depth <= pair_b, both argument orders: a.Is(TypeSum(a,b))=Is and b likewise, TypeSum(a,b) Equals TypeSum(b,a), TypeIntersection(a,b) nil or Is a and Is b; " +
			"value law on every value v of the C09 universe: conforms(v, v.Type()) with a conformance predicate written in the check. non-trivial = state built by at least one constructor application"
		r.Bound = map[string]interface{}{"depth": depth, "start": len(start), "partner_depth": partnerDepth, "level3_constructors": level3, "pair_a_depth": pairA, "pair_b_depth": pairB, "states_by_depth": byDepth}
		r.Assume(
			"type equality in the laws ('up to Equals') is the code's own Type.Equals (mutual Is), as in the statement",
			"only types produced by the constructors/TypeSum are states; hand-built unions (nested, duplicate TypeIDs, single alternative) are outside the contract",
			"NonNullable: judged on every state and on every rotation of a union state's alternatives (hand-built unions do not keep NULL first) except Null itself (documented to return Null) and Any (NULL is part of Any, removing it is not expressible); for a state t: NULL must not be Is/Maybe NonNullable(t) at top level, every non-NULL top-level alternative of t must be Is NonNullable(t), NonNullable(t) must be Is t, and t without a top-level NULL alternative must be returned Equal; nested nullability (e.g. [Int|NULL]) is left alone",
			"TypeIntersection: only containment is judged (nil is always accepted); completeness is not in the statement",
			"value/type conformance: object field names are not compared (values carry no names); a tuple value shorter than a NULL-padded tuple type is skipped as undefined; values containing a list with two differently shaped object-containing elements are skipped (Value.Type merges object types by field name, which values do not have)",
		)

		// ---- state laws ----
		isRel := func(a, b octosql.Type, l *c10Local) octosql.TypeRelation {
			l.laws++
			rel, pan := c10SafeIs(a, b)
			if pan != nil {
				l.hit("C10/panic@Is", func() (string, c10Case) {
					return fmt.Sprintf("%s.Is(%s) panics: %v", c10Key(a), c10Key(b), pan), c10Case{Law: "no panic", A: c10Key(a), B: c10Key(b), Got: fmt.Sprint(pan)}
				})
				return octosql.TypeRelationIsnt
			}
			return rel
		}
		equals := func(a, b octosql.Type, l *c10Local) bool {
			return isRel(a, b, l) == octosql.TypeRelationIs && isRel(b, a, l) == octosql.TypeRelationIs
		}
		enum.Parallel(n, func(i int) {
			l := newC10Local()
			t := states[i].t
			key := states[i].key
			if rel := isRel(t, t, l); rel != octosql.TypeRelationIs {
				l.hit("C10/is/not-reflexive/"+c10Blame(t, t), func() (string, c10Case) {
					return fmt.Sprintf("t.Is(t) = %s for t = %s", c10RelName(rel), key), c10Case{Law: "reflexive", A: key, Got: c10RelName(rel), Want: "Is"}
				})
			}
			if s, pan := c10SafeSum(t, t); pan == nil && !equals(s, t, l) {
				l.hit("C10/typesum/not-idempotent:"+t.TypeID.String(), func() (string, c10Case) {
					return fmt.Sprintf("TypeSum(t,t) = %s is not Equal to t = %s", c10Key(s), key), c10Case{Law: "idempotent", A: key, Got: c10Key(s), Want: key}
				})
			}
			// NonNullable: on the state itself and, for a union, on every rotation of its alternatives (the typechecker
			// also builds unions by hand, e.g. {object} | NULL in logical.TypecheckPossiblyNullableStruct, so NULL is
			// not always the first alternative)
			for vi, t := range c10Orderings(t) {
				if t.TypeID == octosql.TypeIDNull || t.TypeID == octosql.TypeIDAny {
					continue
				}
				key := key
				if vi > 0 {
					key = c10KeyOrdered(t) + " (alternatives in this order)"
				}
				nn, pan := c10SafeNonNullable(t)
				if pan != nil {
					l.hit("C10/panic@NonNullable", func() (string, c10Case) {
						return fmt.Sprintf("NonNullable(%s) panics: %v", key, pan), c10Case{Law: "no panic", A: key, Got: fmt.Sprint(pan)}
					})
				} else {
					nk := c10Key(nn)
					bad := func(kind, got, want string) {
						l.hit("C10/nonnullable/"+kind+":"+t.TypeID.String(), func() (string, c10Case) {
							return fmt.Sprintf("NonNullable(%s) = %s: %s, expected %s", key, nk, got, want), c10Case{Law: "NonNullable " + kind, A: key, Got: got, Want: want}
						})
					}
					hasNull := false
					alts := []octosql.Type{t}
					if t.TypeID == octosql.TypeIDUnion {
						alts = t.Union.Alternatives
					}
					for _, alt := range alts {
						if alt.TypeID == octosql.TypeIDNull {
							hasNull = true
							continue
						}
						if rel := isRel(alt, nn, l); rel != octosql.TypeRelationIs {
							bad("drops-non-null-alternative", c10Key(alt)+".Is(result) = "+c10RelName(rel), "Is")
						}
					}
					if rel := isRel(octosql.Null, nn, l); rel != octosql.TypeRelationIsnt {
						bad("keeps-null", "NULL.Is(result) = "+c10RelName(rel), "Isnt")
					}
					if rel := isRel(nn, t, l); rel != octosql.TypeRelationIs {
						bad("adds-something", "result.Is(t) = "+c10RelName(rel), "Is")
					}
					if !hasNull && !equals(nn, t, l) {
						bad("changes-non-nullable-type", "result not Equal to t", "Equal")
					}
					if hasNull {
						l.outcomes["nonnullable/removed-null"]++
					} else {
						l.outcomes["nonnullable/unchanged"]++
					}
				}
			}
			agg.flush(r, l)
		})

		// ---- pair laws ----
		var setA, setB []int
		for i, s := range states {
			if s.depth <= pairA {
				setA = append(setA, i)
			}
			if s.depth <= pairB {
				setB = append(setB, i)
			}
		}
		inA := make([]bool, n)
		for _, i := range setA {
			inA[i] = true
		}
		var pairCount int64
		var pmu sync.Mutex
		enum.Parallel(len(setA), func(ai int) {
			l := newC10Local()
			i := setA[ai]
			a := states[i].t
			ak := states[i].key
			var np int64
			for _, j := range setB {
				if inA[j] && j < i {
					continue // unordered pair already taken from the other side
				}
				b := states[j].t
				bk := states[j].key
				np++
				relAB, relBA := isRel(a, b, l), isRel(b, a, l)
				cls := "disjoint"
				switch {
				case relAB == octosql.TypeRelationIs && relBA == octosql.TypeRelationIs:
					cls = "equal"
				case relAB == octosql.TypeRelationIs:
					cls = "a-is-b"
				case relBA == octosql.TypeRelationIs:
					cls = "b-is-a"
				case relAB == octosql.TypeRelationMaybe || relBA == octosql.TypeRelationMaybe:
					cls = "maybe"
				}
				// TypeSum: upper bound, commutative
				s1, pan1 := c10SafeSum(a, b)
				s2, pan2 := c10SafeSum(b, a)
				if pan1 != nil || pan2 != nil {
					l.hit("C10/panic@TypeSum", func() (string, c10Case) {
						return fmt.Sprintf("TypeSum(%s, %s) panics: %v %v", ak, bk, pan1, pan2), c10Case{Law: "no panic", A: ak, B: bk, Got: fmt.Sprint(pan1, pan2)}
					})
				} else {
					cls += "/sum=" + s1.TypeID.String()
					for _, c := range [][3]interface{}{{a, s1, "TypeSum(a,b)"}, {b, s1, "TypeSum(a,b)"}, {a, s2, "TypeSum(b,a)"}, {b, s2, "TypeSum(b,a)"}} {
						x, s, name := c[0].(octosql.Type), c[1].(octosql.Type), c[2].(string)
						if rel := isRel(x, s, l); rel != octosql.TypeRelationIs {
							blame := c10Blame(x, s)
							l.hit("C10/typesum/"+blame+"-not-upper-bound", func() (string, c10Case) {
								return fmt.Sprintf("a = %s, b = %s: %s = %s, but %s.Is(it) = %s (%s)", ak, bk, name, c10Key(s), c10Key(x), c10RelName(rel), blame),
									c10Case{Law: "TypeSum is an upper bound", A: ak, B: bk, Got: c10Key(s) + ": " + c10RelName(rel), Want: "Is"}
							})
						}
					}
					if !equals(s1, s2, l) {
						blame := ""
						if r1, _ := c10SafeIs(s1, s2); r1 != octosql.TypeRelationIs {
							blame = c10Blame(s1, s2)
						} else {
							blame = c10Blame(s2, s1)
						}
						l.hit("C10/typesum/not-commutative/"+blame, func() (string, c10Case) {
							return fmt.Sprintf("TypeSum(a,b) = %s is not Equal to TypeSum(b,a) = %s for a = %s, b = %s", c10Key(s1), c10Key(s2), ak, bk),
								c10Case{Law: "TypeSum commutative", A: ak, B: bk, Got: c10Key(s1) + " vs " + c10Key(s2), Want: "Equal"}
						})
					}
				}
				// TypeIntersection: nil or contained in both
				interCls := ""
				for _, o := range [][2]octosql.Type{{a, b}, {b, a}} {
					x, y := o[0], o[1]
					it, pan := c10SafeInter(x, y)
					if pan != nil {
						l.hit("C10/panic@TypeIntersection", func() (string, c10Case) {
							return fmt.Sprintf("TypeIntersection(%s, %s) panics: %v", c10Key(x), c10Key(y), pan), c10Case{Law: "no panic", A: c10Key(x), B: c10Key(y), Got: fmt.Sprint(pan)}
						})
						continue
					}
					if it == nil {
						interCls += "/int=nil"
						continue
					}
					interCls += "/int=" + it.TypeID.String()
					for _, side := range []octosql.Type{x, y} {
						rel := isRel(*it, side, l)
						if rel == octosql.TypeRelationIs {
							continue
						}
						// classify: does the result contain an input alternative that does not fit the other input?
						inputKeys := map[string]bool{}
						for _, p := range append(c10Prims(x), c10Prims(y)...) {
							inputKeys[c10Key(p)] = true
						}
						fp := "C10/intersection/not-contained/" + c10Blame(*it, side)
						for _, p := range c10Prims(*it) {
							r1, _ := c10SafeIs(p, x)
							r2, _ := c10SafeIs(p, y)
							if inputKeys[c10Key(p)] && (r1 != octosql.TypeRelationIs || r2 != octosql.TypeRelationIs) {
								fp = "C10/intersection/loop-variable-alias"
							}
						}
						itv, side := *it, side
						l.hit(fp, func() (string, c10Case) {
							return fmt.Sprintf("TypeIntersection(%s, %s) = %s, which .Is(%s) = %s", c10Key(x), c10Key(y), c10Key(itv), c10Key(side), c10RelName(rel)),
								c10Case{Law: "TypeIntersection contained in both", A: c10Key(x), B: c10Key(y), Got: c10Key(itv) + ": " + c10RelName(rel) + " " + c10Key(side), Want: "nil or Is both"}
						})
						break
					}
				}
				l.outcomes[cls+interCls]++
				if cls[:4] == "disj" || cls[:4] == "mayb" {
					l.outcomes["_incomparable"]++
				}
				if (i*31+j*17)%97 == 0 && states[i].depth > 0 && states[j].depth > 0 && pan1 == nil && cls[:4] != "disj" && r.NeedSample() {
					r.Sample(map[string]interface{}{"a": ak, "b": bk, "a_is_b": c10RelName(relAB), "b_is_a": c10RelName(relBA), "sum": c10Key(s1), "class": cls + interCls})
				}
			}
			agg.flush(r, l)
			pmu.Lock()
			pairCount += np
			pmu.Unlock()
		})

		// ---- values: conforms(v, v.Type()) ----
		U := c09Universe(r.Thorough())
		vl := newC10Local()
		var judged, skipped int64
		for _, v := range U {
			v := v
			vs := c09Str(v)
			t, pan := c10SafeTypeOf(v)
			vl.laws++
			if pan != nil {
				vl.hit("C10/panic@Value.Type:"+v.TypeID.String(), func() (string, c10Case) {
					return fmt.Sprintf("(%s).Type() panics: %v", vs, pan), c10Case{Law: "no panic", A: vs, Got: fmt.Sprint(pan)}
				})
				continue
			}
			if c10ValueAmbiguous(v) {
				skipped++
				vl.outcomes["value-type/skipped-ambiguous"]++
				continue
			}
			res, why := c10Conform(v, t)
			switch res {
			case c10Ambiguous:
				skipped++
				vl.outcomes["value-type/skipped-ambiguous"]++
			case c10Conforms:
				judged++
				vl.outcomes["value-type/conforms:"+v.TypeID.String()]++
			case c10DoesNot:
				judged++
				vl.outcomes["value-type/does-not-conform:"+v.TypeID.String()]++
				tk := c10Key(t)
				vl.hit("C10/value-type/"+why, func() (string, c10Case) {
					return fmt.Sprintf("value %s reports Type() = %s, which it does not belong to (%s)", vs, tk, why), c10Case{Law: "value conforms to its own type", A: vs, Got: tk, Want: "a type containing the value"}
				})
			}
		}
		agg.flush(r, vl)

		r.AddCounts(int64(n), transitions, 0)
		r.Eval(int64(n) + pairCount + int64(len(U)))
		r.Extra["incomparable_pairs"] = agg.outcomes["_incomparable"]
		delete(agg.outcomes, "_incomparable")
		r.Extra["pairs_checked"] = pairCount
		r.Extra["values_judged"] = judged
		r.Extra["values_skipped_ambiguous"] = skipped
		r.Extra["violating_cases"] = agg.totals
		r.Extra["outcome_totals"] = agg.outcomes
		r.Extra["violation_count_meaning"] = "the count of a VIOLATION line is the number of tasks (first state of a pair, state, value pass) with at least one failing case; exact numbers of failing law instances per fingerprint are in violating_cases"
	})
}
