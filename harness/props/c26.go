package props

// C26 — the plugin protocol carries data and predicates without change.
//
// Part 1 (wire): values, types, schemas, records, metadata messages and variable contexts through the real
//   native -> proto -> proto.Marshal -> proto.Unmarshal -> native conversions (hook H5, plugins/verif_export.go).
// Part 2 (predicates): every function overload the typechecker can choose, through the JSON hop and the real
//   RepopulatePhysicalExpressionFunctions, evaluated on both sides.
// Part 3 (end to end): a real plugin binary (cmd/testplugin) behind the real octosql binary.

import (
	"context"
	"encoding/json"
	"fmt"
	"io"
	"log"
	"math"
	"os"
	"os/exec"
	"path/filepath"
	"reflect"
	"sort"
	"strings"
	"sync"
	"sync/atomic"
	"time"
	"unicode/utf8"

	"github.com/cube2222/octosql/execution"
	"github.com/cube2222/octosql/functions"
	"github.com/cube2222/octosql/logical"
	"github.com/cube2222/octosql/octosql"
	"github.com/cube2222/octosql/physical"
	octoplugins "github.com/cube2222/octosql/plugins"

	"verif/harness/internal/enum"
	"verif/harness/internal/findings"
	"verif/harness/internal/refsql"
	"verif/harness/internal/runner"
)

type c26Case struct {
	Part   string   `json:"part"`
	Input  string   `json:"input"`
	Args   []string `json:"args,omitempty"`
	Got    string   `json:"got,omitempty"`
	Want   string   `json:"want,omitempty"`
	Detail string   `json:"detail,omitempty"`
}

func init() {
	register("C26", "exploration", func(r *findings.Run) {
		oldLog := log.Writer()
		log.SetOutput(io.Discard) // parse_time and RepopulatePhysicalExpressionFunctions log through the std logger
		defer log.SetOutput(oldLog)

		r.Rule = "(1) WIRE: every value of the C09 universe (+ extreme ints/durations/times, non-ASCII strings), every type state of a C10-style closure " +
			"(start {Null,Int,Float,Boolean,String,Time,Duration,Any}; List(nil), List(t), Struct{a:t}, Struct{a:t,b:u}, Tuple(t), Tuple(t,u), TypeSum(t,u); depth 2), " +
			"schemas over every type state (time field -1/0, no_retractions f/t) and 3-field windows, records {every universe value; 3-value windows} x 5(8) event times x retraction flag, " +
			"watermark messages over the same times, execution/physical variable contexts (every chain of <=3 frames over a 7-frame pool; every value/type at depth 1 and 3) " +
			"through native->proto->proto.Marshal->proto.Unmarshal->native inside the gRPC message that carries them; out must equal in. " +
			"(2) PREDICATES: for every function of FunctionMap(), every tuple of argument types from an 18-type pool (arity of its descriptors, 1..3 for TypeFn descriptors) that the real typechecker accepts, " +
			"as variables (all value combinations from 1-4 values per type) and as SQL-expressible constants (quick: first two values per type), plain and wrapped in AND/OR/COALESCE/tuple/type assertion/object field access/nested call (quick: the first two accepted type tuples of every descriptor; thorough: all): " +
			"typecheck -> (a) Materialize+Evaluate, (b) json.Marshal -> json.Unmarshal -> RepopulatePhysicalExpressionFunctions -> Materialize+Evaluate; (a) must equal (b). " +
			"(3) END TO END: the C01 predicate/projection families + GROUP BY family over the 48-row C01 domain table, and a family over a table with list/object/time columns, " +
			"run by the real octosql binary against mydb.<table> (test plugin built on plugins.Run, accepts every pushed-down predicate and filters inside the plugin) and natively against the same JSON file; " +
			"row multisets and success/failure must agree. non-trivial = wire: non-scalar or non-zero input; predicate: native result is a non-NULL value; e2e: native result non-empty and smaller than the table"
		r.Assume(
			"equality of values is Compare()==0 plus identical TypeID at every nesting level (statement: 'equal'); a time may come out in another *time.Location (same instant) - counted, not judged",
			"a zero event time / watermark must stay zero (IsZero) because the zero event time means 'no event time'",
			"a string that is not valid UTF-8 is refused loudly by proto.Marshal (proto3 string field): a loud refusal is not a silent change, counted as an outcome, not judged",
			"predicates octosql refuses on both sides (typecheck rejection, both evaluations fail or panic) are agreement",
			"now() is not deterministic: only success and result TypeID are compared",
			"predicate constants are restricted to values with a SQL literal (NULL, Int, finite Float, Boolean, String, INTERVAL, tuples of these); all other argument values are supplied as variables",
			"evaluating the hopped predicate over variables that themselves crossed the wire may differ only where a function shows a time's location (location is not carried): counted, not judged",
			"e2e: time strings in the two outputs are compared as instants; row order is ignored (no ORDER BY)",
		)
		// VERIF_C26_PARTS=wire,pred,e2e restricts a debugging run to some parts (evidence then says exhaustive:false)
		parts := os.Getenv("VERIF_C26_PARTS")
		on := func(p string) bool {
			if parts == "" {
				return true
			}
			r.Exhaustive = false
			return strings.Contains(parts, p)
		}
		t0 := time.Now()
		if on("wire") {
			c26Wire(r)
		}
		t1 := time.Now()
		if on("pred") {
			c26Predicates(r)
		}
		t2 := time.Now()
		if on("e2e") {
			c26EndToEnd(r)
		}
		r.Extra["part_wall_s"] = map[string]float64{"wire": t1.Sub(t0).Seconds(), "predicates": t2.Sub(t1).Seconds(), "end_to_end_incl_builds": time.Since(t2).Seconds()}
		r.Bound = map[string]interface{}{"wire": r.Extra["wire_bound"], "predicates": r.Extra["predicate_bound"], "end_to_end": r.Extra["e2e_bound"]}
		delete(r.Extra, "wire_bound")
		delete(r.Extra, "predicate_bound")
		delete(r.Extra, "e2e_bound")
	})
}

// ---------------------------------------------------------------- helpers

func c26Safe(f func() error) (err error, pan interface{}) {
	defer func() {
		if p := recover(); p != nil {
			pan = p
		}
	}()
	return f(), nil
}

func c26HasInvalidUTF8(v octosql.Value) bool {
	if v.TypeID == octosql.TypeIDString {
		return !utf8.ValidString(v.Str)
	}
	for _, c := range c09Children(v) {
		if c26HasInvalidUTF8(c) {
			return true
		}
	}
	return false
}

// c26ValueDiff: the statement's oracle. "" = out equals in: identical TypeID at every level, equal length of
// containers, leaves equal by the code's own Compare. kind = TypeID name of the node that differs.
func c26ValueDiff(in, out octosql.Value) (kind, what string) {
	if in.TypeID != out.TypeID {
		return in.TypeID.String(), "typeid-becomes-" + out.TypeID.String()
	}
	var a, b []octosql.Value
	switch in.TypeID {
	case octosql.TypeIDList:
		a, b = in.List, out.List
	case octosql.TypeIDStruct:
		a, b = in.Struct, out.Struct
	case octosql.TypeIDTuple:
		a, b = in.Tuple, out.Tuple
	default:
		c, pan := c09SafeCompare(in, out)
		if pan != nil {
			return in.TypeID.String(), "compare-panics"
		}
		if c != 0 {
			return in.TypeID.String(), "not-equal-by-compare"
		}
		return "", ""
	}
	if len(a) != len(b) {
		return in.TypeID.String(), "length-changed"
	}
	for i := range a {
		if k, w := c26ValueDiff(a[i], b[i]); w != "" {
			return k, w
		}
	}
	return "", ""
}

// c26ReprNote: representation differences the oracle tolerates ("" = bit-identical rendering).
func c26ReprNote(in, out octosql.Value) string {
	if c09Str(in) == c09Str(out) {
		return ""
	}
	var walk func(a, b octosql.Value) string
	walk = func(a, b octosql.Value) string {
		if a.TypeID != b.TypeID {
			return "other"
		}
		switch a.TypeID {
		case octosql.TypeIDTime:
			if a.Time.Equal(b.Time) && a.Time.Format(time.RFC3339Nano) != b.Time.Format(time.RFC3339Nano) {
				return "time location not carried (same instant)"
			}
		case octosql.TypeIDFloat:
			if math.Float64bits(a.Float) != math.Float64bits(b.Float) {
				return "float bits differ"
			}
		}
		ca, cb := c09Children(a), c09Children(b)
		for i := range ca {
			if i < len(cb) {
				if n := walk(ca[i], cb[i]); n != "" {
					return n
				}
			}
		}
		return ""
	}
	if n := walk(in, out); n != "" {
		return n
	}
	return "other"
}

// c26TypeStructDiff: the check's own structural equality of types ("" = same).
func c26TypeStructDiff(in, out octosql.Type) (kind, what string) {
	if in.TypeID != out.TypeID {
		return in.TypeID.String(), "typeid-becomes-" + out.TypeID.String()
	}
	k := in.TypeID.String()
	switch in.TypeID {
	case octosql.TypeIDList:
		if (in.List.Element == nil) != (out.List.Element == nil) {
			return k, "element-presence-changed"
		}
		if in.List.Element != nil {
			return c26TypeStructDiff(*in.List.Element, *out.List.Element)
		}
	case octosql.TypeIDStruct:
		if len(in.Struct.Fields) != len(out.Struct.Fields) {
			return k, "field-count-changed"
		}
		for i := range in.Struct.Fields {
			if in.Struct.Fields[i].Name != out.Struct.Fields[i].Name {
				return k, "field-name-changed"
			}
			if kk, w := c26TypeStructDiff(in.Struct.Fields[i].Type, out.Struct.Fields[i].Type); w != "" {
				return kk, w
			}
		}
	case octosql.TypeIDTuple:
		if len(in.Tuple.Elements) != len(out.Tuple.Elements) {
			return k, "element-count-changed"
		}
		for i := range in.Tuple.Elements {
			if kk, w := c26TypeStructDiff(in.Tuple.Elements[i], out.Tuple.Elements[i]); w != "" {
				return kk, w
			}
		}
	case octosql.TypeIDUnion:
		if len(in.Union.Alternatives) != len(out.Union.Alternatives) {
			return k, "alternative-count-changed"
		}
		for i := range in.Union.Alternatives {
			if kk, w := c26TypeStructDiff(in.Union.Alternatives[i], out.Union.Alternatives[i]); w != "" {
				return kk, w
			}
		}
	}
	return "", ""
}

// c26TypeDiff: structural equality AND the code's own Equals (both directions).
func c26TypeDiff(in, out octosql.Type) (kind, what string) {
	if k, w := c26TypeStructDiff(in, out); w != "" {
		return k, w
	}
	ok := false
	_, pan := c26Safe(func() error { ok = in.Equals(out) && out.Equals(in); return nil })
	if pan != nil {
		return in.TypeID.String(), "equals-panics"
	}
	if !ok {
		// only a defect of the wire if the type equals itself before the trip
		self := false
		c26Safe(func() error { self = in.Equals(in); return nil })
		if self {
			return in.TypeID.String(), "not-Equals"
		}
	}
	return "", ""
}

func c26TimeDiff(in, out time.Time) string {
	switch {
	case in.IsZero() && !out.IsZero():
		return "zero-time-becomes-nonzero"
	case !in.IsZero() && out.IsZero():
		return "nonzero-time-becomes-zero"
	case !in.Equal(out):
		return "instant-changed"
	}
	return ""
}

type c26Time struct {
	name string
	t    time.Time
}

func c26Times(thorough bool) []c26Time {
	ts := []c26Time{
		{"zero", time.Time{}},
		{"unix-epoch", time.Unix(0, 0)},
		{"epoch+1ns", time.Unix(0, 1)},
		{"year-2262", time.Date(2262, 4, 11, 23, 47, 16, 0, time.UTC)},
		{"max-watermark", execution.WatermarkMaxValue},
	}
	if thorough {
		ts = append(ts,
			c26Time{"epoch-1ns", time.Unix(0, -1)},
			c26Time{"year-9999", time.Date(9999, 12, 31, 23, 59, 59, 999999999, time.UTC)},
			c26Time{"other-location", c09T1loc},
		)
	}
	return ts
}

// c26Values: the C09 universe plus boundary scalars.
func c26Values(thorough bool) []octosql.Value {
	out := append([]octosql.Value{}, c09Universe(thorough)...)
	seen := map[string]bool{}
	for _, v := range out {
		seen[c09Str(v)] = true
	}
	add := func(v octosql.Value) {
		if k := c09Str(v); !seen[k] {
			seen[k] = true
			out = append(out, v)
		}
	}
	for _, i := range []int64{math.MinInt64, math.MaxInt64, 1 << 31, -(1 << 31) - 1} {
		add(octosql.NewInt(i))
	}
	for _, f := range []float64{math.MaxFloat64, 5e-324, -math.MaxFloat64, 0.1} {
		add(octosql.NewFloat(f))
	}
	for _, d := range []int64{0, 1, -1, math.MinInt64, math.MaxInt64, int64(time.Hour), 1500000000, -1500000000} {
		add(octosql.NewDuration(time.Duration(d)))
	}
	for _, t := range c26Times(true) {
		add(octosql.NewTime(t.t))
	}
	add(octosql.NewTime(time.Date(1, 1, 1, 0, 0, 0, 1, time.UTC)))
	add(octosql.NewTime(time.Date(1969, 12, 31, 23, 59, 59, 500000000, time.FixedZone("minus8", -8*3600))))
	for _, s := range []string{"\x00", "é", "a\nb", "日本", "\U0001F600", strings.Repeat("x", 70000), "\xff", "a\xc3"} {
		add(octosql.NewString(s))
	}
	add(octosql.NewList([]octosql.Value{octosql.NewString("\xff")}))
	return out
}

// c26TypeStates: C10-style closure (the C10 generator lives inside its init, so a small one here).
func c26TypeStates(thorough bool) []octosql.Type {
	start := []octosql.Type{octosql.Null, octosql.Int, octosql.Float, octosql.Boolean, octosql.String, octosql.Time, octosql.Duration, octosql.Any}
	partnerDepth := map[int]int{1: 0, 2: 0}
	if thorough {
		partnerDepth[2] = 1
	}
	type st struct {
		t octosql.Type
		d int
	}
	var states []st
	index := map[string]bool{}
	add := func(t octosql.Type, d int) {
		k := c10Key(t)
		if index[k] {
			return
		}
		index[k] = true
		states = append(states, st{t, d})
	}
	for _, t := range start {
		add(t, 0)
	}
	for d := 1; d <= 2; d++ {
		var frontier, partners []int
		for i, s := range states {
			if s.d == d-1 {
				frontier = append(frontier, i)
			}
			if s.d <= partnerDepth[d] {
				partners = append(partners, i)
			}
		}
		if d == 1 {
			add(c10List(nil), d)
			add(c10Struct(), d)
			add(c10Tuple(), d)
		}
		for _, fi := range frontier {
			t := states[fi].t
			tt := t
			add(c10List(&tt), d)
			add(c10Struct(octosql.StructField{Name: "a", Type: t}), d)
			add(c10Tuple(t), d)
			for _, pi := range partners {
				u := states[pi].t
				for _, p := range [][2]octosql.Type{{t, u}, {u, t}} {
					add(c10Struct(octosql.StructField{Name: "a", Type: p[0]}, octosql.StructField{Name: "b", Type: p[1]}), d)
					add(c10Tuple(p[0], p[1]), d)
					if s, pan := c10SafeSum(p[0], p[1]); pan == nil {
						add(s, d)
					}
				}
			}
		}
	}
	out := make([]octosql.Type, len(states))
	for i := range states {
		out[i] = states[i].t
	}
	return out
}

func c26SchemaStr(s physical.Schema) string {
	var b strings.Builder
	b.WriteString("schema{")
	for i, f := range s.Fields {
		if i > 0 {
			b.WriteString(", ")
		}
		fmt.Fprintf(&b, "%q: %s", f.Name, c10Key(f.Type))
	}
	fmt.Fprintf(&b, "} time_field=%d no_retractions=%v", s.TimeField, s.NoRetractions)
	return b.String()
}

func c26SchemaDiff(in, out physical.Schema) string {
	if len(in.Fields) != len(out.Fields) {
		return "field-count-changed"
	}
	for i := range in.Fields {
		if in.Fields[i].Name != out.Fields[i].Name {
			return "field-name-changed"
		}
		if k, w := c26TypeDiff(in.Fields[i].Type, out.Fields[i].Type); w != "" {
			return "field-type/" + k + "/" + w
		}
	}
	if in.TimeField != out.TimeField {
		return fmt.Sprintf("time-field-%d-becomes-%d", in.TimeField, out.TimeField)
	}
	if in.NoRetractions != out.NoRetractions {
		return "no-retractions-flag-changed"
	}
	return ""
}

func c26RecordStr(rec execution.Record) string {
	sign := "+"
	if rec.Retraction {
		sign = "-"
	}
	et := "zero"
	if !rec.EventTime.IsZero() {
		et = rec.EventTime.Format(time.RFC3339Nano)
	}
	return fmt.Sprintf("%s[%s]@%s", sign, c26Strs(rec.Values), et)
}

func c26Strs(vs []octosql.Value) string {
	p := make([]string, len(vs))
	for i := range vs {
		p[i] = c09Str(vs[i])
	}
	s := strings.Join(p, ", ")
	if len(s) > 400 {
		s = s[:400] + "…"
	}
	return s
}

func c26ExecCtxStr(c *execution.VariableContext) string {
	if c == nil {
		return "nil"
	}
	var parts []string
	for ; c != nil; c = c.Parent {
		parts = append(parts, "["+c26Strs(c.Values)+"]")
	}
	return strings.Join(parts, " <- ")
}

func c26PhysCtxStr(c *physical.VariableContext) string {
	if c == nil {
		return "nil"
	}
	var parts []string
	for ; c != nil; c = c.Parent {
		var fs []string
		for _, f := range c.Fields {
			fs = append(fs, fmt.Sprintf("%q: %s", f.Name, c10Key(f.Type)))
		}
		parts = append(parts, "["+strings.Join(fs, ", ")+"]")
	}
	return strings.Join(parts, " <- ")
}

func c26ExecCtxDiff(in, out *execution.VariableContext) string {
	for in != nil || out != nil {
		if in == nil || out == nil {
			return "depth-changed"
		}
		if len(in.Values) != len(out.Values) {
			return "frame-length-changed"
		}
		for i := range in.Values {
			if k, w := c26ValueDiff(in.Values[i], out.Values[i]); w != "" {
				return "value/" + k + "/" + w
			}
		}
		in, out = in.Parent, out.Parent
	}
	return ""
}

func c26PhysCtxDiff(in, out *physical.VariableContext) string {
	for in != nil || out != nil {
		if in == nil || out == nil {
			return "depth-changed"
		}
		if len(in.Fields) != len(out.Fields) {
			return "frame-length-changed"
		}
		for i := range in.Fields {
			if in.Fields[i].Name != out.Fields[i].Name {
				return "field-name-changed"
			}
			if k, w := c26TypeDiff(in.Fields[i].Type, out.Fields[i].Type); w != "" {
				return "field-type/" + k + "/" + w
			}
		}
		in, out = in.Parent, out.Parent
	}
	return ""
}

// ---------------------------------------------------------------- part 1: wire

func c26Wire(r *findings.Run) {
	values := c26Values(r.Thorough())
	types := c26TypeStates(r.Thorough())
	times := c26Times(r.Thorough())
	bound := map[string]interface{}{"values": len(values), "type_states": len(types), "event_times": len(times)}

	// ---- values
	sampledValue := false
	for _, v := range values {
		v := v
		var out octosql.Value
		err, pan := c26Safe(func() (e error) { out, e = octoplugins.VerifWireValue(v); return })
		r.Eval(1)
		in := c09Str(v)
		if len(in) > 300 {
			in = in[:300] + "…"
		}
		switch {
		case pan != nil:
			r.Violation("C26/wire/value/"+v.TypeID.String()+"/panic", fmt.Sprintf("value %s panics in the wire conversion: %v", in, pan), c26Case{Part: "wire/value", Input: in, Got: fmt.Sprint(pan)})
		case err != nil && c26HasInvalidUTF8(v):
			r.Outcome("wire/value: refused loudly (string is not valid UTF-8)")
		case err != nil:
			r.Violation("C26/wire/value/"+v.TypeID.String()+"/marshal-error", fmt.Sprintf("value %s cannot cross the wire: %v", in, err), c26Case{Part: "wire/value", Input: in, Got: err.Error()})
		default:
			if k, w := c26ValueDiff(v, out); w != "" {
				r.Violation("C26/wire/value/"+k+"/"+w, fmt.Sprintf("value %s comes out of the wire as %s", in, c09Str(out)), c26Case{Part: "wire/value", Input: in, Got: c09Str(out), Want: in})
				r.Outcome("wire/value: CHANGED")
			} else if n := c26ReprNote(v, out); n != "" {
				r.Outcome("wire/value: equal, " + n)
			} else {
				r.Outcome("wire/value: identical")
			}
			if v.TypeID != octosql.TypeIDNull {
				r.Nontrivial("wire/value/" + c09Str(v))
			}
			if !sampledValue && v.TypeID == octosql.TypeIDTuple && len(v.Tuple) == 2 {
				sampledValue = true
				r.Sample(c26Case{Part: "wire/value", Input: in, Got: c09Str(out)})
			}
		}
	}

	// ---- types
	for _, t := range types {
		t := t
		var out octosql.Type
		err, pan := c26Safe(func() (e error) { out, e = octoplugins.VerifWireType(t); return })
		r.Eval(1)
		in := c10Key(t)
		switch {
		case pan != nil:
			r.Violation("C26/wire/type/"+t.TypeID.String()+"/panic", fmt.Sprintf("type %s panics in the wire conversion: %v", in, pan), c26Case{Part: "wire/type", Input: in, Got: fmt.Sprint(pan)})
		case err != nil:
			r.Violation("C26/wire/type/"+t.TypeID.String()+"/marshal-error", fmt.Sprintf("type %s cannot cross the wire: %v", in, err), c26Case{Part: "wire/type", Input: in, Got: err.Error()})
		default:
			if k, w := c26TypeDiff(t, out); w != "" {
				r.Violation("C26/wire/type/"+k+"/"+w, fmt.Sprintf("type %s comes out of the wire as %s", in, c10Key(out)), c26Case{Part: "wire/type", Input: in, Got: c10Key(out), Want: in})
				r.Outcome("wire/type: CHANGED")
			} else {
				r.Outcome("wire/type: identical")
			}
			if t.TypeID >= octosql.TypeIDList && t.TypeID <= octosql.TypeIDUnion {
				r.Nontrivial("wire/type/" + in)
			}
		}
	}

	// ---- schemas
	names := []string{"a", "t.a", "", "é x", "time"}
	var schemas []physical.Schema
	schemas = append(schemas, physical.Schema{TimeField: -1}, physical.Schema{Fields: []physical.SchemaField{}, TimeField: -1, NoRetractions: true})
	for i, t := range types {
		for _, tf := range []int{-1, 0} {
			for _, nr := range []bool{false, true} {
				schemas = append(schemas, physical.Schema{Fields: []physical.SchemaField{{Name: names[i%len(names)], Type: t}}, TimeField: tf, NoRetractions: nr})
			}
		}
	}
	step := 1
	if !r.Thorough() {
		step = 3
	}
	for i := 0; i+2 < len(types); i += step {
		for _, tf := range []int{-1, 0, 2} {
			schemas = append(schemas, physical.Schema{Fields: []physical.SchemaField{{Name: "x", Type: types[i]}, {Name: "y", Type: types[i+1]}, {Name: "x", Type: types[i+2]}}, TimeField: tf, NoRetractions: i%2 == 0})
		}
	}
	bound["schemas"] = len(schemas)
	sampledSchema := false
	for _, s := range schemas {
		s := s
		var out physical.Schema
		err, pan := c26Safe(func() (e error) { out, e = octoplugins.VerifWireSchema(s); return })
		r.Eval(1)
		in := c26SchemaStr(s)
		switch {
		case pan != nil:
			r.Violation("C26/wire/schema/panic", fmt.Sprintf("%s panics in the wire conversion: %v", in, pan), c26Case{Part: "wire/schema", Input: in, Got: fmt.Sprint(pan)})
		case err != nil:
			r.Violation("C26/wire/schema/marshal-error", fmt.Sprintf("%s cannot cross the wire: %v", in, err), c26Case{Part: "wire/schema", Input: in, Got: err.Error()})
		default:
			if w := c26SchemaDiff(s, out); w != "" {
				r.Violation("C26/wire/schema/"+w, fmt.Sprintf("%s comes out of the wire as %s", in, c26SchemaStr(out)), c26Case{Part: "wire/schema", Input: in, Got: c26SchemaStr(out), Want: in})
				r.Outcome("wire/schema: CHANGED")
			} else {
				r.Outcome("wire/schema: identical")
			}
			if len(s.Fields) > 0 {
				r.Nontrivial("wire/schema/" + in)
			}
			if !sampledSchema && len(s.Fields) == 3 && s.TimeField == 2 {
				sampledSchema = true
				r.Sample(c26Case{Part: "wire/schema", Input: in, Got: c26SchemaStr(out)})
			}
		}
	}

	// ---- records
	var valueRows [][]octosql.Value
	valueRows = append(valueRows, nil, []octosql.Value{})
	for _, v := range values {
		if !c26HasInvalidUTF8(v) {
			valueRows = append(valueRows, []octosql.Value{v})
		}
	}
	for i := 0; i+2 < len(values); i += 3 {
		row := []octosql.Value{values[i], values[i+1], values[i+2]}
		bad := false
		for _, v := range row {
			bad = bad || c26HasInvalidUTF8(v)
		}
		if !bad {
			valueRows = append(valueRows, row)
		}
	}
	var records int64
	for _, row := range valueRows {
		for _, et := range times {
			for _, retraction := range []bool{false, true} {
				rec := execution.Record{Values: row, Retraction: retraction, EventTime: et.t}
				var out execution.Record
				err, pan := c26Safe(func() (e error) { out, e = octoplugins.VerifWireRecord(rec); return })
				r.Eval(1)
				records++
				in := c26RecordStr(rec)
				fail := func(fp, what string) {
					r.Violation("C26/wire/record/"+fp, fmt.Sprintf("record %s (event time %s) %s; got %s", in, et.name, what, c26RecordStr(out)), c26Case{Part: "wire/record", Input: in, Detail: "event time: " + et.name, Got: c26RecordStr(out), Want: in})
					r.Outcome("wire/record: CHANGED")
				}
				switch {
				case pan != nil:
					fail("panic", fmt.Sprintf("panics in the wire conversion: %v", pan))
				case err != nil:
					fail("marshal-error", "cannot cross the wire: "+err.Error())
				case len(out.Values) != len(rec.Values):
					fail("value-count-changed", "changes its number of values")
				case out.Retraction != rec.Retraction:
					fail("retraction-flag-changed", "changes its retraction flag")
				default:
					bad := false
					for i := range rec.Values {
						if k, w := c26ValueDiff(rec.Values[i], out.Values[i]); w != "" {
							fail("value/"+k+"/"+w, "changes a value")
							bad = true
							break
						}
					}
					if bad {
						break
					}
					switch c26TimeDiff(rec.EventTime, out.EventTime) {
					case "zero-time-becomes-nonzero":
						fail("zero-event-time-becomes-nonzero", "had no event time and arrives with one")
					case "nonzero-time-becomes-zero":
						fail("event-time-becomes-zero/"+et.name, "loses its event time")
					case "instant-changed":
						fail("event-time-changed/"+et.name, "arrives with another event time")
					default:
						r.Outcome("wire/record: identical (event time " + et.name + ")")
						if len(rec.Values) > 0 {
							r.Nontrivial("wire/record/" + in)
						}
					}
				}
			}
		}
	}
	bound["records"] = records

	// ---- metadata messages
	for _, et := range times {
		msg := execution.MetadataMessage{Type: execution.MetadataMessageTypeWatermark, Watermark: et.t}
		var out execution.MetadataMessage
		err, pan := c26Safe(func() (e error) { out, e = octoplugins.VerifWireMetadataMessage(msg); return })
		r.Eval(1)
		in := "watermark(" + et.name + ")"
		got := fmt.Sprintf("type=%d watermark=%s", out.Type, out.Watermark.Format(time.RFC3339Nano))
		switch {
		case pan != nil:
			r.Violation("C26/wire/metadata/panic", fmt.Sprintf("%s panics in the wire conversion: %v", in, pan), c26Case{Part: "wire/metadata", Input: in, Got: fmt.Sprint(pan)})
		case err != nil:
			r.Violation("C26/wire/metadata/arrives-as-other-message-or-error", fmt.Sprintf("%s: %v", in, err), c26Case{Part: "wire/metadata", Input: in, Got: err.Error()})
		case out.Type != msg.Type:
			r.Violation("C26/wire/metadata/type-changed", fmt.Sprintf("%s arrives as %s", in, got), c26Case{Part: "wire/metadata", Input: in, Got: got})
		default:
			if w := c26TimeDiff(msg.Watermark, out.Watermark); w != "" {
				r.Violation("C26/wire/metadata/watermark-"+w+"/"+et.name, fmt.Sprintf("%s arrives as %s", in, got), c26Case{Part: "wire/metadata", Input: in, Got: got})
				r.Outcome("wire/metadata: CHANGED")
			} else {
				r.Outcome("wire/metadata: identical")
				r.Nontrivial("wire/metadata/" + et.name)
			}
		}
	}

	// ---- execution variable contexts
	I, S, F := octosql.NewInt, octosql.NewString, octosql.NewFloat
	vframes := [][]octosql.Value{
		{},
		{octosql.NewNull()},
		{I(1)},
		{S("a"), F(math.Copysign(0, -1))},
		{octosql.NewTime(c09T1loc)},
		{octosql.NewList([]octosql.Value{I(1)}), octosql.NewStruct([]octosql.Value{S("a")})},
		{octosql.NewTuple([]octosql.Value{I(1), S("a")}), octosql.NewNull(), octosql.NewDuration(time.Second)},
	}
	var ectxs []*execution.VariableContext
	enum.Sequences(len(vframes), 3, nil, func(seq []int) {
		var c *execution.VariableContext
		for i := len(seq) - 1; i >= 0; i-- { // seq[0] is the innermost frame
			c = &execution.VariableContext{Values: vframes[seq[i]], Parent: c}
		}
		ectxs = append(ectxs, c)
	})
	for _, v := range values {
		if c26HasInvalidUTF8(v) {
			continue
		}
		ectxs = append(ectxs, &execution.VariableContext{Values: []octosql.Value{v}})
		ectxs = append(ectxs, &execution.VariableContext{Values: []octosql.Value{v, I(7)}, Parent: &execution.VariableContext{Values: []octosql.Value{I(1)}, Parent: &execution.VariableContext{Values: []octosql.Value{S("outer"), v}}}})
	}
	bound["execution_contexts"] = len(ectxs)
	for _, c := range ectxs {
		c := c
		var out *execution.VariableContext
		err, pan := c26Safe(func() (e error) { out, e = octoplugins.VerifWireExecutionVariableContext(c); return })
		r.Eval(1)
		in := c26ExecCtxStr(c)
		switch {
		case pan != nil:
			r.Violation("C26/wire/execctx/panic", fmt.Sprintf("execution variable context %s panics in the wire conversion: %v", in, pan), c26Case{Part: "wire/execctx", Input: in, Got: fmt.Sprint(pan)})
		case err != nil:
			r.Violation("C26/wire/execctx/marshal-error", fmt.Sprintf("execution variable context %s cannot cross the wire: %v", in, err), c26Case{Part: "wire/execctx", Input: in, Got: err.Error()})
		default:
			if w := c26ExecCtxDiff(c, out); w != "" {
				r.Violation("C26/wire/execctx/"+w, fmt.Sprintf("execution variable context %s comes out of the wire as %s", in, c26ExecCtxStr(out)), c26Case{Part: "wire/execctx", Input: in, Got: c26ExecCtxStr(out), Want: in})
				r.Outcome("wire/execctx: CHANGED")
			} else {
				r.Outcome("wire/execctx: identical")
				if c != nil {
					r.Nontrivial("wire/execctx/" + in)
				}
			}
		}
	}

	// ---- physical variable contexts
	lt := octosql.Int
	fframes := [][]physical.SchemaField{
		{},
		{{Name: "a", Type: octosql.Int}},
		{{Name: "a", Type: octosql.TypeSum(octosql.String, octosql.Null)}, {Name: "b", Type: octosql.Time}},
		{{Name: "x", Type: c10List(&lt)}},
		{{Name: "o", Type: c10Struct(octosql.StructField{Name: "a", Type: octosql.Int}, octosql.StructField{Name: "b", Type: octosql.String})}, {Name: "t", Type: c10Tuple(octosql.Int, octosql.String)}},
		{{Name: "n", Type: octosql.Null}},
		{{Name: "", Type: octosql.Any}},
	}
	var pctxs []*physical.VariableContext
	enum.Sequences(len(fframes), 3, nil, func(seq []int) {
		var c *physical.VariableContext
		for i := len(seq) - 1; i >= 0; i-- {
			c = &physical.VariableContext{Fields: fframes[seq[i]], Parent: c}
		}
		pctxs = append(pctxs, c)
	})
	for _, t := range types {
		pctxs = append(pctxs, &physical.VariableContext{Fields: []physical.SchemaField{{Name: "v", Type: t}}})
		pctxs = append(pctxs, &physical.VariableContext{Fields: []physical.SchemaField{{Name: "v", Type: t}, {Name: "w", Type: octosql.Int}}, Parent: &physical.VariableContext{Fields: fframes[1], Parent: &physical.VariableContext{Fields: []physical.SchemaField{{Name: "outer", Type: t}}}}})
	}
	bound["physical_contexts"] = len(pctxs)
	for _, c := range pctxs {
		c := c
		var out *physical.VariableContext
		err, pan := c26Safe(func() (e error) { out, e = octoplugins.VerifWirePhysicalVariableContext(c); return })
		r.Eval(1)
		in := c26PhysCtxStr(c)
		switch {
		case pan != nil:
			r.Violation("C26/wire/physctx/panic", fmt.Sprintf("physical variable context %s panics in the wire conversion: %v", in, pan), c26Case{Part: "wire/physctx", Input: in, Got: fmt.Sprint(pan)})
		case err != nil:
			r.Violation("C26/wire/physctx/marshal-error", fmt.Sprintf("physical variable context %s cannot cross the wire: %v", in, err), c26Case{Part: "wire/physctx", Input: in, Got: err.Error()})
		default:
			if w := c26PhysCtxDiff(c, out); w != "" {
				r.Violation("C26/wire/physctx/"+w, fmt.Sprintf("physical variable context %s comes out of the wire as %s", in, c26PhysCtxStr(out)), c26Case{Part: "wire/physctx", Input: in, Got: c26PhysCtxStr(out), Want: in})
				r.Outcome("wire/physctx: CHANGED")
			} else {
				r.Outcome("wire/physctx: identical")
				if c != nil {
					r.Nontrivial("wire/physctx/" + in)
				}
			}
		}
	}
	r.Extra["wire_bound"] = bound
}

// ---------------------------------------------------------------- part 2: predicates

type c26PoolItem struct {
	name string
	typ  octosql.Type
	vals []octosql.Value
}

func c26Pool() []c26PoolItem {
	I, F, S, B, D := octosql.NewInt, octosql.NewFloat, octosql.NewString, octosql.NewBoolean, octosql.NewDuration
	N := octosql.NewNull()
	L := func(v ...octosql.Value) octosql.Value { return octosql.NewList(append([]octosql.Value{}, v...)) }
	O := func(v ...octosql.Value) octosql.Value { return octosql.NewStruct(append([]octosql.Value{}, v...)) }
	T := func(v ...octosql.Value) octosql.Value { return octosql.NewTuple(append([]octosql.Value{}, v...)) }
	intT, strT := octosql.Int, octosql.String
	objAB := c10Struct(octosql.StructField{Name: "a", Type: octosql.Int}, octosql.StructField{Name: "b", Type: octosql.String})
	objA := c10Struct(octosql.StructField{Name: "a", Type: octosql.Int})
	V := func(v ...octosql.Value) []octosql.Value { return v }
	return []c26PoolItem{
		{"Int", octosql.Int, V(I(0), I(1), I(-1))},
		{"Float", octosql.Float, V(F(0.5), F(2), F(-1.5))},
		{"Boolean", octosql.Boolean, V(B(true), B(false))},
		{"String", octosql.String, V(S(""), S("a"), S("ab"), S("7"))},
		{"Time", octosql.Time, V(octosql.NewTime(c09T1), octosql.NewTime(c09T1loc), octosql.NewTime(c09T2))},
		{"Duration", octosql.Duration, V(D(time.Second), D(-2*time.Second))},
		{"NULL", octosql.Null, V(N)},
		{"Int?", octosql.TypeSum(octosql.Int, octosql.Null), V(I(1), N)},
		{"String?", octosql.TypeSum(octosql.String, octosql.Null), V(S("a"), N)},
		{"Boolean?", octosql.TypeSum(octosql.Boolean, octosql.Null), V(B(true), N)},
		{"Int|String", octosql.TypeSum(octosql.Int, octosql.String), V(I(1), S("a"))},
		{"[]", c10List(nil), V(L())},
		{"[Int]", c10List(&intT), V(L(), L(I(1), I(0)))},
		{"[String]", c10List(&strT), V(L(S("a")), L(S("ab"), S("a")))},
		{"(Int,Int)", c10Tuple(octosql.Int, octosql.Int), V(T(I(1), I(0)), T(I(0), I(2)))},
		{"(String,String)", c10Tuple(octosql.String, octosql.String), V(T(S("a"), S("b")))},
		{"{a:Int,b:String}", objAB, V(O(I(1), S("a")), O(I(0), S("ab")))},
		{"[{a:Int}]", c10List(&objA), V(L(O(I(1))), L())},
	}
}

// c26Literal: the logical expression of a value that has a SQL literal.
func c26Literal(v octosql.Value) (logical.Expression, bool) {
	switch v.TypeID {
	case octosql.TypeIDNull, octosql.TypeIDInt, octosql.TypeIDBoolean, octosql.TypeIDString, octosql.TypeIDDuration:
		return logical.NewConstant(v), true
	case octosql.TypeIDFloat:
		if math.IsNaN(v.Float) || math.IsInf(v.Float, 0) {
			return nil, false
		}
		return logical.NewConstant(v), true
	case octosql.TypeIDTuple:
		parts := make([]logical.Expression, len(v.Tuple))
		for i := range v.Tuple {
			e, ok := c26Literal(v.Tuple[i])
			if !ok {
				return nil, false
			}
			parts[i] = e
		}
		return logical.NewTuple(parts), true
	}
	return nil, false
}

// c26Build: typecheck through tc (a panic is how octosql rejects) and materialize.
func c26Build(lab *c13Lab, tc func() physical.Expression) (p physical.Expression, x execution.Expression, rejected, matFail string) {
	func() {
		defer func() {
			if r := recover(); r != nil {
				rejected = fmt.Sprint(r)
				if rejected == "" {
					rejected = "panic"
				}
			}
		}()
		p = tc()
	}()
	if rejected != "" {
		return
	}
	x, matFail = c26Materialize(p, lab.penv)
	return
}

func c26Materialize(p physical.Expression, env physical.Environment) (x execution.Expression, matFail string) {
	defer func() {
		if r := recover(); r != nil {
			matFail = fmt.Sprintf("panic: %v", r)
		}
	}()
	x, err := p.Materialize(context.Background(), env)
	if err != nil {
		return nil, "error: " + err.Error()
	}
	return x, ""
}

type c26Hopped struct {
	q     physical.Expression
	ok    bool   // verdict of RepopulatePhysicalExpressionFunctions
	stage string // "" or the stage that failed
	err   string
}

// c26JSONHop: what executor.PhysicalDatasource does to a predicate on its way into the plugin and what
// plugins.physicalServer does on arrival.
func c26JSONHop(p physical.Expression) (h c26Hopped) {
	h.stage = "json-marshal"
	defer func() {
		if r := recover(); r != nil {
			h.err = fmt.Sprintf("panic: %v", r)
		}
	}()
	list := []physical.Expression{p}
	data, err := json.Marshal(&list)
	if err != nil {
		h.err = err.Error()
		return
	}
	h.stage = "json-unmarshal"
	var back []physical.Expression
	if err := json.Unmarshal(data, &back); err != nil {
		h.err = err.Error()
		return
	}
	h.stage = "repopulate"
	h.q, h.ok = octoplugins.VerifRepopulatePhysicalExpressionFunctions(back[0])
	h.stage = ""
	return
}

func c26Calls(e physical.Expression, out *[]*physical.FunctionCall) {
	many := func(es []physical.Expression) {
		for i := range es {
			c26Calls(es[i], out)
		}
	}
	switch e.ExpressionType {
	case physical.ExpressionTypeFunctionCall:
		*out = append(*out, e.FunctionCall)
		many(e.FunctionCall.Arguments)
	case physical.ExpressionTypeAnd:
		many(e.And.Arguments)
	case physical.ExpressionTypeOr:
		many(e.Or.Arguments)
	case physical.ExpressionTypeCoalesce:
		many(e.Coalesce.Arguments)
	case physical.ExpressionTypeTuple:
		many(e.Tuple.Arguments)
	case physical.ExpressionTypeTypeAssertion:
		c26Calls(e.TypeAssertion.Expression, out)
	case physical.ExpressionTypeTypeCast:
		c26Calls(e.TypeCast.Expression, out)
	case physical.ExpressionTypeObjectFieldAccess:
		c26Calls(e.ObjectFieldAccess.Object, out)
	}
}

func c26Constants(e physical.Expression, out *[]octosql.Value) {
	many := func(es []physical.Expression) {
		for i := range es {
			c26Constants(es[i], out)
		}
	}
	switch e.ExpressionType {
	case physical.ExpressionTypeConstant:
		*out = append(*out, e.Constant.Value)
	case physical.ExpressionTypeFunctionCall:
		many(e.FunctionCall.Arguments)
	case physical.ExpressionTypeAnd:
		many(e.And.Arguments)
	case physical.ExpressionTypeOr:
		many(e.Or.Arguments)
	case physical.ExpressionTypeCoalesce:
		many(e.Coalesce.Arguments)
	case physical.ExpressionTypeTuple:
		many(e.Tuple.Arguments)
	case physical.ExpressionTypeTypeAssertion:
		c26Constants(e.TypeAssertion.Expression, out)
	case physical.ExpressionTypeTypeCast:
		c26Constants(e.TypeCast.Expression, out)
	case physical.ExpressionTypeObjectFieldAccess:
		c26Constants(e.ObjectFieldAccess.Object, out)
	}
}

func c26FnPtr(f func([]octosql.Value) (octosql.Value, error)) uintptr {
	if f == nil {
		return 0
	}
	return reflect.ValueOf(f).Pointer()
}

func c26Kind(t octosql.Type) string {
	nn := t
	if t.TypeID == octosql.TypeIDUnion {
		c26Safe(func() error { nn = octosql.NonNullable(t); return nil })
	}
	return nn.TypeID.String()
}

// c26CallSig: name(kinds) of a call, with * for an argument whose type does not influence which descriptor accepts the call.
func c26CallSig(pool []c26PoolItem, fc *physical.FunctionCall) string {
	d := fc.FunctionDescriptor
	argTypes := make([]octosql.Type, len(fc.Arguments))
	for i := range fc.Arguments {
		argTypes[i] = fc.Arguments[i].Type
		if d.Strict {
			c26Safe(func() error { argTypes[i] = octosql.NonNullable(argTypes[i]); return nil })
		}
	}
	kinds := make([]string, len(argTypes))
	for i := range argTypes {
		kinds[i] = c26Kind(argTypes[i])
		if d.TypeFn == nil {
			if i < len(d.ArgumentTypes) && d.ArgumentTypes[i].TypeID == octosql.TypeIDAny {
				kinds[i] = "*"
			}
			continue
		}
		free := true
		for _, it := range pool {
			if it.typ.TypeID == octosql.TypeIDNull {
				continue
			}
			probe := append([]octosql.Type{}, argTypes...)
			probe[i] = it.typ
			c26Safe(func() error { probe[i] = octosql.NonNullable(it.typ); return nil })
			ok := false
			c26Safe(func() error { _, ok = d.TypeFn(probe); return nil })
			if !ok {
				free = false
				break
			}
		}
		if free {
			kinds[i] = "*"
		}
	}
	return fc.Name + "(" + strings.Join(kinds, ",") + ")"
}

type c26Res struct {
	v       octosql.Value
	err     error
	pan     interface{}
	matFail string
}

func (a c26Res) class() string {
	switch {
	case a.matFail != "":
		return "materialize-fails"
	case a.pan != nil:
		return "panic"
	case a.err != nil:
		return "error"
	}
	return "value"
}

func (a c26Res) String() string {
	switch a.class() {
	case "materialize-fails":
		return "materialize fails: " + a.matFail
	case "panic":
		return fmt.Sprintf("panic: %v", a.pan)
	case "error":
		return "error: " + a.err.Error()
	}
	return c09Str(a.v)
}

func c26EvalForm(x execution.Expression, matFail string, ctx *execution.VariableContext) (res c26Res) {
	if matFail != "" {
		res.matFail = matFail
		return
	}
	defer func() {
		if p := recover(); p != nil {
			res.pan = p
		}
	}()
	res.v, res.err = x.Evaluate(execution.ExecutionContext{Context: context.Background(), VariableContext: ctx})
	return
}

type c26Form struct {
	label string
	expr  string
	p     physical.Expression
	x     execution.Expression
	mf    string
	h     c26Hopped
	hx    execution.Expression
	hmf   string
	// the hopped predicate materialized against a variable context that crossed the wire
	hx2  execution.Expression
	hmf2 string
	// classification of the hop itself
	wrongSig, wrongWhat string // first function call whose Function differs after the hop
}

func c26PrepareForm(pool []c26PoolItem, f *c26Form, env, env2 physical.Environment) {
	f.h = c26JSONHop(f.p)
	if f.h.stage != "" || !f.h.ok {
		return
	}
	f.hx, f.hmf = c26Materialize(f.h.q, env)
	f.hx2, f.hmf2 = c26Materialize(f.h.q, env2)
	var a, b []*physical.FunctionCall
	c26Calls(f.p, &a)
	c26Calls(f.h.q, &b)
	for i := range a {
		if i >= len(b) {
			f.wrongSig, f.wrongWhat = c26CallSig(pool, a[i]), "function-call-lost-after-json-hop"
			return
		}
		pa, pb := c26FnPtr(a[i].FunctionDescriptor.Function), c26FnPtr(b[i].FunctionDescriptor.Function)
		if pa != pb {
			f.wrongSig = c26CallSig(pool, a[i])
			f.wrongWhat = "wrong-overload-after-json-hop"
			if pb == 0 {
				f.wrongWhat = "function-not-restored-after-json-hop"
			}
			return
		}
	}
}

var c26PredSampled int32

type c26Stats struct {
	tuplesTried, tuplesAccepted, forms, evals int64
}

func c26Predicates(r *findings.Run) {
	fns := functions.FunctionMap()
	pool := c26Pool()
	var names []string
	for n := range fns {
		names = append(names, n)
	}
	sort.Strings(names)
	chosen := map[string]map[int]int64{}
	stats := &c26Stats{}
	descriptors := 0
	for _, name := range names {
		descriptors += len(fns[name].Descriptors)
		chosen[name] = map[int]int64{}
	}
	// one goroutine per function: every fingerprint belongs to one function, so its first (recorded) case stays deterministic
	enum.Parallel(len(names), func(ni int) {
		name := names[ni]
		details := fns[name]
		wrapped := map[int]bool{}
		ptrs := make([]uintptr, len(details.Descriptors))
		arities := map[int]bool{}
		for i, d := range details.Descriptors {
			ptrs[i] = c26FnPtr(d.Function)
			if d.TypeFn != nil {
				arities[1], arities[2], arities[3] = true, true, true
			} else {
				arities[len(d.ArgumentTypes)] = true
			}
		}
		for arity := 0; arity <= 3; arity++ {
			if !arities[arity] {
				continue
			}
			sizes := make([]int, arity)
			for i := range sizes {
				sizes[i] = len(pool)
			}
			enum.Product(sizes, func(idx []int) bool {
				// cheap pre-filter: some descriptor must have this arity (TypeFn descriptors are asked directly)
				possible := false
				for _, d := range details.Descriptors {
					if d.TypeFn == nil {
						possible = possible || len(d.ArgumentTypes) == arity
						continue
					}
					ts := make([]octosql.Type, arity)
					for i, pi := range idx {
						ts[i] = pool[pi].typ
						if d.Strict {
							c26Safe(func() error { ts[i] = octosql.NonNullable(ts[i]); return nil })
						}
					}
					c26Safe(func() error { _, ok := d.TypeFn(ts); possible = possible || ok; return nil })
				}
				if !possible {
					atomic.AddInt64(&stats.tuplesTried, 1)
					return true
				}
				c26PredTuple(r, fns, pool, name, ptrs, idx, chosen[name], wrapped, stats)
				return true
			})
		}
	})
	var never []string
	for _, name := range names {
		for i, d := range fns[name].Descriptors {
			if chosen[name][i] == 0 {
				sig := "TypeFn"
				if d.TypeFn == nil {
					sig = c13Sig(name, d.ArgumentTypes)
				}
				never = append(never, fmt.Sprintf("%s descriptor #%d %s", name, i, sig))
			}
		}
	}
	r.Extra["predicate_bound"] = map[string]interface{}{
		"functions": len(names), "descriptors": descriptors, "type_pool": len(pool),
		"type_tuples_tried": stats.tuplesTried, "type_tuples_accepted_by_typechecker": stats.tuplesAccepted,
		"expression_forms": stats.forms, "evaluation_pairs": stats.evals,
		"descriptors_never_chosen_by_typechecker": never,
	}
}

func c26PredTuple(r *findings.Run, fns map[string]physical.FunctionDetails, pool []c26PoolItem, name string, ptrs []uintptr, idx []int, chosen map[int]int64, wrapped map[int]bool, stats *c26Stats) {
	atomic.AddInt64(&stats.tuplesTried, 1)
	fields := make([]physical.SchemaField, len(idx))
	vars := make([]logical.Expression, len(idx))
	typeNames := make([]string, len(idx))
	for i, pi := range idx {
		vn := fmt.Sprintf("v%d", i)
		fields[i] = physical.SchemaField{Name: vn, Type: pool[pi].typ}
		vars[i] = logical.NewVariable(vn)
		typeNames[i] = pool[pi].name
	}
	lab := c13NewLab(fns, fields)
	ctx := context.Background()
	callOf := func(args []logical.Expression) logical.Expression { return logical.NewFunctionExpression(name, args) }
	lcall := callOf(vars)
	p, x, rej, mf := c26Build(lab, func() physical.Expression { return lcall.Typecheck(ctx, lab.penv, lab.lenv) })
	if rej != "" {
		return
	}
	atomic.AddInt64(&stats.tuplesAccepted, 1)
	di := -1
	if p.ExpressionType == physical.ExpressionTypeFunctionCall {
		fp := c26FnPtr(p.FunctionCall.FunctionDescriptor.Function)
		for i := range ptrs {
			if ptrs[i] == fp {
				chosen[i]++
				di = i
			}
		}
	}
	// every hop costs a functions.FunctionMap() inside RepopulatePhysicalExpressionFunctions (three regexp caches that are
	// never released), so the wrapped forms are built for the first two accepted type tuples of every descriptor only
	wrap := r.Thorough() || !wrapped[di] || !wrapped[di+1000]
	if nn := c26Kind(p.Type); nn == "Object" {
		wrap = true // the only calls that can carry an object field access
	}
	if !wrapped[di] {
		wrapped[di] = true
	} else {
		wrapped[di+1000] = true
	}
	sigTypes := name + "(" + strings.Join(typeNames, ", ") + ")"

	// the variable context as the plugin receives it
	env2 := lab.penv
	if c2, err := octoplugins.VerifWirePhysicalVariableContext(lab.penv.VariableContext); err == nil {
		env2.VariableContext = c2
	}

	forms := []*c26Form{{label: "call", expr: sigTypes, p: p, x: x, mf: mf}}
	addForm := func(label, expr string, tc func() physical.Expression) {
		if !wrap {
			return
		}
		wp, wx, wrej, wmf := c26Build(lab, tc)
		if wrej != "" {
			return
		}
		forms = append(forms, &c26Form{label: label, expr: expr, p: wp, x: wx, mf: wmf})
	}
	tcOf := func(e logical.Expression) func() physical.Expression {
		return func() physical.Expression { return e.Typecheck(ctx, lab.penv, lab.lenv) }
	}
	addForm("and", sigTypes+" AND TRUE", tcOf(logical.NewAnd(lcall, logical.NewConstant(octosql.NewBoolean(true)))))
	addForm("or", "FALSE OR "+sigTypes, tcOf(logical.NewOr(logical.NewConstant(octosql.NewBoolean(false)), lcall)))
	addForm("coalesce", "COALESCE("+sigTypes+", NULL)", tcOf(logical.NewCoalesce([]logical.Expression{lcall, logical.NewConstant(octosql.NewNull())})))
	addForm("tuple", "("+sigTypes+", 1)", tcOf(logical.NewTuple([]logical.Expression{lcall, logical.NewConstant(octosql.NewInt(1))})))
	addForm("nested-call", "("+sigTypes+") IS NULL", tcOf(logical.NewFunctionExpression("is null", []logical.Expression{lcall})))
	addForm("field-access", sigTypes+"->a", tcOf(logical.NewObjectFieldAccess(lcall, "a")))
	if p.Type.TypeID == octosql.TypeIDUnion {
		var nn octosql.Type
		if _, pan := c26Safe(func() error { nn = octosql.NonNullable(p.Type); return nil }); pan == nil && !nn.Equals(p.Type) {
			addForm("type-assertion", "("+sigTypes+")::"+nn.String(), func() physical.Expression {
				e := logical.TypecheckExpression(ctx, lab.penv, lab.lenv, nn, lcall)
				if e.ExpressionType != physical.ExpressionTypeTypeAssertion {
					panic("no assertion inserted")
				}
				return e
			})
		}
	}
	for _, f := range forms {
		c26PrepareForm(pool, f, lab.penv, env2)
		atomic.AddInt64(&stats.forms, 1)
	}
	// constants: the nullable / union pool items yield the same literals as the plain ones
	constable := true
	for _, pi := range idx {
		switch pool[pi].name {
		case "Int", "Float", "Boolean", "String", "Duration", "NULL", "(Int,Int)", "(String,String)":
		default:
			constable = false
		}
	}

	sizes := make([]int, len(idx))
	for i, pi := range idx {
		sizes[i] = len(pool[pi].vals)
	}
	enum.Product(sizes, func(vi []int) bool {
		vals := make([]octosql.Value, len(idx))
		argStrs := make([]string, len(idx))
		hasZonedTime := false
		for i, pi := range idx {
			vals[i] = pool[pi].vals[vi[i]]
			argStrs[i] = c09Str(vals[i])
			if vals[i].TypeID == octosql.TypeIDTime && vals[i].Time.Location() != time.UTC {
				hasZonedTime = true
			}
		}
		ectx := &execution.VariableContext{Values: vals}
		ectx2, err2 := octoplugins.VerifWireExecutionVariableContext(ectx)
		for _, f := range forms {
			nat := c26EvalForm(f.x, f.mf, ectx)
			agreed := c26JudgePredicate(r, pool, name, f, argStrs, nat, func() c26Res { return c26EvalForm(f.hx, f.hmf, ectx) }, stats)
			if agreed && f.label == "call" && err2 == nil && f.h.stage == "" && f.h.ok {
				far := c26EvalForm(f.hx2, f.hmf2, ectx2)
				if c26SameRes(name, nat, far) {
					r.Outcome("predicate: equal also over variables that crossed the wire")
				} else if hasZonedTime {
					r.Outcome("predicate: differs over wire-carried variables only by the time location (tolerated)")
				} else {
					r.Violation("C26/predicate/"+c26CallSig(pool, f.p.FunctionCall)+"/differs-over-wire-carried-variables",
						fmt.Sprintf("%s with arguments (%s): native %s, in the plugin (predicate through JSON, variables through the wire) %s", f.expr, strings.Join(argStrs, ", "), nat, far),
						c26Case{Part: "predicate/wire-variables", Input: f.expr, Args: argStrs, Got: far.String(), Want: nat.String()})
				}
			}
		}
		// constant mode: the same call with SQL literals in place of the variables (first two values of every domain)
		if !constable {
			return true
		}
		for _, k := range vi {
			if k > 1 && !r.Thorough() {
				return true
			}
		}
		lits := make([]logical.Expression, len(vals))
		for i := range vals {
			e, ok := c26Literal(vals[i])
			if !ok {
				return true
			}
			lits[i] = e
		}
		clab := c13NewLab(fns, nil)
		cp, cx, crej, cmf := c26Build(clab, func() physical.Expression { return callOf(lits).Typecheck(ctx, clab.penv, clab.lenv) })
		if crej != "" {
			r.Outcome("predicate: constant form rejected by the typechecker")
			return true
		}
		cf := &c26Form{label: "call-with-constants", expr: name + "(" + strings.Join(argStrs, ", ") + ")", p: cp, x: cx, mf: cmf}
		c26PrepareForm(pool, cf, clab.penv, clab.penv)
		atomic.AddInt64(&stats.forms, 1)
		cnat := c26EvalForm(cf.x, cf.mf, nil)
		c26JudgePredicate(r, pool, name, cf, nil, cnat, func() c26Res { return c26EvalForm(cf.hx, cf.hmf, nil) }, stats)
		return true
	})
}

func c26SameRes(name string, a, b c26Res) bool {
	if a.class() != b.class() {
		return false
	}
	if a.class() != "value" {
		return true
	}
	if name == "now" {
		return a.v.TypeID == b.v.TypeID
	}
	_, w := c26ValueDiff(a.v, b.v)
	return w == ""
}

// c26JudgePredicate compares the native evaluation with the evaluation after the JSON hop; true = agreement.
func c26JudgePredicate(r *findings.Run, pool []c26PoolItem, name string, f *c26Form, args []string, nat c26Res, evalHop func() c26Res, stats *c26Stats) bool {
	r.Eval(1)
	atomic.AddInt64(&stats.evals, 1)
	mk := func(got string) c26Case {
		return c26Case{Part: "predicate/" + f.label, Input: f.expr, Args: args, Got: got, Want: nat.String(), Detail: "declared type " + f.p.Type.String()}
	}
	topSigOf := func() string {
		sig := f.label
		var calls []*physical.FunctionCall
		c26Calls(f.p, &calls)
		for _, c := range calls { // the call under test: the last call named `name` in pre-order
			if c.Name == name {
				sig = c26CallSig(pool, c)
			}
		}
		return sig
	}
	with := ""
	if len(args) > 0 {
		with = " with arguments (" + strings.Join(args, ", ") + ")"
	}
	if f.h.stage != "" {
		// the executor panics on a marshal error: the query dies although it runs natively
		r.Outcome("predicate: JSON hop FAILS")
		r.Violation("C26/predicate/"+topSigOf()+"/"+f.h.stage+"-fails", fmt.Sprintf("%s%s cannot make the JSON hop (%s: %s); native result %s", f.expr, with, f.h.stage, f.h.err, nat), mk(f.h.stage+": "+f.h.err))
		return false
	}
	if !f.h.ok {
		r.Outcome("predicate: refused by RepopulatePhysicalExpressionFunctions (stays on the octosql side)")
		return true
	}
	hop := evalHop()
	if c26SameRes(name, nat, hop) {
		switch {
		case f.wrongWhat != "":
			r.Outcome("predicate: same result although " + f.wrongWhat + " (latent)")
		case nat.class() != "value":
			r.Outcome("predicate: both sides fail (" + nat.class() + ")")
		case nat.v.TypeID == octosql.TypeIDNull:
			r.Outcome("predicate: equal (NULL)")
		default:
			r.Outcome("predicate: equal (" + f.label + ")")
		}
		if nat.class() == "value" && nat.v.TypeID != octosql.TypeIDNull {
			r.Nontrivial("predicate/" + f.label + "/" + f.expr + "/" + strings.Join(args, ","))
			if f.label == "and" && len(args) == 2 && nat.v.TypeID == octosql.TypeIDBoolean && atomic.CompareAndSwapInt32(&c26PredSampled, 0, 1) {
				r.Sample(mk(hop.String()))
			}
		}
		return true
	}
	r.Outcome("predicate: DIFFERENT after the JSON hop")
	what := fmt.Sprintf("%s%s: native %s, after json.Marshal/Unmarshal + RepopulatePhysicalExpressionFunctions %s", f.expr, with, nat, hop)
	if f.wrongWhat != "" {
		r.Violation("C26/predicate/"+f.wrongSig+"/"+f.wrongWhat, what, mk(hop.String()))
		return false
	}
	// same functions on both sides: did a constant change?
	var ca, cb []octosql.Value
	c26Constants(f.p, &ca)
	c26Constants(f.h.q, &cb)
	for i := range ca {
		if i < len(cb) {
			if k, w := c26ValueDiff(ca[i], cb[i]); w != "" {
				r.Violation("C26/predicate/constant/"+k+"/"+w+"-after-json-hop", what+fmt.Sprintf(" (constant %s became %s)", c09Str(ca[i]), c09Str(cb[i])), mk(hop.String()))
				return false
			}
		}
	}
	r.Violation("C26/predicate/"+topSigOf()+"/"+f.label+"/"+nat.class()+"-becomes-"+hop.class()+"-after-json-hop", what, mk(hop.String()))
	return false
}

// ---------------------------------------------------------------- part 3: end to end

type c26E2ECase struct {
	PluginSQL  string   `json:"plugin_sql"`
	NativeSQL  string   `json:"native_sql"`
	Args       []string `json:"args,omitempty"`
	Env        []string `json:"env,omitempty"`
	Config     string   `json:"octosql_yml,omitempty"`
	TableFile  string   `json:"table_file,omitempty"`
	TableRows  []string `json:"table_rows,omitempty"`
	Plugin     string   `json:"plugin_result"`
	Native     string   `json:"native_result"`
	MinimalSQL string   `json:"minimal_sql,omitempty"`
	Features   string   `json:"minimal_features,omitempty"`
}

type c26Query struct {
	plugin, native string
	q              *refsql.Query // nil for hand-written SQL
	feature        string        // hand-written SQL: the feature it exercises
	table          string
}

type c26Setup struct {
	env     []string
	dataDir string
	config  string
	files   map[string][]string // table -> lines
}

func c26GoEnv() []string {
	env := os.Environ()
	has := func(k string) bool {
		for _, e := range env {
			if strings.HasPrefix(e, k+"=") {
				return true
			}
		}
		return false
	}
	for _, kv := range [][2]string{{"GOFLAGS", "-mod=mod"}, {"GOPROXY", "off"}, {"GOSUMDB", "off"}, {"GOTOOLCHAIN", "local"}, {"GOMODCACHE", "/root/go/pkg/mod"}} {
		if !has(kv[0]) {
			env = append(env, kv[0]+"="+kv[1])
		}
	}
	return env
}

// c26Install builds the octosql binary (from REPO_DIR's current tree) and the test plugin, installs the plugin
// into a scratch plugin directory and configures database `mydb` in the scratch HOME.
func c26Install(tables map[string][]string) (*c26Setup, error) {
	verif := findings.VerifDir()
	binDir := filepath.Join(verif, ".cache", "bin")
	if err := os.MkdirAll(binDir, 0o755); err != nil {
		return nil, err
	}
	// the octosql binary must be the current tree's (go build is a no-op when nothing changed)
	build := exec.Command("bash", filepath.Join(verif, "build_octosql.sh"))
	build.Env = c26GoEnv()
	if out, err := build.CombinedOutput(); err != nil {
		return nil, fmt.Errorf("build_octosql.sh: %v: %s", err, out)
	}
	pluginBin := filepath.Join(binDir, "octosql-plugin-vtest")
	pb := exec.Command("go", "build", "-tags", "verif", "-o", pluginBin, "./cmd/testplugin")
	pb.Dir = filepath.Join(verif, "harness")
	pb.Env = c26GoEnv()
	if out, err := pb.CombinedOutput(); err != nil {
		return nil, fmt.Errorf("go build ./cmd/testplugin: %v: %s", err, out)
	}

	scratch, err := os.MkdirTemp("", "vc26")
	if err != nil {
		return nil, err
	}
	// layout read by manager.ListInstalledPlugins / GetPluginBinaryPath: <dir>/<repository>/octosql-plugin-<name>/<semver>/octosql-plugin-<name>
	pluginDir := filepath.Join(scratch, "plugins")
	verDir := filepath.Join(pluginDir, "core", "octosql-plugin-vtest", "0.1.0")
	if err := os.MkdirAll(verDir, 0o755); err != nil {
		return nil, err
	}
	data, err := os.ReadFile(pluginBin)
	if err != nil {
		return nil, err
	}
	if err := os.WriteFile(filepath.Join(verDir, "octosql-plugin-vtest"), data, 0o755); err != nil {
		return nil, err
	}
	dataDir := filepath.Join(scratch, "d")
	os.MkdirAll(dataDir, 0o755)
	for name, lines := range tables {
		if err := os.WriteFile(filepath.Join(dataDir, name+".json"), []byte(strings.Join(lines, "\n")+"\n"), 0o644); err != nil {
			return nil, err
		}
	}
	tmpDir := filepath.Join(scratch, "s") // unix socket paths must stay short
	os.MkdirAll(tmpDir, 0o755)
	cfg := "databases:\n  - name: mydb\n    type: vtest\n    config:\n      dir: " + dataDir + "\n"
	home := runner.ScratchHome()
	if err := os.MkdirAll(filepath.Join(home, ".octosql"), 0o755); err != nil {
		return nil, err
	}
	if err := os.WriteFile(filepath.Join(home, ".octosql", "octosql.yml"), []byte(cfg), 0o644); err != nil {
		return nil, err
	}
	return &c26Setup{
		// GOMAXPROCS=2 (inherited by the plugin process): 12 octosql+plugin pairs run concurrently
		env:     []string{"OCTOSQL_PLUGIN_DIR=" + pluginDir, "OCTOSQL_PLUGIN_TMP_DIR=" + tmpDir, "GOMAXPROCS=2"},
		dataDir: dataDir, config: cfg, files: tables,
	}, nil
}

// c26NormRows: time strings become UTC instants (location is not carried over the wire).
func c26NormRows(rows [][]refsql.V) (out [][]refsql.V, changed bool) {
	out = make([][]refsql.V, len(rows))
	for i, row := range rows {
		out[i] = make([]refsql.V, len(row))
		for j, v := range row {
			out[i][j] = v
			if v.K == refsql.KStr && len(v.S) >= 20 && v.S[4] == '-' {
				if t, err := time.Parse(time.RFC3339Nano, v.S); err == nil {
					n := "time:" + t.UTC().Format(time.RFC3339Nano)
					if "time:"+v.S != n {
						changed = true
					}
					out[i][j] = refsql.Str(n)
				}
			}
		}
	}
	return
}

func c26Bag(rows [][]refsql.V) map[string]int {
	m := map[string]int{}
	for _, r := range rows {
		m[refsql.RowKey(r)]++
	}
	return m
}

type c26Verdict struct {
	class    string // "" agreement
	note     string // agreement class for the histogram
	why      string
	plugin   string
	native   string
	nativeN  int
	rejected bool
}

func c26RunPair(s *c26Setup, pluginSQL, nativeSQL string) c26Verdict {
	pr := runner.RunBinary(sqlArgs(pluginSQL, "json", true), nil, s.env...)
	nr := runner.RunBinary(sqlArgs(nativeSQL, "json", true), nil, s.env...)
	short := func(x string) string {
		if len(x) > 600 {
			return x[:600] + "…"
		}
		return x
	}
	v := c26Verdict{}
	pc, nc := pr.Class(), nr.Class()
	if pc != "ok" {
		v.plugin = pc + ": " + short(pr.Err+pr.Crash)
	}
	if nc != "ok" {
		v.native = nc + ": " + short(nr.Err+nr.Crash)
	}
	failed := func(c string) bool { return c == "error" || c == "PANIC" || c == "CRASH" }
	switch {
	case pc == "ok" && nc == "ok":
	case pc == "error" && nc == "error" && isTypecheckErr(pr.Err) && isTypecheckErr(nr.Err):
		v.note = "both rejected at typecheck"
		v.rejected = true
		return v
	case failed(pc) && failed(nc):
		// the statement asks for agreement in kind: both fail (how octosql fails natively is C06/C07's business)
		v.note = "both fail"
		if pc != nc {
			v.note = "both fail (plugin: " + strings.ToLower(pc) + ", native: " + strings.ToLower(nc) + ")"
		}
		return v
	case pc == nc:
		v.note = "both " + strings.ToLower(pc)
		return v
	case nc == "ok":
		v.class = "plugin-" + strings.ToLower(pc) + "-native-ok"
		_, rows, _ := refsql.ParseJSONLines(nr.Out)
		v.native = refsql.RowsString(rows)
		v.why = v.plugin
		return v
	default:
		v.class = "native-" + strings.ToLower(nc) + "-plugin-" + strings.ToLower(pc)
		if pc == "ok" {
			_, rows, _ := refsql.ParseJSONLines(pr.Out)
			v.plugin = refsql.RowsString(rows)
		}
		v.why = v.native
		return v
	}
	pn, prow, perr := refsql.ParseJSONLines(pr.Out)
	nn, nrow, nerr := refsql.ParseJSONLines(nr.Out)
	if perr != nil || nerr != nil {
		if (perr != nil) == (nerr != nil) {
			v.note = "both outputs unparsable"
			return v
		}
		v.class, v.why = "unparsable-output-on-one-side", fmt.Sprint(perr, nerr)
		return v
	}
	prow, ch1 := c26NormRows(prow)
	nrow, ch2 := c26NormRows(nrow)
	v.plugin, v.native, v.nativeN = refsql.RowsString(prow), refsql.RowsString(nrow), len(nrow)
	if len(prow) > 0 && len(nrow) > 0 && strings.Join(pn, ",") != strings.Join(nn, ",") {
		v.class, v.why = "column-names-differ", strings.Join(pn, ",")+" vs "+strings.Join(nn, ",")
		return v
	}
	pb, nb := c26Bag(prow), c26Bag(nrow)
	same := len(pb) == len(nb)
	for k, n := range pb {
		if nb[k] != n {
			same = false
		}
	}
	if !same {
		v.class = "rows-differ"
		v.why = fmt.Sprintf("%d rows from the plugin, %d natively", len(prow), len(nrow))
		return v
	}
	v.note = "same rows"
	if ch1 != ch2 {
		v.note = "same rows (time location not carried)"
	}
	if len(nrow) == 0 {
		v.note = "same rows (empty)"
	}
	return v
}

func c26WhereOps(e *refsql.Expr, out map[string]bool) {
	if e == nil {
		return
	}
	if e.Op != "col" && e.Op != "lit" {
		op := e.Op
		if op == "in" {
			op = "in(tuple)" // refsql's IN is always the parenthesised (tuple) form
		}
		out["where:"+op] = true
	}
	for _, a := range e.Args {
		c26WhereOps(a, out)
	}
}

func c26Features(q *refsql.Query) string {
	m := map[string]bool{}
	c26WhereOps(q.Where, m)
	for _, f := range featureList(q, true) {
		if f != "where" {
			m[f] = true
		}
	}
	var l []string
	for k := range m {
		l = append(l, k)
	}
	sort.Strings(l)
	if len(l) == 0 {
		return "select-star"
	}
	return strings.Join(l, "+")
}

func c26Simplifications(q *refsql.Query) []*refsql.Query {
	var out []*refsql.Query
	if q.Where != nil {
		c := cloneQuery(q)
		c.Where = nil
		out = append(out, c)
		if q.Where.Op != "col" && q.Where.Op != "lit" {
			for _, a := range q.Where.Args {
				if a.Op == "lit" || (a.Op == "col" && a.Col != "t.c") {
					continue
				}
				switch q.Where.Op {
				case "and", "or", "not":
					c := cloneQuery(q)
					c.Where = a
					out = append(out, c)
				}
			}
		}
	}
	if len(q.GroupBy) > 0 {
		c := cloneQuery(q)
		c.GroupBy = nil
		c.Proj = []refsql.Proj{{Star: true}}
		out = append(out, c)
	} else {
		agg := false
		for _, p := range q.Proj {
			agg = agg || p.Agg != ""
		}
		if agg {
			c := cloneQuery(q)
			c.Proj = []refsql.Proj{{Star: true}}
			out = append(out, c)
		} else if !(len(q.Proj) == 1 && q.Proj[0].Star) {
			c := cloneQuery(q)
			c.Proj = []refsql.Proj{{Star: true}}
			out = append(out, c)
		}
	}
	if q.Distinct {
		c := cloneQuery(q)
		c.Distinct = false
		out = append(out, c)
	}
	return out
}

func c26WithTable(q *refsql.Query, t *refsql.Table) *refsql.Query {
	c := cloneQuery(q)
	c.From = &refsql.From{Table: t}
	return c
}

func c26EndToEnd(r *findings.Run) {
	// ---- tables
	dom := c01Domain()
	rows := append(append([][]refsql.V{}, dom...), dom[13], dom[13], dom[47])
	var tLines, tKeys []string
	conv := make([][]refsql.V, len(rows))
	for ri, row := range rows {
		var b strings.Builder
		b.WriteString("{")
		conv[ri] = make([]refsql.V, len(row))
		for i := range row {
			if i > 0 {
				b.WriteString(",")
			}
			fmt.Fprintf(&b, "%q:%s", c01Cols[i], jsonCell(row[i]))
			conv[ri][i] = row[i]
			if row[i].K == refsql.KInt {
				conv[ri][i] = refsql.Float(float64(row[i].I))
			}
		}
		b.WriteString("}")
		tLines = append(tLines, b.String())
		tKeys = append(tKeys, refsql.RowKey(conv[ri]))
	}
	uLines := []string{
		`{"id":1,"l":[1,2],"n":null,"o":{"x":1,"y":"a"},"s":"ab","ts":"2020-01-02T03:04:05+01:00"}`,
		`{"id":2,"l":[],"n":2,"o":{"x":2,"y":"b"},"s":"","ts":"2020-01-02T03:04:05Z"}`,
		`{"id":3,"l":[3],"n":null,"o":{"x":1,"y":"c"},"s":"abc","ts":"1969-12-31T23:59:59.5-08:00"}`,
		`{"id":4,"l":[4,1,4],"n":4,"o":{"x":4,"y":"a"},"s":"a","ts":"2262-04-11T23:47:16Z"}`,
	}
	tInstall := time.Now()
	setup, err := c26Install(map[string][]string{"t": tLines, "u": uLines})
	r.Extra["e2e_build_and_install_s"] = time.Since(tInstall).Seconds()
	if err != nil {
		fmt.Println("HARNESS ERROR: C26 end-to-end setup failed: " + err.Error())
		panic("C26 setup: " + err.Error())
	}
	defer os.RemoveAll(filepath.Dir(setup.dataDir))

	// ---- the stream protocol itself: a scripted changelog (records, a retraction, watermarks interleaved) served by
	// the plugin must arrive event by event, in order (stream_native prints records and watermarks as they come)
	{
		res := runner.RunBinary(sqlArgs("SELECT * FROM mydb.vstream v", "stream_native", true), nil, setup.env...)
		r.Eval(1)
		ts := func(sec int) time.Time { return time.Unix(int64(sec), 0).UTC() }
		rec := func(i int, retraction bool, sec int) string {
			sign := "+"
			if retraction {
				sign = "-"
			}
			return fmt.Sprintf("{%s%s| %d |}", sign, ts(sec).Format(time.RFC3339), i)
		}
		wm := func(sec int) string { return fmt.Sprintf("{~%s}", ts(sec)) }
		want := []string{wm(1), rec(1, false, 2), wm(2), rec(2, false, 3), rec(1, true, 3), wm(3), wm(4), rec(3, false, 5), wm(5)}
		var got []string
		for _, l := range strings.Split(res.Out, "\n") {
			if strings.TrimSpace(l) != "" {
				got = append(got, strings.TrimSpace(l))
			}
		}
		cs := map[string]interface{}{"sql": "SELECT * FROM mydb.vstream v", "mode": "stream_native", "got": got, "want": want, "exit": res.Exit, "stderr": oneLineC04(res.Err)}
		if res.Exit != 0 || res.Crash != "" || res.Hang {
			r.Violation("C26/e2e/stream/fails", fmt.Sprintf("SELECT * FROM mydb.vstream (-o stream_native) failed: exit %d %s", res.Exit, oneLineC04(res.Err+res.Crash)), cs)
		} else if strings.Join(got, "\n") != strings.Join(want, "\n") {
			r.Violation("C26/e2e/stream/events-differ", fmt.Sprintf("the plugin sent %v, octosql received %v", want, got), cs)
		} else {
			r.Nontrivial("vstream")
			r.Outcome("e2e stream: records, retraction and watermarks arrive in order")
		}
	}

	tp := &refsql.Table{Path: "mydb.t", Alias: "t", Cols: c01Cols, Rows: conv}
	tn := &refsql.Table{Path: filepath.Join(setup.dataDir, "t.json"), Alias: "t", Cols: c01Cols, Rows: conv}

	// ---- query families over t
	depth := r.Pick(2, 3)
	preds := c01Predicates(floatLit, depth)
	projs := c01Projections(floatLit)
	var qs []*refsql.Query // with table tp; the native twin is derived
	add := func(where *refsql.Expr, proj []refsql.Proj, distinct bool, groupBy []*refsql.Expr) {
		q := refsql.NewQuery()
		q.From = &refsql.From{Table: tp}
		q.Where = where
		q.Proj = proj
		q.Distinct = distinct
		q.GroupBy = groupBy
		qs = append(qs, q)
	}
	for pi, p := range preds {
		add(p, projs[0], false, nil)
		if r.Thorough() || pi < 20 || pi%4 == 0 { // quick: the expression projection over atoms, negations and every 4th combination
			add(p, projs[3], false, nil)
		}
	}
	for _, pj := range projs {
		for _, p := range []*refsql.Expr{nil, preds[1]} {
			for _, d := range []bool{false, true} {
				add(p, pj, d, nil)
			}
		}
	}
	col := refsql.Col
	keys := [][]*refsql.Expr{{col("t.b")}, {col("t.c")}, {col("t.b"), col("t.c")}, {col("t.a")}}
	aggs := [][]refsql.Proj{
		{{Agg: "count", Alias: "n"}},
		{{Agg: "sum", E: col("t.a"), Alias: "s"}, {Agg: "count", E: col("t.a"), Alias: "n"}},
	}
	gbPreds := []*refsql.Expr{nil, preds[0], preds[2], preds[4], preds[8], preds[len(preds)-1]}
	if r.Thorough() {
		gbPreds = append(gbPreds, preds[1], preds[3], preds[5], preds[6], preds[7], preds[9], preds[10], preds[20], preds[25])
	}
	for _, k := range keys {
		for _, ag := range aggs {
			for _, p := range gbPreds {
				var pj []refsql.Proj
				for _, e := range k {
					pj = append(pj, refsql.Proj{E: e})
				}
				pj = append(pj, ag...)
				add(p, pj, false, k)
			}
		}
	}
	for _, ag := range aggs { // global aggregates
		for _, p := range gbPreds {
			add(p, ag, false, nil)
		}
	}
	var queries []c26Query
	for _, q := range qs {
		queries = append(queries, c26Query{plugin: q.SQL(), native: c26WithTable(q, tn).SQL(), q: q, table: "t"})
	}
	// ---- hand-written family over u (list / object / time columns; functions with overloads)
	uSQL := []struct{ feature, sql string }{
		{"select-star", "SELECT * FROM {T}"},
		{"proj:time", "SELECT u.id, u.ts FROM {T}"},
		{"proj:list+object", "SELECT u.l, u.o FROM {T}"},
		{"proj:len", "SELECT u.id, len(u.l) AS ll, len(u.o) AS lo, len(u.s) AS ls FROM {T}"},
		{"proj:field-access", "SELECT u.id, u.o->x AS x, u.l[0] AS l0 FROM {T}"},
		{"where:len(list)", "SELECT u.id FROM {T} WHERE len(u.l) = 2"},
		{"where:len(list)", "SELECT u.id FROM {T} WHERE len(u.l) > 0"},
		{"where:len(object)", "SELECT u.id FROM {T} WHERE len(u.o) = 2"},
		{"where:len(object)", "SELECT u.id FROM {T} WHERE len(u.o) > 0"},
		{"where:len(string)", "SELECT u.id FROM {T} WHERE len(u.s) = 2"},
		{"where:len(tuple)", "SELECT u.id FROM {T} WHERE len((u.id, u.s)) = 2"},
		{"where:in(tuple)", "SELECT u.id FROM {T} WHERE u.id IN (1.0, 4.0)"},
		{"where:in(tuple)", "SELECT u.id FROM {T} WHERE u.s IN ('a', 'ab')"},
		{"where:not-in(tuple)", "SELECT u.id FROM {T} WHERE u.id NOT IN (1.0, 4.0)"},
		{"where:in(tuple)", "SELECT u.id FROM {T} WHERE u.l IN (u.l, u.l)"},
		{"where:field-access", "SELECT u.id FROM {T} WHERE u.o->x = 1.0"},
		{"where:field-access", "SELECT u.id FROM {T} WHERE u.o->y = 'a' OR u.o->x > 2.0"},
		{"where:index", "SELECT u.id FROM {T} WHERE u.l[0] = 4.0"},
		{"where:index", "SELECT u.id FROM {T} WHERE u.l[1] IS NULL"},
		{"where:coalesce", "SELECT u.id FROM {T} WHERE COALESCE(u.n, 0.0) = 0.0"},
		{"where:coalesce", "SELECT u.id FROM {T} WHERE COALESCE(u.n, u.id) > 2.0"},
		{"where:is-null", "SELECT u.id FROM {T} WHERE u.n IS NULL"},
		{"where:is-null", "SELECT u.id FROM {T} WHERE u.n IS NOT NULL AND u.n > 2.0"},
		{"where:time", "SELECT u.id FROM {T} WHERE u.ts < now()"},
		{"where:time", "SELECT u.id FROM {T} WHERE time_to_unix(u.ts) > 0.0"},
		{"where:time", "SELECT u.id FROM {T} WHERE u.ts + INTERVAL 1 HOUR > u.ts"},
		{"where:time", "SELECT u.id FROM {T} WHERE string(u.ts) = '2020-01-02T03:04:05Z'"},
		{"where:string-fn", "SELECT u.id FROM {T} WHERE upper(u.s) = 'AB'"},
		{"where:string-fn", "SELECT u.id FROM {T} WHERE u.s LIKE 'a%'"},
		{"where:string-fn", "SELECT u.id FROM {T} WHERE u.s ~ '^a.$'"},
		{"where:string-fn", "SELECT u.id FROM {T} WHERE substr(u.s, 1) = 'b'"},
		{"where:arith", "SELECT u.id FROM {T} WHERE u.id * 2.0 - 1.0 >= 5.0"},
		{"where:arith", "SELECT u.id FROM {T} WHERE int(u.id) / 2 = 1"},
		{"where:arith", "SELECT u.id FROM {T} WHERE -u.id < -2.5"},
		{"where:tuple-eq", "SELECT u.id FROM {T} WHERE (u.id, u.s) = (1.0, 'ab')"},
		{"where:runtime-error", "SELECT u.id FROM {T} WHERE int(u.id) / 0 = 1"},
		{"where:unknown-function", "SELECT u.id FROM {T} WHERE nosuchfn(u.id) = 1"},
		{"where:subquery", "SELECT u.id FROM {T} WHERE u.id IN (SELECT v.id FROM {T2} WHERE v.id > 2.0)"},
		{"where:subquery", "SELECT u.id FROM {T} WHERE u.id = (SELECT max(v.id) FROM {T2})"},
		{"groupby", "SELECT u.o->x AS x, COUNT(*) AS n FROM {T} GROUP BY u.o->x"},
		{"groupby", "SELECT len(u.l) AS k, SUM(u.id) AS s FROM {T} WHERE len(u.s) > 0 GROUP BY len(u.l)"},
		{"distinct", "SELECT DISTINCT u.o->x AS x FROM {T} WHERE u.id != 2.0"},
		{"no-such-table", "SELECT * FROM {TX}"},
	}
	// conjunctions: the executor splits WHERE into conjuncts, sends the serialisable ones to the plugin and must keep
	// every other one (and every one the plugin rejects) in a filter above it. Every predicate of the list is
	// AND-combined, in both orders, with a pushable comparison and with a subquery predicate (never serialisable);
	// thorough: every ordered pair of predicates.
	{
		var preds []string
		for _, u := range uSQL {
			if i := strings.Index(u.sql, " WHERE "); i >= 0 && strings.HasPrefix(u.feature, "where:") && strings.HasPrefix(u.sql, "SELECT u.id FROM {T} WHERE ") &&
				u.feature != "where:runtime-error" && u.feature != "where:unknown-function" {
				preds = append(preds, u.sql[i+len(" WHERE "):])
			}
		}
		partners := []string{"u.id > 1.0", "u.id IN (SELECT v.id FROM {T2} WHERE v.id > 2.0)", "u.id != (SELECT min(v.id) FROM {T2})"}
		if r.Thorough() {
			partners = preds
		}
		seen := map[string]bool{}
		for _, p := range preds {
			for _, q := range partners {
				if p == q {
					continue
				}
				for _, c := range []string{"(" + p + ") AND (" + q + ")", "(" + q + ") AND (" + p + ")"} {
					if !seen[c] {
						seen[c] = true
						uSQL = append(uSQL, struct{ feature, sql string }{"where:conjunction", "SELECT u.id FROM {T} WHERE " + c})
					}
				}
			}
		}
	}
	upath := filepath.Join(setup.dataDir, "u.json")
	for _, u := range uSQL {
		rp := strings.NewReplacer("{TX}", "mydb.nosuch x", "{T2}", "mydb.u v", "{T}", "mydb.u u")
		rn := strings.NewReplacer("{TX}", filepath.Join(setup.dataDir, "nosuch.json")+" x", "{T2}", upath+" v", "{T}", upath+" u")
		queries = append(queries, c26Query{plugin: rp.Replace(u.sql), native: rn.Replace(u.sql), feature: u.feature, table: "u"})
	}
	r.Extra["e2e_bound"] = map[string]interface{}{"predicate_depth": depth, "domain_rows": len(rows), "query_pairs": len(queries), "queries_over_t": len(qs), "queries_over_u": len(uSQL)}

	// ---- run
	type minimal struct{ features, sql string }
	var mu sync.Mutex
	cache := map[string]minimal{}
	reproduced := map[string]bool{}
	sem := make(chan struct{}, 12)
	enum.Parallel(len(queries), func(i int) {
		if r.TimeUp() {
			return
		}
		sem <- struct{}{}
		defer func() { <-sem }()
		cq := queries[i]
		v := c26RunPair(setup, cq.plugin, cq.native)
		// a difference must reproduce (no flaky process-level effects); checked for the first case of every class/feature set
		rkey := v.class + "/" + cq.feature
		if cq.q != nil {
			rkey = v.class + "/" + c26Features(cq.q)
		}
		mu.Lock()
		first := v.class != "" && !reproduced[rkey]
		reproduced[rkey] = true
		mu.Unlock()
		if first {
			for k := 0; k < 2; k++ {
				if again := c26RunPair(setup, cq.plugin, cq.native); again.class != v.class {
					r.Outcome("e2e: not reproducible (" + v.class + " then " + again.class + ")")
					return
				}
			}
		}
		r.Eval(1)
		if v.class == "" {
			r.Outcome("e2e: " + v.note)
			if v.rejected {
				r.Reject(1)
			}
			if v.nativeN > 0 && v.nativeN < len(setup.files[cq.table]) {
				r.Nontrivial("e2e/" + cq.plugin)
			}
			if i%97 == 5 && r.NeedSample() {
				r.Sample(c26E2ECase{PluginSQL: cq.plugin, NativeSQL: cq.native, Plugin: v.plugin, Native: v.native})
			}
			return
		}
		r.Outcome("e2e: " + strings.ToUpper(v.class))
		features, minSQL := cq.feature, cq.plugin
		if cq.q != nil {
			key := v.class + "/" + c26Features(cq.q)
			mu.Lock()
			hit, ok := cache[key]
			if !ok {
				// a minimal form already found for this class whose features all occur in this query: same cause
				have := map[string]bool{}
				for _, f := range strings.Split(c26Features(cq.q), "+") {
					have[f] = true
				}
				for k, m := range cache {
					if !strings.HasPrefix(k, v.class+"/") {
						continue
					}
					sub := true
					for _, f := range strings.Split(m.features, "+") {
						sub = sub && have[f]
					}
					if sub {
						hit, ok = m, true
						break
					}
				}
			}
			mu.Unlock()
			if !ok {
				cur := cq.q
				for round := 0; round < 10; round++ {
					progressed := false
					for _, c := range c26Simplifications(cur) {
						if c26RunPair(setup, c.SQL(), c26WithTable(c, tn).SQL()).class == v.class {
							cur, progressed = c, true
							break
						}
					}
					if !progressed {
						break
					}
				}
				hit = minimal{c26Features(cur), cur.SQL()}
				mu.Lock()
				cache[key] = hit
				mu.Unlock()
			}
			features, minSQL = hit.features, hit.sql
		}
		cs := c26E2ECase{PluginSQL: cq.plugin, NativeSQL: cq.native, Args: sqlArgs(cq.plugin, "json", true), Env: setup.env, Config: setup.config,
			TableFile: cq.table + ".json", TableRows: setup.files[cq.table], Plugin: v.plugin, Native: v.native, MinimalSQL: minSQL, Features: features}
		r.Violation("C26/e2e/"+v.class+"/"+features,
			fmt.Sprintf("%s: %s (%s): through the plugin %s, natively (%s) %s [minimal form: %s]", cq.plugin, v.class, v.why, v.plugin, cq.native, v.native, minSQL), cs)
	})
}
