package props

import (
	"fmt"
	"strings"
	"time"

	"github.com/cube2222/octosql/aggregates"
	"github.com/cube2222/octosql/execution"
	"github.com/cube2222/octosql/execution/nodes"
	"github.com/cube2222/octosql/octosql"

	"verif/harness/internal/enum"
	"verif/harness/internal/findings"
	"verif/harness/internal/stream"
)

// c18Oracle: forwarded watermarks never decrease; no record with a non-zero
// event time at or below an already forwarded watermark.
func c18Oracle(log []stream.Out) (fp, what string) {
	var last time.Time
	for i, o := range log {
		if o.WM {
			if o.T.Before(last) {
				return "watermark-regressed", fmt.Sprintf("output event %d forwards %s after %s", i, o, "wm"+fmt.Sprint(last.Unix()))
			}
			last = o.T
			continue
		}
		if !o.T.IsZero() && !last.IsZero() && !o.T.After(last) {
			kind := "insert"
			if o.Retract {
				kind = "retraction"
			}
			return "late-" + kind, fmt.Sprintf("output event %d (%s) has an event time at or below the already forwarded watermark %d", i, o, last.Unix())
		}
	}
	return "", ""
}

// bufferOracle: event-time buffer releases every record unchanged, in event
// time order, before the first watermark at or above its time, the rest at end.
func bufferOracle(evs []stream.Ev, log []stream.Out) (fp, what string) {
	// expected output log, exactly
	var want []string
	type pend struct {
		e   stream.Ev
		seq int
	}
	var pending []pend
	release := func(w time.Time, all bool) {
		var rel, keep []pend
		for _, p := range pending {
			if all || !p.e.T.After(w) {
				rel = append(rel, p)
			} else {
				keep = append(keep, p)
			}
		}
		// stable sort by event time
		for i := 1; i < len(rel); i++ {
			for j := i; j > 0 && rel[j].e.T.Before(rel[j-1].e.T); j-- {
				rel[j], rel[j-1] = rel[j-1], rel[j]
			}
		}
		for _, p := range rel {
			want = append(want, p.e.String())
		}
		pending = keep
	}
	for i, e := range evs {
		switch e.Kind {
		case stream.Rec:
			if e.T.IsZero() {
				want = append(want, e.String())
			} else {
				pending = append(pending, pend{e, i})
			}
		case stream.WM:
			release(e.T, false)
			want = append(want, e.String())
		}
	}
	release(time.Time{}, true)
	got := stream.LogStrs(log)
	if strings.Join(got, "|") != strings.Join(want, "|") {
		return "buffer-release-order", fmt.Sprintf("released %v, expected %v", got, want)
	}
	return "", ""
}

func init() {
	register("C18", "model_checking", func(r *findings.Run) {
		L := r.Pick(4, 5)
		specs := singleInputNodes()
		opts := changelogOpts(L, []int{1, 2, 3}, true)
		opts.RecTimes = []int{0, 1, 2}
		opts.EqualWM = true
		hist := stream.GenScripts(opts)
		joinLen := r.Pick(2, 3)
		r.Bound = map[string]interface{}{"single_input_history_len": L, "histories": len(hist), "nodes": len(specs) + 4, "join_events_per_side": joinLen}
		r.Rule = "every valid watermarked changelog (rows (1,1),(1,2),(2,1),(NULL,1); event times {0,1,2}; non-decreasing watermarks {1,2,3}; no late records) up to the length bound through every single-input node, the event-time buffer (exact release order), tumble, max_diff_watermark and the pipeline max_diff_watermark->tumble->group by ON WATERMARK (event-time key first and second); joins and join->group-by under every interleaving of watermarked per-side scripts (hook H1); state = (node, history prefix); non-trivial = run that forwards a watermark and emits a record with non-zero event time"
		r.Assume("inputs contain no late records and monotone watermarks", "zero event time means not time-stamped", "hook H1 for the join part")

		type job struct {
			name  string
			build func(src execution.Node) execution.Node
			evs   []stream.Ev
			kind  int // 0 generic, 1 buffer
			list  bool
		}
		// jobs are (template, history) pairs, kept as groups and resolved by index (the thorough tier has tens of millions)
		type group struct {
			tmpl  job
			hists [][]stream.Ev
		}
		var groups []group
		addJob := func(j job) {
			if n := len(groups); n > 0 && groups[n-1].tmpl.name == j.name {
				groups[n-1].hists = append(groups[n-1].hists, j.evs)
				return
			}
			t := j
			t.evs = nil
			groups = append(groups, group{t, [][]stream.Ev{j.evs}})
		}
		shortLen := r.Pick(3, 4)
		var histShort [][]stream.Ev
		for _, h := range hist {
			if len(h) <= shortLen {
				histShort = append(histShort, h)
			}
		}
		for _, s := range specs {
			stateful := strings.Contains(s.name, "group_by") || strings.Contains(s.name, "buffer") || strings.Contains(s.name, "distinct")
			k := 0
			if s.name == "event_time_buffer" {
				k = 1
			}
			g := group{job{s.name, s.build, nil, k, s.listInput}, hist}
			if !stateful {
				g.hists = histShort
			}
			groups = append(groups, g)
		}
		// TVFs and the pipeline: rows [k, ts]
		tsOpts := stream.ScriptOpts{MaxLen: r.Pick(4, 5), Times: []int{1, 2, 3, 4}}
		for _, ts := range []int{1, 2, 3, 4} {
			tsOpts.Rows = append(tsOpts.Rows, []octosql.Value{octosql.NewInt(int64(ts % 2)), octosql.NewTime(stream.T(ts))})
		}
		// (a) source without event times / watermarks -> max_diff_watermark [-> tumble -> group by]
		rawOpts := tsOpts
		rawOpts.RecTimes = []int{0}
		for _, h := range stream.GenScripts(rawOpts) {
			addJob(job{"max_diff_watermark(1s)", func(src execution.Node) execution.Node { return mustNode(mkMaxDiff(src, time.Second, nil)) }, h, 0, false})
			addJob(job{"pipeline max_diff_watermark->tumble(2s)->group_by(window_end,k) ON WATERMARK", func(src execution.Node) execution.Node {
				md := mustNode(mkMaxDiff(src, time.Second, nil))
				tb := mustNode(mkTumble(md, 2*time.Second, nil))
				return nodes.NewCustomTriggerGroupBy([]func() nodes.Aggregate{aggregates.NewCountPrototype()}, []execution.Expression{constInt(1)},
					[]execution.Expression{col(3), col(0)}, 0, tb, execution.NewWatermarkTriggerPrototype(0))
			}, h, 0, false})
		}
		// the same pipeline with the event-time key in second position (GROUP BY k, window_end): the trigger's pending keys are
		// then not ordered by their leading component
		for _, h := range stream.GenScripts(rawOpts) {
			addJob(job{"pipeline max_diff_watermark->tumble(2s)->group_by(k,window_end) ON WATERMARK", func(src execution.Node) execution.Node {
				md := mustNode(mkMaxDiff(src, time.Second, nil))
				tb := mustNode(mkTumble(md, 2*time.Second, nil))
				return nodes.NewCustomTriggerGroupBy([]func() nodes.Aggregate{aggregates.NewCountPrototype()}, []execution.Expression{constInt(1)},
					[]execution.Expression{col(0), col(3)}, 1, tb, execution.NewWatermarkTriggerPrototype(1))
			}, h, 0, false})
		}
		// (b) tumble over an already watermarked source whose event time is the ts column
		{
			var hs [][]stream.Ev
			type st struct {
				evs []stream.Ev
				wm  int
			}
			var rec func(s st)
			rec = func(s st) {
				hs = append(hs, append([]stream.Ev{}, s.evs...))
				if len(s.evs) == tsOpts.MaxLen {
					return
				}
				for t := s.wm + 1; t <= 4; t++ {
					rec(st{append(append([]stream.Ev{}, s.evs...), stream.W(t)), t})
				}
				for t := s.wm + 1; t <= 4; t++ {
					rec(st{append(append([]stream.Ev{}, s.evs...), stream.R(t, octosql.NewInt(int64(t%2)), octosql.NewTime(stream.T(t)))), s.wm})
				}
			}
			rec(st{})
			for _, h := range hs {
				addJob(job{"tumble(2s)", func(src execution.Node) execution.Node { return mustNode(mkTumble(src, 2*time.Second, nil)) }, h, 0, false})
			}
		}
		nJobs := 0
		for _, g := range groups {
			nJobs += len(g.hists)
		}
		if r.ShardChild() {
			nJobs = 0 // the single-input part is done once, by the parent process
		}
		enum.Parallel(nJobs, func(i int) {
			if r.TimeUp() {
				return
			}
			var j job
			for gi, off := 0, i; ; gi++ {
				if off < len(groups[gi].hists) {
					j = groups[gi].tmpl
					j.evs = groups[gi].hists[off]
					break
				}
				off -= len(groups[gi].hists)
			}
			if j.list {
				j.evs = listify(j.evs)
			}
			log, err, pan := stream.RunSingle(j.build, j.evs)
			r.AddCounts(1, int64(len(j.evs)+1), 1)
			r.Eval(1)
			cs := histCase{Node: j.name, Input: stream.Strs(j.evs), Output: stream.LogStrs(log)}
			if pan != nil || err != nil {
				r.Violation("C18/"+j.name+"/abnormal", fmt.Sprintf("%s: input %v: panic=%v err=%v", j.name, cs.Input, pan, err), cs)
				return
			}
			fp, what := c18Oracle(log)
			if fp == "" && j.kind == 1 {
				fp, what = bufferOracle(j.evs, log)
			}
			wm, timed := false, false
			for _, o := range log {
				wm = wm || o.WM
				timed = timed || (!o.WM && !o.T.IsZero())
			}
			if wm && timed {
				r.Nontrivial(j.name + strings.Join(cs.Input, " "))
			}
			r.Outcome(fmt.Sprintf("wm=%v timed=%v", wm, timed))
			if fp != "" {
				r.Violation("C18/"+j.name+"/"+fp, fmt.Sprintf("%s: input %v: %s", j.name, cs.Input, what), cs)
			} else if wm && timed && i%1999 == 0 {
				r.Sample(cs)
			}
		})

		// joins (and join -> group by) under every interleaving
		jopts := stream.ScriptOpts{Keys: []int{1}, Times: []int{1, 2, 3}, RecTimes: []int{0, 1, 2, 3}, MaxLen: joinLen, Retractions: true, Watermarks: true}
		js := stream.GenScripts(jopts)
		type jjob struct {
			name  string
			build func(l, r execution.Node) execution.Node
			l, r  []stream.Ev
		}
		// the pairs are enumerated lazily (never materialised: the thorough tier has millions of them and every shard
		// process walks the same sequence, taking the indices of its residue class)
		loLong := jopts
		loLong.MaxLen = r.Pick(3, 4)
		loShort := jopts
		loShort.MaxLen = 1
		long, short := stream.GenScripts(loLong), stream.GenScripts(loShort)
		forEachJoinJob := func(f func(i int, j jjob)) int {
			i := 0
			emit := func(j jjob) { f(i, j); i++ }
			for _, k := range joinKinds {
				k := k
				for _, l := range js {
					for _, rr := range js {
						emit(jjob{k.Name + "_join", buildJoin(k, 1), l, rr})
					}
				}
			}
			// asymmetric family: a longer script (several watermarks in a row, retractions with later event times)
			// against at most one event on the other input, in both roles
			for _, k := range joinKinds {
				k := k
				for _, l := range long {
					if len(l) <= joinLen {
						continue
					}
					for _, s := range short {
						emit(jjob{k.Name + "_join", buildJoin(k, 1), l, s})
						emit(jjob{k.Name + "_join", buildJoin(k, 1), s, l})
					}
				}
			}
			for _, k := range []joinKind{joinKinds[0], joinKinds[3]} {
				k := k
				for _, l := range js {
					for _, rr := range js {
						if len(l) > 2 || len(rr) > 2 {
							continue
						}
						emit(jjob{k.Name + "_join->group_by counting 1", func(l, r execution.Node) execution.Node {
							return nodes.NewCustomTriggerGroupBy([]func() nodes.Aggregate{aggregates.NewCountPrototype()}, []execution.Expression{constInt(1)},
								[]execution.Expression{col(0)}, -1, buildJoin(k, 1)(l, r), execution.NewCountingTriggerPrototype(1))
						}, l, rr})
					}
				}
			}
			return i
		}
		r.Extra["join_script_pairs"] = forEachJoinJob(func(int, jjob) {})
		r.Sharded(16, 1, func(shard, n int) {
			forEachJoinJob(func(i int, j jjob) {
				if i%n != shard || r.TimeUp() {
					return
				}
				stream.Schedules(len(j.l)+1, len(j.r)+1, func(s []int) bool {
					sched := append([]int{}, s...)
					res := stream.RunJoin(j.build, j.l, j.r, sched, 0)
					r.AddCounts(1, int64(len(sched)), 1)
					r.Eval(1)
					r.Sum("join_schedules", 1)
					cs := c19Case{Kind: j.name, Left: stream.Strs(j.l), Right: stream.Strs(j.r), Schedule: stream.SchedStr(sched), Log: stream.LogStrs(res.Log)}
					if res.Stuck || res.Panic != nil || res.Err != nil {
						r.Violation("C18/"+j.name+"/abnormal", fmt.Sprintf("%s: %v: stuck=%v panic=%v err=%v", j.name, cs, res.Stuck, res.Panic, res.Err), cs)
						return true
					}
					fp, what := c18Oracle(res.Log)
					wm, timed := false, false
					for _, o := range res.Log {
						wm = wm || o.WM
						timed = timed || (!o.WM && !o.T.IsZero())
					}
					if wm && timed {
						r.Nontrivial(fmt.Sprint(cs.Kind, cs.Left, cs.Right, cs.Schedule))
					}
					r.Outcome(fmt.Sprintf("join wm=%v timed=%v", wm, timed))
					if fp != "" {
						r.Violation("C18/"+j.name+"/"+fp, fmt.Sprintf("%s: left %v right %v schedule %s: %s", j.name, cs.Left, cs.Right, cs.Schedule, what), cs)
					}
					return true
				})
			})
		})
	})
}
