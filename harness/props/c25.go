package props

// C25: CSV and JSON output encode results faithfully.
//
// The REAL formats.NewJSONFormatter / formats.NewCSVFormatter are driven exactly the way
// outputs/eager/eager.go drives them (a 4 MiB bufio.Writer in front of the sink, SetSchema, one
// Write per record, Flush of the bufio.Writer, Close is never called), with a typed physical.Schema.
// The bytes are decoded by independent decoders (encoding/json token stream with UseNumber; an own
// RFC 4180 decoder, encoding/csv only as a second opinion) and compared with a plain Go model of the
// row (c25Want) that is built next to the octosql.Value, never derived from it by code under test.

import (
	"bufio"
	"bytes"
	"encoding/csv"
	"encoding/json"
	"fmt"
	"io"
	"math"
	"math/big"
	"strconv"
	"strings"
	"sync"
	"time"
	"unicode/utf8"

	"github.com/cube2222/octosql/octosql"
	"github.com/cube2222/octosql/outputs/eager"
	"github.com/cube2222/octosql/outputs/formats"
	"github.com/cube2222/octosql/physical"

	"verif/harness/internal/enum"
	"verif/harness/internal/findings"
)

// ---------------------------------------------------------------- model of a cell

type c25Want struct {
	K     string // null int float bool string opaque(time/duration: text not judged) list object tuple
	I     int64
	F     float64
	B     bool
	S     string
	Elems []c25Want
	Keys  []string
}

type c25Cell struct {
	T octosql.Type
	V octosql.Value
	W c25Want
}

func c25Null() c25Cell { return c25Cell{octosql.Null, octosql.NewNull(), c25Want{K: "null"}} }
func c25Int(i int64) c25Cell {
	return c25Cell{octosql.Int, octosql.NewInt(i), c25Want{K: "int", I: i}}
}
func c25Float(f float64) c25Cell {
	return c25Cell{octosql.Float, octosql.NewFloat(f), c25Want{K: "float", F: f}}
}
func c25Bool(b bool) c25Cell {
	return c25Cell{octosql.Boolean, octosql.NewBoolean(b), c25Want{K: "bool", B: b}}
}
func c25Str(s string) c25Cell {
	return c25Cell{octosql.String, octosql.NewString(s), c25Want{K: "string", S: s}}
}
func c25Time(t time.Time) c25Cell {
	return c25Cell{octosql.Time, octosql.NewTime(t), c25Want{K: "opaque", S: "Time(" + t.Format(time.RFC3339Nano) + ")"}}
}
func c25Dur(d time.Duration) c25Cell {
	return c25Cell{octosql.Duration, octosql.NewDuration(d), c25Want{K: "opaque", S: "Duration(" + strconv.FormatInt(int64(d), 10) + "ns)"}}
}

// c25List: the element type is the TypeSum of the element types (what the real system builds);
// no elements and elemHint==nil gives the untyped empty list (Element == nil).
func c25List(elemHint *octosql.Type, items ...c25Cell) c25Cell {
	var et *octosql.Type
	if elemHint != nil {
		t := *elemHint
		et = &t
	}
	vals := make([]octosql.Value, len(items))
	w := c25Want{K: "list", Elems: []c25Want{}}
	for i, it := range items {
		vals[i] = it.V
		w.Elems = append(w.Elems, it.W)
		if et == nil {
			t := it.T
			et = &t
		} else {
			t := octosql.TypeSum(*et, it.T)
			et = &t
		}
	}
	return c25Cell{octosql.Type{TypeID: octosql.TypeIDList, List: struct{ Element *octosql.Type }{Element: et}}, octosql.NewList(vals), w}
}

func c25Obj(names []string, items ...c25Cell) c25Cell {
	vals := make([]octosql.Value, len(items))
	fields := make([]octosql.StructField, len(items))
	w := c25Want{K: "object", Elems: []c25Want{}, Keys: []string{}}
	for i, it := range items {
		vals[i] = it.V
		fields[i] = octosql.StructField{Name: names[i], Type: it.T}
		w.Elems = append(w.Elems, it.W)
		w.Keys = append(w.Keys, names[i])
	}
	return c25Cell{octosql.Type{TypeID: octosql.TypeIDStruct, Struct: struct{ Fields []octosql.StructField }{Fields: fields}}, octosql.NewStruct(vals), w}
}

func c25Tuple(items ...c25Cell) c25Cell {
	vals := make([]octosql.Value, len(items))
	ts := make([]octosql.Type, len(items))
	w := c25Want{K: "tuple", Elems: []c25Want{}}
	for i, it := range items {
		vals[i] = it.V
		ts[i] = it.T
		w.Elems = append(w.Elems, it.W)
	}
	return c25Cell{octosql.Type{TypeID: octosql.TypeIDTuple, Tuple: struct{ Elements []octosql.Type }{Elements: ts}}, octosql.NewTuple(vals), w}
}

func (w c25Want) scalar() bool { return w.K != "list" && w.K != "object" && w.K != "tuple" }

func (w c25Want) depth() int {
	if w.scalar() {
		return 0
	}
	d := 0
	for _, e := range w.Elems {
		if x := e.depth(); x > d {
			d = x
		}
	}
	return d + 1
}

func (w c25Want) String() string {
	switch w.K {
	case "null":
		return "NULL"
	case "int":
		return "Int(" + strconv.FormatInt(w.I, 10) + ")"
	case "float":
		return "Float(" + strconv.FormatFloat(w.F, 'g', -1, 64) + ")"
	case "bool":
		return "Boolean(" + strconv.FormatBool(w.B) + ")"
	case "string":
		return "String(" + strconv.QuoteToASCII(w.S) + ")"
	case "opaque":
		return w.S
	}
	var parts []string
	for i, e := range w.Elems {
		if w.K == "object" {
			parts = append(parts, w.Keys[i]+":"+e.String())
		} else {
			parts = append(parts, e.String())
		}
	}
	switch w.K {
	case "list":
		return "List[" + strings.Join(parts, ",") + "]"
	case "object":
		return "Object{" + strings.Join(parts, ",") + "}"
	}
	return "Tuple(" + strings.Join(parts, ",") + ")"
}

// trivial cell: NULL, boolean, int of magnitude < 2^53, or a printable-ASCII string without " \ , and without a leading space.
func (w c25Want) trivial() bool {
	switch w.K {
	case "null", "bool":
		return true
	case "int":
		return w.I > -(1<<53) && w.I < (1<<53)
	case "string":
		for i := 0; i < len(w.S); i++ {
			c := w.S[i]
			if c < 0x20 || c > 0x7e || c == '"' || c == '\\' || c == ',' || (i == 0 && c == ' ') {
				return false
			}
		}
		return true
	}
	return false
}

// class of a cell for the outcome histogram
func (w c25Want) class() string {
	switch w.K {
	case "string":
		if !utf8.ValidString(w.S) {
			return "string-invalid-utf8"
		}
		if w.trivial() {
			return "string-plain"
		}
		return "string-special"
	case "float":
		if math.IsNaN(w.F) || math.IsInf(w.F, 0) {
			return "float-nonfinite"
		}
		return "float"
	case "opaque":
		return "time-or-duration"
	case "list", "object", "tuple":
		return "nested"
	}
	return w.K
}

func (w c25Want) hasNonFinite() bool {
	if w.K == "float" {
		return math.IsNaN(w.F) || math.IsInf(w.F, 0)
	}
	for _, e := range w.Elems {
		if e.hasNonFinite() {
			return true
		}
	}
	return false
}

// ---------------------------------------------------------------- driving the real formatters

var c25BufPool = sync.Pool{New: func() interface{} { return bufio.NewWriterSize(io.Discard, 4096*1024) }}

type c25Table struct {
	Names []string
	Types []octosql.Type
	Rows  [][]c25Cell
	Seq   bool // checked in a sequential first pass, so that the first reported case of a fingerprint is the smallest one
}

type c25Out struct {
	Header []byte   // bytes written by SetSchema
	Recs   [][]byte // bytes written by each Write (flushed after each one only to cut the stream; semantically transparent)
	All    []byte
	Panics []string // per row: "" or the recovered panic
	Errs   []string
}

// c25Drive: same call sequence as eager.OutputPrinter.Run: w := bufio.NewWriterSize(sink, 4 MiB);
// format := mk(w); format.SetSchema(schema); format.Write(values)...; w.Flush().
func c25Drive(mk func(io.Writer) eager.Format, t c25Table) (out c25Out) {
	var sink bytes.Buffer
	w := c25BufPool.Get().(*bufio.Writer)
	w.Reset(&sink)
	defer func() {
		w.Reset(io.Discard)
		c25BufPool.Put(w)
	}()
	fields := make([]physical.SchemaField, len(t.Names))
	for i := range t.Names {
		fields[i] = physical.SchemaField{Name: t.Names[i], Type: t.Types[i]}
	}
	schema := physical.NewSchema(fields, -1, physical.WithNoRetractions(true))
	out.Panics = make([]string, len(t.Rows))
	out.Errs = make([]string, len(t.Rows))
	var format eager.Format
	func() {
		defer func() {
			if p := recover(); p != nil {
				for i := range out.Panics {
					out.Panics[i] = fmt.Sprintf("SetSchema: %v", p)
				}
			}
		}()
		format = mk(w)
		format.SetSchema(schema)
	}()
	if format == nil || (len(out.Panics) > 0 && out.Panics[0] != "") {
		return out
	}
	w.Flush()
	out.Header = append([]byte{}, sink.Bytes()...)
	mark := sink.Len()
	for i, row := range t.Rows {
		vals := make([]octosql.Value, len(row))
		for j := range row {
			vals[j] = row[j].V
		}
		func() {
			defer func() {
				if p := recover(); p != nil {
					out.Panics[i] = fmt.Sprint(p)
				}
			}()
			if err := format.Write(vals); err != nil {
				out.Errs[i] = err.Error()
			}
		}()
		w.Flush()
		out.Recs = append(out.Recs, append([]byte{}, sink.Bytes()[mark:]...))
		mark = sink.Len()
	}
	out.All = append([]byte{}, sink.Bytes()...)
	return out
}

// c25PrintedNames: the naming convention of the printed formats, written independently of formats.WithoutQualifiers:
// the part after the first dot if no other column has the same short name, else the full name.
func c25PrintedNames(names []string) []string {
	short := func(n string) string {
		if i := strings.IndexByte(n, '.'); i >= 0 {
			return n[i+1:]
		}
		return n
	}
	out := make([]string, len(names))
	for i, n := range names {
		unique := true
		for j, m := range names {
			if j != i && short(m) == short(n) {
				unique = false
			}
		}
		out[i] = n
		if unique {
			out[i] = short(n)
		}
	}
	return out
}

func c25JSON(w io.Writer) eager.Format { return formats.NewJSONFormatter(w) }
func c25CSV(w io.Writer) eager.Format  { return formats.NewCSVFormatter(w) }

// ---------------------------------------------------------------- independent JSON decoding

type c25J struct {
	K    byte // n b # s a o
	B    bool
	N    string
	S    string
	A    []c25J
	Keys []string
}

func c25ReadJ(dec *json.Decoder) (c25J, error) {
	tok, err := dec.Token()
	if err != nil {
		return c25J{}, err
	}
	switch t := tok.(type) {
	case nil:
		return c25J{K: 'n'}, nil
	case bool:
		return c25J{K: 'b', B: t}, nil
	case json.Number:
		return c25J{K: '#', N: string(t)}, nil
	case string:
		return c25J{K: 's', S: t}, nil
	case json.Delim:
		switch t {
		case '[':
			v := c25J{K: 'a'}
			for dec.More() {
				e, err := c25ReadJ(dec)
				if err != nil {
					return v, err
				}
				v.A = append(v.A, e)
			}
			_, err := dec.Token()
			return v, err
		case '{':
			v := c25J{K: 'o'}
			for dec.More() {
				k, err := dec.Token()
				if err != nil {
					return v, err
				}
				ks, ok := k.(string)
				if !ok {
					return v, fmt.Errorf("object key is not a string")
				}
				e, err := c25ReadJ(dec)
				if err != nil {
					return v, err
				}
				v.Keys = append(v.Keys, ks)
				v.A = append(v.A, e)
			}
			_, err := dec.Token()
			return v, err
		}
	}
	return c25J{}, fmt.Errorf("unexpected token %v", tok)
}

func c25ParseJSONLine(line []byte) (c25J, error) {
	if !json.Valid(line) {
		var x interface{}
		err := json.Unmarshal(line, &x)
		if err == nil {
			err = fmt.Errorf("json.Valid = false")
		}
		return c25J{}, err
	}
	dec := json.NewDecoder(bytes.NewReader(line))
	dec.UseNumber()
	v, err := c25ReadJ(dec)
	if err != nil {
		return v, err
	}
	if _, err := dec.Token(); err != io.EOF {
		return v, fmt.Errorf("data after the first JSON value")
	}
	return v, nil
}

type c25Diff struct {
	Kind, Path, Detail string
}

func c25StringDiffClass(want, got string) string {
	i := 0
	for i < len(want) && i < len(got) && want[i] == got[i] {
		i++
	}
	if i >= len(want) {
		return "suffix-added"
	}
	c := want[i]
	switch {
	case c < 0x20:
		return "at-control-char"
	case c == 0x7f:
		return "at-del"
	case c == '"' || c == '\\':
		return "at-quote-or-backslash"
	case c >= 0x80:
		return "at-non-ascii"
	}
	return "at-printable-ascii"
}

// c25CmpJSON compares a decoded JSON value with the model. undefined counts the sub-values that are not judged.
func c25CmpJSON(w c25Want, j c25J, path string, undefined *int) *c25Diff {
	switch w.K {
	case "null":
		if j.K != 'n' {
			return &c25Diff{"null-not-null", path, "NULL encoded as a non-null JSON value"}
		}
	case "bool":
		if j.K != 'b' || j.B != w.B {
			return &c25Diff{"bool-changed", path, fmt.Sprintf("want %v", w.B)}
		}
	case "int":
		if j.K != '#' {
			return &c25Diff{"int-not-a-number", path, "Int not encoded as a JSON number"}
		}
		r, ok := new(big.Rat).SetString(j.N)
		if !ok || r.Cmp(new(big.Rat).SetInt64(w.I)) != 0 {
			return &c25Diff{"int-changed", path, fmt.Sprintf("number text %s is not exactly %d", j.N, w.I)}
		}
	case "float":
		if math.IsNaN(w.F) || math.IsInf(w.F, 0) {
			*undefined++ // JSON has no representation: any valid JSON value is accepted
			return nil
		}
		if j.K != '#' {
			return &c25Diff{"float-not-a-number", path, "finite Float not encoded as a JSON number"}
		}
		f, err := strconv.ParseFloat(j.N, 64)
		if err != nil || f != w.F { // -0 == 0: both signs accepted
			return &c25Diff{"float-changed", path, fmt.Sprintf("number text %s parses to %v, want %v", j.N, f, w.F)}
		}
	case "string":
		if !utf8.ValidString(w.S) {
			*undefined++ // JSON cannot carry invalid UTF-8 byte for byte
			return nil
		}
		if j.K != 's' {
			return &c25Diff{"string-not-a-string", path, "String not encoded as a JSON string"}
		}
		if j.S != w.S {
			return &c25Diff{"string-changed:" + c25StringDiffClass(w.S, j.S), path, fmt.Sprintf("decoded %s, want %s", strconv.QuoteToASCII(j.S), strconv.QuoteToASCII(w.S))}
		}
	case "opaque":
		*undefined++ // text convention of Time/Duration is not documented: not judged
	case "list", "tuple":
		if j.K != 'a' || len(j.A) != len(w.Elems) {
			return &c25Diff{w.K + "-structure", path, fmt.Sprintf("want a JSON array of %d elements", len(w.Elems))}
		}
		for i := range w.Elems {
			if d := c25CmpJSON(w.Elems[i], j.A[i], fmt.Sprintf("%s[%d]", path, i), undefined); d != nil {
				return d
			}
		}
	case "object":
		if j.K != 'o' || len(j.A) != len(w.Elems) {
			return &c25Diff{"object-structure", path, fmt.Sprintf("want a JSON object of %d members", len(w.Elems))}
		}
		for i, k := range w.Keys { // member order is not judged, duplicates are excluded by the length check + every key found
			found := -1
			for x, jk := range j.Keys {
				if jk == k {
					if found >= 0 {
						return &c25Diff{"object-structure", path, "duplicate key " + k}
					}
					found = x
				}
			}
			if found < 0 {
				return &c25Diff{"object-structure", path, "missing key " + k}
			}
			if d := c25CmpJSON(w.Elems[i], j.A[found], path+"."+k, undefined); d != nil {
				return d
			}
		}
	}
	return nil
}

// c25BadEscape finds the first backslash escape that JSON does not define.
func c25BadEscape(out []byte) string {
	for i := 0; i+1 < len(out); i++ {
		if out[i] != '\\' {
			continue
		}
		c := out[i+1]
		if strings.IndexByte(`"\/bfnrtu`, c) >= 0 {
			i++
			continue
		}
		cls := "control-char"
		switch c {
		case 'x':
			if i+3 < len(out) {
				if b, err := strconv.ParseUint(string(out[i+2:i+4]), 16, 8); err == nil {
					switch {
					case b == 0x7f:
						cls = "del-0x7f"
					case b >= 0x80:
						cls = "invalid-utf8-byte"
					}
				}
			}
		case 'U':
			cls = "non-printable-astral-rune"
		case 'a', 'v':
		default:
			cls = "other"
		}
		return `\` + string(c) + "/" + cls
	}
	return ""
}

// c25InvalidJSONClass: classifier for a single cell whose one-column line is not valid JSON.
func c25InvalidJSONClass(w c25Want, out []byte) string {
	if e := c25BadEscape(out); e != "" {
		return "string-go-escape:" + e
	}
	if w.hasNonFinite() && (bytes.Contains(out, []byte("NaN")) || bytes.Contains(out, []byte("Inf"))) {
		return "float-nan-inf-not-valid-json"
	}
	k := w.K
	if !w.scalar() {
		k = "nested"
	}
	return "invalid-json/" + k
}

// ---------------------------------------------------------------- independent CSV decoding (RFC 4180)

// c25CSVDecode: records end with LF or CRLF (RFC says CRLF; LF accepted, the lenient reading); fields are
// either quoted ("" is a quote; separators and line breaks are data) or unquoted (end at , LF CRLF; a
// quote inside is a syntax error). An empty line is one record with one empty field (RFC grammar).
func c25CSVDecode(b []byte) ([][]string, error) {
	var recs [][]string
	i, n := 0, len(b)
	eol := func(i int) bool { return b[i] == '\n' || (b[i] == '\r' && i+1 < n && b[i+1] == '\n') }
	for i < n {
		var rec []string
		for {
			var f []byte
			if i < n && b[i] == '"' {
				i++
				for {
					if i >= n {
						return recs, fmt.Errorf("unterminated quoted field in record %d", len(recs))
					}
					if b[i] == '"' {
						if i+1 < n && b[i+1] == '"' {
							f = append(f, '"')
							i += 2
							continue
						}
						i++
						break
					}
					f = append(f, b[i])
					i++
				}
				if i < n && b[i] != ',' && !eol(i) {
					return recs, fmt.Errorf("data after closing quote in record %d", len(recs))
				}
			} else {
				for i < n && b[i] != ',' && !eol(i) {
					if b[i] == '"' {
						return recs, fmt.Errorf("bare quote in unquoted field in record %d", len(recs))
					}
					f = append(f, b[i])
					i++
				}
			}
			rec = append(rec, string(f))
			if i < n && b[i] == ',' {
				i++
				continue
			}
			break
		}
		if i < n {
			if b[i] == '\r' {
				i++
			}
			i++
		}
		recs = append(recs, rec)
	}
	return recs, nil
}

// c25CmpCSVField: nil = equal; undefined = not judged.
func c25CmpCSVField(w c25Want, got string, undefined *int) *c25Diff {
	switch w.K {
	case "null":
		if got != "" {
			return &c25Diff{"null-not-empty", "", "NULL is not an empty field"}
		}
	case "string":
		if !utf8.ValidString(w.S) {
			*undefined++
			return nil
		}
		if got != w.S {
			return &c25Diff{"string-changed:" + c25StringDiffClass(w.S, got), "", fmt.Sprintf("decoded %s, want %s", strconv.QuoteToASCII(got), strconv.QuoteToASCII(w.S))}
		}
	case "int":
		x, ok := new(big.Int).SetString(got, 10)
		if !ok || x.Cmp(big.NewInt(w.I)) != 0 {
			return &c25Diff{"int-changed", "", fmt.Sprintf("field %q is not the decimal %d", got, w.I)}
		}
	case "float":
		f, err := strconv.ParseFloat(got, 64)
		if err != nil || !(f == w.F || (math.IsNaN(f) && math.IsNaN(w.F))) {
			return &c25Diff{"float-changed", "", fmt.Sprintf("field %q parses to %v (%v), want %v", got, f, err, w.F)}
		}
	case "bool":
		if !strings.EqualFold(got, strconv.FormatBool(w.B)) {
			return &c25Diff{"bool-changed", "", fmt.Sprintf("field %q, want %v", got, w.B)}
		}
	case "opaque":
		*undefined++
	}
	return nil
}

// ---------------------------------------------------------------- the check of one table

type c25Case struct {
	Format   string   `json:"format"`
	Columns  []string `json:"columns"`
	Types    []string `json:"types"`
	Row      []string `json:"row"`
	RowIndex int      `json:"row_index_in_stream"`
	Output   string   `json:"output_go_quoted"`
	Problem  string   `json:"problem,omitempty"`
}

type c25Stats struct {
	csvSecondOpinionDisagree int64
	csvSecondOpinionCompared int64
}

func c25MkCase(format string, t c25Table, ri int, out []byte, problem string) c25Case {
	cs := c25Case{Format: format, Columns: t.Names, RowIndex: ri, Output: strconv.QuoteToASCII(string(out)), Problem: problem}
	for _, ty := range t.Types {
		cs.Types = append(cs.Types, ty.String())
	}
	for _, c := range t.Rows[ri] {
		cs.Row = append(cs.Row, c.W.String())
	}
	return cs
}

func c25RowDesc(row []c25Cell) string {
	var p []string
	for _, c := range row {
		p = append(p, c.W.String())
	}
	return "(" + strings.Join(p, ", ") + ")"
}

func c25RowClass(row []c25Cell) string {
	if len(row) == 1 {
		return row[0].W.class()
	}
	return fmt.Sprintf("%d-columns", len(row))
}

func c25CheckJSON(r *findings.Run, t c25Table) {
	out := c25Drive(c25JSON, t)
	r.Eval(int64(len(t.Rows)))
	if len(out.Header) != 0 {
		r.Violation("C25/json/bytes-before-first-record", fmt.Sprintf("JSON formatter wrote %q on SetSchema", out.Header), c25MkCase("json", t, 0, out.Header, "header bytes"))
	}
	for ri, row := range t.Rows {
		cls := c25RowClass(row)
		if out.Panics[ri] != "" {
			r.Outcome("json/" + cls + "/panic")
			r.Violation("C25/json/panic/"+cls, fmt.Sprintf("-o json: row %s of type %v panics: %s", c25RowDesc(row), c25TypeNames(t), out.Panics[ri]), c25MkCase("json", t, ri, nil, "panic: "+out.Panics[ri]))
			continue
		}
		if ri >= len(out.Recs) {
			continue
		}
		rec := out.Recs[ri]
		if out.Errs[ri] != "" {
			r.Outcome("json/" + cls + "/error")
			r.Violation("C25/json/write-error/"+cls, fmt.Sprintf("-o json: row %s: Write returned %s", c25RowDesc(row), out.Errs[ri]), c25MkCase("json", t, ri, rec, out.Errs[ri]))
			continue
		}
		if len(rec) == 0 || rec[len(rec)-1] != '\n' || bytes.Count(rec, []byte("\n")) != 1 {
			r.Outcome("json/" + cls + "/not-one-line")
			r.Violation("C25/json/record-is-not-exactly-one-line/"+cls, fmt.Sprintf("-o json: row %s is written as %s, not as exactly one line", c25RowDesc(row), strconv.QuoteToASCII(string(rec))), c25MkCase("json", t, ri, rec, "not one line"))
			continue
		}
		line := rec[:len(rec)-1]
		j, err := c25ParseJSONLine(line)
		if err != nil {
			// classify by the cell that is invalid on its own (fresh one-column formatter)
			fp := ""
			for ci, c := range row {
				o1 := c25Drive(c25JSON, c25Table{Names: []string{t.Names[ci]}, Types: []octosql.Type{t.Types[ci]}, Rows: [][]c25Cell{{c}}})
				if len(o1.Recs) == 1 && o1.Panics[0] == "" {
					if _, e1 := c25ParseJSONLine(bytes.TrimSuffix(o1.Recs[0], []byte("\n"))); e1 != nil {
						fp = c25InvalidJSONClass(c.W, o1.Recs[0])
						break
					}
				}
			}
			if fp == "" {
				fp = "invalid-json/only-in-combination/" + cls
			}
			r.Outcome("json/" + cls + "/invalid-json")
			r.Violation("C25/json/"+fp, fmt.Sprintf("-o json: row %s is written as the line %s which encoding/json rejects (%v)", c25RowDesc(row), strconv.QuoteToASCII(string(line)), err), c25MkCase("json", t, ri, rec, err.Error()))
			continue
		}
		// the line is one JSON object with exactly the columns
		undefined := 0
		w := c25Want{K: "object", Keys: c25PrintedNames(t.Names)}
		for _, c := range row {
			w.Elems = append(w.Elems, c.W)
		}
		if d := c25CmpJSON(w, j, "$", &undefined); d != nil {
			r.Outcome("json/" + cls + "/decodes-differently")
			r.Violation("C25/json/"+d.Kind, fmt.Sprintf("-o json: row %s is written as %s; at %s: %s", c25RowDesc(row), strconv.QuoteToASCII(string(line)), d.Path, d.Detail), c25MkCase("json", t, ri, rec, d.Path+": "+d.Detail))
			continue
		}
		if undefined > 0 {
			r.Outcome("json/" + cls + "/valid-line,some-values-not-judged")
		} else {
			r.Outcome("json/" + cls + "/ok")
		}
		if ri == 0 && len(t.Rows) == 1 && !c25Trivial(row) && len(rec) < 200 && (cls != "nested" || row[0].W.depth() >= 2) && c25WantSample(r, cls) {
			r.Sample(c25MkCase("json", t, ri, rec, ""))
		}
	}
}

var c25SampleMu sync.Mutex
var c25Sampled = map[string]bool{}

// one sample per row class (first come), so that the few samples are of different kinds
func c25WantSample(r *findings.Run, cls string) bool {
	if !r.NeedSample() {
		return false
	}
	c25SampleMu.Lock()
	defer c25SampleMu.Unlock()
	switch cls {
	case "string-special", "csv:string-special", "nested", "csv:3-columns", "csv:float-nonfinite":
	default:
		return false
	}
	if c25Sampled[cls] {
		return false
	}
	c25Sampled[cls] = true
	return true
}

func c25Trivial(row []c25Cell) bool {
	for _, c := range row {
		if !c.W.trivial() {
			return false
		}
	}
	return true
}

func c25TypeNames(t c25Table) []string {
	var o []string
	for _, ty := range t.Types {
		o = append(o, ty.String())
	}
	return o
}

func c25AllScalar(t c25Table) bool {
	for _, row := range t.Rows {
		for _, c := range row {
			if !c.W.scalar() {
				return false
			}
		}
	}
	return true
}

func c25CheckCSV(r *findings.Run, t c25Table, st *c25Stats) {
	if !c25AllScalar(t) {
		return // nested values in CSV: the statement only speaks about scalar values
	}
	out := c25Drive(c25CSV, t)
	r.Eval(int64(len(t.Rows)))
	for ri, row := range t.Rows {
		if out.Panics[ri] != "" {
			cls := c25RowClass(row)
			r.Outcome("csv/" + cls + "/panic")
			r.Violation("C25/csv/panic/"+cls, fmt.Sprintf("-o csv: row %s panics: %s", c25RowDesc(row), out.Panics[ri]), c25MkCase("csv", t, ri, nil, "panic: "+out.Panics[ri]))
			return
		}
		if out.Errs[ri] != "" {
			cls := c25RowClass(row)
			r.Outcome("csv/" + cls + "/error")
			r.Violation("C25/csv/write-error/"+cls, fmt.Sprintf("-o csv: row %s: Write returned %s", c25RowDesc(row), out.Errs[ri]), c25MkCase("csv", t, ri, out.Recs[ri], out.Errs[ri]))
			return
		}
	}
	// the whole stream, as a consumer sees it
	recs, err := c25CSVDecode(out.All)
	if err != nil {
		// find the first row whose own bytes (after the header) are not decodable
		for ri := range t.Rows {
			if _, e1 := c25CSVDecode(out.Recs[ri]); e1 != nil {
				r.Violation("C25/csv/syntax-error/"+c25RowClass(t.Rows[ri]), fmt.Sprintf("-o csv: row %s is written as %s: %v", c25RowDesc(t.Rows[ri]), strconv.QuoteToASCII(string(out.Recs[ri])), e1), c25MkCase("csv", t, ri, out.Recs[ri], e1.Error()))
				return
			}
		}
		r.Violation("C25/csv/syntax-error/stream", fmt.Sprintf("-o csv: stream %s: %v", strconv.QuoteToASCII(string(out.All)), err), c25MkCase("csv", t, 0, out.All, err.Error()))
		return
	}
	if len(recs) != len(t.Rows)+1 {
		// which row does not decode to exactly one record?
		for ri := range t.Rows {
			if r1, _ := c25CSVDecode(out.Recs[ri]); len(r1) != 1 {
				r.Outcome("csv/" + c25RowClass(t.Rows[ri]) + "/not-one-record")
				r.Violation("C25/csv/row-is-not-one-record/"+c25RowClass(t.Rows[ri]), fmt.Sprintf("-o csv: row %s is written as %s which decodes to %d records", c25RowDesc(t.Rows[ri]), strconv.QuoteToASCII(string(out.Recs[ri])), len(r1)), c25MkCase("csv", t, ri, out.Recs[ri], "record count"))
				return
			}
		}
		r.Violation("C25/csv/record-count", fmt.Sprintf("-o csv: %d rows + header decode to %d records: %s", len(t.Rows), len(recs), strconv.QuoteToASCII(string(out.All))), c25MkCase("csv", t, 0, out.All, "record count"))
		return
	}
	if strings.Join(recs[0], "\x00") != strings.Join(c25PrintedNames(t.Names), "\x00") {
		r.Violation("C25/csv/header", fmt.Sprintf("-o csv: header %q for columns %q", recs[0], t.Names), c25MkCase("csv", t, 0, out.Header, "header"))
		return
	}
	// second opinion: encoding/csv (not judged; it drops \r before \n inside quoted fields and skips empty lines)
	goRecs, goErr := func() ([][]string, error) {
		rd := csv.NewReader(bytes.NewReader(out.All))
		rd.FieldsPerRecord = -1
		return rd.ReadAll()
	}()
	comparable := true
	for _, row := range t.Rows {
		allEmpty := true
		for _, c := range row {
			if c.W.K == "string" && strings.Contains(c.W.S, "\r") {
				comparable = false
			}
			if !(c.W.K == "null" || (c.W.K == "string" && c.W.S == "")) {
				allEmpty = false
			}
		}
		if allEmpty && len(row) == 1 {
			comparable = false
		}
	}
	if comparable {
		st.add(&st.csvSecondOpinionCompared, 1)
		if goErr != nil || fmt.Sprintf("%q", goRecs) != fmt.Sprintf("%q", recs) {
			st.add(&st.csvSecondOpinionDisagree, 1)
		}
	}
	for ri, row := range t.Rows {
		cls := c25RowClass(row)
		got := recs[ri+1]
		if len(got) != len(row) {
			r.Outcome("csv/" + cls + "/field-count")
			r.Violation("C25/csv/field-count/"+cls, fmt.Sprintf("-o csv: row %s is written as %s: %d fields", c25RowDesc(row), strconv.QuoteToASCII(string(out.Recs[ri])), len(got)), c25MkCase("csv", t, ri, out.Recs[ri], "field count"))
			continue
		}
		undefined := 0
		bad := false
		for ci, c := range row {
			if d := c25CmpCSVField(c.W, got[ci], &undefined); d != nil {
				r.Outcome("csv/" + cls + "/decodes-differently")
				r.Violation("C25/csv/"+d.Kind, fmt.Sprintf("-o csv: row %s is written as %s; column %s: %s", c25RowDesc(row), strconv.QuoteToASCII(string(out.Recs[ri])), t.Names[ci], d.Detail), c25MkCase("csv", t, ri, out.Recs[ri], d.Detail))
				bad = true
				break
			}
		}
		if bad {
			continue
		}
		switch {
		case len(row) == 1 && len(out.Recs[ri]) == 1:
			r.Outcome("csv/" + cls + "/ok(single empty field written as an empty line)")
		case undefined > 0:
			r.Outcome("csv/" + cls + "/decodes,some-values-not-judged")
		default:
			r.Outcome("csv/" + cls + "/ok")
		}
		if ri == 0 && len(t.Rows) == 1 && !c25Trivial(row) && len(out.All) < 200 && c25WantSample(r, "csv:"+cls) {
			r.Sample(c25MkCase("csv", t, ri, out.All, ""))
		}
	}
}

func (s *c25Stats) add(p *int64, n int64) {
	c25SampleMu.Lock()
	*p += n
	c25SampleMu.Unlock()
}

// ---------------------------------------------------------------- alphabet

var c25Edge20 = []string{`"`, `\`, `,`, "\r", "\n", "\t", " ", "'", "\x00", "\u00e9", "\U0001F600", "\u2028", "/", "<", ">", "&", "=", "-", "+", "@", "\x7f", "\x1b"}

// the task lists 22 characters under the name "20-char edge set"; all of them are kept.

var c25ExtraRunes = []string{"\u65e5", "\ufeff", "\U000e0001", "\u0085", "\ufffd", "\xff", "a\xc3", "\xc3"}

func c25Strings(r *findings.Run) []string {
	seen := map[string]bool{}
	var out []string
	add := func(s string) {
		if !seen[s] {
			seen[s] = true
			out = append(out, s)
		}
	}
	add("")
	for b := 0; b < 0x80; b++ {
		add(string([]byte{byte(b)}))
	}
	for _, s := range []string{"\u00e9", "\u65e5", "\U0001F600", "\u2028", "\ufeff", "\U000e0001", "\u0085", "\ufffd", "\xff", "a\xc3", "abc", " a", "a ", `a"b`, `\.`, "1", "true", "null", "NaN"} {
		add(s)
	}
	for _, a := range c25Edge20 {
		for _, b := range c25Edge20 {
			add(a + b)
		}
	}
	// every edge char next to every extra rune / invalid byte string, both orders
	for _, a := range c25Edge20 {
		for _, b := range c25ExtraRunes {
			add(a + b)
			add(b + a)
		}
	}
	if r.Thorough() {
		for _, a := range c25Edge20 {
			for _, b := range c25Edge20 {
				for _, c := range c25Edge20 {
					add(a + b + c)
				}
			}
		}
	}
	return out
}

func c25Ints() []c25Cell {
	var o []c25Cell
	for _, i := range []int64{0, 1, -1, math.MinInt64, math.MaxInt64, 1<<53 + 1, -(1<<53 + 1), 1 << 32} {
		o = append(o, c25Int(i))
	}
	return o
}

func c25Floats() []c25Cell {
	var o []c25Cell
	for _, f := range []float64{0, math.Copysign(0, -1), 1.5, -1.5, 1e21, 1e-7, 5e-324, math.MaxFloat64, math.NaN(), math.Inf(1), math.Inf(-1), 0.1, 1, 1e20, 123456789012345680, -math.MaxFloat64, 1e-6, 0.000001234} {
		o = append(o, c25Float(f))
	}
	return o
}

func c25Times() []c25Cell {
	return []c25Cell{
		c25Time(time.Date(2023, 1, 2, 3, 4, 5, 0, time.UTC)),
		c25Time(time.Date(2023, 1, 2, 3, 4, 5, 123456789, time.FixedZone("", 3600))),
		c25Time(time.Time{}),
		c25Time(time.Date(1969, 12, 31, 23, 59, 59, 0, time.FixedZone("X", -5*3600-1800))),
	}
}

func c25Durs() []c25Cell {
	return []c25Cell{c25Dur(0), c25Dur(1500 * time.Millisecond), c25Dur(-2 * time.Hour), c25Dur(math.MaxInt64), c25Dur(time.Nanosecond)}
}

func c25Leaves(r *findings.Run) []c25Cell {
	l := []c25Cell{c25Int(-1), c25Float(1.5), c25Str(`q"x`), c25Str("\u00e9"), c25Bool(true), c25Null()}
	if r.Thorough() {
		l = append(l, c25Float(math.NaN()), c25Str("\n"), c25Str(""), c25Int(math.MinInt64), c25Times()[1], c25Durs()[1])
	}
	return l
}

// c25DeepSameShape: TypeSum of two struct types with different field sets re-orders and adds fields, so the
// values built here would no longer match the merged type; such combinations are not generated.
func c25DeepSameShape(a, b c25Want) bool {
	if a.K == "object" && b.K == "object" {
		if len(a.Keys) != len(b.Keys) {
			return false
		}
		for i := range a.Keys {
			if a.Keys[i] != b.Keys[i] || !c25DeepSameShape(a.Elems[i], b.Elems[i]) {
				return false
			}
		}
		return true
	}
	if (a.K == "list" && b.K == "list") || (a.K == "tuple" && b.K == "tuple") {
		// element types get merged position-wise (tuple) or all together (list): be conservative
		all := append(append([]c25Want{}, a.Elems...), b.Elems...)
		for i := range all {
			for j := range all {
				if !c25DeepSameShape(all[i], all[j]) {
					return false
				}
			}
		}
	}
	return true
}

// c25Nest builds the containers of depth d+1 from cells of depth <= d.
func c25Nest(single []c25Cell, pairs [][2]c25Cell) []c25Cell {
	var out []c25Cell
	for _, x := range single {
		out = append(out, c25List(nil, x), c25Obj([]string{"k"}, x), c25Tuple(x))
		t := x.T
		out = append(out, c25List(&t)) // typed empty list
	}
	for _, p := range pairs {
		x, y := p[0], p[1]
		if c25DeepSameShape(x.W, y.W) {
			out = append(out, c25List(nil, x, y))
		}
		out = append(out, c25Obj([]string{"a", "b"}, x, y), c25Tuple(x, y))
	}
	return out
}

func c25Nested(r *findings.Run) []c25Cell {
	leaves := c25Leaves(r)
	var lp [][2]c25Cell
	for _, a := range leaves {
		for _, b := range leaves {
			lp = append(lp, [2]c25Cell{a, b})
		}
	}
	empties := []c25Cell{c25List(nil), c25Obj(nil), c25Tuple()}
	d1 := append(c25Nest(leaves, lp), empties...)
	// explicitly required: list with NULL, object with a string containing a quote
	d1 = append(d1, c25List(nil, c25Int(1), c25Null(), c25Int(2)), c25Obj([]string{"n", "name"}, c25Null(), c25Str(`say "hi"`)))
	out := append([]c25Cell{}, d1...)
	// depth 2
	var reps []c25Cell
	stride := r.Pick(9, 2)
	for i, c := range d1 {
		if i%stride == 0 || i >= len(d1)-5 {
			reps = append(reps, c)
		}
	}
	var dp [][2]c25Cell
	for _, a := range reps {
		for _, b := range reps {
			dp = append(dp, [2]c25Cell{a, b})
		}
	}
	d2 := c25Nest(d1, dp)
	out = append(out, d2...)
	if r.Thorough() {
		// depth 3: every depth-2 value wrapped once more, and pairs over a stride of depth-2 values
		var reps3 []c25Cell
		for i, c := range d2 {
			if i%997 == 0 {
				reps3 = append(reps3, c)
			}
		}
		var p3 [][2]c25Cell
		for _, a := range reps3 {
			for _, b := range reps3 {
				p3 = append(p3, [2]c25Cell{a, b})
			}
		}
		var single3 []c25Cell
		for i, c := range d2 {
			if i%7 == 0 {
				single3 = append(single3, c)
			}
		}
		out = append(out, c25Nest(single3, p3)...)
	}
	return out
}

// ---------------------------------------------------------------- the tables

func c25Tables(r *findings.Run) []c25Table {
	var ts []c25Table
	single := func(name string, c c25Cell) {
		ts = append(ts, c25Table{Names: []string{name}, Types: []octosql.Type{c.T}, Rows: [][]c25Cell{{c}}, Seq: c.W.scalar()})
	}
	column := func(name string, cells []c25Cell) { // one column of the summed type, all cells as consecutive rows of one formatter
		t := cells[0].T
		var rows [][]c25Cell
		for _, c := range cells {
			t = octosql.TypeSum(t, c.T)
			rows = append(rows, []c25Cell{c})
		}
		ts = append(ts, c25Table{Names: []string{name}, Types: []octosql.Type{t}, Rows: rows})
	}

	// 1. strings: each alone in a fresh formatter; and in streams of 64 rows through one formatter (arena / buffer reuse)
	strs := c25Strings(r)
	var cells []c25Cell
	for _, s := range strs {
		c := c25Str(s)
		single("s", c)
		cells = append(cells, c)
	}
	for i := 0; i < len(cells); i += 64 {
		j := i + 64
		if j > len(cells) {
			j = len(cells)
		}
		column("s", cells[i:j])
	}
	// 2. other scalars, alone, as one stream, and in a nullable column
	groups := map[string][]c25Cell{"i": c25Ints(), "f": c25Floats(), "b": {c25Bool(true), c25Bool(false)}, "n": {c25Null()}, "t": c25Times(), "d": c25Durs()}
	for _, name := range []string{"i", "f", "b", "n", "t", "d"} {
		g := groups[name]
		for _, c := range g {
			single(name, c)
		}
		column(name, g)
		column(name+"_nullable", append([]c25Cell{c25Null()}, append(g, c25Null())...))
	}
	// 3. union-typed columns holding each alternative
	unions := [][]c25Cell{
		{c25Int(7), c25Str(`x"y`), c25Null()},
		{c25Float(2.5), c25Int(math.MaxInt64), c25Float(math.NaN())},
		{c25Str("a,b"), c25Bool(false), c25Times()[0], c25Durs()[1], c25Null(), c25Float(-1.5), c25Int(-1)},
		{c25Str("s"), c25List(nil, c25Int(1), c25Int(2))},
		{c25Bool(true), c25Obj([]string{"a"}, c25Str(`"`)), c25Null()},
		{c25Tuple(c25Int(1), c25Str("x")), c25List(nil, c25Str("l")), c25Obj([]string{"o"}, c25Null()), c25Int(3)},
		{c25List(nil, c25Int(1)), c25List(nil, c25Str("a")), c25List(nil), c25List(nil, c25Null())},            // List<Int|String|NULL>
		{c25Tuple(c25Int(1)), c25Tuple(c25Str("a"), c25Float(0.5))},                                            // Tuple<Int|String, Float|NULL>
		{c25Obj([]string{"a", "b"}, c25Int(1), c25Null()), c25Obj([]string{"a", "b"}, c25Str("x"), c25Int(2))}, // Object{a: Int|String, b: Int|NULL}
	}
	for ui, u := range unions {
		column(fmt.Sprintf("u%d", ui), u)
		// and every rotation so that each alternative is once the first row after SetSchema
		for k := 1; k < len(u); k++ {
			column(fmt.Sprintf("u%d", ui), append(append([]c25Cell{}, u[k:]...), u[:k]...))
		}
	}
	// 4. nested values: alone; with NULL in a nullable column
	for _, c := range c25Nested(r) {
		single("v", c)
		if c.W.depth() <= 1 {
			column("v_nullable", []c25Cell{c25Null(), c, c25Null()})
		}
	}
	// 5. rows of 2 and 3 columns over representatives
	reps := []c25Cell{c25Str(""), c25Null(), c25Str(`"`), c25Str(","), c25Str("\n"), c25Str("a"), c25Int(math.MinInt64), c25Float(1e21), c25Bool(true),
		c25List(nil, c25Int(1), c25Null()), c25Obj([]string{"k"}, c25Str(`q"`)), c25Times()[0]}
	if r.Thorough() {
		reps = append(reps, c25Str("\r"), c25Str("\r\n"), c25Str(" "), c25Str(`\`), c25Str("\x00"), c25Str("\u00e9"), c25Str("\U0001F600"), c25Str("\xff"), c25Float(math.NaN()),
			c25Float(5e-324), c25Int(0), c25Bool(false), c25Durs()[1], c25Tuple(c25Int(1), c25Str("x")), c25List(nil))
	}
	names := []string{"a", "col_2", "X3"}
	for _, x := range reps {
		for _, y := range reps {
			ts = append(ts, c25Table{Names: names[:2], Types: []octosql.Type{x.T, y.T}, Rows: [][]c25Cell{{x, y}}})
			for _, z := range reps {
				ts = append(ts, c25Table{Names: names, Types: []octosql.Type{x.T, y.T, z.T}, Rows: [][]c25Cell{{x, y, z}}})
			}
		}
	}
	// column-name shapes: qualified names are printed without their qualifier only when the short name is unique among
	// all columns of the row (otherwise two members / header cells would carry the same name and a value would be lost)
	for _, nm := range [][]string{{"t.x", "x"}, {"x", "t.x"}, {"t.x", "u.x"}, {"t.x", "t.y"}, {"t.x", "u.y", "y"}, {"t.x", "x", "u.x"}, {"a.b.c", "c"}, {"t.x", "u.y", "z"}} {
		cells := []c25Cell{c25Int(1), c25Str("v"), c25Null()}[:len(nm)]
		var types []octosql.Type
		for _, c := range cells {
			types = append(types, c.T)
		}
		ts = append(ts, c25Table{Names: nm, Types: types, Rows: [][]c25Cell{cells}, Seq: true})
	}
	// multi-row multi-column streams: every pair as consecutive rows of one 2-column nullable table
	for _, x := range reps {
		var rows [][]c25Cell
		tx, ty := x.T, x.T
		for _, y := range reps {
			if !c25DeepSameShape(x.W, y.W) {
				continue
			}
			rows = append(rows, []c25Cell{x, y}, []c25Cell{y, x})
			tx = octosql.TypeSum(tx, y.T)
			ty = octosql.TypeSum(ty, y.T)
		}
		ts = append(ts, c25Table{Names: names[:2], Types: []octosql.Type{tx, ty}, Rows: rows})
	}
	return ts
}

func init() {
	register("C25", "exploration", func(r *findings.Run) {
		tables := c25Tables(r)
		st := &c25Stats{}
		var rows, csvTables int64
		for _, t := range tables {
			rows += int64(len(t.Rows))
			if c25AllScalar(t) {
				csvTables++
			}
		}
		r.Bound = map[string]interface{}{
			"tables": len(tables), "rows": rows, "tables_also_rendered_as_csv": csvTables,
			"string_alphabet":   "'' + every byte 0x00-0x7F + {é 日 😀 U+2028 U+FEFF U+E0001 U+0085 U+FFFD} + invalid UTF-8 {\\xff a\\xc3} + all ordered pairs over the edge set {\" \\ , CR LF TAB space ' NUL é 😀 U+2028 / < > & = - + @ 0x7f 0x1b} + every edge char next to {日 U+FEFF U+E0001 U+0085 U+FFFD \\xff a\\xc3 \\xc3} in both orders" + map[bool]string{true: " + all ordered triples over the edge set", false: ""}[r.Thorough()],
			"ints":              "0 1 -1 MinInt64 MaxInt64 +-(2^53+1) 2^32",
			"floats":            "0 -0 +-1.5 1e21 1e20 1e-7 1e-6 5e-324 +-MaxFloat64 NaN +-Inf 0.1 1 123456789012345680 0.000001234",
			"nesting_depth":     r.Pick(2, 3),
			"columns_per_row":   "1..3",
			"multi_column_reps": r.Pick(12, 27),
		}
		r.Rule = "every table (typed schema + rows) of the alphabet is rendered by the real JSON formatter, and by the real CSV formatter when all its values are scalars, driven like outputs/eager does; JSON oracle: every record is exactly one line, encoding/json accepts it, and the decoded object has exactly the columns with values equal to the plain Go model (ints exact via big.Rat, finite floats ParseFloat(text)==value, strings byte for byte, NULL null, list/tuple arrays and objects element-wise); CSV oracle: an own RFC 4180 decoder returns header + one record per row with the model's texts (NULL empty); non-trivial = row with at least one cell that is not NULL / boolean / |int|<2^53 / printable-ASCII string without \" \\ , or leading space"
		r.Assume(
			"invalid UTF-8 input strings: JSON cannot carry them byte for byte; only validity of the line is required, the decoded text is not judged (CSV: not judged either)",
			"NaN/+-Inf in JSON: any valid JSON encoding is accepted, an invalid line is a violation",
			"-0.0 may come back as 0 or -0",
			"Time and Duration: no textual convention is documented, only valid syntax is required, the text is not judged",
			"nested values in CSV are outside the statement (scalar values only): not rendered",
			"CSV: LF record ends accepted (RFC 4180 says CRLF); an empty line is one record with one empty field (RFC grammar) although encoding/csv and other readers skip it; NULL vs empty string ambiguity is inherent",
			"CSV floats: any text that strconv.ParseFloat maps back to the same value (NaN to NaN) is accepted; booleans true/false in any case",
			"JSON object member order is not judged",
			"column and object field names are plain ASCII",
		)
		one := func(t c25Table) {
			for _, row := range t.Rows {
				if !c25Trivial(row) {
					r.Nontrivial(fmt.Sprint(c25TypeNames(t), c25RowDesc(row)))
				}
			}
			c25CheckJSON(r, t)
			c25CheckCSV(r, t, st)
		}
		var rest []c25Table
		for _, t := range tables {
			if t.Seq {
				one(t)
			} else {
				rest = append(rest, t)
			}
		}
		enum.Parallel(len(rest), func(i int) { one(rest[i]) })
		r.Extra["driving"] = "as outputs/eager.OutputPrinter.Run: bufio.NewWriterSize(sink, 4 MiB) -> formatter(w) -> SetSchema -> Write per row -> w.Flush(); Close is never called (eager does not call it; csv.NewWriter re-uses the 4 MiB bufio.Writer, so nothing is lost)"
		r.Extra["csv_second_opinion_encoding_csv"] = map[string]int64{"streams_compared": st.csvSecondOpinionCompared, "disagreements_with_own_decoder": st.csvSecondOpinionDisagree}
	})
}
