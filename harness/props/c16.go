package props

import (
	"fmt"
	"strings"
	"time"

	"github.com/cube2222/octosql/aggregates"
	"github.com/cube2222/octosql/execution"
	"github.com/cube2222/octosql/execution/nodes"
	"github.com/cube2222/octosql/octosql"

	"verif/harness/internal/enum"
	"verif/harness/internal/findings"
	"verif/harness/internal/stream"
)

// trigger configurations: counting n in {0(none),1..4} x watermark x end-of-stream, minus the empty one.
type trigCfg struct {
	N        int
	WM, EOS  bool
	Reversed bool
}

func (c trigCfg) String() string {
	var p []string
	if c.N > 0 {
		p = append(p, fmt.Sprintf("COUNTING %d", c.N))
	}
	if c.WM {
		p = append(p, "ON WATERMARK")
	}
	if c.EOS {
		p = append(p, "ON END OF STREAM")
	}
	s := strings.Join(p, ", ")
	if c.Reversed {
		s += " (reversed order)"
	}
	return s
}

func allTrigCfgs(reversedToo bool) []trigCfg {
	var out []trigCfg
	for n := 0; n <= 4; n++ {
		for _, wm := range []bool{false, true} {
			for _, eos := range []bool{false, true} {
				if n == 0 && !wm && !eos {
					continue
				}
				out = append(out, trigCfg{N: n, WM: wm, EOS: eos})
				cnt := 0
				if n > 0 {
					cnt++
				}
				if wm {
					cnt++
				}
				if eos {
					cnt++
				}
				if reversedToo && cnt > 1 {
					out = append(out, trigCfg{N: n, WM: wm, EOS: eos, Reversed: true})
				}
			}
		}
	}
	return out
}

// buildTriggeredGroupBy mirrors physical.Node.Materialize + logical.GroupBy.Typecheck:
// a single END OF STREAM trigger uses SimpleGroupBy, everything else CustomTriggerGroupBy,
// several triggers become a MultiTrigger in the order written.
// rows: [timekey, k, v]; output [timekey, k, count(*), sum(v)].
func buildTriggeredGroupBy(c trigCfg) func(src execution.Node) execution.Node {
	protos := []func() nodes.Aggregate{aggregates.NewCountPrototype(), aggregates.NewSumIntPrototype()}
	exprs := []execution.Expression{constInt(1), col(2)}
	keys := []execution.Expression{col(0), col(1)}
	var ts []func() execution.Trigger
	if c.N > 0 {
		ts = append(ts, execution.NewCountingTriggerPrototype(uint(c.N)))
	}
	if c.WM {
		ts = append(ts, execution.NewWatermarkTriggerPrototype(0))
	}
	if c.EOS {
		ts = append(ts, execution.NewEndOfStreamTriggerPrototype())
	}
	if c.Reversed {
		for i, j := 0, len(ts)-1; i < j; i, j = i+1, j-1 {
			ts[i], ts[j] = ts[j], ts[i]
		}
	}
	return func(src execution.Node) execution.Node {
		if len(ts) == 1 && c.EOS {
			return nodes.NewSimpleGroupBy(protos, exprs, keys, src)
		}
		var t func() execution.Trigger
		if len(ts) == 1 {
			t = ts[0]
		} else {
			t = execution.NewMultiTriggerPrototype(ts)
		}
		return nodes.NewCustomTriggerGroupBy(protos, exprs, keys, 0, src, t)
	}
}

var c16Zone = time.FixedZone("plus1", 3600)

// time key variants: index 0 -> t=1 UTC, 1 -> t=2 UTC, 2 -> t=2 in a fixed +01:00 zone (same instant as 1), 3 -> t=3 UTC
func c16TimeKey(i int) (octosql.Value, time.Time) {
	switch i {
	case 0:
		return octosql.NewTime(stream.T(1)), stream.T(1)
	case 1:
		return octosql.NewTime(stream.T(2)), stream.T(2)
	case 2:
		return octosql.NewTime(stream.T(2).In(c16Zone)), stream.T(2)
	}
	return octosql.NewTime(stream.T(3)), stream.T(3)
}

// c16Histories: watermarked streams; event time of a record = its time key (or zero if zeroTimes).
func c16Histories(maxLen int, timeKeys []int, zeroTimes, watermarks bool) [][]stream.Ev {
	return c16HistoriesL(maxLen, timeKeys, zeroTimes, watermarks, false)
}

// c16HistoriesL: with late=true records and retractions at or below the current watermark are allowed and a
// watermark may repeat the previous value (the source re-announces it).
func c16HistoriesL(maxLen int, timeKeys []int, zeroTimes, watermarks, late bool) [][]stream.Ev {
	var out [][]stream.Ev
	seen := map[string]bool{}
	type st struct {
		evs     []stream.Ev
		wm      int
		present []int
	}
	var rec func(s st)
	rec = func(s st) {
		cp := append([]stream.Ev{}, s.evs...)
		key := strings.Join(stream.Strs(cp), " ") + fmt.Sprint(zonesOf(cp))
		if seen[key] {
			return
		}
		seen[key] = true
		out = append(out, cp)
		if len(s.evs) == maxLen {
			return
		}
		if watermarks {
			first := s.wm + 1
			if late && s.wm > 0 {
				first = s.wm
			}
			for t := first; t <= 3; t++ {
				n := s
				n.evs = append(append([]stream.Ev{}, s.evs...), stream.W(t))
				n.wm = t
				rec(n)
			}
		}
		for _, tk := range timeKeys {
			tv, tt := c16TimeKey(tk)
			if !late && !zeroTimes && !tt.After(stream.T(s.wm)) && s.wm > 0 {
				continue
			}
			for _, k := range []int64{1, 2} {
				e := stream.Ev{Kind: stream.Rec, Vals: []octosql.Value{tv, octosql.NewInt(k), octosql.NewInt(int64(len(s.evs) + 1))}, T: tt}
				if zeroTimes {
					e.T = time.Time{}
				}
				n := s
				n.evs = append(append([]stream.Ev{}, s.evs...), e)
				n.present = append(append([]int{}, s.present...), len(s.evs))
				rec(n)
			}
		}
		for pi, idx := range s.present {
			ins := s.evs[idx]
			if !late && !zeroTimes && !ins.T.After(stream.T(s.wm)) && s.wm > 0 {
				continue
			}
			n := s
			n.evs = append(append([]stream.Ev{}, s.evs...), stream.Ev{Kind: stream.Rec, Vals: ins.Vals, Retract: true, T: ins.T})
			n.present = append(append([]int{}, s.present[:pi]...), s.present[pi+1:]...)
			rec(n)
		}
	}
	rec(st{})
	return out
}

func zonesOf(evs []stream.Ev) []bool {
	var z []bool
	for _, e := range evs {
		if e.Kind == stream.Rec {
			z = append(z, e.Vals[0].Time.Location() == c16Zone)
		}
	}
	return z
}

// groupResult: batch grouping of records (by instant of time key and k): row key -> [count,sum], net count 0 => absent.
type grpRes struct {
	cnt int
	sum int64
	t   time.Time
}

func c16Group(evs []stream.Ev, keep func(e stream.Ev) bool) map[string]*grpRes {
	g := map[string]*grpRes{}
	for _, e := range evs {
		if e.Kind != stream.Rec || (keep != nil && !keep(e)) {
			continue
		}
		k := stream.ValKey(e.Vals[0]) + "," + stream.ValKey(e.Vals[1])
		x, ok := g[k]
		if !ok {
			x = &grpRes{t: e.Vals[0].Time}
			g[k] = x
		}
		sign := 1
		if e.Retract {
			sign = -1
		}
		x.cnt += sign
		x.sum += int64(sign) * e.Vals[2].Int
	}
	for k, x := range g {
		if x.cnt == 0 {
			delete(g, k)
		}
	}
	return g
}

func grpBag(g map[string]*grpRes) stream.Bag {
	b := stream.Bag{}
	for k, x := range g {
		b.Add(fmt.Sprintf("%s,%d,%d", k, x.cnt, x.sum), 1)
	}
	return b
}

type trigCase struct {
	Triggers string   `json:"triggers"`
	Input    []string `json:"input"`
	Zones    []bool   `json:"record_timekey_in_fixed_zone,omitempty"`
	Output   []string `json:"output_log,omitempty"`
	At       string   `json:"at,omitempty"`
	Got      string   `json:"got,omitempty"`
	Want     string   `json:"want,omitempty"`
}

func usesZone(evs []stream.Ev) bool {
	for _, z := range zonesOf(evs) {
		if z {
			return true
		}
	}
	return false
}

func runTrig(c trigCfg, evs []stream.Ev) (log []stream.Out, cs trigCase, abnormal string) {
	log, err, pan := stream.RunSingle(buildTriggeredGroupBy(c), evs)
	cs = trigCase{Triggers: c.String(), Input: stream.Strs(evs), Zones: zonesOf(evs), Output: stream.LogStrs(log)}
	if pan != nil {
		return log, cs, fmt.Sprintf("panic: %v", pan)
	}
	if err != nil {
		return log, cs, fmt.Sprintf("error: %v", err)
	}
	return log, cs, ""
}

func zoneTag(evs []stream.Ev) string {
	if usesZone(evs) {
		return "/same-instant-in-two-locations"
	}
	return ""
}

func init() {
	register("C16", "model_checking", func(r *findings.Run) {
		L := r.Pick(4, 6)
		cfgs := allTrigCfgs(r.Thorough())
		hist := c16Histories(L, []int{0, 1, 3}, false, true)
		histZ := c16Histories(r.Pick(3, 4), []int{1, 2}, false, true)
		hist0 := c16Histories(r.Pick(4, 5), []int{0, 1}, true, false)
		all := append(append(append([][]stream.Ev{}, hist...), histZ...), hist0...)
		r.Bound = map[string]interface{}{"max_events": L, "trigger_configs": len(cfgs), "histories": len(all)}
		r.Rule = "every trigger configuration (COUNTING n, n=1..4 | ON WATERMARK | ON END OF STREAM, all non-empty combinations, built exactly as the planner builds them) x every valid watermarked stream up to the length bound (rows (timekey,k,v), event time = time key in {1,2,3}, retractions of present rows, strictly increasing watermarks, no late records; a family where one instant appears in two time zones; a family with zero event times) on the real group-by nodes; final consolidated output compared with the batch grouping; state = (config, history prefix); non-trivial = history with a retraction or a watermark and a non-empty result"
		r.Assume("no late records", "records' event time equals their time key (or zero)", "grouping compares time keys by instant")
		type job struct {
			c   trigCfg
			evs []stream.Ev
		}
		var jobs []job
		for _, c := range cfgs {
			for _, h := range all {
				jobs = append(jobs, job{c, h})
			}
		}
		enum.Parallel(len(jobs), func(i int) {
			if r.TimeUp() {
				return
			}
			j := jobs[i]
			log, cs, abn := runTrig(j.c, j.evs)
			r.AddCounts(1, int64(len(j.evs)+1), 1)
			r.Eval(1)
			if abn != "" {
				r.Violation("C16/"+j.c.String()+"/abnormal"+zoneTag(j.evs), fmt.Sprintf("triggers [%s] input %v: %s", j.c, cs.Input, abn), cs)
				return
			}
			want := grpBag(c16Group(j.evs, nil))
			got := stream.ConsolidateOut(log, len(log))
			interesting := len(want) > 0
			if interesting {
				r.Nontrivial(j.c.String() + strings.Join(cs.Input, " ") + fmt.Sprint(cs.Zones))
			}
			r.Outcome(fmt.Sprintf("out=%d", min(len(log), 12)))
			if !got.Equal(want) {
				cs.At, cs.Got, cs.Want = "end", got.String(), want.String()
				r.Violation("C16/final-differs/"+diffClass(got, want)+zoneTag(j.evs)+"/"+cfgClass(j.c),
					fmt.Sprintf("triggers [%s] input %v: consolidated output at end %s != batch grouping %s", j.c, cs.Input, got, want), cs)
			} else if interesting && i%4099 == 0 {
				r.Sample(cs)
			}
		})
	})

	register("C17", "model_checking", func(r *findings.Run) {
		L := r.Pick(4, 6)
		cfgs := allTrigCfgs(false)
		histW := c16Histories(L, []int{0, 1, 3}, false, true)
		histZ := c16Histories(r.Pick(3, 4), []int{1, 2}, false, true)
		hist0 := c16Histories(r.Pick(4, 5), []int{0, 1}, true, false)
		// late family: records / retractions at or below the current watermark and re-announced (equal) watermarks
		histL := c16HistoriesL(r.Pick(4, 5), []int{0, 1}, false, true, true)
		r.Bound = map[string]interface{}{"max_events": L, "trigger_configs": len(cfgs), "watermarked_histories": len(histW) + len(histZ), "zero_time_histories": len(hist0), "late_histories": len(histL)}
		r.Rule = "same explorer as C16 with a step-wise oracle: (a) zero-event-time streams (processed unbuffered): after the n-th, 2n-th.. record of key K under COUNTING n the consolidated output row of K is K's current result; (b) watermarked streams under ON WATERMARK: when watermark W is forwarded the consolidated output equals the grouping of all records received so far with time key <= W (a family of histories also delivers late records/retractions at or below the current watermark and repeats watermark values) and holds no key beyond W unless COUNTING is also configured; (c) at end of stream every key's current result is present exactly once; state = (config, history prefix)"
		r.Assume("COUNTING counts records in the order the group-by processes them; with non-zero event times that order is the event-time buffer's release order, so the counting oracle is evaluated on zero-event-time streams only",
			"a retract-and-re-emit of an unchanged row is not counted as a second emission")
		type job struct {
			c    trigCfg
			evs  []stream.Ev
			zero bool
		}
		var jobs []job
		for _, c := range cfgs {
			for _, h := range histW {
				jobs = append(jobs, job{c, h, false})
			}
			for _, h := range histZ {
				jobs = append(jobs, job{c, h, false})
			}
			for _, h := range hist0 {
				jobs = append(jobs, job{c, h, true})
			}
			if c.WM {
				for _, h := range histL {
					jobs = append(jobs, job{c, h, false})
				}
			}
		}
		enum.Parallel(len(jobs), func(i int) {
			if r.TimeUp() {
				return
			}
			j := jobs[i]
			log, cs, abn := runTrig(j.c, j.evs)
			r.AddCounts(1, int64(len(j.evs)+1), 1)
			r.Eval(1)
			if abn != "" {
				r.Violation("C17/"+j.c.String()+"/abnormal"+zoneTag(j.evs), fmt.Sprintf("triggers [%s] input %v: %s", j.c, cs.Input, abn), cs)
				return
			}
			points := 0
			fail := func(kind, at string, got, want stream.Bag) {
				cs.At, cs.Got, cs.Want = at, got.String(), want.String()
				r.Violation("C17/"+kind+zoneTag(j.evs)+"/"+cfgClass(j.c), fmt.Sprintf("triggers [%s] input %v: %s: consolidated output %s, expected %s", j.c, cs.Input, at, got, want), cs)
			}
			// (a) counting, zero event times: outputs caused by input event idx carry InputsSeen == idx+1
			if j.zero && j.c.N > 0 {
				perKey := map[string]int{}
				for idx, e := range j.evs {
					if e.Kind != stream.Rec {
						continue
					}
					k := stream.ValKey(e.Vals[0]) + "," + stream.ValKey(e.Vals[1])
					perKey[k]++
					if perKey[k]%j.c.N != 0 {
						continue
					}
					points++
					upto := 0
					for upto < len(log) && log[upto].InputsSeen <= idx+1 {
						upto++
					}
					got := stream.ConsolidateOut(log, upto)
					cur := c16Group(j.evs[:idx+1], nil)
					// restrict both to key k
					gk, wk := stream.Bag{}, stream.Bag{}
					for row, n := range got {
						if strings.HasPrefix(row, k+",") {
							gk[row] = n
						}
					}
					if x, ok := cur[k]; ok {
						wk.Add(fmt.Sprintf("%s,%d,%d", k, x.cnt, x.sum), 1)
					}
					if !gk.Equal(wk) {
						fail("counting-not-fired", fmt.Sprintf("after record %d (%s), the %d-th of its key", idx+1, e, perKey[k]), gk, wk)
						return
					}
				}
			}
			// (b) watermark trigger
			if !j.zero && j.c.WM {
				for li, o := range log {
					if !o.WM {
						continue
					}
					points++
					got := stream.ConsolidateOut(log, li)
					w := o.T
					want := grpBag(c16Group(j.evs[:o.InputsSeen], func(e stream.Ev) bool { return !e.Vals[0].Time.After(w) }))
					if j.c.N > 0 {
						// COUNTING may additionally have fired keys beyond W: compare only keys <= W
						g2 := stream.Bag{}
						for row, n := range got {
							if c16RowTimeLE(row, w) {
								g2[row] = n
							}
						}
						got = g2
					}
					if !got.Equal(want) {
						fail("watermark-"+diffClass(got, want), "at forwarded "+o.String(), got, want)
						return
					}
				}
			}
			// (c) end of stream: every key present exactly once with its current result
			points++
			got := stream.ConsolidateOut(log, len(log))
			want := grpBag(c16Group(j.evs, nil))
			if !got.Equal(want) {
				fail("end-"+diffClass(got, want), "at end of stream", got, want)
				return
			}
			if points > 1 {
				r.Nontrivial(j.c.String() + strings.Join(cs.Input, " ") + fmt.Sprint(cs.Zones))
				if i%3001 == 0 {
					r.Sample(cs)
				}
			}
			r.Outcome(fmt.Sprintf("points=%d", min(points, 6)))
		})
	})
}

func cfgClass(c trigCfg) string {
	var p []string
	if c.N > 0 {
		p = append(p, "counting")
	}
	if c.WM {
		p = append(p, "watermark")
	}
	if c.EOS {
		p = append(p, "eos")
	}
	return strings.Join(p, "+")
}

// c16RowTimeLE: row rendering starts with t<unix>,...
func c16RowTimeLE(row string, w time.Time) bool {
	var sec int64
	fmt.Sscanf(row, "t%d,", &sec)
	return !time.Unix(sec, 0).After(w)
}
