package props

import (
	"fmt"
	"strings"
	"time"

	"github.com/cube2222/octosql/execution"
	"github.com/cube2222/octosql/execution/nodes"
	"github.com/cube2222/octosql/octosql"

	"verif/harness/internal/findings"
	"verif/harness/internal/stream"
)

// ---- shared join machinery (C02B, C15, C18, C19, C29) ----

type joinKind struct {
	Name                  string
	OuterLeft, OuterRight bool
	Inner                 bool
}

var joinKinds = []joinKind{
	{Name: "inner", Inner: true},
	{Name: "left", OuterLeft: true},
	{Name: "right", OuterRight: true},
	{Name: "full", OuterLeft: true, OuterRight: true},
}

func buildJoin(k joinKind, width int) func(l, r execution.Node) execution.Node {
	return func(l, r execution.Node) execution.Node {
		kl := []execution.Expression{execution.NewVariable(0, 0)}
		kr := []execution.Expression{execution.NewVariable(0, 0)}
		if k.Inner {
			return nodes.NewStreamJoin(l, r, kl, kr)
		}
		return nodes.NewOuterJoin(l, r, width, width, kl, kr, k.OuterLeft, k.OuterRight)
	}
}

// sideBag: consolidated records of one script with event time <= w (all if all).
type rowBag struct {
	rows map[string][]octosql.Value
	cnt  stream.Bag
}

func newRowBag() *rowBag { return &rowBag{rows: map[string][]octosql.Value{}, cnt: stream.Bag{}} }
func (b *rowBag) add(vals []octosql.Value, n int) {
	k := stream.ValsKey(vals)
	b.rows[k] = vals
	b.cnt.Add(k, n)
}

func consolidateScript(evs []stream.Ev, w time.Time, all bool) *rowBag {
	b := newRowBag()
	for _, e := range evs {
		if e.Kind != stream.Rec {
			continue
		}
		if !all && e.T.After(w) {
			continue
		}
		if e.Retract {
			b.add(e.Vals, -1)
		} else {
			b.add(e.Vals, 1)
		}
	}
	return b
}

// refJoin: the SQL join of two consolidated inputs on column 0 (NULL never matches).
func refJoin(k joinKind, l, r *rowBag, width int) stream.Bag {
	out := stream.Bag{}
	nulls := make([]octosql.Value, width)
	lMatched := map[string]bool{}
	rMatched := map[string]bool{}
	for lk, lc := range l.cnt {
		for rk, rc := range r.cnt {
			lv, rv := l.rows[lk], r.rows[rk]
			if lv[0].TypeID == octosql.TypeIDNull || rv[0].TypeID == octosql.TypeIDNull {
				continue
			}
			if lv[0].Compare(rv[0]) != 0 {
				continue
			}
			if lc > 0 && rc > 0 {
				lMatched[lk] = true
				rMatched[rk] = true
			}
			out.Add(stream.ValsKey(append(append([]octosql.Value{}, lv...), rv...)), lc*rc)
		}
	}
	if k.OuterLeft {
		for lk, lc := range l.cnt {
			if !lMatched[lk] {
				out.Add(stream.ValsKey(append(append([]octosql.Value{}, l.rows[lk]...), nulls...)), lc)
			}
		}
	}
	if k.OuterRight {
		for rk, rc := range r.cnt {
			if !rMatched[rk] {
				out.Add(stream.ValsKey(append(append([]octosql.Value{}, nulls...), r.rows[rk]...)), rc)
			}
		}
	}
	return out
}

func genScripts(keys []int, times []int, maxLen int, retractions bool, zeroTimes bool) [][]stream.Ev {
	o := stream.ScriptOpts{Keys: keys, Times: times, MaxLen: maxLen, Retractions: retractions, UniqueID: true, Watermarks: true}
	if zeroTimes {
		o.RecTimes = []int{0}
	}
	return stream.GenScripts(o)
}

func consolidateLog(log []stream.Out, upto int) stream.Bag {
	b := stream.Bag{}
	for i := 0; i < upto; i++ {
		if log[i].WM {
			continue
		}
		if log[i].Retract {
			b.Add(stream.ValsKey(log[i].Vals), -1)
		} else {
			b.Add(stream.ValsKey(log[i].Vals), 1)
		}
	}
	return b
}

func diffClass(got, want stream.Bag) string {
	missing, extra := false, false
	for k, v := range want {
		if got[k] < v {
			missing = true
		}
		if got[k] > v {
			extra = true
		}
	}
	for k, v := range got {
		if want[k] < v {
			extra = true
		}
	}
	switch {
	case missing && extra:
		return "missing+extra"
	case missing:
		return "missing"
	case extra:
		return "extra"
	}
	return "same"
}

// firstEOSInfo: which side ended first under the schedule and whether both
// sides still had buffered (not yet released) records at that moment.
func firstEOSInfo(left, right []stream.Ev, sched []int) (first string, bothBuffered bool) {
	pos := [2]int{}
	scripts := [2][]stream.Ev{left, right}
	wm := [2]time.Time{}
	var seen [2][]stream.Ev
	for _, s := range sched {
		if pos[s] == len(scripts[s]) {
			first = "LR"[s : s+1]
			min := wm[0]
			if wm[1].Before(min) {
				min = wm[1]
			}
			// the open side's watermark is used at the hand-over
			open := wm[1-s]
			cnt := [2]int{}
			for side := 0; side < 2; side++ {
				for _, e := range seen[side] {
					if e.Kind == stream.Rec && !e.T.IsZero() && e.T.After(min) && e.T.After(open) {
						cnt[side]++
					}
				}
			}
			return first, cnt[0] > 0 && cnt[1] > 0
		}
		e := scripts[s][pos[s]]
		pos[s]++
		seen[s] = append(seen[s], e)
		if e.Kind == stream.WM {
			wm[s] = e.T
		}
	}
	return "?", false
}

type c19Case struct {
	Kind     string   `json:"join"`
	Left     []string `json:"left"`
	Right    []string `json:"right"`
	Schedule string   `json:"schedule"`
	Log      []string `json:"output_log,omitempty"`
	At       string   `json:"at,omitempty"`
	Got      string   `json:"got,omitempty"`
	Want     string   `json:"want,omitempty"`
}

// checkJoinConsistency runs one schedule and evaluates the C19 oracle.
// Returns number of oracle evaluation points and a violation (fp=="" if none).
func checkJoinConsistency(k joinKind, left, right []stream.Ev, sched []int) (points int, fp, what string, cs c19Case, log []stream.Out) {
	res := stream.RunJoin(buildJoin(k, 2), left, right, sched, 0)
	cs = c19Case{Kind: k.Name, Left: stream.Strs(left), Right: stream.Strs(right), Schedule: stream.SchedStr(sched)}
	if res.Stuck {
		return 0, k.Name + "/stuck", "join did not return within 60s", cs, nil
	}
	if res.Panic != nil {
		return 0, k.Name + "/panic", fmt.Sprintf("panic: %v", res.Panic), cs, nil
	}
	if res.Err != nil {
		return 0, k.Name + "/error", fmt.Sprintf("unexpected error: %v", res.Err), cs, nil
	}
	log = res.Log
	cs.Log = stream.LogStrs(log)
	first, both := firstEOSInfo(left, right, sched)
	ctxs := "first-eos=" + first
	if both {
		ctxs += "/both-buffers-nonempty-at-first-eos"
	}
	for i, o := range log {
		if !o.WM {
			continue
		}
		points++
		got := consolidateLog(log, i)
		want := refJoin(k, consolidateScript(left, o.T, false), consolidateScript(right, o.T, false), 2)
		if !got.Equal(want) {
			cs.At = o.String()
			cs.Got, cs.Want = got.String(), want.String()
			return points, fmt.Sprintf("%s/at-watermark/%s/%s", k.Name, diffClass(got, want), ctxs),
				fmt.Sprintf("%s join, left=%v right=%v schedule=%s: at forwarded %s consolidated output %s != join of inputs up to it %s", k.Name, cs.Left, cs.Right, cs.Schedule, o, got, want), cs, log
		}
	}
	points++
	got := consolidateLog(log, len(log))
	want := refJoin(k, consolidateScript(left, time.Time{}, true), consolidateScript(right, time.Time{}, true), 2)
	if !got.Equal(want) {
		cs.At = "end"
		cs.Got, cs.Want = got.String(), want.String()
		return points, fmt.Sprintf("%s/at-end/%s/%s", k.Name, diffClass(got, want), ctxs),
			fmt.Sprintf("%s join, left=%v right=%v schedule=%s: at end of stream consolidated output %s != join of complete inputs %s", k.Name, cs.Left, cs.Right, cs.Schedule, got, want), cs, log
	}
	return points, "", "", cs, log
}

func init() {
	register("C19", "model_checking", func(r *findings.Run) {
		keys := []int{1, 2}
		times := []int{1, 2, 3}
		maxLen := r.Pick(2, 3)
		scripts := genScripts(keys, times, maxLen, false, false)
		var retrScripts [][]stream.Ev
		if r.Thorough() {
			retrScripts = genScripts([]int{1}, []int{1, 2, 3}, 3, true, false)
		} else {
			retrScripts = genScripts([]int{1}, []int{1, 2}, 3, true, false)
		}
		// the second family only adds scripts that contain a retraction
		{
			var f [][]stream.Ev
			for _, sc := range retrScripts {
				for _, e := range sc {
					if e.Retract {
						f = append(f, sc)
						break
					}
				}
			}
			retrScripts = f
		}
		r.Bound = map[string]interface{}{"events_per_side": maxLen, "keys": keys, "times": times,
			"scripts_per_side": len(scripts), "retraction_scripts_per_side": len(retrScripts)}
		r.Rule = "every pair of valid per-side scripts (records [key,id]@t, strictly increasing watermarks, no late records, non-zero event times) x every interleaving of their events and end-of-stream, for inner/left/right/full joins (thorough tier: pairs of two 3-event scripts for the inner join only, pairs of at most 5 events in total for the outer joins); a second family with one key, retractions of present rows; state = (join kind, script pair, schedule prefix); non-trivial = schedule whose output contains at least one joined row and at least one forwarded watermark"
		r.Assume("no late records", "non-zero event times", "hook H1 reports every message the join loop takes; exactly one input message is in flight at any time",
			"consolidation is by row values (event times of output rows are C18's business)")

		type job struct {
			k    joinKind
			l, r []stream.Ev
		}
		var jobs []job
		for _, k := range joinKinds {
			for _, l := range scripts {
				for _, rr := range scripts {
					// thorough: pairs of two full-length (3-event) scripts alone would be 49 M schedules; they are covered for the
					// inner join only, every other kind takes the pairs with at most 5 events in total
					if len(l)+len(rr) > 5 && k.Name != "inner" {
						continue
					}
					jobs = append(jobs, job{k, l, rr})
				}
			}
			for _, l := range retrScripts {
				for _, rr := range scripts {
					if len(rr) <= r.Pick(1, 2) {
						jobs = append(jobs, job{k, l, rr}, job{k, rr, l})
					}
				}
				for _, rr := range retrScripts {
					jobs = append(jobs, job{k, l, rr})
				}
			}
		}
		// third family, asymmetric: a longer one-key script (several watermarks in a row, retractions) against a
		// script of at most one event, in both roles. Long-vs-short is cheap (few interleavings) and reaches states
		// such as "one input ended while it still buffers records and the other then sends watermarks only".
		longOne := stream.GenScripts(stream.ScriptOpts{Keys: []int{1}, Times: []int{1, 2, 3}, MaxLen: r.Pick(3, 4), Retractions: true, UniqueID: true, Watermarks: true})
		shortOne := stream.GenScripts(stream.ScriptOpts{Keys: []int{1}, Times: []int{1, 2, 3}, MaxLen: 1, UniqueID: true, Watermarks: true})
		asym := 0
		for _, k := range joinKinds {
			for _, l := range longOne {
				if len(l) < 3 {
					continue
				}
				for _, s := range shortOne {
					jobs = append(jobs, job{k, l, s}, job{k, s, l})
					asym += 2
				}
			}
		}
		r.Extra["asymmetric_script_pairs"] = asym
		r.Sharded(16, 1, func(shard, nshards int) {
			for i := range jobs {
				if i%nshards != shard {
					continue
				}
				if r.TimeUp() {
					return
				}
				j := jobs[i]
				var states, trans, traces int64
				firstSched := true
				stream.Schedules(len(j.l)+1, len(j.r)+1, func(s []int) bool {
					sched := append([]int{}, s...)
					pts, fp, what, cs, log := checkJoinConsistency(j.k, j.l, j.r, sched)
					traces++
					trans += int64(len(sched))
					states += int64(pts)
					if firstSched {
						firstSched = false
						// determinism guard: same schedule twice => identical log
						_, _, _, _, log2 := checkJoinConsistency(j.k, j.l, j.r, sched)
						if strings.Join(stream.LogStrs(log), "|") != strings.Join(stream.LogStrs(log2), "|") {
							fmt.Printf("HARNESS ERROR: schedule replay diverged for %v\n", cs)
							panic("nondeterministic replay")
						}
						r.Sum("determinism_replays", 1)
					}
					joined, wms := 0, 0
					for _, o := range log {
						if o.WM {
							wms++
						} else if o.Vals[0].TypeID != octosql.TypeIDNull && o.Vals[2].TypeID != octosql.TypeIDNull {
							joined++
						}
					}
					if joined > 0 && wms > 0 {
						r.Nontrivial(fmt.Sprint(cs.Kind, cs.Left, cs.Right, cs.Schedule))
					}
					r.Outcome(fmt.Sprintf("joined=%d wms=%d", min(joined, 3), min(wms, 3)))
					if fp != "" {
						r.Violation("C19/"+fp, what, cs)
					} else if r.NeedSample() && joined > 0 && wms > 0 {
						r.Sample(cs)
					}
					return true
				})
				r.AddCounts(states, trans, traces)
				r.Eval(traces)
			}
		})
		r.Extra["schedules"] = r.Traces
		r.Extra["script_pairs"] = len(jobs)
	})
}

func min(a, b int) int {
	if a < b {
		return a
	}
	return b
}
