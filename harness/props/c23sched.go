package props

import (
	"fmt"
	"os"
	"path/filepath"
	"runtime"
	"strings"

	"github.com/cube2222/octosql/octosql"

	"verif/harness/internal/findings"
	"verif/harness/internal/stream"
)

// jsonOrders explores delivery orders of the parsed batches of one file: all of them (maxDev < 0)
// or those with at most maxDev departures from the default choice (lowest first line first).
func jsonOrders(path string, batches, stopAfter, maxDev int, visit func(run stream.JSONRun, choices []int) bool) {
	var rec func(prefix []int, dev int) bool
	rec = func(prefix []int, dev int) bool {
		run := stream.RunJSON(path, batches, true, prefix, stopAfter)
		if !visit(run, prefix) {
			return false
		}
		if run.Stuck != "" {
			return true
		}
		for i := len(prefix); i < len(run.Options); i++ {
			if maxDev >= 0 && dev+1 > maxDev {
				break
			}
			for alt := 1; alt < run.Options[i]; alt++ {
				next := make([]int, i+1)
				copy(next, prefix)
				next[i] = alt
				if !rec(next, dev+1) {
					return false
				}
			}
		}
		return true
	}
	rec(nil, 0)
}

func jsonSchedFile(dir string, n int, badLine int) (path string, want []string) {
	var b strings.Builder
	for i := 0; i < n; i++ {
		if i == badLine {
			fmt.Fprintf(&b, "{\"i\":%d,\"s\":\"r%d\"\n", i, i)
		} else {
			fmt.Fprintf(&b, "{\"i\":%d,\"s\":\"r%d\"}\n", i, i)
		}
		want = append(want, stream.ValsKey([]octosql.Value{octosql.NewFloat(float64(i)), octosql.NewString(fmt.Sprintf("r%d", i))}))
	}
	// no '-' in the name: these files are also named in SQL
	tag := "ok"
	if badLine >= 0 {
		tag = fmt.Sprintf("bad%d", badLine)
	}
	path = filepath.Join(dir, fmt.Sprintf("sched%d_%s.json", n, tag))
	if err := os.WriteFile(path, []byte(b.String()), 0o644); err != nil {
		panic(err)
	}
	return path, want
}

type jsonSchedCase struct {
	Lines    int      `json:"lines"`
	Workers  int      `json:"workers"`
	Choices  []int    `json:"choices"`
	Released []int    `json:"released_first_lines"`
	Got      int      `json:"records_got"`
	First    []string `json:"first_records,omitempty"`
	Problem  string   `json:"problem,omitempty"`
}

// c23SchedulingImpl: every feasible delivery order of the parsed batches, for worker pools of 1, 2 and 4.
func c23SchedulingImpl(r *findings.Run) {
	sizes := []int{0, 1, 63, 64, 65, 128, 129, 200, 321}
	if r.Thorough() {
		sizes = append(sizes, 449, 513)
	}
	for _, workers := range []int{1, 2, 4} {
		workers := workers
		r.Sharded(len(sizes), workers, func(shard, n int) {
			if runtime.GOMAXPROCS(0) != workers {
				panic("worker pool size is fixed at process start: GOMAXPROCS mismatch")
			}
			dir, err := os.MkdirTemp("", "vjson")
			if err != nil {
				panic(err)
			}
			defer os.RemoveAll(dir)
			for si, lines := range sizes {
				if si%n != shard {
					continue
				}
				path, want := jsonSchedFile(dir, lines, -1)
				batches := (lines + 63) / 64
				orders := 0
				jsonOrders(path, batches, 0, -1, func(run stream.JSONRun, choices []int) bool {
					orders++
					r.Eval(1)
					r.Sum("json_delivery_orders", 1)
					cs := jsonSchedCase{Lines: lines, Workers: workers, Choices: append([]int{}, choices...), Released: run.Chosen, Got: len(run.Records)}
					problem := ""
					switch {
					case run.Stuck != "":
						problem = "stuck: " + run.Stuck
					case run.Panic != nil:
						problem = fmt.Sprintf("panic: %v", run.Panic)
					case run.Err != nil:
						problem = "error: " + run.Err.Error()
					case len(run.Records) != len(want):
						problem = fmt.Sprintf("%d records for %d lines", len(run.Records), len(want))
					default:
						for i := range want {
							if run.Records[i] != want[i] {
								problem = fmt.Sprintf("record %d is %s, expected %s", i, run.Records[i], want[i])
								break
							}
						}
					}
					outOfOrder := false
					for i := 1; i < len(run.Chosen); i++ {
						outOfOrder = outOfOrder || run.Chosen[i] < run.Chosen[i-1]
					}
					if outOfOrder {
						r.Nontrivial(fmt.Sprint(lines, workers, run.Chosen))
					}
					r.Outcome(fmt.Sprintf("sched workers=%d out-of-order=%v ok=%v", workers, outOfOrder, problem == ""))
					if problem != "" {
						cs.Problem = problem
						kind := "wrong-records"
						if run.Stuck != "" {
							kind = "stuck"
						} else if run.Panic != nil {
							kind = "panic"
						} else if run.Err != nil {
							kind = "error"
						}
						r.Violation("C23/json-scheduling/"+kind, fmt.Sprintf("%d lines, %d workers, batches released in order %v: %s", lines, workers, run.Chosen, problem), cs)
					} else if outOfOrder && orders%97 == 5 {
						cs.First = run.Records[:min(2, len(run.Records))]
						r.Sample(cs)
					}
					return true
				})
				r.Sum(fmt.Sprintf("orders_lines%d_workers%d", lines, workers), int64(orders))
			}
		})
	}
}
