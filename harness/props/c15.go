package props

import (
	"fmt"
	"strings"
	"time"

	"github.com/cube2222/octosql/execution"
	"github.com/cube2222/octosql/octosql"

	"verif/harness/internal/enum"
	"verif/harness/internal/findings"
	"verif/harness/internal/stream"
)

// c15Oracle: (i) running consolidated output never has a negative count,
// (ii) at end of stream consolidated output == batch(consolidated input).
func c15Oracle(log []stream.Out, want stream.Bag) (fp, what string, got stream.Bag) {
	run := stream.Bag{}
	for i, o := range log {
		if o.WM {
			continue
		}
		if o.Retract {
			run.Add(stream.ValsKey(o.Vals), -1)
			if run[stream.ValsKey(o.Vals)] < 0 {
				return "retracts-absent-row", fmt.Sprintf("output event %d (%s) retracts a row that is not currently present", i, o), run
			}
		} else {
			run.Add(stream.ValsKey(o.Vals), 1)
		}
	}
	if !run.Equal(want) {
		return "final-differs/" + diffClass(run, want), fmt.Sprintf("consolidated output %s != operator applied to consolidated input %s", run, want), run
	}
	return "", "", run
}

// c15Rerun: histories of up to 4 events are also run twice on ONE node instance.
func c15Rerun(spec nodeSpec, evs []stream.Ev) string {
	if len(evs) > 4 {
		return ""
	}
	return stream.RerunDiff(spec.build, evs)
}

func init() {
	register("C15", "model_checking", func(r *findings.Run) {
		L := r.Pick(5, 6)
		specs := singleInputNodes()
		// two input alphabets: zero event times without watermarks (pure changelog), and event times {1,2} with watermarks
		optsA := changelogOpts(L, []int{0}, false)
		optsB := changelogOpts(r.Pick(3, 4), []int{1, 2}, true)
		histA := stream.GenScripts(optsA)
		histB := stream.GenScripts(optsB)
		hist := append(append([][]stream.Ev{}, histA...), histB...)
		joinLen := r.Pick(2, 3)
		r.Bound = map[string]interface{}{"single_input_history_len": L, "watermarked_history_len": optsB.MaxLen, "histories": len(hist), "nodes": len(specs),
			"join_events_per_side": joinLen}
		r.Rule = "every valid changelog (rows (1,1),(1,2),(2,1),(NULL,1); inserts and retractions of present rows; a family with zero event times and a family with event times {1,2} plus monotone watermarks) up to the length bound, replayed on a fresh instance of every single-input execution node; joins: every pair of per-side changelogs (zero event times, keys {1,2}, duplicates, retractions) x every interleaving under the join controller; joins also with a plain (zero event time) input against a watermarked input in both roles; histories of up to 4 events are additionally run twice on one node instance (as below a LOOKUP JOIN) and must emit the same stream; state = (node, history prefix); non-trivial = history containing a retraction whose expected output is non-empty"
		r.Assume("input never retracts an absent row", "no late records", "NULL join keys are C02's business and are not used for the join part", "LIMIT is not in the property's operator list and is not checked here")

		type job struct {
			spec nodeSpec
			evs  []stream.Ev
		}
		var jobs []job
		for _, s := range specs {
			for _, h := range hist {
				jobs = append(jobs, job{s, h})
			}
		}
		if r.ShardChild() {
			jobs = nil // the single-input part is done once, by the parent process
		}
		enum.Parallel(len(jobs), func(i int) {
			if r.TimeUp() {
				return
			}
			j := jobs[i]
			evs := j.evs
			if j.spec.listInput {
				evs = listify(evs)
			}
			log, err, pan := stream.RunSingle(j.spec.build, evs)
			r.AddCounts(1, int64(len(evs)+1), 1)
			r.Eval(1)
			cs := histCase{Node: j.spec.name, Input: stream.Strs(evs), Output: stream.LogStrs(log)}
			if pan != nil {
				r.Violation("C15/"+j.spec.name+"/panic", fmt.Sprintf("%s: input %v panics: %v", j.spec.name, cs.Input, pan), cs)
				return
			}
			if err != nil {
				r.Violation("C15/"+j.spec.name+"/error", fmt.Sprintf("%s: input %v fails: %v", j.spec.name, cs.Input, err), cs)
				return
			}
			want := j.spec.batch(consRows(evs))
			fp, what, got := c15Oracle(log, want)
			hasRetr := false
			for _, e := range evs {
				hasRetr = hasRetr || (e.Kind == stream.Rec && e.Retract)
			}
			if hasRetr && len(want) > 0 {
				r.Nontrivial(j.spec.name + strings.Join(cs.Input, " "))
			}
			r.Outcome(fmt.Sprintf("%s/out=%d", j.spec.name, min(len(got), 3)))
			if fp != "" {
				cs.Got, cs.Want = got.String(), want.String()
				r.Violation("C15/"+j.spec.name+"/"+fp, fmt.Sprintf("%s: input %v: %s", j.spec.name, cs.Input, what), cs)
			} else if d := c15Rerun(j.spec, evs); d != "" {
				// one node instance is run once per outer record below a LOOKUP JOIN / subquery expression
				r.Violation("C15/"+j.spec.name+"/second-run-of-same-node-differs", fmt.Sprintf("%s: input %v: %s", j.spec.name, cs.Input, d), cs)
			} else if hasRetr && len(want) > 0 && i%977 == 0 {
				r.Sample(cs)
			}
		})

		// joins under all interleavings, zero event times (unbuffered path) with duplicates and retractions
		jopts := stream.ScriptOpts{Keys: []int{1, 2}, Payloads: []int{1}, Times: []int{0}, MaxLen: joinLen, Retractions: true}
		js := stream.GenScripts(jopts)
		type jjob struct {
			k    joinKind
			l, r []stream.Ev
		}
		var jjobs []jjob
		for _, k := range joinKinds {
			for _, l := range js {
				for _, rr := range js {
					jjobs = append(jjobs, jjob{k, l, rr})
				}
			}
		}
		// asymmetric families: a longer one-key changelog (insert / retract / re-insert ...) against at most one
		// event on the other input, in both roles; once with zero event times (processed on arrival) and once with
		// event times {1,2} where a retraction may carry a later event time than its insert (buffered until the end)
		for _, times := range [][]int{{0}, {1, 2}} {
			long := stream.GenScripts(stream.ScriptOpts{Keys: []int{1}, Payloads: []int{1, 2}, Times: times, MaxLen: r.Pick(3, 4), Retractions: true})
			short := stream.GenScripts(stream.ScriptOpts{Keys: []int{1}, Payloads: []int{1}, Times: times, MaxLen: 1})
			for _, k := range joinKinds {
				for _, l := range long {
					if len(l) < 3 {
						continue
					}
					for _, s := range short {
						jjobs = append(jjobs, jjob{k, l, s}, jjob{k, s, l})
					}
				}
			}
		}
		// mixed family: one input without event times (a plain table, processed on arrival) against one with event times and
		// watermarks (buffered), both roles: the two code paths of the join loop meet when the timed input ends while it
		// still buffers records and the plain input keeps sending
		{
			plain := stream.GenScripts(stream.ScriptOpts{Keys: []int{1}, Payloads: []int{1, 2}, Times: []int{0}, MaxLen: 2, Retractions: true})
			timed := stream.GenScripts(stream.ScriptOpts{Keys: []int{1}, Payloads: []int{1}, Times: []int{1, 2}, MaxLen: 2, Retractions: true, Watermarks: true})
			for _, k := range joinKinds {
				for _, p := range plain {
					for _, t := range timed {
						jjobs = append(jjobs, jjob{k, p, t}, jjob{k, t, p})
					}
				}
			}
		}
		r.Extra["join_script_pairs"] = len(jjobs)
		r.Sharded(16, 1, func(shard, n int) {
			for i, j := range jjobs {
				if i%n != shard || r.TimeUp() {
					continue
				}
				stream.Schedules(len(j.l)+1, len(j.r)+1, func(s []int) bool {
					sched := append([]int{}, s...)
					res := stream.RunJoin(buildJoin(j.k, 2), j.l, j.r, sched, 0)
					r.AddCounts(1, int64(len(sched)), 1)
					r.Eval(1)
					r.Sum("join_schedules", 1)
					cs := c19Case{Kind: j.k.Name, Left: stream.Strs(j.l), Right: stream.Strs(j.r), Schedule: stream.SchedStr(sched), Log: stream.LogStrs(res.Log)}
					name := j.k.Name + "_join"
					if res.Stuck || res.Panic != nil || res.Err != nil {
						r.Violation("C15/"+name+"/abnormal", fmt.Sprintf("%s: %v: stuck=%v panic=%v err=%v", name, cs, res.Stuck, res.Panic, res.Err), cs)
						return true
					}
					want := refJoin(j.k, consolidateScript(j.l, time.Time{}, true), consolidateScript(j.r, time.Time{}, true), 2)
					fp, what, got := c15Oracle(res.Log, want)
					r.Outcome(fmt.Sprintf("%s/out=%d", name, min(len(got), 3)))
					if fp != "" {
						cs.Got, cs.Want = got.String(), want.String()
						r.Violation("C15/"+name+"/"+fp, fmt.Sprintf("%s: left %v right %v schedule %s: %s", name, cs.Left, cs.Right, cs.Schedule, what), cs)
					} else if len(want) > 0 {
						r.Nontrivial(fmt.Sprint(cs.Kind, cs.Left, cs.Right, cs.Schedule))
					}
					return true
				})
			}
		})
	})
}

var _ = execution.NewVariable
var _ = octosql.NewInt
