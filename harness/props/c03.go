package props

import (
	"fmt"
	"sort"
	"strings"

	"verif/harness/internal/enum"
	"verif/harness/internal/findings"
	. "verif/harness/internal/refsql"
	"verif/harness/internal/runner"
)

func init() {
	register("C03", "exploration", func(r *findings.Run) {
		defer cleanupTables()
		pool := runner.NewPool(0)
		defer pool.Close()
		cand := [][]V{
			{Int(1), Str("x"), Int(2), Float(0.5)},
			{Int(1), Str("x"), Int(7), Float(-2.0)},
			{Int(1), Null, Int(-3), Null},
			{Int(2), Str("x"), Null, Float(0.5)},
			{Int(2), Null, Int(2), Float(1.5)},
			{Null, Str("x"), Int(7), Null},
			{Null, Null, Null, Null},
			// additive inverses and zero: a group whose inputs sum to exactly 0 is not an empty group
			{Int(1), Str("x"), Int(3), Float(2.0)},
			{Int(2), Null, Int(0), Float(-0.5)},
			{Int(1), Str("x"), Int(2), Float(0.5)},
		}
		cols := []string{"g", "h", "x", "f"}
		var tables [][][]V
		enum.Multisets(len(cand)-1, r.Pick(3, 4), func(ms []int) {
			var t [][]V
			for _, i := range ms {
				t = append(t, cand[i])
			}
			tables = append(tables, t)
		})
		keysets := [][]*Expr{
			nil,
			{Col("t.g")},
			{Col("t.h")},
			{Col("t.g"), Col("t.h")},
			{Op("+", Col("t.g"), Lit(Int(1)))},
		}
		type agg struct {
			name     string
			distinct bool
			arg      string // "" = *
		}
		aggs := []agg{
			{"count", false, ""}, {"count", false, "t.x"}, {"sum", false, "t.x"}, {"avg", false, "t.x"}, {"min", false, "t.x"}, {"max", false, "t.x"},
			{"sum", false, "t.f"}, {"avg", false, "t.f"}, {"min", false, "t.f"}, {"max", false, "t.f"}, {"count", false, "t.h"},
			{"count", true, "t.x"}, {"sum", true, "t.x"}, {"avg", true, "t.x"}, {"count", true, "t.h"}, {"array_agg", false, "t.x"}, {"array_agg", true, "t.x"}, {"array_agg", false, "t.h"},
		}
		// aggregate lists: each alone, plus sliding windows of 3
		var agglists [][]agg
		for _, a := range aggs {
			agglists = append(agglists, []agg{a})
		}
		for i := 0; i+3 <= len(aggs); i += 2 {
			agglists = append(agglists, aggs[i:i+3])
		}
		mkq := func(t *Table, keys []*Expr, al []agg, trigger string) *Query {
			q := NewQuery()
			q.From = &From{Table: t}
			for i, k := range keys {
				q.Proj = append(q.Proj, Proj{E: k, Alias: fmt.Sprintf("k%d", i)})
			}
			q.GroupBy = keys
			for i, a := range al {
				p := Proj{Agg: a.name, AggDistinct: a.distinct, Alias: fmt.Sprintf("a%d", i)}
				if a.arg != "" {
					p.E = Col(a.arg)
				}
				q.Proj = append(q.Proj, p)
			}
			q.Trigger = trigger
			return q
		}
		type cs struct {
			q *Query
		}
		var cases []cs
		for ti, rows := range tables {
			t := mkCSV("t", cols, rows)
			for ki, keys := range keysets {
				for ai, al := range agglists {
					if !r.Thorough() && (ti+ki+ai)%5 != 0 && len(rows) > 1 {
						continue // quick: a fifth of the (table, keys, aggregates) product for tables with more than one row
					}
					cases = append(cases, cs{mkq(t, keys, al, "")}, cs{mkq(t, keys, al, "TRIGGER COUNTING 1000")})
					if ai%5 == 0 && len(keys) > 0 {
						// HAVING-like outer filter on a subquery
						o := NewQuery()
						o.From = &From{Sub: mkq(t, keys, []agg{{"count", false, ""}}, ""), Alias: "s"}
						o.Where = Op(">", Col("s.a0"), Lit(Int(1)))
						o.Proj = []Proj{{Star: true}}
						cases = append(cases, cs{o})
						// strict operators over an aggregate column of the subquery (an all-NULL group makes it NULL)
						for _, a := range []agg{{"sum", false, "t.x"}, {"min", false, "t.x"}, {"avg", false, "t.f"}, {"sum", true, "t.x"}} {
							if ai != 0 {
								break // once per (table, key set)
							}
							o2 := NewQuery()
							o2.From = &From{Sub: mkq(t, keys, []agg{a}, ""), Alias: "s"}
							o2.Where = Op("<", Col("s.a0"), Lit(Float(1)))
							if a.arg == "t.x" {
								o2.Where = Op("<", Col("s.a0"), Lit(Int(1)))
							}
							o2.Proj = []Proj{{Star: true}}
							o3 := NewQuery()
							o3.From = &From{Sub: mkq(t, keys, []agg{a}, ""), Alias: "s"}
							o3.Proj = []Proj{{E: Op("isnull", Op("neg", Col("s.a0"))), Alias: "n"}, {E: Col("s.k0")}}
							cases = append(cases, cs{o2}, cs{o3})
						}
					}
				}
			}
		}
		// aggregates over a RETRACTING source: the inner GROUP BY g,h fires after every record (TRIGGER COUNTING 1), so the outer
		// aggregates see every intermediate count retracted and replaced (a value's multiplicity goes 2 -> 1 -> 2 ...)
		for _, rows := range tables {
			if len(rows) < 2 {
				continue
			}
			t := mkCSV("t", cols, rows)
			inner := mkq(t, []*Expr{Col("t.g"), Col("t.h")}, []agg{{"count", false, ""}, {"sum", false, "t.x"}}, "TRIGGER COUNTING 1")
			for _, okeys := range [][]*Expr{nil, {Col("s.k0")}} {
				for _, al := range [][]agg{
					{{"count", true, "s.a0"}, {"sum", true, "s.a0"}, {"avg", true, "s.a0"}, {"array_agg", true, "s.a0"}},
					{{"count", false, "s.a1"}, {"sum", false, "s.a1"}, {"min", false, "s.a1"}, {"max", false, "s.a1"}, {"avg", false, "s.a0"}},
				} {
					o := mkq(t, okeys, al, "")
					o.From = &From{Sub: inner, Alias: "s"}
					cases = append(cases, cs{o})
				}
			}
		}
		r.Bound = map[string]interface{}{"tables": len(tables), "key_sets": len(keysets), "aggregate_lists": len(agglists), "cases": len(cases)}
		r.Rule = "GROUP BY queries (0-2 key expressions incl. g+1; count(*)/count/sum/avg/min/max/array_agg and DISTINCT variants over Int, Float and String columns, alone and in lists of 3; HAVING-like outer WHERE, also with strict comparisons / arithmetic over a sum, min, avg column that is NULL for an all-NULL group; DISTINCT and plain aggregates over a subquery that retracts (GROUP BY g,h TRIGGER COUNTING 1)) x every multiset of <=3 (4) rows over 9 NULL-heavy candidate rows (incl. values that cancel to 0), each run with the hash-map implementation and with TRIGGER COUNTING 1000 (btree implementation), through the real root command vs the reference grouping; non-trivial = result with at least two groups or a NULL aggregate"
		r.Assume("an empty input with zero key expressions is not judged (the statement says one row per distinct key; SQL would print one row)", "float aggregates over dyadic values compare exactly")
		cache := newFPCache()
		enum.Parallel(len(cases), func(i int) {
			if r.TimeUp() {
				return
			}
			q := cases[i].q
			if len(q.GroupBy) == 0 && q.From.Table != nil && len(q.From.Table.Rows) == 0 {
				r.Outcome("skipped: empty input without keys")
				return
			}
			v := judge(pool, q, true)
			r.Eval(1)
			switch v.Class {
			case "rejected":
				r.Reject(1)
				r.Outcome("rejected")
				return
			case "harness-unresolved":
				panic("reference cannot evaluate: " + q.SQL() + ": " + v.Why)
			}
			r.Outcome(orOK(v.Class))
			want, _ := Eval(q)
			nt := len(want.Rows) >= 2
			for _, row := range want.Rows {
				for _, x := range row[len(q.GroupBy):] {
					nt = nt || x.IsNull()
				}
			}
			if nt {
				r.Nontrivial(q.SQL())
			}
			if v.Class != "" {
				reportMismatch(r, cache, "C03", q, v, sqlArgs(q.SQL(), "json", true), func(c *Query) verdict { return judge(pool, c, true) })
			} else if i%2100 == 9 {
				s := mkCase(q, sqlArgs(q.SQL(), "json", true))
				s.Got = RowsString(v.Got)
				r.Sample(s)
			}
		})
	})
}

var _ = sort.Strings
var _ = strings.Join
