package props

// C12 — string and pattern functions meet their specification.
//
// In-process, exhaustive over a small alphabet rich in regex metacharacters,
// newline and multibyte runes. Seam: functions.FunctionMap()[name].Descriptors[i].Function.
//
// Oracles (plain Go written here):
//   LIKE   — c12Like, a recursive rune matcher ('_' one character, '%' any run incl. empty and newlines,
//            '\' escapes '_' '%' '\', everything else literal). Dangling / other escapes are UNDEFINED:
//            counted as agreement when the implementation rejects them, skipped otherwise.
//   ~      — regexp.Compile(p).MatchString(s); Go rejects p  <=> the function must return an error.
//   ~*     — regexp.Compile("(?i)"+p).MatchString(s); same error rule.
//   upper/lower/replace — strings.ToUpper / ToLower / ReplaceAll (empty 'old' skipped: not defined by the description).
//   reverse — rune-wise reversal.
//   substr/position/len — 0-based (convention read off the code for ASCII input; the descriptions do not state
//            one); on multibyte input the byte-indexed OR the rune-indexed answer is accepted; only indexes and
//            lengths that are in range under BOTH readings are judged.
//
// Fingerprints are decided by classifiers that test defect hypotheses against the observed result
// (e.g. "this metacharacter was left unescaped in a ^...$ regex translation"), one fingerprint per root cause.

import (
	"fmt"
	"regexp"
	"sort"
	"strings"
	"sync"
	"unicode"
	"unicode/utf8"

	"github.com/cube2222/octosql/functions"
	"github.com/cube2222/octosql/octosql"
	"github.com/cube2222/octosql/physical"

	"verif/harness/internal/enum"
	"verif/harness/internal/findings"
)

// The design lists 21 symbols but counts 22 (507 strings x 11 155 patterns); the 22nd symbol used here is 'É'
// (upper-case multibyte: exercises case-insensitive matching and upper/lower on multibyte input).
var c12Sigma = []string{"a", "B", "é", "日", ".", "*", "+", "?", "(", ")", "[", "]", "{", "}", "|", "^", "$", "\\", "%", "_", "\n", "É"}

const c12RegexMeta = ".*+?()[]{}|^$"

type c12Case struct {
	Function string   `json:"function"`
	Args     []string `json:"args"`
	Got      string   `json:"got"`
	Want     string   `json:"want"`
}

// c12Strings: all strings over Sigma of length <= maxLen (in symbols), shortlex.
func c12Strings(maxLen int) []string {
	out := []string{""}
	prev := []string{""}
	for l := 1; l <= maxLen; l++ {
		cur := make([]string, 0, len(prev)*len(c12Sigma))
		for _, p := range prev {
			for _, c := range c12Sigma {
				cur = append(cur, p+c)
			}
		}
		out = append(out, cur...)
		prev = cur
	}
	return out
}

// ---------- LIKE reference ----------

// c12LikeValid: every backslash is followed by one of _ % \ .
func c12LikeValid(p []rune) bool {
	for i := 0; i < len(p); i++ {
		if p[i] == '\\' {
			if i+1 >= len(p) || (p[i+1] != '_' && p[i+1] != '%' && p[i+1] != '\\') {
				return false
			}
			i++
		}
	}
	return true
}

// c12Like: reference matcher for valid patterns.
func c12Like(s, p []rune) bool {
	if len(p) == 0 {
		return len(s) == 0
	}
	switch p[0] {
	case '%':
		for i := 0; i <= len(s); i++ {
			if c12Like(s[i:], p[1:]) {
				return true
			}
		}
		return false
	case '_':
		return len(s) > 0 && c12Like(s[1:], p[1:])
	case '\\':
		return len(s) > 0 && s[0] == p[1] && c12Like(s[1:], p[2:])
	default:
		return len(s) > 0 && s[0] == p[0] && c12Like(s[1:], p[1:])
	}
}

// c12LikeModel: the regexp a regex-translating implementation would build for a valid LIKE pattern.
// raw = metacharacters left unescaped (defect hypothesis), dotall=false = wildcards do not match newline
// (defect hypothesis), grouped = body wrapped in (?:...). With raw empty and dotall true it is a second,
// independent oracle that is cross-checked against c12Like on every pair.
func c12LikeModel(p []rune, raw map[rune]bool, dotall, grouped bool) (*regexp.Regexp, error) {
	var sb strings.Builder
	if dotall {
		sb.WriteString("(?s)")
	}
	sb.WriteString("^")
	if grouped {
		sb.WriteString("(?:")
	}
	for i := 0; i < len(p); i++ {
		switch {
		case p[i] == '\\':
			i++
			sb.WriteString(regexp.QuoteMeta(string(p[i])))
		case p[i] == '%':
			sb.WriteString(".*")
		case p[i] == '_':
			sb.WriteString(".")
		case raw[p[i]]:
			sb.WriteRune(p[i])
		default:
			sb.WriteString(regexp.QuoteMeta(string(p[i])))
		}
	}
	if grouped {
		sb.WriteString(")")
	}
	sb.WriteString("$")
	return regexp.Compile(sb.String())
}

const (
	c12False = 0
	c12True  = 1
	c12Err   = 2
	c12Panic = 3
	c12Other = 4
)

func c12ResName(k int) string {
	return [...]string{"false", "true", "error", "panic", "non-boolean"}[k]
}

func c12ReRes(re *regexp.Regexp, err error, s string) int {
	if err != nil {
		return c12Err
	}
	if re.MatchString(s) {
		return c12True
	}
	return c12False
}

func c12MetaName(c rune) string { return fmt.Sprintf("%c(U+%04X)", c, c) }

// c12LikeHypotheses lists the defect hypotheses applicable to a failing LIKE case: one per distinct regex
// metacharacter that appears as a literal token of the pattern ("left unescaped in a ^...$ regex translation"),
// plus rune 0 = "wildcards do not match newline" when the string has a newline and the pattern a wildcard.
func c12LikeHypotheses(s string, p []rune) []rune {
	var hyp []rune
	seen := map[rune]bool{}
	wild := false
	for i := 0; i < len(p); i++ {
		if p[i] == '\\' {
			i++
			continue
		}
		if p[i] == '%' || p[i] == '_' {
			wild = true
		}
		if strings.ContainsRune(c12RegexMeta, p[i]) && !seen[p[i]] {
			seen[p[i]] = true
			hyp = append(hyp, p[i])
		}
	}
	if wild && strings.Contains(s, "\n") {
		hyp = append(hyp, 0)
	}
	return hyp
}

func c12HypName(h rune) string {
	if h == 0 {
		return "C12/like/wildcard-does-not-match-newline"
	}
	return "C12/like/unescaped-regex-metachar:" + c12MetaName(h)
}

// c12LikeExplanations returns every non-empty subset of the hypotheses (as fingerprint lists, smallest first)
// under which a regex-translating implementation reproduces the observed result.
func c12LikeExplanations(s string, p []rune, hyp []rune, got int) [][]string {
	masks := make([]int, 0, 1<<len(hyp))
	for m := 1; m < 1<<len(hyp); m++ {
		masks = append(masks, m)
	}
	pop := func(m int) int {
		n := 0
		for ; m > 0; m &= m - 1 {
			n++
		}
		return n
	}
	sort.SliceStable(masks, func(i, j int) bool { return pop(masks[i]) < pop(masks[j]) })
	var out [][]string
	for _, grouped := range []bool{false, true} { // the (?:...)-wrapped shape is tried only if the plain shape explains nothing
		for _, m := range masks {
			raw := map[rune]bool{}
			dotall := true
			var fps []string
			for i, h := range hyp {
				if m&(1<<i) != 0 {
					fps = append(fps, c12HypName(h))
					if h == 0 {
						dotall = false
					} else {
						raw[h] = true
					}
				}
			}
			re, err := c12LikeModel(p, raw, dotall, grouped)
			if c12ReRes(re, err, s) == got {
				out = append(out, fps)
			}
		}
		if len(out) > 0 {
			break
		}
	}
	return out
}

// c12Specials: sorted distinct non-letter symbols of a pattern (bounded fingerprint component for unexplained failures).
func c12Specials(p string) string {
	seen := map[rune]bool{}
	var rs []rune
	for _, c := range p {
		if !unicode.IsLetter(c) && !seen[c] {
			seen[c] = true
			rs = append(rs, c)
		}
	}
	sort.Slice(rs, func(i, j int) bool { return rs[i] < rs[j] })
	return strings.ReplaceAll(string(rs), "\n", "\\n")
}

// c12HasUpperEscape: the pattern contains a backslash escape whose letter is upper-case (\B, \S, \W, \D, ...).
func c12HasUpperEscape(p string) bool {
	rs := []rune(p)
	for i := 0; i < len(rs); i++ {
		if rs[i] == '\\' && i+1 < len(rs) {
			if unicode.IsUpper(rs[i+1]) {
				return true
			}
			i++
		}
	}
	return false
}

func c12IsSpecialPattern(p string) bool {
	for _, c := range p {
		if !unicode.IsLetter(c) && c != '\n' {
			return true
		}
	}
	return false
}

func c12HasRegexMeta(p string) bool { return strings.ContainsAny(p, c12RegexMeta+"\\") }

func c12Multibyte(ss ...string) string {
	for _, s := range ss {
		if len(s) != utf8.RuneCountInString(s) {
			return "multibyte"
		}
	}
	return "ascii"
}

// ---------- calling the code under test ----------

type c12Func func([]octosql.Value) (octosql.Value, error)

func c12Fn(fm map[string]physical.FunctionDetails, name string, types ...octosql.TypeID) c12Func {
	det, ok := fm[name]
	if !ok {
		panic("C12 harness: function " + name + " not in FunctionMap()")
	}
descriptors:
	for _, d := range det.Descriptors {
		if d.TypeFn != nil || len(d.ArgumentTypes) != len(types) {
			continue
		}
		for i := range types {
			if d.ArgumentTypes[i].TypeID != types[i] {
				continue descriptors
			}
		}
		return d.Function
	}
	panic(fmt.Sprintf("C12 harness: no descriptor of %s for %v", name, types))
}

func c12Call(f c12Func, args []octosql.Value) (v octosql.Value, err error, pan interface{}) {
	defer func() {
		if p := recover(); p != nil {
			pan = p
		}
	}()
	v, err = f(args)
	return
}

func c12CallBool(f c12Func, args []octosql.Value) (int, string) {
	v, err, pan := c12Call(f, args)
	switch {
	case pan != nil:
		return c12Panic, fmt.Sprint(pan)
	case err != nil:
		return c12Err, err.Error()
	case v.TypeID != octosql.TypeIDBoolean:
		return c12Other, v.String()
	case v.Boolean:
		return c12True, ""
	}
	return c12False, ""
}

// c12Tally: per-job local counters merged into one exact histogram.
type c12Tally struct {
	mu sync.Mutex
	m  map[string]int64
}

func (t *c12Tally) merge(r *findings.Run, local map[string]int64) {
	t.mu.Lock()
	for k, v := range local {
		t.m[k] += v
	}
	t.mu.Unlock()
	for k := range local {
		r.Outcome(k) // histogram in the evidence = number of jobs (operator x pattern, or function x string) that showed the class
	}
}

func init() {
	register("C12", "exploration", func(r *findings.Run) {
		fm := functions.FunctionMap()
		sLen := 2
		pLen := 3 // also in the quick tier: overlap effects such as P%S against a string shorter than P+S need three symbols
		fLen := 3
		replLen := r.Pick(2, 3)
		strs := c12Strings(sLen)
		pats := c12Strings(pLen)
		fstrs := c12Strings(fLen)
		needles := c12Strings(2)[1:] // non-empty
		news := c12Strings(1)
		replStrs := c12Strings(replLen)

		r.Bound = map[string]interface{}{
			"alphabet": c12Sigma, "alphabet_size": len(c12Sigma),
			"pattern_ops":    map[string]int{"string_len": sLen, "pattern_len": pLen, "strings": len(strs), "patterns": len(pats)},
			"string_funcs":   map[string]int{"string_len": fLen, "strings": len(fstrs), "needle_len": 2},
			"replace":        map[string]int{"string_len": replLen, "old_len": 2, "new_len": 1},
			"substr_indexes": "0 <= start <= runes(s), 0 <= length <= runes(s)-start",
		}
		r.Rule = "every (string, pattern) pair over the alphabet up to the length bounds for like, ~ and ~*; every string up to the bound for upper, lower, reverse, len; every (string, start[, length]) in range for substr; every (string, non-empty needle) for position; every (string, non-empty old, new) for replace; each evaluated once on the real Function and compared with the reference written in the check; plus, for like, ~ and ~*, every ordered pair of a menu of 12-18 patterns that differ by case or by an escape (\\d/\\D, a/A, [a-z]/[A-Z], a./a\\. ...) evaluated one after the other on a fresh operator instance (its compiled-pattern cache must not leak one pattern's answer to another). non-trivial = distinct (operator, string, pattern) where the pattern contains a wildcard, escape or regex metacharacter and implementation and reference agree on TRUE; plus distinct (function, arguments) with a multibyte argument where the agreed result differs from the first argument (replace: keyed on (string, old) with old occurring in string)"
		r.Assume(
			"alphabet: the design lists 21 symbols but counts 22; 'É' was added as the 22nd",
			"LIKE: a dangling backslash or a backslash before anything but _ % \\ is undefined: agreement when the implementation rejects it, otherwise skipped",
			"~*: judged only when Go accepts/rejects the pattern with and without the (?i) prefix alike",
			"replace with an empty second argument is skipped (the description does not define it)",
			"position with an empty needle is skipped (the description does not define an occurrence of the empty string)",
			"substr/position/len: descriptions state no index base or unit; 0-based (read off the code for ASCII input), absent needle = NULL; on multibyte input the byte-indexed or the rune-indexed answer is accepted (a byte-indexed answer may split a rune); only start/length in range under both readings are judged",
			"upper/lower are compared with strings.ToUpper/ToLower",
		)
		descr := map[string]string{}
		for _, n := range []string{"like", "~", "~*", "upper", "lower", "reverse", "substr", "replace", "position", "len"} {
			descr[n] = fm[n].Description
		}
		r.Extra["descriptions_read"] = descr

		tally := &c12Tally{m: map[string]int64{}}
		var xmu sync.Mutex
		var crosscheck int64

		// Failing cases are buffered per fingerprint so that the case written to the replay file is the smallest
		// one (deterministic under the parallel enumeration); flushed to r.Violation at the end, smallest first.
		type c12Agg struct {
			count int
			size  int
			best  c12Case
		}
		var vmu sync.Mutex
		viol := map[string]*c12Agg{}
		report := func(fp, fn string, args []string, got, want string) {
			size := 0
			for _, a := range args {
				size += utf8.RuneCountInString(a)
			}
			vmu.Lock()
			defer vmu.Unlock()
			a, ok := viol[fp]
			if !ok {
				a = &c12Agg{size: 1 << 30}
				viol[fp] = a
			}
			a.count++
			if size < a.size || (size == a.size && strings.Join(args, "\x00") < strings.Join(a.best.Args, "\x00")) {
				a.size = size
				a.best = c12Case{Function: fn, Args: append([]string{}, args...), Got: got, Want: want}
			}
		}
		defer func() {
			fps := make([]string, 0, len(viol))
			for fp := range viol {
				fps = append(fps, fp)
			}
			sort.Strings(fps)
			for _, fp := range fps {
				a := viol[fp]
				what := fmt.Sprintf("%s(%s) = %s, expected %s", a.best.Function, c12Quote(a.best.Args), a.best.Got, a.best.Want)
				for i := 0; i < a.count; i++ {
					r.Violation(fp, what, a.best)
				}
			}
		}()

		// ---------- phase 0: ordered pairs of patterns on one operator instance (the operators cache compiled patterns) ----------
		c12Sequences(r, report)

		// ---------- phase 1: like, ~, ~* ----------
		ops := []string{"like", "~", "~*"}
		opFn := map[string]c12Func{}
		for _, op := range ops {
			opFn[op] = c12Fn(fm, op, octosql.TypeIDString, octosql.TypeIDString)
		}
		sampleAt := map[string][2]string{"like": {"é日", "_日"}, "~": {"a.", "\\."}, "~*": {"aB", "B$"}}

		// LIKE failures are attributed to root causes like this: a failure whose pattern/string offers exactly one
		// hypothesis is judged on that hypothesis alone (and confirms it). Failures with several applicable
		// hypotheses are resolved after the pass, simplest pattern first: the smallest explaining subset made only of
		// already confirmed causes wins; only if there is none, the smallest explaining subset establishes new causes.
		type c12Pending struct {
			s, p, gotS string
			got, want  int
		}
		var amu sync.Mutex
		var ambiguous []c12Pending
		confirmed := map[string]bool{}
		unexplained := func(p string, got, want int) []string {
			return []string{fmt.Sprintf("C12/like/unexplained:%s-for-%s:specials=%s", c12ResName(got), c12ResName(want), c12Specials(p))}
		}
		reportAll := func(fps []string, op, s, p, gotS string, want int) {
			for _, fp := range fps {
				w := c12ResName(want)
				if len(fps) > 1 {
					w += " (needs all of " + strings.Join(fps, " + ") + " to explain)"
				}
				report(fp, op, []string{s, p}, gotS, w)
			}
		}

		enum.Parallel(len(ops)*len(pats), func(ji int) {
			op := ops[ji%len(ops)]
			p := pats[ji/len(ops)]
			f := opFn[op]
			local := map[string]int64{}
			args := []octosql.Value{{}, octosql.NewString(p)}
			pr := []rune(p)
			special := c12IsSpecialPattern(p)

			var likeValid bool
			var likeX *regexp.Regexp
			var re *regexp.Regexp
			var reErr error
			undefinedCI := false
			switch op {
			case "like":
				likeValid = c12LikeValid(pr)
				if likeValid {
					var err error
					likeX, err = c12LikeModel(pr, nil, true, true)
					if err != nil {
						panic(fmt.Sprintf("C12 harness: cross-check model does not compile for %q: %v", p, err))
					}
				}
			case "~":
				re, reErr = regexp.Compile(p)
				special = c12HasRegexMeta(p)
			case "~*":
				re, reErr = regexp.Compile("(?i)" + p)
				_, plainErr := regexp.Compile(p)
				undefinedCI = (reErr == nil) != (plainErr == nil)
				special = c12HasRegexMeta(p)
			}
			var xc int64
			for _, s := range strs {
				args[0] = octosql.NewString(s)
				got, detail := c12CallBool(f, args)
				gotS := c12ResName(got)
				if detail != "" {
					gotS += ": " + detail
				}
				if got == c12Panic || got == c12Other {
					local[op+"/"+c12ResName(got)]++
					report("C12/"+op+"/"+c12ResName(got), op, []string{s, p}, gotS, "a Boolean or an error")
					continue
				}
				var want int
				switch op {
				case "like":
					if !likeValid {
						if got == c12Err {
							local["like/undefined-escape:both-reject"]++
						} else {
							local["like/undefined-escape:implementation-accepts(skipped)"]++
						}
						continue
					}
					want = c12False
					if c12Like([]rune(s), pr) {
						want = c12True
					}
					if x := c12ReRes(likeX, nil, s); x != want {
						panic(fmt.Sprintf("C12 harness: the two LIKE references disagree on %q LIKE %q: matcher %v, regexp model %v", s, p, want, x))
					}
					xc++
				default:
					if undefinedCI {
						local["~*/validity-differs-under-(?i)-prefix(skipped)"]++
						continue
					}
					want = c12ReRes(re, reErr, s)
				}
				if sp, ok := sampleAt[op]; ok && sp[0] == s && sp[1] == p {
					r.Sample(c12Case{Function: op, Args: []string{s, p}, Got: gotS, Want: c12ResName(want)})
				}
				if got == want {
					local[op+"/agree:"+c12ResName(want)]++
					if want == c12True && special {
						r.Nontrivial(op + "\x00" + s + "\x00" + p)
					}
					continue
				}
				local[op+"/MISMATCH:"+c12ResName(got)+"-for-"+c12ResName(want)]++
				var fps []string
				switch op {
				case "like":
					hyp := c12LikeHypotheses(s, pr)
					if len(hyp) > 1 {
						amu.Lock()
						ambiguous = append(ambiguous, c12Pending{s, p, gotS, got, want})
						amu.Unlock()
						continue
					}
					if ex := c12LikeExplanations(s, pr, hyp, got); len(ex) > 0 {
						fps = ex[0]
						amu.Lock()
						confirmed[fps[0]] = true
						amu.Unlock()
					} else {
						fps = unexplained(p, got, want)
					}
				case "~":
					fps = []string{c12RegexRelation(op, got, want)}
				case "~*":
					lre, lerr := regexp.Compile(strings.ToLower(p))
					switch {
					case c12ReRes(lre, lerr, strings.ToLower(s)) == got && c12HasUpperEscape(p):
						fps = []string{"C12/~*/pattern-lowercased-changes-escape-class"}
					case c12ReRes(lre, lerr, strings.ToLower(s)) == got:
						fps = []string{"C12/~*/lowercasing-differs-from-case-insensitive-match:" + c12ResName(got) + "-for-" + c12ResName(want)}
					default:
						fps = []string{c12RegexRelation(op, got, want)}
					}
				}
				reportAll(fps, op, s, p, gotS, want)
			}
			r.Eval(int64(len(strs)))
			if xc > 0 {
				xmu.Lock()
				crosscheck += xc
				xmu.Unlock()
			}
			tally.merge(r, local)
		})
		r.Extra["like_reference_crosschecked_pairs"] = crosscheck
		sort.Slice(ambiguous, func(i, j int) bool {
			a, b := ambiguous[i], ambiguous[j]
			if la, lb := utf8.RuneCountInString(a.p), utf8.RuneCountInString(b.p); la != lb {
				return la < lb
			}
			if a.p != b.p {
				return a.p < b.p
			}
			return a.s < b.s
		})
		exAll := make([][][]string, len(ambiguous))
		enum.Parallel(len(ambiguous), func(i int) {
			a := ambiguous[i]
			pr := []rune(a.p)
			exAll[i] = c12LikeExplanations(a.s, pr, c12LikeHypotheses(a.s, pr), a.got)
		})
		for i, a := range ambiguous {
			ex := exAll[i]
			var pick []string
		explanations:
			for _, c := range ex {
				for _, fp := range c {
					if !confirmed[fp] {
						continue explanations
					}
				}
				pick = c
				break
			}
			switch {
			case pick != nil:
			case len(ex) > 0:
				pick = ex[0]
				for _, fp := range pick {
					confirmed[fp] = true
				}
			default:
				pick = unexplained(a.p, a.got, a.want)
			}
			reportAll(pick, "like", a.s, a.p, a.gotS, a.want)
		}
		r.Extra["like_failures_with_several_applicable_hypotheses"] = len(ambiguous)

		// ---------- phase 2: upper, lower, reverse, len, substr, position ----------
		fUpper := c12Fn(fm, "upper", octosql.TypeIDString)
		fLower := c12Fn(fm, "lower", octosql.TypeIDString)
		fReverse := c12Fn(fm, "reverse", octosql.TypeIDString)
		fLenFn := c12Fn(fm, "len", octosql.TypeIDString)
		fSubstr2 := c12Fn(fm, "substr", octosql.TypeIDString, octosql.TypeIDInt)
		fSubstr3 := c12Fn(fm, "substr", octosql.TypeIDString, octosql.TypeIDInt, octosql.TypeIDInt)
		fPosition := c12Fn(fm, "position", octosql.TypeIDString, octosql.TypeIDString)
		fReplace := c12Fn(fm, "replace", octosql.TypeIDString, octosql.TypeIDString, octosql.TypeIDString)

		enum.Parallel(len(fstrs), func(si int) {
			s := fstrs[si]
			mb := c12Multibyte(s)
			runes := []rune(s)
			local := map[string]int64{}
			var evals int64
			sv := octosql.NewString(s)

			// one-argument String -> String functions with an exact reference
			strFn := func(name string, f c12Func, want string, classify func(got string) string) {
				evals++
				v, err, pan := c12Call(f, []octosql.Value{sv})
				switch {
				case pan != nil:
					local[name+"/panic"]++
					report("C12/"+name+"/panic", name, []string{s}, fmt.Sprint("panic: ", pan), fmt.Sprintf("%q", want))
				case err != nil:
					local[name+"/unexpected-error"]++
					report("C12/"+name+"/unexpected-error:"+mb, name, []string{s}, "error: "+err.Error(), fmt.Sprintf("%q", want))
				case v.TypeID != octosql.TypeIDString:
					local[name+"/non-string"]++
					report("C12/"+name+"/non-string-result", name, []string{s}, v.String(), fmt.Sprintf("%q", want))
				case v.Str != want:
					local[name+"/MISMATCH:"+mb]++
					report(classify(v.Str), name, []string{s}, fmt.Sprintf("%q", v.Str), fmt.Sprintf("%q", want))
				default:
					local[name+"/agree:"+mb]++
					if mb == "multibyte" && want != s {
						r.Nontrivial(name + "\x00" + s)
					}
				}
				if s == "a日é" && name == "reverse" {
					r.Sample(c12Case{Function: name, Args: []string{s}, Got: fmt.Sprintf("%q, %v", v.Str, err), Want: fmt.Sprintf("%q", want)})
				}
			}
			strFn("upper", fUpper, strings.ToUpper(s), func(string) string { return "C12/upper/differs-from-strings.ToUpper:" + mb })
			strFn("lower", fLower, strings.ToLower(s), func(string) string { return "C12/lower/differs-from-strings.ToLower:" + mb })
			rev := make([]rune, len(runes))
			for i, c := range runes {
				rev[len(runes)-1-i] = c
			}
			strFn("reverse", fReverse, string(rev), func(got string) string {
				bs := []byte(s)
				for i, j := 0, len(bs)-1; i < j; i, j = i+1, j-1 {
					bs[i], bs[j] = bs[j], bs[i]
				}
				switch {
				case mb == "multibyte" && got == string(bs):
					return "C12/reverse/multibyte-bytes-reversed"
				case mb == "multibyte" && strings.ContainsRune(got, 0) && strings.ReplaceAll(got, "\x00", "") == string(rev):
					return "C12/reverse/multibyte-result-padded-with-NUL-runes"
				}
				return "C12/reverse/differs-from-rune-reversal:" + mb
			})

			// len
			{
				evals++
				v, err, pan := c12Call(fLenFn, []octosql.Value{sv})
				wantS := fmt.Sprintf("%d (bytes) or %d (runes)", len(s), len(runes))
				switch {
				case pan != nil:
					local["len/panic"]++
					report("C12/len/panic", "len", []string{s}, fmt.Sprint("panic: ", pan), wantS)
				case err != nil || v.TypeID != octosql.TypeIDInt:
					local["len/unexpected-error-or-type"]++
					report("C12/len/unexpected-error-or-type:"+mb, "len", []string{s}, fmt.Sprintf("%s, %v", v.String(), err), wantS)
				case v.Int != int64(len(s)) && v.Int != int64(len(runes)):
					local["len/MISMATCH:"+mb]++
					report("C12/len/neither-byte-nor-rune-length:"+mb, "len", []string{s}, fmt.Sprint(v.Int), wantS)
				default:
					local["len/agree:"+c12Unit(mb, v.Int == int64(len(s)), v.Int == int64(len(runes)))]++
					if mb == "multibyte" {
						r.Nontrivial("len\x00" + s)
					}
				}
			}

			// substr(s, start) and substr(s, start, length); start/length in range under both readings
			for start := 0; start <= len(runes); start++ {
				for length := -1; length <= len(runes)-start; length++ { // -1 = two-argument form
					evals++
					name := "substr3"
					args := []octosql.Value{sv, octosql.NewInt(int64(start)), octosql.NewInt(int64(length))}
					argS := []string{s, fmt.Sprint(start), fmt.Sprint(length)}
					f := fSubstr3
					wantB, wantR := "", ""
					if length < 0 {
						name, args, argS, f = "substr2", args[:2], argS[:2], fSubstr2
						wantB, wantR = s[start:], string(runes[start:])
					} else {
						wantB, wantR = s[start:start+length], string(runes[start:start+length])
					}
					wantS := fmt.Sprintf("%q (byte-indexed) or %q (rune-indexed)", wantB, wantR)
					v, err, pan := c12Call(f, args)
					switch {
					case pan != nil:
						local[name+"/panic"]++
						report("C12/"+name+"/panic-on-in-range-arguments:"+mb, name, argS, fmt.Sprint("panic: ", pan), wantS)
					case err != nil || v.TypeID != octosql.TypeIDString:
						local[name+"/unexpected-error-or-type"]++
						report("C12/"+name+"/unexpected-error-or-type:"+mb, name, argS, fmt.Sprintf("%s, %v", v.String(), err), wantS)
					case v.Str != wantB && v.Str != wantR:
						local[name+"/MISMATCH:"+mb]++
						report("C12/"+name+"/neither-byte-nor-rune-indexed:"+mb, name, argS, fmt.Sprintf("%q", v.Str), wantS)
					default:
						cls := name + "/agree:" + c12Unit(mb, v.Str == wantB, v.Str == wantR)
						if !utf8.ValidString(v.Str) {
							cls += "(splits-a-rune)"
						}
						local[cls]++
						if mb == "multibyte" && v.Str != s {
							r.Nontrivial(name + "\x00" + strings.Join(argS, "\x00"))
						}
					}
					if s == "日aé" && start == 1 && length == 2 {
						r.Sample(c12Case{Function: name, Args: argS, Got: fmt.Sprintf("%q, %v", v.Str, err), Want: wantS})
					}
				}
			}

			// position(s, needle), needle non-empty
			pargs := []octosql.Value{sv, {}}
			for _, nd := range needles {
				evals++
				pargs[1] = octosql.NewString(nd)
				bi := -1
				for i := 0; i+len(nd) <= len(s); i++ {
					if s[i:i+len(nd)] == nd {
						bi = i
						break
					}
				}
				wantS := "NULL"
				ri := -1
				if bi >= 0 {
					ri = utf8.RuneCountInString(s[:bi])
					wantS = fmt.Sprintf("%d (byte index) or %d (rune index)", bi, ri)
				}
				mb2 := c12Multibyte(s, nd)
				v, err, pan := c12Call(fPosition, pargs)
				gotS := v.String()
				switch {
				case pan != nil:
					local["position/panic"]++
					report("C12/position/panic", "position", []string{s, nd}, fmt.Sprint("panic: ", pan), wantS)
				case err != nil || (v.TypeID != octosql.TypeIDInt && v.TypeID != octosql.TypeIDNull):
					local["position/unexpected-error-or-type"]++
					report("C12/position/unexpected-error-or-type:"+mb2, "position", []string{s, nd}, fmt.Sprintf("%s, %v", gotS, err), wantS)
				case bi < 0 && v.TypeID != octosql.TypeIDNull:
					local["position/MISMATCH:index-for-absent"]++
					report("C12/position/index-for-absent-needle:"+mb2, "position", []string{s, nd}, gotS, wantS)
				case bi >= 0 && v.TypeID == octosql.TypeIDNull:
					local["position/MISMATCH:null-for-present"]++
					report("C12/position/null-for-present-needle:"+mb2, "position", []string{s, nd}, gotS, wantS)
				case bi >= 0 && v.Int != int64(bi) && v.Int != int64(ri):
					local["position/MISMATCH:wrong-index"]++
					report("C12/position/neither-byte-nor-rune-index:"+mb2, "position", []string{s, nd}, gotS, wantS)
				case bi < 0:
					local["position/agree:absent"]++
				default:
					local["position/agree:"+c12Unit(mb2, v.Int == int64(bi), v.Int == int64(ri))]++
					if mb2 == "multibyte" {
						r.Nontrivial("position\x00" + s + "\x00" + nd)
					}
				}
				if s == "é日a" && nd == "日a" {
					r.Sample(c12Case{Function: "position", Args: []string{s, nd}, Got: gotS, Want: wantS})
				}
			}
			r.Eval(evals)
			tally.merge(r, local)
		})

		// ---------- phase 3: replace ----------
		emptyOldDefined := strings.Contains(strings.ToLower(fm["replace"].Description), "empty")
		olds := needles
		if emptyOldDefined {
			olds = append([]string{""}, needles...)
		}
		enum.Parallel(len(replStrs), func(si int) {
			s := replStrs[si]
			local := map[string]int64{}
			args := []octosql.Value{octosql.NewString(s), {}, {}}
			var evals int64
			for _, old := range olds {
				args[1] = octosql.NewString(old)
				occurs := old != "" && strings.Contains(s, old)
				allAgree := true
				for _, nw := range news {
					evals++
					args[2] = octosql.NewString(nw)
					want := strings.ReplaceAll(s, old, nw)
					mb := c12Multibyte(s, old, nw)
					v, err, pan := c12Call(fReplace, args)
					switch {
					case pan != nil:
						allAgree = false
						local["replace/panic"]++
						report("C12/replace/panic", "replace", []string{s, old, nw}, fmt.Sprint("panic: ", pan), fmt.Sprintf("%q", want))
					case err != nil || v.TypeID != octosql.TypeIDString:
						allAgree = false
						local["replace/unexpected-error-or-type"]++
						report("C12/replace/unexpected-error-or-type:"+mb, "replace", []string{s, old, nw}, fmt.Sprintf("%s, %v", v.String(), err), fmt.Sprintf("%q", want))
					case v.Str != want:
						allAgree = false
						local["replace/MISMATCH:"+mb]++
						report("C12/replace/differs-from-strings.ReplaceAll:"+mb, "replace", []string{s, old, nw}, fmt.Sprintf("%q", v.Str), fmt.Sprintf("%q", want))
					case occurs:
						local["replace/agree:replaced:"+mb]++
					default:
						local["replace/agree:no-occurrence"]++
					}
					if s == "é." && old == "." && nw == "日" {
						r.Sample(c12Case{Function: "replace", Args: []string{s, old, nw}, Got: fmt.Sprintf("%q, %v", v.Str, err), Want: fmt.Sprintf("%q", want)})
					}
				}
				if occurs && allAgree && c12Multibyte(s) == "multibyte" {
					r.Nontrivial("replace\x00" + s + "\x00" + old)
				}
			}
			r.Eval(evals)
			tally.merge(r, local)
		})
		if !emptyOldDefined {
			r.Extra["replace_empty_old"] = "skipped: not defined by the description"
		}
		r.Extra["outcome_evaluations"] = tally.m
		r.Extra["outcome_histogram_unit"] = "jobs (operator x pattern, function x string) in which the class was observed; outcome_evaluations has the exact number of evaluations per class"
	})
}

func c12RegexRelation(op string, got, want int) string {
	switch {
	case want == c12Err:
		return "C12/" + op + "/accepts-invalid-regex"
	case got == c12Err:
		return "C12/" + op + "/rejects-valid-regex"
	}
	return "C12/" + op + "/" + c12ResName(got) + "-for-" + c12ResName(want)
}

// c12Unit names which reading(s) the observed answer is consistent with.
func c12Unit(mb string, byteOK, runeOK bool) string {
	switch {
	case mb == "ascii":
		return "ascii"
	case byteOK && runeOK:
		return "multibyte:both-readings-coincide"
	case byteOK:
		return "multibyte:byte-indexed"
	}
	return "multibyte:rune-indexed"
}

func c12Quote(args []string) string {
	q := make([]string, len(args))
	for i, a := range args {
		q[i] = fmt.Sprintf("%q", a)
	}
	return strings.Join(q, ", ")
}
