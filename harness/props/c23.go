package props

// C23: File datasources return exactly the file's rows (CONTENT half).
//
// Every file is produced by a generator that also produces the expected rows (plain Go values, never
// re-parsed from the file with the library octosql uses). `SELECT * FROM <file> t -o json` is run through
// the real root command (in-process vrun pool; the real binary for stdin) and the printed records must be
// the generator's rows: same number, same order, same values.
//
// The JSON worker-scheduling half of C23 needs hook H2 and lives in c23Scheduling (stub, see below).

import (
	"bytes"
	"encoding/json"
	"fmt"
	"math"
	"os"
	"sort"
	"strconv"
	"strings"
	"time"
	"unicode/utf8"

	"github.com/segmentio/parquet-go"

	"verif/harness/internal/enum"
	"verif/harness/internal/findings"
	"verif/harness/internal/runner"
)

// c23Scheduling: JSON parser worker-pool scheduling half of C23 (every feasible delivery order of the
// parsed batches, driven through hook H2).
func c23Scheduling(r *findings.Run) {
	c23SchedulingImpl(r) // see c23sched.go
}

// ---------------------------------------------------------------- value model

// c23V is a JSON-like value. K: null num str bool list obj cell.
// "cell" is a CSV cell: only its text (S) is known, octosql chooses the type.
type c23V struct {
	K    string
	N    float64
	S    string // str: the string; num: the literal text as printed/written; cell: cell text
	B    bool
	L    []c23V
	Keys []string // obj: keys, values in L
	// PqList: a parquet LIST value (may be printed in its physical three-level shape)
	PqList bool
}

func c23Null() c23V          { return c23V{K: "null"} }
func c23Num(f float64) c23V  { return c23V{K: "num", N: f, S: strconv.FormatFloat(f, 'g', -1, 64)} }
func c23Str(s string) c23V   { return c23V{K: "str", S: s} }
func c23Bool(b bool) c23V    { return c23V{K: "bool", B: b} }
func c23Cell(s string) c23V  { return c23V{K: "cell", S: s} }
func c23List(l ...c23V) c23V { return c23V{K: "list", L: append([]c23V{}, l...)} }
func c23Obj(kv ...interface{}) c23V {
	o := c23V{K: "obj", Keys: []string{}, L: []c23V{}}
	for i := 0; i+1 < len(kv); i += 2 {
		o.Keys = append(o.Keys, kv[i].(string))
		o.L = append(o.L, kv[i+1].(c23V))
	}
	return o
}

func (v c23V) get(k string) (c23V, bool) {
	for i := range v.Keys {
		if v.Keys[i] == k {
			return v.L[i], true
		}
	}
	return c23V{K: "null"}, false
}

func (v c23V) String() string {
	switch v.K {
	case "null":
		return "null"
	case "num":
		return v.S
	case "str":
		return strconv.QuoteToASCII(v.S)
	case "cell":
		return "cell" + strconv.QuoteToASCII(v.S)
	case "bool":
		return strconv.FormatBool(v.B)
	case "list":
		p := make([]string, len(v.L))
		for i := range v.L {
			p[i] = v.L[i].String()
		}
		return "[" + strings.Join(p, ",") + "]"
	case "obj":
		p := make([]string, len(v.L))
		for i := range v.L {
			p[i] = strconv.QuoteToASCII(v.Keys[i]) + ":" + v.L[i].String()
		}
		return "{" + strings.Join(p, ",") + "}"
	}
	return "?" + v.K
}

// c23ParseValue decodes one JSON value from a token stream (numbers keep their text, objects keep key order).
func c23ParseValue(dec *json.Decoder) (c23V, error) {
	tok, err := dec.Token()
	if err != nil {
		return c23V{}, err
	}
	switch t := tok.(type) {
	case json.Delim:
		switch t {
		case '{':
			o := c23V{K: "obj", Keys: []string{}, L: []c23V{}}
			for dec.More() {
				kt, err := dec.Token()
				if err != nil {
					return c23V{}, err
				}
				ks, ok := kt.(string)
				if !ok {
					return c23V{}, fmt.Errorf("object key is not a string: %v", kt)
				}
				v, err := c23ParseValue(dec)
				if err != nil {
					return c23V{}, err
				}
				o.Keys = append(o.Keys, ks)
				o.L = append(o.L, v)
			}
			if _, err := dec.Token(); err != nil {
				return c23V{}, err
			}
			return o, nil
		case '[':
			l := c23V{K: "list", L: []c23V{}}
			for dec.More() {
				v, err := c23ParseValue(dec)
				if err != nil {
					return c23V{}, err
				}
				l.L = append(l.L, v)
			}
			if _, err := dec.Token(); err != nil {
				return c23V{}, err
			}
			return l, nil
		}
		return c23V{}, fmt.Errorf("unexpected delimiter %v", t)
	case json.Number:
		f, err := strconv.ParseFloat(string(t), 64)
		if err != nil && !math.IsInf(f, 0) {
			return c23V{}, err
		}
		return c23V{K: "num", N: f, S: string(t)}, nil
	case string:
		return c23Str(t), nil
	case bool:
		return c23Bool(t), nil
	case nil:
		return c23Null(), nil
	}
	return c23V{}, fmt.Errorf("unexpected token %v", tok)
}

// c23ParseOutput parses `-o json` output: one object per line.
func c23ParseOutput(out string) ([]c23V, error) {
	var rows []c23V
	for _, line := range strings.Split(out, "\n") {
		if strings.TrimSpace(line) == "" {
			continue
		}
		if !utf8.ValidString(line) {
			return nil, fmt.Errorf("output line is not valid UTF-8: %q", line)
		}
		dec := json.NewDecoder(bytes.NewReader([]byte(line)))
		dec.UseNumber()
		v, err := c23ParseValue(dec)
		if err != nil {
			return nil, fmt.Errorf("bad JSON line %q: %v", line, err)
		}
		if v.K != "obj" {
			return nil, fmt.Errorf("output line is not an object: %q", line)
		}
		if dec.More() {
			return nil, fmt.Errorf("trailing data in line %q", line)
		}
		rows = append(rows, v)
	}
	return rows, nil
}

func c23NumEq(a, b float64) bool {
	if a == b {
		return true
	}
	if math.IsNaN(a) || math.IsNaN(b) || math.IsInf(a, 0) || math.IsInf(b, 0) {
		return false
	}
	return math.Abs(a-b) <= 4e-16*math.Max(math.Abs(a), math.Abs(b))
}

func c23TimeRendering(s string) (string, bool) {
	t, err := time.Parse(time.RFC3339Nano, s)
	if err != nil {
		return "", false
	}
	return t.Format(time.RFC3339), true
}

// c23Same: does the printed value carry the expected value? (see r.Assume for the weak readings)
func c23Same(want, got c23V) bool {
	switch want.K {
	case "null":
		return got.K == "null"
	case "num":
		return got.K == "num" && c23NumEq(want.N, got.N)
	case "bool":
		return got.K == "bool" && got.B == want.B
	case "str":
		if got.K != "str" {
			return false
		}
		if got.S == want.S {
			return true
		}
		if tr, ok := c23TimeRendering(want.S); ok && got.S == tr {
			return true // documented inference: RFC3339 strings are Time, printed with time.RFC3339
		}
		return false
	case "cell":
		// CSV: octosql chooses the type of the cell; any faithful typing of the text is accepted.
		switch got.K {
		case "null":
			return want.S == ""
		case "str":
			if got.S == want.S {
				return true
			}
			if tr, ok := c23TimeRendering(want.S); ok && got.S == tr {
				return true
			}
			return false
		case "num":
			f, err := strconv.ParseFloat(want.S, 64)
			return err == nil && c23NumEq(f, got.N)
		case "bool":
			b, err := strconv.ParseBool(want.S)
			return err == nil && b == got.B
		}
		return false
	case "list":
		if want.PqList && got.K == "obj" {
			// physical shape of a parquet LIST: {list: [{element: x}, ...]}
			inner, ok := got.get("list")
			if !ok || inner.K != "list" || len(got.Keys) != 1 {
				return false
			}
			un := c23V{K: "list", L: []c23V{}}
			for _, e := range inner.L {
				ev, ok := e.get("element")
				if e.K != "obj" || !ok || len(e.Keys) != 1 {
					return false
				}
				un.L = append(un.L, ev)
			}
			got = un
		}
		if got.K != "list" || len(got.L) != len(want.L) {
			return false
		}
		for i := range want.L {
			if !c23Same(want.L[i], got.L[i]) {
				return false
			}
		}
		return true
	case "obj":
		if got.K != "obj" {
			return false
		}
		// a key absent from an object and a key holding null are not distinguished (missing key -> NULL)
		for i, k := range want.Keys {
			g, _ := got.get(k)
			if !c23Same(want.L[i], g) {
				return false
			}
		}
		for i, k := range got.Keys {
			if _, ok := want.get(k); !ok && got.L[i].K != "null" {
				return false
			}
		}
		return true
	}
	return false
}

// ---------------------------------------------------------------- cases

type c23Case struct {
	Kind    string // json csv tsv lines parquet stdin.json stdin.csv stdin.lines
	Feature string // generator family, part of the generic fingerprint
	Desc    string
	Ext     string
	Content []byte
	SQL     func(path string) string
	Cols    []string // expected output columns (order not judged)
	Want    [][]c23V // positional to Cols
	Only    []string // when set: only these columns are judged (lines: text)
	Stdin   bool     // real binary, content piped on stdin
	Sep     string   // lines
	Text    string   // lines
	NonTriv bool
	MayFail string // non-empty: an error is a legitimate rejection (reason)
}

type c23Replay struct {
	Kind      string   `json:"kind"`
	Feature   string   `json:"feature"`
	Desc      string   `json:"desc"`
	SQL       string   `json:"sql"`
	File      string   `json:"file_content"`
	Truncated bool     `json:"file_content_truncated,omitempty"`
	Stdin     bool     `json:"content_piped_on_stdin,omitempty"`
	Want      []string `json:"want_rows"`
	Got       []string `json:"got_rows"`
	Error     string   `json:"error,omitempty"`
	Class     string   `json:"class"`
}

func c23RowsStr(cols []string, rows [][]c23V, max int) []string {
	var out []string
	for i, r := range rows {
		if i >= max {
			out = append(out, fmt.Sprintf("... %d more", len(rows)-max))
			break
		}
		p := make([]string, len(r))
		for j := range r {
			p[j] = cols[j] + "=" + r[j].String()
		}
		out = append(out, strings.Join(p, " "))
	}
	return out
}

func c23GotStr(rows []c23V, max int) []string {
	var out []string
	for i, r := range rows {
		if i >= max {
			out = append(out, fmt.Sprintf("... %d more", len(rows)-max))
			break
		}
		out = append(out, r.String())
	}
	return out
}

func starSQL(path string) string { return "SELECT * FROM `" + path + "` t" }

// ---------------------------------------------------------------- JSON generator

type c23KV struct {
	K    string
	Text string // JSON text of the value as written to the file
	V    c23V   // the value it denotes
}

func kvNum(k, text string) c23KV {
	f, err := strconv.ParseFloat(text, 64)
	if err != nil {
		panic(err)
	}
	return c23KV{k, text, c23V{K: "num", N: f, S: text}}
}
func kvInt(k string, i int) c23KV { return kvNum(k, strconv.Itoa(i)) }
func kvStr(k, s string) c23KV {
	b, _ := json.Marshal(s)
	return c23KV{k, string(b), c23Str(s)}
}
func kvRaw(k, text string, v c23V) c23KV { return c23KV{k, text, v} }

type c23JSONTemplate struct {
	Name    string
	NonTriv bool
	Row     func(i int) []c23KV
	Counts  []int // nil = all counts
}

func c23JSONTemplates() []c23JSONTemplate {
	long := strings.Repeat("0123456789", 7000)
	return []c23JSONTemplate{
		{Name: "plain", Row: func(i int) []c23KV { return []c23KV{kvInt("i", i), kvStr("s", fmt.Sprintf("r%d", i))} }},
		{Name: "unicode", NonTriv: true, Row: func(i int) []c23KV {
			return []c23KV{kvInt("i", i), kvStr("s", fmt.Sprintf("żółć-日本語-é-😀-%d", i)), kvStr("клю́ч", "значение")}
		}},
		{Name: "escapes", NonTriv: true, Row: func(i int) []c23KV {
			return []c23KV{kvInt("i", i),
				kvRaw("s", `"q\"b\\s\/n\nt\tr\ruép😀z\u0000e"`, c23Str("q\"b\\s/n\nt\tr\ruép\U0001F600z\x00e")),
				kvRaw("k\\\"eéy", `"v"`, c23Str("v")),
			}
		}},
		{Name: "nested", NonTriv: true, Row: func(i int) []c23KV {
			fi := float64(i)
			return []c23KV{kvInt("i", i),
				kvRaw("o", fmt.Sprintf(`{"a":%d,"b":{"c":"x%d","d":[1,2,{"e":"y"}]}}`, i, i),
					c23Obj("a", c23Num(fi), "b", c23Obj("c", c23Str(fmt.Sprintf("x%d", i)), "d", c23List(c23Num(1), c23Num(2), c23Obj("e", c23Str("y")))))),
				kvRaw("l", fmt.Sprintf(`[%d, %d]`, i, i+1), c23List(c23Num(fi), c23Num(fi+1))),
				kvRaw("ll", `[[1],[2,3],[]]`, c23List(c23List(c23Num(1)), c23List(c23Num(2), c23Num(3)), c23List())),
				kvRaw("lo", `[{"p":1,"q":"a"},{"q":"b","p":2}]`, c23List(c23Obj("p", c23Num(1), "q", c23Str("a")), c23Obj("p", c23Num(2), "q", c23Str("b")))),
			}
		}},
		{Name: "nested-null-field", NonTriv: true, Row: func(i int) []c23KV {
			// a column that is a number in even rows and an object with a null member in odd rows; a list mixing both
			kv := []c23KV{kvInt("i", i)}
			if i%2 == 0 {
				kv = append(kv, kvNum("m", "1"))
			} else {
				kv = append(kv, kvRaw("m", `{"a":null,"b":2}`, c23Obj("a", c23Null(), "b", c23Num(2))))
			}
			kv = append(kv, kvRaw("l", `[1,{"e":null}]`, c23List(c23Num(1), c23Obj("e", c23Null()))))
			return kv
		}},
		{Name: "numbers", NonTriv: true, Row: func(i int) []c23KV {
			return []c23KV{kvInt("i", i), kvNum("a", "1e3"), kvNum("b", "-0"), kvNum("c", "0.5"), kvNum("d", "9007199254740993"),
				kvNum("e", "12345678901234567890"), kvNum("f", "-1.5E-3"), kvNum("g", "1E+2"), kvNum("h", "-9223372036854775808"),
				kvNum("j", "0.1"), kvNum("k", "123456.789"), kvNum("z", "0")}
		}},
		{Name: "rfc3339", NonTriv: true, Row: func(i int) []c23KV {
			return []c23KV{kvInt("i", i), kvStr("t", fmt.Sprintf("2021-01-01T00:00:%02dZ", i%60)), kvStr("u", "2021-06-01T12:00:00+02:00"),
				kvStr("v", []string{"2021-01-01T00:00:00Z", "not a time", "2021-01-01"}[i%3])}
		}},
		{Name: "keyorder", NonTriv: true, Row: func(i int) []c23KV {
			a, b, c := kvInt("i", i), kvStr("a", fmt.Sprintf("a%d", i)), kvNum("b", fmt.Sprintf("%d.5", i))
			switch i % 6 {
			case 0:
				return []c23KV{a, b, c}
			case 1:
				return []c23KV{a, c, b}
			case 2:
				return []c23KV{b, a, c}
			case 3:
				return []c23KV{b, c, a}
			case 4:
				return []c23KV{c, a, b}
			}
			return []c23KV{c, b, a}
		}},
		{Name: "missing-keys", NonTriv: true, Row: func(i int) []c23KV {
			var kv []c23KV
			if i%5 != 4 {
				kv = append(kv, kvInt("i", i))
			}
			if i%2 == 0 {
				kv = append(kv, kvStr("a", fmt.Sprintf("a%d", i)))
			}
			if i%3 == 0 {
				kv = append(kv, kvInt("b", i))
			}
			return kv
		}},
		{Name: "nulls-bools", NonTriv: true, Row: func(i int) []c23KV {
			kv := []c23KV{kvInt("i", i)}
			if i%2 == 0 {
				kv = append(kv, kvRaw("a", "null", c23Null()))
			} else {
				kv = append(kv, kvInt("a", i))
			}
			kv = append(kv, kvRaw("t", []string{"true", "false"}[i%2], c23Bool(i%2 == 0)), kvRaw("n", "null", c23Null()))
			return kv
		}},
		{Name: "whitespace", NonTriv: true, Row: func(i int) []c23KV {
			return []c23KV{kvRaw("i", fmt.Sprintf(" %d ", i), c23Num(float64(i))), kvRaw("s", "\t\"x y\" ", c23Str("x y")), kvRaw("l", "[ 1 ,\t2 ]", c23List(c23Num(1), c23Num(2)))}
		}},
		{Name: "mixed-kinds", NonTriv: true, Row: func(i int) []c23KV {
			kv := []c23KV{kvInt("i", i)}
			switch i % 6 {
			case 0:
				kv = append(kv, kvNum("m", "1.5"))
			case 1:
				kv = append(kv, kvStr("m", "s"))
			case 2:
				kv = append(kv, kvRaw("m", "true", c23Bool(true)))
			case 3:
				kv = append(kv, kvRaw("m", "null", c23Null()))
			case 4:
				kv = append(kv, kvRaw("m", `[1,"x"]`, c23List(c23Num(1), c23Str("x"))))
			case 5:
				kv = append(kv, kvRaw("m", `{"a":1}`, c23Obj("a", c23Num(1))))
			}
			return kv
		}},
		{Name: "empty-containers", NonTriv: true, Row: func(i int) []c23KV {
			return []c23KV{kvInt("i", i), kvRaw("o", "{}", c23Obj()), kvRaw("l", "[]", c23List())}
		}},
		{Name: "long-string-70000", NonTriv: true, Counts: []int{1, 2, 65}, Row: func(i int) []c23KV {
			return []c23KV{kvInt("i", i), kvStr("s", long+strconv.Itoa(i))}
		}},
	}
}

func c23JSONFile(tpl c23JSONTemplate, n int, eol string, trailing bool) (content []byte, cols []string, want [][]c23V) {
	var b bytes.Buffer
	colSet := map[string]bool{}
	rows := make([][]c23KV, n)
	for i := 0; i < n; i++ {
		kv := tpl.Row(i)
		rows[i] = kv
		b.WriteString("{")
		for j, x := range kv {
			if j > 0 {
				b.WriteString(",")
			}
			kb, _ := json.Marshal(x.K)
			b.Write(kb)
			b.WriteString(":")
			b.WriteString(x.Text)
			if i >= 100 && !colSet[x.K] {
				panic("c23 generator: key first seen beyond the preview: " + x.K)
			}
			colSet[x.K] = true
		}
		b.WriteString("}")
		if i < n-1 || trailing {
			b.WriteString(eol)
		}
	}
	for k := range colSet {
		cols = append(cols, k)
	}
	sort.Strings(cols)
	for i := 0; i < n; i++ {
		row := make([]c23V, len(cols))
		for j, c := range cols {
			row[j] = c23Null()
			for _, x := range rows[i] {
				if x.K == c {
					row[j] = x.V
				}
			}
		}
		want = append(want, row)
	}
	return b.Bytes(), cols, want
}

// ---------------------------------------------------------------- CSV generator

type c23CSVFmt struct {
	Sep      rune
	EOL      string
	Trailing bool
	QuoteAll bool
}

func (f c23CSVFmt) String() string {
	s := "csv"
	if f.Sep == '\t' {
		s = "tsv"
	}
	if f.EOL == "\r\n" {
		s += "+crlf"
	}
	if !f.Trailing {
		s += "+no-final-eol"
	}
	if f.QuoteAll {
		s += "+quote-all"
	}
	return s
}

func c23CSVField(s string, f c23CSVFmt, single bool) string {
	need := f.QuoteAll || strings.ContainsAny(s, "\"\r\n") || strings.ContainsRune(s, f.Sep) || (single && s == "")
	if !need {
		return s
	}
	return `"` + strings.ReplaceAll(s, `"`, `""`) + `"`
}

func c23CSVFile(header []string, rows [][]string, f c23CSVFmt) []byte {
	var b bytes.Buffer
	all := append([][]string{header}, rows...)
	for i, r := range all {
		for j, c := range r {
			if j > 0 {
				b.WriteRune(f.Sep)
			}
			if i == 0 {
				b.WriteString(c23CSVField(c, c23CSVFmt{Sep: f.Sep, QuoteAll: f.QuoteAll}, false))
			} else {
				b.WriteString(c23CSVField(c, f, len(r) == 1))
			}
		}
		if i < len(all)-1 || f.Trailing {
			b.WriteString(f.EOL)
		}
	}
	return b.Bytes()
}

func c23CSVCase(feature, desc string, header []string, rows [][]string, f c23CSVFmt, nontriv bool) c23Case {
	want := make([][]c23V, len(rows))
	for i, r := range rows {
		want[i] = make([]c23V, len(r))
		for j := range r {
			want[i][j] = c23Cell(r[j])
		}
	}
	kind, ext := "csv", ".csv"
	if f.Sep == '\t' {
		kind, ext = "tsv", ".tsv"
	}
	return c23Case{Kind: kind, Feature: feature, Desc: desc + " [" + f.String() + "]", Ext: ext, Content: c23CSVFile(header, rows, f),
		SQL: starSQL, Cols: header, Want: want, NonTriv: nontriv}
}

// ---------------------------------------------------------------- lines

// c23SplitModel: rows of the lines source = the text split exactly at the separator; a final piece that
// is empty (text ends with the separator, or is empty) is not a line.
func c23SplitModel(text, sep string) []string {
	p := strings.Split(text, sep)
	if p[len(p)-1] == "" {
		p = p[:len(p)-1]
	}
	return p
}

// c23SplitAdvanceOne: what a splitter yields that finds the separator correctly but then skips ONE byte
// instead of len(sep) bytes (used only to classify a mismatch, never as the expectation).
func c23SplitAdvanceOne(text, sep string) []string {
	var out []string
	data := text
	for len(data) > 0 {
		i := strings.Index(data, sep)
		if i < 0 {
			out = append(out, data)
			break
		}
		out = append(out, data[:i])
		data = data[i+1:]
	}
	return out
}

func c23LossyUTF8(s string) string {
	var b strings.Builder
	for i := 0; i < len(s); {
		r, size := utf8.DecodeRuneInString(s[i:])
		if r == utf8.RuneError && size == 1 {
			b.WriteString("�")
		} else {
			b.WriteString(s[i : i+size])
		}
		i += size
	}
	return b.String()
}

func c23LinesCase(feature, text, sep string, nontriv bool) c23Case {
	pieces := c23SplitModel(text, sep)
	want := make([][]c23V, len(pieces))
	for i, p := range pieces {
		want[i] = []c23V{c23Num(float64(i)), c23Str(p)}
	}
	sql := func(path string) string {
		if sep == "\n" && !strings.HasPrefix(feature, "explicit") {
			return starSQL(path)
		}
		return "SELECT * FROM `" + path + "?sep=" + sep + "` t"
	}
	d := text
	if len(d) > 60 {
		d = d[:60] + fmt.Sprintf("...(%d bytes)", len(text))
	}
	return c23Case{Kind: "lines", Feature: feature, Desc: fmt.Sprintf("sep=%q text=%q", sep, d), Ext: ".lines", Content: []byte(text),
		SQL: sql, Cols: []string{"number", "text"}, Want: want, Only: []string{"text"}, Sep: sep, Text: text, NonTriv: nontriv}
}

// ---------------------------------------------------------------- parquet generator

type c23PqNode struct {
	Name     string
	Kind     string // int64 int32 double float bool string group list
	Rep      string // required optional repeated
	Children []c23PqNode
}

func (n c23PqNode) sorted() []c23PqNode {
	c := append([]c23PqNode{}, n.Children...)
	sort.Slice(c, func(i, j int) bool { return c[i].Name < c[j].Name })
	return c
}

// expand rewrites LIST sugar into the physical three-level structure.
func (n c23PqNode) expand() c23PqNode {
	switch n.Kind {
	case "list":
		el := n.Children[0]
		el.Name = "element"
		return c23PqNode{Name: n.Name, Kind: "listgroup", Rep: n.Rep, Children: []c23PqNode{
			{Name: "list", Kind: "group", Rep: "repeated", Children: []c23PqNode{el.expand()}}}}
	case "group":
		out := n
		out.Children = nil
		for _, c := range n.Children {
			out.Children = append(out.Children, c.expand())
		}
		return out
	}
	return n
}

func (n c23PqNode) node() parquet.Node {
	var out parquet.Node
	switch n.Kind {
	case "int64":
		out = parquet.Int(64)
	case "int32":
		out = parquet.Int(32)
	case "double":
		out = parquet.Leaf(parquet.DoubleType)
	case "float":
		out = parquet.Leaf(parquet.FloatType)
	case "bool":
		out = parquet.Leaf(parquet.BooleanType)
	case "string":
		out = parquet.String()
	case "group":
		g := parquet.Group{}
		for _, c := range n.Children {
			g[c.Name] = c.node()
		}
		out = g
	case "list":
		out = parquet.List(n.Children[0].node())
	default:
		panic("c23: bad parquet kind " + n.Kind)
	}
	switch n.Rep {
	case "optional":
		out = parquet.Optional(out)
	case "repeated":
		out = parquet.Repeated(out)
	}
	return out
}

func (n c23PqNode) leaves() int {
	if n.Kind == "group" || n.Kind == "listgroup" {
		t := 0
		for _, c := range n.Children {
			t += c.leaves()
		}
		return t
	}
	return 1
}

func c23PqLeafValue(kind string, v c23V) parquet.Value {
	switch kind {
	case "int64":
		return parquet.ValueOf(int64(v.N))
	case "int32":
		return parquet.ValueOf(int32(v.N))
	case "double":
		return parquet.ValueOf(v.N)
	case "float":
		return parquet.ValueOf(float32(v.N))
	case "bool":
		return parquet.ValueOf(v.B)
	case "string":
		return parquet.ValueOf(v.S)
	}
	panic("c23: bad leaf kind " + kind)
}

// c23PqShred: Dremel record shredding of value v for (expanded) node n. col = index of n's first leaf.
// r = repetition level for the first value emitted, d = definition level reached so far, depth = number of
// repeated ancestors.
func c23PqShred(n c23PqNode, v c23V, r, d, depth, col int, out *parquet.Row) {
	emitNulls := func(r, d int) {
		for k := 0; k < n.leaves(); k++ {
			*out = append(*out, parquet.Value{}.Level(r, d, col+k))
		}
	}
	switch n.Rep {
	case "optional":
		if v.K == "null" {
			emitNulls(r, d)
			return
		}
		d++
	case "repeated":
		if v.K != "list" {
			panic("c23: repeated node needs a list value")
		}
		if len(v.L) == 0 {
			emitNulls(r, d)
			return
		}
		req := n
		req.Rep = "required"
		for i, e := range v.L {
			ri := r
			if i > 0 {
				ri = depth + 1
			}
			c23PqShred(req, e, ri, d+1, depth+1, col, out)
		}
		return
	}
	switch n.Kind {
	case "group":
		c := col
		for _, ch := range n.sorted() {
			cv, _ := v.get(ch.Name)
			c23PqShred(ch, cv, r, d, depth, c, out)
			c += ch.leaves()
		}
	case "listgroup":
		// value is a list; the repeated child "list" holds groups {element: item}
		items := c23V{K: "list"}
		for _, e := range v.L {
			items.L = append(items.L, c23Obj("element", e))
		}
		c23PqShred(n.Children[0], items, r, d, depth, col, out)
	default:
		*out = append(*out, c23PqLeafValue(n.Kind, v).Level(r, d, col))
	}
}

// c23PqWrite writes rows (objects keyed by top-level field name) with hand-built parquet.Row values.
func c23PqWrite(fields []c23PqNode, rows []c23V) ([]byte, error) {
	root := c23PqNode{Kind: "group", Rep: "required", Children: fields}
	schema := parquet.NewSchema("t", root.node())
	var buf bytes.Buffer
	w := parquet.NewWriter(&buf, schema)
	ex := root.expand()
	for _, rv := range rows {
		var row parquet.Row
		c23PqShred(ex, rv, 0, 0, 0, 0, &row)
		if err := w.WriteRow(row); err != nil {
			return nil, err
		}
	}
	if err := w.Close(); err != nil {
		return nil, err
	}
	return buf.Bytes(), nil
}

type c23PqSchema struct {
	Name   string
	Fields []c23PqNode
	Row    func(i int) c23V
}

func c23PqSchemas() []c23PqSchema {
	leaf := func(name, kind, rep string) c23PqNode { return c23PqNode{Name: name, Kind: kind, Rep: rep} }
	optStr := func(i int, s string) c23V {
		if i%3 == 1 {
			return c23Null()
		}
		return c23Str(s)
	}
	return []c23PqSchema{
		{Name: "flat-required", Fields: []c23PqNode{leaf("a", "int64", "required"), leaf("b", "string", "required"), leaf("c", "double", "required"), leaf("d", "bool", "required"), leaf("e", "int32", "required"), leaf("f", "float", "required")},
			Row: func(i int) c23V {
				return c23Obj("a", c23Num(float64(i*1000003)), "b", c23Str(fmt.Sprintf("ś%d", i)), "c", c23Num(float64(i)+0.25), "d", c23Bool(i%2 == 0), "e", c23Num(float64(-i)), "f", c23Num(float64(i)*0.5))
			}},
		{Name: "flat-optional", Fields: []c23PqNode{leaf("a", "int64", "optional"), leaf("b", "string", "optional"), leaf("c", "int64", "required")},
			Row: func(i int) c23V {
				a := c23Num(float64(i))
				if i%2 == 1 {
					a = c23Null()
				}
				return c23Obj("a", a, "b", optStr(i, fmt.Sprintf("s%d", i)), "c", c23Num(float64(i)))
			}},
		{Name: "list-of-required-int", Fields: []c23PqNode{leaf("id", "int64", "required"), {Name: "l", Kind: "list", Rep: "required", Children: []c23PqNode{leaf("element", "int64", "required")}}, leaf("z", "string", "required")},
			Row: func(i int) c23V {
				l := c23List()
				for k := 0; k < i%4; k++ {
					l.L = append(l.L, c23Num(float64(10*i+k)))
				}
				return c23Obj("id", c23Num(float64(i)), "l", l, "z", c23Str(fmt.Sprintf("z%d", i)))
			}},
		{Name: "optional-list-of-optional-string", Fields: []c23PqNode{leaf("id", "int64", "required"), {Name: "l", Kind: "list", Rep: "optional", Children: []c23PqNode{leaf("element", "string", "optional")}}},
			Row: func(i int) c23V {
				var l c23V
				switch i % 4 {
				case 0:
					l = c23Null()
				case 1:
					l = c23List()
				case 2:
					l = c23List(c23Str("x"), c23Null(), c23Str("y"))
				case 3:
					l = c23List(c23Null())
				}
				return c23Obj("id", c23Num(float64(i)), "l", l)
			}},
		{Name: "repeated-leaf", Fields: []c23PqNode{leaf("id", "int64", "required"), leaf("r", "int64", "repeated")},
			Row: func(i int) c23V {
				l := c23List()
				for k := 0; k < (i+1)%3; k++ {
					l.L = append(l.L, c23Num(float64(i+k)))
				}
				return c23Obj("id", c23Num(float64(i)), "r", l)
			}},
		{Name: "nested-group", Fields: []c23PqNode{leaf("id", "int64", "required"), {Name: "g", Kind: "group", Rep: "required", Children: []c23PqNode{leaf("x", "int64", "required"), leaf("y", "string", "optional"), {Name: "h", Kind: "group", Rep: "optional", Children: []c23PqNode{leaf("k", "double", "required")}}}}, leaf("z", "string", "required")},
			Row: func(i int) c23V {
				h := c23Obj("k", c23Num(float64(i)+0.5))
				if i%2 == 1 {
					h = c23Null()
				}
				return c23Obj("id", c23Num(float64(i)), "g", c23Obj("x", c23Num(float64(i*2)), "y", optStr(i, "y"), "h", h), "z", c23Str("z"))
			}},
		{Name: "nested-group-field-named-rate_code_id", Fields: []c23PqNode{leaf("id", "int64", "required"), {Name: "g", Kind: "group", Rep: "required", Children: []c23PqNode{leaf("amount", "int64", "required"), leaf("rate_code_id", "int64", "required"), leaf("tip", "int64", "required")}}},
			Row: func(i int) c23V {
				return c23Obj("id", c23Num(float64(i)), "g", c23Obj("amount", c23Num(float64(100+i)), "rate_code_id", c23Num(float64(200+i)), "tip", c23Num(float64(300+i))))
			}},
		{Name: "list-of-groups", Fields: []c23PqNode{leaf("id", "int64", "required"), {Name: "l", Kind: "list", Rep: "required", Children: []c23PqNode{{Name: "element", Kind: "group", Rep: "required", Children: []c23PqNode{leaf("p", "int64", "required"), leaf("q", "string", "required")}}}}},
			Row: func(i int) c23V {
				l := c23List()
				for k := 0; k < i%3; k++ {
					l.L = append(l.L, c23Obj("p", c23Num(float64(k)), "q", c23Str(fmt.Sprintf("q%d", k))))
				}
				return c23Obj("id", c23Num(float64(i)), "l", l)
			}},
	}
}

// ordered subsets (no repetition) of names with 1..max members
func c23OrderedSubsets(names []string, max int) [][]string {
	var out [][]string
	var rec func(cur []string, used []bool)
	rec = func(cur []string, used []bool) {
		if len(cur) > 0 {
			out = append(out, append([]string{}, cur...))
		}
		if len(cur) == max {
			return
		}
		for i, n := range names {
			if !used[i] {
				used[i] = true
				rec(append(cur, n), used)
				used[i] = false
			}
		}
	}
	rec(nil, make([]bool, len(names)))
	return out
}

func c23Project(cols []string, want [][]c23V, sel []string) [][]c23V {
	idx := make([]int, len(sel))
	for i, s := range sel {
		idx[i] = -1
		for j, c := range cols {
			if c == s {
				idx[i] = j
			}
		}
	}
	out := make([][]c23V, len(want))
	for i, r := range want {
		out[i] = make([]c23V, len(sel))
		for k, j := range idx {
			out[i][k] = r[j]
		}
	}
	return out
}

func selectSQL(sel []string) func(path string) string {
	return func(path string) string {
		q := make([]string, len(sel))
		for i, s := range sel {
			q[i] = "t." + s
		}
		return "SELECT " + strings.Join(q, ", ") + " FROM `" + path + "` t"
	}
}

// ---------------------------------------------------------------- sequences over small alphabets

func c23Sequences(units []string, maxLen int) []string {
	out := []string{""}
	level := []string{""}
	for l := 1; l <= maxLen; l++ {
		var next []string
		for _, p := range level {
			for _, u := range units {
				next = append(next, p+u)
			}
		}
		out = append(out, next...)
		level = next
	}
	return out
}

// ---------------------------------------------------------------- the check

func c23BuildCases(r *findings.Run) []c23Case {
	var cases []c23Case

	// ---- JSON lines
	counts := []int{0, 1, 2, 63, 64, 65, 128, 129, 200}
	if r.Thorough() {
		counts = append(counts, 99, 100, 101, 127, 192, 193, 321, 1000, 5000)
	}
	for _, tpl := range c23JSONTemplates() {
		cs := counts
		if tpl.Counts != nil {
			cs = tpl.Counts
		}
		for _, n := range cs {
			content, cols, want := c23JSONFile(tpl, n, "\n", true)
			cases = append(cases, c23Case{Kind: "json", Feature: tpl.Name, Desc: fmt.Sprintf("%s rows=%d", tpl.Name, n), Ext: ".json", Content: content,
				SQL: starSQL, Cols: cols, Want: want, NonTriv: n > 0 && (tpl.NonTriv || n >= 64)})
		}
	}
	tpls := c23JSONTemplates()
	for _, n := range []int{1, 2, 65} {
		for _, v := range []struct {
			eol      string
			trailing bool
			name     string
		}{{"\n", false, "no-final-eol"}, {"\r\n", true, "crlf"}, {"\r\n", false, "crlf+no-final-eol"}} {
			content, cols, want := c23JSONFile(tpls[0], n, v.eol, v.trailing)
			cases = append(cases, c23Case{Kind: "json", Feature: "line-endings:" + v.name, Desc: fmt.Sprintf("plain rows=%d %s", n, v.name), Ext: ".json", Content: content,
				SQL: starSQL, Cols: cols, Want: want, NonTriv: true})
		}
	}
	if r.Thorough() {
		// a file larger than the 4 MiB read buffer
		big := c23JSONTemplate{Name: "big-file-6MB", Row: func(i int) []c23KV {
			return []c23KV{kvInt("i", i), kvStr("s", strings.Repeat("x", 100)+strconv.Itoa(i))}
		}}
		content, cols, want := c23JSONFile(big, 50000, "\n", true)
		cases = append(cases, c23Case{Kind: "json", Feature: big.Name, Desc: "50000 rows of ~125 bytes", Ext: ".json", Content: content, SQL: starSQL, Cols: cols, Want: want, NonTriv: true})
	}
	// long string fields: rows longer than the scanner's initial 4 KiB buffer and than bufio's default 64 KiB token
	// size (the JSON scanner's limit is files.json.max_line_size_bytes = 1 MiB), in the first and in a later batch
	for _, ln := range []int{4090, 4096, 5000, 65530, 70000} {
		ln := ln
		long := c23JSONTemplate{Name: fmt.Sprintf("long-field-%d", ln), Row: func(i int) []c23KV {
			if i == 1 || i == 70 {
				return []c23KV{kvInt("i", i), kvStr("s", strings.Repeat("y", ln))}
			}
			return []c23KV{kvInt("i", i), kvStr("s", "short"+strconv.Itoa(i))}
		}}
		content, cols, want := c23JSONFile(long, 72, "\n", true)
		cases = append(cases, c23Case{Kind: "json", Feature: "long-field", Desc: fmt.Sprintf("72 rows, rows 1 and 70 carry a %d byte string", ln), Ext: ".json", Content: content, SQL: starSQL, Cols: cols, Want: want, NonTriv: true})
	}
	// column subsets / orders
	{
		content, cols, want := c23JSONFile(tpls[7], 70, "\n", true) // keyorder: i, a, b
		for _, sel := range c23OrderedSubsets(cols, 3) {
			cases = append(cases, c23Case{Kind: "json", Feature: "column-subset", Desc: "keyorder rows=70 select " + strings.Join(sel, ","), Ext: ".json", Content: content,
				SQL: selectSQL(sel), Cols: sel, Want: c23Project(cols, want, sel), NonTriv: true})
		}
	}

	// ---- CSV / TSV
	var fmts []c23CSVFmt
	for _, sep := range []rune{',', '\t'} {
		for _, eol := range []string{"\n", "\r\n"} {
			for _, tr := range []bool{true, false} {
				for _, qa := range []bool{false, true} {
					fmts = append(fmts, c23CSVFmt{sep, eol, tr, qa})
				}
			}
		}
	}
	cells := []string{"abc", "a,b", "a\tb", "x\ny", `q"r`, "", "é日😀", "12", "1.5", `"`}
	if r.Thorough() {
		cells = append(cells, " pad ", "true", "2021-01-01T00:00:00Z", ",")
	}
	special := func(s string) bool { return strings.ContainsAny(s, ",\t\n\"") || s == "" || !isASCII(s) }
	for _, f := range fmts {
		// every ordered pair of cells as one row of a two-column table, and as a two-row single column
		for _, a := range cells {
			for _, b := range cells {
				cases = append(cases, c23CSVCase("cell-pair-one-row", fmt.Sprintf("cells %q,%q", a, b), []string{"p", "q"}, [][]string{{a, b}}, f, special(a) || special(b)))
				cases = append(cases, c23CSVCase("cell-pair-one-column", fmt.Sprintf("cells %q/%q", a, b), []string{"p"}, [][]string{{a}, {b}}, f, special(a) || special(b)))
			}
		}
		// header only
		for nc := 1; nc <= 3; nc++ {
			c := c23CSVCase("header-only", fmt.Sprintf("%d columns, no rows", nc), []string{"p", "q", "r"}[:nc], nil, f, false)
			cases = append(cases, c)
		}
		// row counts around the preview and batch limits
		ns := []int{1, 2, 99, 100, 101, 200}
		if r.Thorough() {
			ns = append(ns, 1000, 5000)
		}
		for _, n := range ns {
			rows := make([][]string, n)
			for i := range rows {
				s := fmt.Sprintf("s%d", i)
				if i%7 == 3 {
					s = fmt.Sprintf("s,%d\n\"x\"", i)
				}
				rows[i] = []string{strconv.Itoa(i), s, fmt.Sprintf("%d.25", i)}
			}
			cases = append(cases, c23CSVCase("row-counts", fmt.Sprintf("3 columns rows=%d", n), []string{"i", "s", "f"}, rows, f, true))
		}
	}
	// long cells: longer than a 4 KiB / 64 KiB read, plain and quoted (with an embedded newline), early and late in the file
	for _, ln := range []int{4090, 4096, 5000, 65530, 70000} {
		rows := make([][]string, 40)
		for i := range rows {
			rows[i] = []string{strconv.Itoa(i), fmt.Sprintf("s%d", i)}
		}
		rows[1][1] = strings.Repeat("y", ln)
		rows[37][1] = strings.Repeat("z", ln/2) + "\n" + strings.Repeat("z", ln/2)
		cases = append(cases, c23CSVCase("long-cell", fmt.Sprintf("40 rows, rows 1 and 37 carry a %d byte cell", ln), []string{"i", "s"}, rows, fmts[0], true))
	}
	{
		// column subsets / orders; unicode header
		rows := make([][]string, 30)
		for i := range rows {
			rows[i] = []string{strconv.Itoa(i), fmt.Sprintf("s%d", i), fmt.Sprintf("%d.5", i)}
		}
		base := c23CSVCase("column-subset", "3 columns rows=30", []string{"a", "b", "c"}, rows, fmts[0], true)
		for _, sel := range c23OrderedSubsets(base.Cols, 3) {
			c := base
			c.Desc = "3 columns rows=30 select " + strings.Join(sel, ",")
			c.SQL = selectSQL(sel)
			c.Cols = sel
			c.Want = c23Project(base.Cols, base.Want, sel)
			cases = append(cases, c)
		}
		cases = append(cases, c23CSVCase("unicode-header", "header é,日本", []string{"é", "日本"}, [][]string{{"1", "x"}, {"2", "y"}}, fmts[0], true))
		// empty file: no header to read - octosql may reject
		e := c23CSVCase("empty-file", "zero bytes", []string{}, nil, fmts[0], false)
		e.Content = []byte{}
		e.MayFail = "an empty CSV file has no header row"
		cases = append(cases, e)
	}
	if r.Thorough() {
		rows := make([][]string, 60000)
		for i := range rows {
			rows[i] = []string{strconv.Itoa(i), strings.Repeat("y", 90) + strconv.Itoa(i)}
		}
		cases = append(cases, c23CSVCase("big-file-6MB", "60000 rows of ~100 bytes", []string{"i", "s"}, rows, fmts[0], true))
	}

	// ---- lines
	type sepAlpha struct {
		sep   string
		units []string
	}
	seps := []sepAlpha{
		{"\n", []string{"\n", "x", "y"}},
		{",", []string{",", "x", "\n"}},
		{"ab", []string{"a", "b", "x"}},
		{";;", []string{";", "x", "y"}},
		{"é", []string{"é", "è", "x"}}, // è shares its first byte with é
		{"XYZ", []string{"X", "Y", "Z"}},
	}
	maxLen := r.Pick(4, 7)
	for _, sa := range seps {
		for _, text := range c23Sequences(sa.units, maxLen) {
			nt := strings.Contains(text, sa.sep) && len(c23SplitModel(text, sa.sep)) >= 2
			cases = append(cases, c23LinesCase("enum", text, sa.sep, nt))
		}
	}
	cases = append(cases, c23LinesCase("partial-separator", "a;b;;c", ";;", true))
	cases = append(cases, c23LinesCase("partial-separator", "aXXbXXc", "XX", true))
	cases = append(cases, c23LinesCase("explicit-newline-option", "a\n\nb\n", "\n", true))
	for _, n := range []int{1, 2, 99, 100, 101, 200, r.Pick(1000, 20000)} {
		for _, sep := range []string{"\n", ",", ";;"} {
			var b strings.Builder
			for i := 0; i < n; i++ {
				fmt.Fprintf(&b, "line %d", i)
				if i < n-1 || n%2 == 0 {
					b.WriteString(sep)
				}
			}
			cases = append(cases, c23LinesCase("row-counts", b.String(), sep, true))
		}
	}
	// separators at every alignment relative to the scanner's read boundaries (bufio.Scanner starts with a 4096 byte
	// buffer and doubles it): a leading pad of 0..len(row)+len(sep) bytes shifts every separator across the boundaries
	for _, sep := range []string{"||", "\r\n", "<>;", "é", ","} {
		rowLen := 6
		for pad := 0; pad <= rowLen+len(sep); pad++ {
			var b strings.Builder
			b.WriteString(strings.Repeat("p", pad))
			for i := 0; b.Len() < r.Pick(9000, 70000); i++ {
				b.WriteString(sep)
				fmt.Fprintf(&b, "r%05d", i)
			}
			cases = append(cases, c23LinesCase(fmt.Sprintf("separator-across-read-boundary/pad%d", pad), b.String(), sep, true))
		}
	}
	// line lengths around bufio's 64 KiB token limit: the rows must come back, or the query must fail
	for _, ln := range []int{4095, 4096, 4097, 65535, 65536, 70000} {
		for _, sep := range []string{"\n", ","} {
			c := c23LinesCase(fmt.Sprintf("long-line-%d", ln), "first"+sep+strings.Repeat("w", ln)+sep+"last"+sep, sep, true)
			c.MayFail = "a line longer than the scanner's token limit may be rejected with an error"
			cases = append(cases, c)
		}
	}

	// ---- parquet
	pqCounts := []int{0, 1, 2, 5, 64}
	if r.Thorough() {
		pqCounts = append(pqCounts, 1000, 20000)
	}
	for _, ps := range c23PqSchemas() {
		var names []string
		for _, f := range ps.Fields {
			names = append(names, f.Name)
		}
		sort.Strings(names)
		for _, n := range pqCounts {
			rows := make([]c23V, n)
			want := make([][]c23V, n)
			for i := 0; i < n; i++ {
				rows[i] = ps.Row(i)
				want[i] = make([]c23V, len(names))
				for j, nm := range names {
					want[i][j], _ = rows[i].get(nm)
					for _, f := range ps.Fields {
						if f.Name == nm && f.Kind == "list" && want[i][j].K == "list" {
							want[i][j].PqList = true
						}
					}
				}
			}
			content, err := c23PqWrite(ps.Fields, rows)
			if err != nil {
				panic(fmt.Sprintf("c23: cannot write parquet file %s: %v", ps.Name, err))
			}
			cases = append(cases, c23Case{Kind: "parquet", Feature: ps.Name, Desc: fmt.Sprintf("%s rows=%d select *", ps.Name, n), Ext: ".parquet", Content: content,
				SQL: starSQL, Cols: names, Want: want, NonTriv: n > 0})
			if n == 5 {
				for _, sel := range c23OrderedSubsets(names, 3) {
					if len(sel) == len(names) && strings.Join(sel, ",") == strings.Join(names, ",") {
						continue
					}
					cases = append(cases, c23Case{Kind: "parquet", Feature: ps.Name, Desc: fmt.Sprintf("%s rows=%d select %s", ps.Name, n, strings.Join(sel, ",")), Ext: ".parquet", Content: content,
						SQL: selectSQL(sel), Cols: sel, Want: c23Project(names, want, sel), NonTriv: true})
				}
			}
		}
	}

	// ---- stdin (real binary)
	stdinCounts := []int{0, 1, 99, 100, 101, 5000}
	if r.Thorough() {
		stdinCounts = append(stdinCounts, 2, 64, 65, 200, 200000)
	}
	for _, n := range stdinCounts {
		{
			tpl := tpls[7] // keyorder
			if n%2 == 1 {
				tpl = tpls[8] // missing-keys
			}
			content, cols, want := c23JSONFile(tpl, n, "\n", true)
			cases = append(cases, c23Case{Kind: "stdin.json", Feature: "rows-around-preview", Desc: fmt.Sprintf("%s rows=%d on stdin", tpl.Name, n), Content: content, Stdin: true,
				SQL: func(string) string { return "SELECT * FROM stdin.json t" }, Cols: cols, Want: want, NonTriv: n > 0})
		}
		{
			rows := make([][]string, n)
			for i := range rows {
				s := fmt.Sprintf("s%d", i)
				if i%5 == 2 {
					s = fmt.Sprintf("s,%d\n\"x\"", i)
				}
				rows[i] = []string{strconv.Itoa(i), s}
			}
			c := c23CSVCase("rows-around-preview", fmt.Sprintf("2 columns rows=%d on stdin", n), []string{"i", "s"}, rows, c23CSVFmt{',', "\n", true, false}, n > 0)
			c.Kind, c.Stdin = "stdin.csv", true
			c.SQL = func(string) string { return "SELECT * FROM stdin.csv t" }
			cases = append(cases, c)
		}
		{
			var b strings.Builder
			for i := 0; i < n; i++ {
				fmt.Fprintf(&b, "line %d\n", i)
			}
			c := c23LinesCase("rows-around-preview", b.String(), "\n", n > 0)
			c.Kind, c.Stdin = "stdin.lines", true
			c.SQL = func(string) string { return "SELECT * FROM stdin.lines t" }
			cases = append(cases, c)
		}
	}
	return cases
}

func isASCII(s string) bool {
	for i := 0; i < len(s); i++ {
		if s[i] >= 0x80 {
			return false
		}
	}
	return true
}

// c23Compare returns "" or (class, explanation).
func c23Compare(c c23Case, got []c23V) (class, why string) {
	if len(got) != len(c.Want) {
		return "row-count", fmt.Sprintf("%d records returned, the file has %d rows", len(got), len(c.Want))
	}
	judged := c.Cols
	if c.Only != nil {
		judged = c.Only
	}
	for i, g := range got {
		if c.Only == nil {
			// the record must have exactly the expected columns
			for _, k := range g.Keys {
				found := false
				for _, cn := range c.Cols {
					if cn == k {
						found = true
					}
				}
				if !found {
					return "columns", fmt.Sprintf("row %d has an unexpected column %q", i, k)
				}
			}
		}
		for _, cn := range judged {
			j := -1
			for x := range c.Cols {
				if c.Cols[x] == cn {
					j = x
				}
			}
			gv, ok := g.get(cn)
			if !ok {
				return "columns", fmt.Sprintf("row %d lacks column %q", i, cn)
			}
			if !c23Same(c.Want[i][j], gv) {
				// is it only the order that differs?
				return "value", fmt.Sprintf("row %d column %q: got %s, the file holds %s", i, cn, gv.String(), c.Want[i][j].String())
			}
		}
	}
	return "", ""
}

// c23FirstDiff walks want/got in parallel and returns the innermost first differing pair.
func c23FirstDiff(want, got c23V) (w, g c23V) {
	if c23Same(want, got) {
		return want, got
	}
	switch {
	case want.K == "list" && got.K == "list" && len(want.L) == len(got.L):
		for i := range want.L {
			if !c23Same(want.L[i], got.L[i]) {
				return c23FirstDiff(want.L[i], got.L[i])
			}
		}
	case want.K == "obj" && got.K == "obj":
		for i, k := range want.Keys {
			gv, _ := got.get(k)
			if !c23Same(want.L[i], gv) {
				return c23FirstDiff(want.L[i], gv)
			}
		}
	}
	return want, got
}

func c23HasNullMember(v c23V) bool {
	if v.K != "obj" {
		return false
	}
	for _, m := range v.L {
		if m.K == "null" || c23HasNullMember(m) {
			return true
		}
	}
	return false
}

// c23Fingerprint: narrow classifier evaluated on the failing input and the observed result.
func c23Fingerprint(c c23Case, class, why string, got []c23V) string {
	kind := c.Kind
	if c.Sep != "" {
		// lines: compare with the behaviour of a splitter that skips one byte after a separator
		if len(c.Sep) > 1 && got != nil {
			buggy := c23SplitAdvanceOne(c.Text, c.Sep)
			same := len(buggy) == len(got)
			for i := 0; same && i < len(got); i++ {
				t, _ := got[i].get("text")
				same = t.K == "str" && t.S == c23LossyUTF8(buggy[i])
			}
			if same {
				return "C23/lines/separator-advance-off-by-one-multibyte-separator"
			}
		}
		if strings.HasPrefix(c.Feature, "long-line-") && class == "row-count" && len(got) < len(c.Want) {
			return "C23/lines/overlong-line-ends-output-silently-without-error"
		}
		return fmt.Sprintf("C23/%s/sep-bytes=%d/%s/%s", kind, len(c.Sep), c.Feature, class)
	}
	if kind == "parquet" {
		if len(c.Want) == 0 && class == "error" && strings.Contains(why, "index out of range") {
			return "C23/parquet/file-without-row-groups/error-index-out-of-range"
		}
		return fmt.Sprintf("C23/parquet/%s/%s", c.Feature, class)
	}
	if (kind == "json" || kind == "stdin.json") && class == "value" && got != nil && len(got) == len(c.Want) {
		// first differing cell: an object with a null member that came back as NULL?
		for i := range c.Want {
			for j, cn := range c.Cols {
				gv, _ := got[i].get(cn)
				if !c23Same(c.Want[i][j], gv) {
					w, g := c23FirstDiff(c.Want[i][j], gv)
					if g.K == "null" && c23HasNullMember(w) {
						return "C23/json/object-with-null-member-in-union-typed-position-becomes-NULL"
					}
					return fmt.Sprintf("C23/%s/%s/%s", kind, c.Feature, class)
				}
			}
		}
	}
	return fmt.Sprintf("C23/%s/%s/%s", kind, c.Feature, class)
}

type c23Result struct {
	sql     string
	res     runner.Result
	retried bool
}

func init() {
	register("C23", "exploration", func(r *findings.Run) {
		defer cleanupTables()
		c23Scheduling(r)
		pool := runner.NewPool(0, strings.Fields(os.Getenv("VERIF_WORKER_ENV"))...)
		defer pool.Close()

		c23Appending(r, pool) // see c23append.go
		cases := c23BuildCases(r)
		if only := os.Getenv("C23_ONLY"); only != "" {
			// debugging aid: restrict to some kinds (the evidence then says exhaustive:false)
			var f []c23Case
			for _, c := range cases {
				for _, k := range strings.Split(only, ",") {
					if c.Kind == k {
						f = append(f, c)
					}
				}
			}
			cases = f
			r.Exhaustive = false
		}
		r.Rule = "generated files with known rows: JSON lines (14 row templates: unicode, JSON escapes incl. surrogate pairs and \\u0000, nested objects/lists, numbers 1e3/-0/0.5/2^53+1/1.2e19, RFC3339 strings, rotating key order, missing keys, nulls, whitespace, mixed kinds, empty containers, 70 kB string) x row counts across the 64-row batch and 100-row preview limits x line endings; CSV and TSV (every ordered pair of 10 (14) cell texts - quoted, embedded separator/newline/quote, empty, unicode, numerals - as one row and as one column, x LF/CRLF x final newline or not x minimal/full quoting; header only; row counts; column subsets); lines (every text over a 3-unit alphabet up to length 4 (7) for separators \\n , ab ;; é XYZ, partial separators, row counts, line lengths around 4 KiB and 64 KiB); parquet (8 schemas: required/optional scalars, LIST of required/optional elements, repeated leaf, nested groups, list of groups; rows written with hand-built repetition/definition levels; SELECT * and every ordered column subset of <=3); stdin.json/.csv/.lines through the real binary with 0,1,99,100,101,5000 rows. Oracle: printed records (-o json) = generator's rows, same count, order and values. non-trivial = file with >=1 row that needs format-specific decoding (escape, quote, multi-byte text, nesting, custom separator present in the text, >=64 rows, column subset, stdin)"
		r.Assume(
			"JSON numbers are Float (documented); floats are compared with relative tolerance 4e-16 (octosql parses with fastfloat); -0 and 0 are equal",
			"a string that parses as RFC3339 may be printed as Time (time.RFC3339 rendering) or unchanged; only whole-second timestamps are generated because -o json prints Time without fractions (C25's concern)",
			"a key absent from a JSON object and a key holding null are not distinguished, also inside nested objects",
			"every key and every value kind of a JSON column appears within the first 100 rows (rows that do not fit the previewed schema are C24's concern)",
			"CSV cells are compared leniently: the text, or a number/boolean/time equal to the text, or NULL for the empty cell; blank CSV lines, \\r inside CSV cells and \\r in lines files are not generated (reader-defined); a single empty CSV cell is written quoted",
			"lines: only the text column is judged; a text that ends with the separator has no final empty line",
			"an empty CSV file and lines longer than the 64 KiB scanner limit may be rejected with an error (counted as rejected); returning fewer rows with exit 0 is a violation",
			"a parquet LIST column may be returned as a list [x,...] or in its physical shape {list:[{element:x},...]} (the vendored parquet reader does not expose the LIST annotation of groups read from a file)",
			"a run of the in-process worker that hangs or crashes is repeated once with the real binary and judged on that result (machine overload must not become a finding)",
			"JSON worker scheduling: hook H2 holds every parsed batch until released; the pool takes jobs FIFO, so the held set is a function of the release history",
		)
		byKind := map[string]int{}
		for _, c := range cases {
			byKind[c.Kind]++
		}
		r.Bound = map[string]interface{}{"cases": len(cases), "cases_by_kind": byKind, "lines_max_units": r.Pick(4, 7)}

		results := make([]c23Result, len(cases))
		enum.Parallel(len(cases), func(i int) {
			if r.TimeUp() {
				return
			}
			c := cases[i]
			var x c23Result
			if c.Stdin {
				x.sql = c.SQL("")
				x.res = runner.RunBinary(sqlArgs(x.sql, "json", true), c.Content)
			} else {
				path := writeOnce("c23-"+hashName(c.Content)+c.Ext, c.Content)
				x.sql = c.SQL(path)
				x.res = pool.Run(sqlArgs(x.sql, "json", true), "")
				if cl := x.res.Class(); cl == "HANG" || cl == "CRASH" {
					x.res = runner.RunBinary(sqlArgs(x.sql, "json", true), nil)
					x.retried = true
				}
			}
			results[i] = x
			r.Eval(1)
		})

		for i, c := range cases {
			x := results[i]
			if x.sql == "" {
				continue // deadline
			}
			sql, res := x.sql, x.res
			if c.NonTriv {
				r.Nontrivial(c.Kind + "|" + c.Desc + "|" + sql)
			}
			bucket := "rows=0"
			switch n := len(c.Want); {
			case n >= 100:
				bucket = "rows>=100"
			case n >= 64:
				bucket = "rows=64..99"
			case n >= 1:
				bucket = "rows=1..63"
			}
			class, why := "", ""
			var got []c23V
			switch res.Class() {
			case "error":
				if c.MayFail != "" {
					r.Reject(1)
					r.Outcome(c.Kind + ": rejected with an error (" + c.MayFail + ")")
					continue
				}
				class, why = "error", res.Err
			case "PANIC":
				class, why = "panic@"+res.Frame, res.Panic
			case "CRASH":
				class, why = "crash", firstLines(res.Crash, 3)
			case "HANG":
				class, why = "hang", "no result after 90 s, also not in a fresh process"
			default:
				var perr error
				got, perr = c23ParseOutput(res.Out)
				if perr != nil {
					class, why = "unparsable-output", perr.Error()
				} else {
					class, why = c23Compare(c, got)
				}
			}
			if class == "" {
				r.Outcome(c.Kind + ": match, " + bucket)
				if c.NonTriv && (i%97 == 5 || (c.Stdin && i%7 == 0)) {
					r.Sample(c23MkReplay(c, sql, got, "", "match"))
				}
				continue
			}
			r.Outcome(c.Kind + ": MISMATCH " + strings.SplitN(class, "@", 2)[0])
			fp := c23Fingerprint(c, class, why, got)
			if d := os.Getenv("C23_DUMP_DIR"); d != "" {
				os.MkdirAll(d, 0o755)
				os.WriteFile(d+"/"+safeFile(fp+"-"+c.Desc)+c.Ext, c.Content, 0o644)
			}
			r.Violation(fp, fmt.Sprintf("%s file (%s), %s: %s: %s", c.Kind, c.Desc, sql, class, why), c23MkReplay(c, sql, got, why, class))
		}
	})
}

func safeFile(s string) string {
	var b strings.Builder
	for _, c := range s {
		if (c >= 'a' && c <= 'z') || (c >= 'A' && c <= 'Z') || (c >= '0' && c <= '9') || c == '-' || c == '_' || c == '=' {
			b.WriteRune(c)
		} else {
			b.WriteByte('_')
		}
		if b.Len() > 120 {
			break
		}
	}
	return b.String()
}

func firstLines(s string, n int) string {
	l := strings.Split(strings.TrimSpace(s), "\n")
	if len(l) > n {
		l = l[:n]
	}
	return strings.Join(l, " | ")
}

func c23MkReplay(c c23Case, sql string, got []c23V, why, class string) c23Replay {
	rp := c23Replay{Kind: c.Kind, Feature: c.Feature, Desc: c.Desc, SQL: sql, Stdin: c.Stdin, Error: why, Class: class,
		Want: c23RowsStr(c.Cols, c.Want, 8), Got: c23GotStr(got, 8)}
	content := c.Content
	if c.Ext == ".parquet" {
		rp.File = fmt.Sprintf("(parquet file, %d bytes, written by c23PqWrite for schema %s)", len(content), c.Feature)
		return rp
	}
	if len(content) > 600 {
		content = content[:600]
		rp.Truncated = true
	}
	rp.File = string(content)
	return rp
}
