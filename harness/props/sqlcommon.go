package props

import (
	"crypto/sha1"
	"encoding/hex"
	"fmt"
	"os"
	"path/filepath"
	"sort"
	"strings"
	"sync"

	"verif/harness/internal/findings"
	"verif/harness/internal/refsql"
	"verif/harness/internal/runner"
)

// ---- table files ----

var tableDirOnce sync.Once
var tableDir string
var tableMu sync.Mutex
var tableWritten = map[string]bool{}

func tablesDir() string {
	tableDirOnce.Do(func() {
		d, err := os.MkdirTemp("", "vtables")
		if err != nil {
			panic(err)
		}
		tableDir = d
	})
	return tableDir
}

func cleanupTables() {
	if tableDir != "" {
		os.RemoveAll(tableDir)
	}
}

func writeOnce(name string, content []byte) string {
	p := filepath.Join(tablesDir(), name)
	tableMu.Lock()
	defer tableMu.Unlock()
	if !tableWritten[p] {
		if err := os.WriteFile(p, content, 0o644); err != nil {
			panic(err)
		}
		tableWritten[p] = true
	}
	return p
}

func hashName(b []byte) string {
	h := sha1.Sum(b)
	return hex.EncodeToString(h[:6])
}

func csvCell(v refsql.V) string {
	switch v.K {
	case refsql.KNull:
		return ""
	case refsql.KInt:
		return fmt.Sprint(v.I)
	case refsql.KFloat:
		s := fmt.Sprintf("%g", v.F)
		if !strings.ContainsAny(s, ".e") {
			s += ".0"
		}
		return s
	case refsql.KBool:
		if v.B {
			return "true"
		}
		return "false"
	}
	return v.S
}

// mkCSV writes a CSV table (NULL = empty cell; strings must be non-empty, comma/quote free).
func mkCSV(alias string, cols []string, rows [][]refsql.V) *refsql.Table {
	var b strings.Builder
	b.WriteString(strings.Join(cols, ",") + "\n")
	for _, r := range rows {
		cells := make([]string, len(r))
		for i := range r {
			cells[i] = csvCell(r[i])
		}
		b.WriteString(strings.Join(cells, ",") + "\n")
	}
	p := writeOnce("t"+hashName([]byte(b.String()))+".csv", []byte(b.String()))
	return &refsql.Table{Path: p, Alias: alias, Cols: cols, Rows: rows}
}

func jsonCell(v refsql.V) string {
	switch v.K {
	case refsql.KNull:
		return "null"
	case refsql.KInt:
		return fmt.Sprint(v.I)
	case refsql.KFloat:
		return fmt.Sprintf("%g", v.F)
	case refsql.KBool:
		if v.B {
			return "true"
		}
		return "false"
	}
	return fmt.Sprintf("%q", v.S)
}

// mkJSON writes a JSON-lines table; numbers are read back as Float, so the
// table's reference rows are converted to Float.
func mkJSON(alias string, cols []string, rows [][]refsql.V) *refsql.Table {
	var b strings.Builder
	conv := make([][]refsql.V, len(rows))
	for ri, r := range rows {
		b.WriteString("{")
		conv[ri] = make([]refsql.V, len(r))
		for i := range r {
			if i > 0 {
				b.WriteString(",")
			}
			fmt.Fprintf(&b, "%q:%s", cols[i], jsonCell(r[i]))
			conv[ri][i] = r[i]
			if r[i].K == refsql.KInt {
				conv[ri][i] = refsql.Float(float64(r[i].I))
			}
		}
		b.WriteString("}\n")
	}
	p := writeOnce("t"+hashName([]byte(b.String()))+".json", []byte(b.String()))
	return &refsql.Table{Path: p, Alias: alias, Cols: cols, Rows: conv}
}

// ---- running and judging one query ----

type sqlCase struct {
	SQL      string              `json:"sql"`
	Tables   map[string][]string `json:"tables"`
	Args     []string            `json:"args"`
	Got      string              `json:"got,omitempty"`
	Want     string              `json:"want,omitempty"`
	Outcome  string              `json:"outcome,omitempty"`
	Error    string              `json:"error,omitempty"`
	Features []string            `json:"minimal_features,omitempty"`
	MinSQL   string              `json:"minimal_sql,omitempty"`
}

func collectTables(f *refsql.From, m map[string][]string) {
	switch {
	case f.Table != nil:
		var rows []string
		rows = append(rows, strings.Join(f.Table.Cols, ","))
		for _, r := range f.Table.Rows {
			rows = append(rows, refsql.RowKey(r))
		}
		m[f.Table.Path] = rows
	case f.Sub != nil:
		collectTablesQ(f.Sub, m)
	case f.Join != nil:
		collectTables(f.Join.L, m)
		collectTables(f.Join.R, m)
	}
}

func collectTablesQ(q *refsql.Query, m map[string][]string) {
	for _, c := range q.With {
		collectTablesQ(c.Q, m)
	}
	collectTables(q.From, m)
}

func mkCase(q *refsql.Query, args []string) sqlCase {
	m := map[string][]string{}
	collectTablesQ(q, m)
	return sqlCase{SQL: q.SQL(), Tables: m, Args: args}
}

func sqlArgs(sql, format string, optimize bool) []string {
	return []string{sql, "-o", format, fmt.Sprintf("--optimize=%v", optimize), "--describe=false", "--explain=0"}
}

// judged outcome of one (query, config)
type verdict struct {
	Class string // "", "rejected", or mismatch class
	Why   string
	Res   runner.Result
	Got   [][]refsql.V
}

func isTypecheckErr(msg string) bool {
	return strings.Contains(msg, "typecheck error") || strings.Contains(msg, "couldn't parse query") || strings.Contains(msg, "unknown variable") ||
		strings.Contains(msg, "couldn't typecheck")
}

// judge runs q with -o json and compares with the reference.
func judge(pool *runner.Pool, q *refsql.Query, optimize bool) verdict {
	want, err := refsql.Eval(q)
	if err != nil {
		return verdict{Class: "harness-unresolved", Why: err.Error()}
	}
	if want.Ambiguous {
		// a nested LIMIT admits several answers: the outer result is not determined by the statement
		return verdict{Class: "ambiguous"}
	}
	res := pool.Run(sqlArgs(q.SQL(), "json", optimize), "")
	v := verdict{Res: res}
	switch res.Class() {
	case "error":
		if isTypecheckErr(res.Err) {
			v.Class = "rejected"
			return v
		}
		v.Class, v.Why = "runtime-error", res.Err
		return v
	case "PANIC":
		v.Class, v.Why = "panic@"+res.Frame, res.Panic
		return v
	case "CRASH", "HANG":
		v.Class, v.Why = strings.ToLower(res.Class()), res.Crash
		return v
	}
	_, got, perr := refsql.ParseJSONLines(res.Out)
	if perr != nil {
		v.Class, v.Why = "unparsable-output", perr.Error()
		return v
	}
	v.Got = got
	v.Class, v.Why = refsql.Match(want, got)
	return v
}

// ---- minimisation: strip query features while the same mismatch class persists ----

func cloneQuery(q *refsql.Query) *refsql.Query {
	c := *q
	c.Proj = append([]refsql.Proj{}, q.Proj...)
	c.OrderBy = append([]refsql.Order{}, q.OrderBy...)
	c.GroupBy = append([]*refsql.Expr{}, q.GroupBy...)
	c.With = append([]refsql.CTE{}, q.With...)
	f := *q.From
	c.From = &f
	return &c
}

func simplifications(q *refsql.Query) []*refsql.Query {
	var out []*refsql.Query
	add := func(f func(c *refsql.Query) bool) {
		c := cloneQuery(q)
		if f(c) {
			out = append(out, c)
		}
	}
	add(func(c *refsql.Query) bool { ok := c.Where != nil; c.Where = nil; return ok })
	add(func(c *refsql.Query) bool { ok := c.Distinct; c.Distinct = false; return ok })
	add(func(c *refsql.Query) bool { ok := len(c.OrderBy) > 0; c.OrderBy = nil; return ok })
	add(func(c *refsql.Query) bool {
		ok := len(c.OrderBy) > 1
		if ok {
			c.OrderBy = c.OrderBy[:1]
		}
		return ok
	})
	add(func(c *refsql.Query) bool { ok := c.Limit >= 0; c.Limit = -1; return ok })
	add(func(c *refsql.Query) bool {
		if len(c.GroupBy) > 0 || c.Trigger != "" {
			return false
		}
		for _, p := range c.Proj {
			if p.Agg != "" {
				return false
			}
		}
		if len(c.Proj) == 1 && c.Proj[0].Star {
			return false
		}
		for _, o := range c.OrderBy {
			_ = o
		}
		c.Proj = []refsql.Proj{{Star: true}}
		return true
	})
	add(func(c *refsql.Query) bool {
		// unwrap a FROM subquery that is a plain SELECT *
		if c.From.Sub == nil {
			return false
		}
		s := c.From.Sub
		if len(s.Proj) == 1 && s.Proj[0].Star && s.Where == nil && !s.Distinct && len(s.OrderBy) == 0 && s.Limit < 0 && len(s.With) == 0 && s.From.Table != nil {
			t := *s.From.Table
			t.Alias = c.From.Alias
			c.From = &refsql.From{Table: &t}
			return true
		}
		return false
	})
	add(func(c *refsql.Query) bool {
		if c.From.Sub == nil {
			return false
		}
		s := cloneQuery(c.From.Sub)
		changed := false
		if s.Where != nil {
			s.Where = nil
			changed = true
		} else if s.Distinct {
			s.Distinct = false
			changed = true
		} else if len(s.OrderBy) > 0 {
			s.OrderBy = nil
			changed = true
		} else if s.Limit >= 0 {
			s.Limit = -1
			changed = true
		}
		c.From.Sub = s
		return changed
	})
	// drop one input row of a base table
	add(func(c *refsql.Query) bool {
		if c.From.Table == nil || len(c.From.Table.Rows) <= 1 {
			return false
		}
		return false
	})
	return out
}

func minimize(q *refsql.Query, class string, fails func(q *refsql.Query) string) *refsql.Query {
	cur := q
	for round := 0; round < 12; round++ {
		progressed := false
		for _, c := range simplifications(cur) {
			if _, err := refsql.Eval(c); err != nil {
				continue
			}
			if fails(c) == class {
				cur = c
				progressed = true
				break
			}
		}
		if !progressed {
			break
		}
	}
	return cur
}

func fromFeatures(f *refsql.From, out map[string]bool) {
	switch {
	case f.Table != nil:
		if strings.HasSuffix(f.Table.Path, ".json") {
			out["json"] = true
		} else {
			out["csv"] = true
		}
	case f.CTE != "":
		out["cte-ref"] = true
	case f.Sub != nil:
		out["subquery"] = true
		for k := range queryFeatureSet(f.Sub) {
			out["sub:"+k] = true
		}
	case f.Join != nil:
		out[strings.ToLower(strings.ReplaceAll(f.Join.Kind, " ", "-"))] = true
		fromFeatures(f.Join.L, out)
		fromFeatures(f.Join.R, out)
	}
}

func exprOps(e *refsql.Expr, out map[string]bool, prefix string) {
	if e == nil {
		return
	}
	if e.Op != "col" && e.Op != "lit" {
		out[prefix+e.Op] = true
	}
	for _, a := range e.Args {
		exprOps(a, out, prefix)
	}
}

func queryFeatureSet(q *refsql.Query) map[string]bool {
	out := map[string]bool{}
	if len(q.With) > 0 {
		out["with"] = true
	}
	if q.Distinct {
		out["distinct"] = true
	}
	if q.Where != nil {
		out["where"] = true
	}
	if len(q.OrderBy) > 0 {
		out["orderby"] = true
		for _, o := range q.OrderBy {
			if o.Desc {
				out["orderby-desc"] = true
			}
		}
	}
	switch {
	case q.Limit == 0:
		out["limit0"] = true
	case q.Limit > 0:
		out["limitN"] = true
	}
	for _, p := range q.Proj {
		if p.Agg != "" {
			a := p.Agg
			if p.AggDistinct {
				a += "_distinct"
			}
			out["agg:"+a] = true
		} else if !p.Star && p.E.Op != "col" {
			out["proj-expr"] = true
		}
	}
	if len(q.GroupBy) > 0 {
		out["groupby"] = true
	}
	if q.Trigger != "" {
		out["trigger"] = true
	}
	fromFeatures(q.From, out)
	return out
}

func featureList(q *refsql.Query, dropFormat bool) []string {
	m := queryFeatureSet(q)
	var l []string
	for k := range m {
		if dropFormat && (k == "json" || k == "csv") {
			continue
		}
		l = append(l, k)
	}
	sort.Strings(l)
	return l
}

// fingerprintCache: original feature set + class -> minimal feature fingerprint
type fpCache struct {
	mu sync.Mutex
	m  map[string][2]string
}

func newFPCache() *fpCache { return &fpCache{m: map[string][2]string{}} }

// reportMismatch minimises (once per feature-set/class), builds the fingerprint and records the violation.
func reportMismatch(r *findings.Run, cache *fpCache, prop string, q *refsql.Query, v verdict, args []string, rerun func(q *refsql.Query) verdict) {
	class := v.Class
	key := strings.Join(featureList(q, false), "+") + "/" + class
	cache.mu.Lock()
	hit, ok := cache.m[key]
	cache.mu.Unlock()
	cs := mkCase(q, args)
	cs.Outcome = class
	cs.Error = v.Why
	cs.Got = refsql.RowsString(v.Got)
	if want, err := refsql.Eval(q); err == nil {
		cs.Want = refsql.RowsString(want.Rows)
		if want.Limit >= 0 {
			cs.Want = fmt.Sprintf("%d of: %s", want.Limit, refsql.RowsString(want.Pre))
		}
	}
	if !ok {
		min := minimize(q, class, func(c *refsql.Query) string { return rerun(c).Class })
		hit = [2]string{strings.Join(featureList(min, true), "+"), min.SQL()}
		cache.mu.Lock()
		cache.m[key] = hit
		cache.mu.Unlock()
	}
	cs.Features = strings.Split(hit[0], "+")
	cs.MinSQL = hit[1]
	fp := fmt.Sprintf("%s/%s/%s", prop, class, hit[0])
	r.Violation(fp, fmt.Sprintf("%s: %s (%s) got %s want %s [minimal form: %s]", cs.SQL, class, v.Why, cs.Got, cs.Want, hit[1]), cs)
}
