package props

import (
	"fmt"
	"github.com/cube2222/octosql/octosql"
	"sort"
	"strings"
	"time"

	"github.com/cube2222/octosql/execution"
	ostream "github.com/cube2222/octosql/outputs/stream"

	"verif/harness/internal/enum"
	"verif/harness/internal/findings"
	"verif/harness/internal/stream"
)

type histCase struct {
	Node   string   `json:"node,omitempty"`
	Input  []string `json:"input"`
	Output []string `json:"output_log,omitempty"`
	At     string   `json:"at,omitempty"`
	Got    string   `json:"got,omitempty"`
	Want   string   `json:"want,omitempty"`
}

// fullKey: rendering of a record including retraction flag and event time.
func outFullKeys(log []stream.Out) []string {
	var out []string
	for _, o := range log {
		if !o.WM {
			out = append(out, o.String())
		}
	}
	sort.Strings(out)
	return out
}

func c22Check(evs []stream.Ev) (points int, fp, what string, cs histCase) {
	log, err, pan := stream.RunSingle(func(src execution.Node) execution.Node {
		return &ostream.InternallyConsistentOutputStreamWrapper{Source: src}
	}, evs)
	cs = histCase{Input: stream.Strs(evs), Output: stream.LogStrs(log)}
	if pan != nil {
		return 0, "panic", fmt.Sprintf("panic: %v", pan), cs
	}
	if err != nil {
		return 0, "error", fmt.Sprintf("unexpected error: %v", err), cs
	}
	// (b) never emits a record that was not in its input (as a multiset of full records)
	in := map[string]int{}
	for _, e := range evs {
		if e.Kind == stream.Rec {
			in[e.String()]++
		}
	}
	for _, o := range log {
		if o.WM {
			continue
		}
		in[o.String()]--
		if in[o.String()] < 0 {
			cs.At = o.String()
			kind := "not-in-input"
			if len(o.Vals) == 0 {
				kind = "phantom-empty-record"
			}
			return 1, "emits/" + kind, fmt.Sprintf("input %v: emitted %s which is not (or not that often) in the input", cs.Input, o), cs
		}
	}
	// (a) at every forwarded watermark W: consolidated emitted == consolidated input with event time <= W
	for i, o := range log {
		if !o.WM {
			continue
		}
		points++
		got := stream.ConsolidateOut(log, i)
		w := o.T
		want := stream.ConsolidateEvs(evs, func(e stream.Ev) bool { return !e.T.After(w) })
		if !got.Equal(want) {
			cs.At, cs.Got, cs.Want = o.String(), got.String(), want.String()
			return points, "at-watermark/" + diffClass(got, want), fmt.Sprintf("input %v: at forwarded %s emitted %s != input up to it %s", cs.Input, o, got, want), cs
		}
	}
	// watermarks forwarded unchanged and all of them
	var wmIn, wmOut []string
	for _, e := range evs {
		if e.Kind == stream.WM {
			wmIn = append(wmIn, e.String())
		}
	}
	for _, o := range log {
		if o.WM {
			wmOut = append(wmOut, o.String())
		}
	}
	if strings.Join(wmIn, ",") != strings.Join(wmOut, ",") {
		return points, "watermarks-changed", fmt.Sprintf("input %v: forwarded watermarks %v", cs.Input, wmOut), cs
	}
	// (c) by end of stream everything has been emitted
	points++
	got := stream.ConsolidateOut(log, len(log))
	want := stream.ConsolidateEvs(evs, nil)
	if !got.Equal(want) {
		cs.At, cs.Got, cs.Want = "end", got.String(), want.String()
		return points, "at-end/" + diffClass(got, want), fmt.Sprintf("input %v: at end emitted %s != input %s", cs.Input, got, want), cs
	}
	return points, "", "", cs
}

func init() {
	register("C22", "model_checking", func(r *findings.Run) {
		o := stream.ScriptOpts{Keys: []int{1, 2}, Times: []int{1, 2, 3}, MaxLen: r.Pick(5, 7), Retractions: true, Watermarks: true}
		hist := stream.GenScripts(o)
		// second family: rows that are different values with equal hashes (HashManyValues carries no type tags: NULL, 0 and
		// false collide, and so do all tuples), so that "same row" cannot be decided by hash
		{
			o2 := stream.ScriptOpts{Times: []int{1, 2}, MaxLen: r.Pick(4, 5), Retractions: true, Watermarks: true, Rows: [][]octosql.Value{
				{octosql.NewInt(1), octosql.NewNull()}, {octosql.NewInt(1), octosql.NewInt(0)}, {octosql.NewInt(1), octosql.NewBoolean(false)},
				{octosql.NewInt(1), octosql.NewTuple([]octosql.Value{octosql.NewInt(1)})}, {octosql.NewInt(1), octosql.NewTuple([]octosql.Value{octosql.NewInt(2)})}}}
			hist = append(hist, stream.GenScripts(o2)...)
		}
		r.Bound = map[string]interface{}{"max_events": o.MaxLen, "rows": o.Keys, "times": o.Times, "histories": len(hist)}
		r.Rule = "every valid changelog with watermarks up to the length bound (rows {1,2} so duplicates occur; a second family of rows (1,NULL), (1,0), (1,false), (1,(1)), (1,(2)) whose hashes collide, event times {1,2,3} in any arrival order, retraction of a present row with event time >= its insert, strictly increasing watermarks, no record at or below an earlier watermark), each followed by end of stream, run on the real wrapper; state = history prefix, transition = one event; non-trivial = history with a watermark that has a record on each side of it"
		r.Assume("no late records", "a retraction's event time is not before its insert's", "the wrapper is synchronous (single goroutine), so one run of a history checks all its watermark points")
		enum.Parallel(len(hist), func(i int) {
			evs := hist[i]
			pts, fp, what, cs := c22Check(evs)
			r.AddCounts(1, int64(len(evs)+1), 1)
			r.Eval(1)
			_ = pts
			nt := false
			for wi, e := range evs {
				if e.Kind != stream.WM {
					continue
				}
				before, after := false, false
				for j, x := range evs {
					if x.Kind == stream.Rec && j < wi && !x.T.After(e.T) {
						before = true
					}
					if x.Kind == stream.Rec && x.T.After(e.T) {
						after = true
					}
				}
				nt = nt || (before && after)
			}
			if nt {
				r.Nontrivial(strings.Join(cs.Input, " "))
			}
			r.Outcome(fmt.Sprintf("out=%d", min(len(cs.Output), 8)))
			if fp != "" {
				r.Violation("C22/"+fp, what, cs)
			} else if nt && r.NeedSample() {
				r.Sample(cs)
			}
		})
	})
}

var _ = time.Now
