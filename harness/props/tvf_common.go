package props

import (
	"context"
	"time"

	"github.com/cube2222/octosql/execution"
	"github.com/cube2222/octosql/octosql"
	"github.com/cube2222/octosql/physical"
	tvf "github.com/cube2222/octosql/table_valued_functions"
)

// srcImpl wraps an execution node as a datasource so that real table valued
// functions can be materialized over a scripted source.
type srcImpl struct{ node execution.Node }

func (s srcImpl) Materialize(ctx context.Context, env physical.Environment, schema physical.Schema, pushedDownPredicates []physical.Expression) (execution.Node, error) {
	return s.node, nil
}

func (s srcImpl) PushDownPredicates(newPredicates, pushedDownPredicates []physical.Expression) (rejected, pushedDown []physical.Expression, changed bool) {
	return newPredicates, pushedDownPredicates, false
}

func physSource(node execution.Node, fields []physical.SchemaField, timeField int) physical.Node {
	mapping := map[string]string{}
	for _, f := range fields {
		mapping["t."+f.Name] = f.Name
	}
	return physical.Node{
		Schema:     physical.NewSchema(fields, timeField),
		NodeType:   physical.NodeTypeDatasource,
		Datasource: &physical.Datasource{Name: "t", Alias: "t", DatasourceImplementation: srcImpl{node}, VariableMapping: mapping},
	}
}

func constArg(v octosql.Value, t octosql.Type) physical.TableValuedFunctionArgument {
	return physical.TableValuedFunctionArgument{
		TableValuedFunctionArgumentType: physical.TableValuedFunctionArgumentTypeExpression,
		Expression: &physical.TableValuedFunctionArgumentExpression{Expression: physical.Expression{
			Type: t, ExpressionType: physical.ExpressionTypeConstant, Constant: &physical.Constant{Value: v},
		}},
	}
}

func tableArg(n physical.Node) physical.TableValuedFunctionArgument {
	return physical.TableValuedFunctionArgument{TableValuedFunctionArgumentType: physical.TableValuedFunctionArgumentTypeTable,
		Table: &physical.TableValuedFunctionArgumentTable{Table: n}}
}

func descArg(name string) physical.TableValuedFunctionArgument {
	return physical.TableValuedFunctionArgument{TableValuedFunctionArgumentType: physical.TableValuedFunctionArgumentTypeDescriptor,
		Descriptor: &physical.TableValuedFunctionArgumentDescriptor{Descriptor: name}}
}

var ktFields = []physical.SchemaField{{Name: "k", Type: octosql.Int}, {Name: "ts", Type: octosql.Time}}

// mkMaxDiff materializes the real max_diff_watermark over src (rows [k, ts]).
func mkMaxDiff(src execution.Node, maxDiff time.Duration, resolution *time.Duration) (execution.Node, error) {
	args := map[string]physical.TableValuedFunctionArgument{
		"source":     tableArg(physSource(src, ktFields, -1)),
		"max_diff":   constArg(octosql.NewDuration(maxDiff), octosql.Duration),
		"time_field": descArg("ts"),
	}
	if resolution != nil {
		args["resolution"] = constArg(octosql.NewDuration(*resolution), octosql.Duration)
	}
	return tvf.MaxDiffWatermark.Descriptors[0].Materialize(context.Background(), physical.Environment{}, args)
}

// mkTumble materializes the real tumble over src (rows [k, ts], time field ts).
func mkTumble(src execution.Node, length time.Duration, offset *time.Duration) (execution.Node, error) {
	args := map[string]physical.TableValuedFunctionArgument{
		"source":        tableArg(physSource(src, ktFields, 1)),
		"window_length": constArg(octosql.NewDuration(length), octosql.Duration),
		"time_field":    descArg("ts"),
	}
	if offset != nil {
		args["offset"] = constArg(octosql.NewDuration(*offset), octosql.Duration)
	}
	return tvf.Tumble.Descriptors[0].Materialize(context.Background(), physical.Environment{}, args)
}

func mustNode(n execution.Node, err error) execution.Node {
	if err != nil {
		panic(err)
	}
	return n
}
