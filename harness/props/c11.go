package props

// C11 — three-valued logic and NULL propagation.
//
// Everything is evaluated in-process on the REAL pipeline
//   logical.Expression.Typecheck -> physical.Expression.Materialize -> execution.Expression.Evaluate
// (the same three steps the planner performs for a WHERE clause; the parser maps
// AND/OR to logical.And/Or, NOT to the function "not", IS [NOT] NULL to the
// functions "is null"/"is not null"). The reference is a Kleene table written here.

import (
	"context"
	"fmt"
	"reflect"
	"runtime/debug"
	"sort"
	"strings"
	"sync/atomic"
	"time"

	"github.com/cube2222/octosql/execution"
	"github.com/cube2222/octosql/execution/nodes"
	"github.com/cube2222/octosql/functions"
	"github.com/cube2222/octosql/logical"
	"github.com/cube2222/octosql/octosql"
	"github.com/cube2222/octosql/physical"

	"verif/harness/internal/enum"
	"verif/harness/internal/findings"
	"verif/harness/internal/stream"
)

// ---------------------------------------------------------------- lab (typecheck + materialize)

type c11Lab struct {
	penv physical.Environment
	lenv logical.Environment
}

// c11NewLab: an environment with one record scope holding the given fields.
func c11NewLab(fns map[string]physical.FunctionDetails, fields []physical.SchemaField) *c11Lab {
	mapping := map[string]string{}
	for _, f := range fields {
		mapping[f.Name] = f.Name
	}
	return &c11Lab{
		penv: physical.Environment{Functions: fns, VariableContext: &physical.VariableContext{Fields: fields}},
		lenv: logical.Environment{
			UniqueVariableNames: &logical.VariableMapping{Mapping: mapping},
			UniqueNameGenerator: map[string]int{},
		},
	}
}

// typecheck runs the real typechecker; a typecheck panic (that is how octosql reports type errors) is returned as rejection text.
func (l *c11Lab) typecheck(e logical.Expression) (p physical.Expression, rejected string) {
	defer func() {
		if x := recover(); x != nil {
			rejected = fmt.Sprint(x)
		}
	}()
	p = e.Typecheck(context.Background(), l.penv, l.lenv)
	return p, ""
}

func (l *c11Lab) materialize(p physical.Expression) (e execution.Expression, err error, pan interface{}) {
	defer func() {
		if x := recover(); x != nil {
			pan = x
		}
	}()
	e, err = p.Materialize(context.Background(), l.penv)
	return
}

func c11Ctx(vals []octosql.Value) execution.ExecutionContext {
	return execution.ExecutionContext{Context: context.Background(), VariableContext: &execution.VariableContext{Values: vals}}
}

func c11Eval(e execution.Expression, ctx execution.ExecutionContext) (v octosql.Value, err error, pan interface{}) {
	defer func() {
		if x := recover(); x != nil {
			pan = x
		}
	}()
	v, err = e.Evaluate(ctx)
	return
}

// c11Pre: a logical expression whose typecheck result was computed before by the real typechecker
// (used so that depth-3 roots do not re-typecheck their 14k x 14k subtrees from scratch).
type c11Pre struct{ p physical.Expression }

func (c c11Pre) Typecheck(ctx context.Context, env physical.Environment, logicalEnv logical.Environment) physical.Expression {
	return c.p
}

// ---------------------------------------------------------------- Kleene reference

const (
	kT byte = 0
	kF byte = 1
	kN byte = 2
)

var kName = [3]string{"T", "F", "N"}

func kNot(a byte) byte {
	switch a {
	case kT:
		return kF
	case kF:
		return kT
	}
	return kN
}

func kAnd(a, b byte) byte {
	if a == kF || b == kF {
		return kF
	}
	if a == kN || b == kN {
		return kN
	}
	return kT
}

func kOr(a, b byte) byte {
	if a == kT || b == kT {
		return kT
	}
	if a == kN || b == kN {
		return kN
	}
	return kF
}

func kVal(k byte) octosql.Value {
	switch k {
	case kT:
		return octosql.NewBoolean(true)
	case kF:
		return octosql.NewBoolean(false)
	}
	return octosql.NewNull()
}

// kOf classifies an implementation result; 3 = neither a Boolean nor NULL.
func kOf(v octosql.Value) byte {
	switch v.TypeID {
	case octosql.TypeIDNull:
		return kN
	case octosql.TypeIDBoolean:
		if v.Boolean {
			return kT
		}
		return kF
	}
	return 3
}

// ---------------------------------------------------------------- trees

type c11Tree struct {
	op   byte // 'L' leaf, 'N' not, 'A' and, 'O' or
	leaf int  // 0,1,2 = a,b,c ; 3 TRUE ; 4 FALSE ; 5 NULL
	l, r *c11Tree
}

var c11LeafNames = []string{"a", "b", "c", "TRUE", "FALSE", "NULL"}

func (t *c11Tree) String() string {
	switch t.op {
	case 'L':
		return c11LeafNames[t.leaf]
	case 'N':
		return "(NOT " + t.l.String() + ")"
	case 'A':
		return "(" + t.l.String() + " AND " + t.r.String() + ")"
	}
	return "(" + t.l.String() + " OR " + t.r.String() + ")"
}

func (t *c11Tree) logical() logical.Expression {
	switch t.op {
	case 'L':
		switch t.leaf {
		case 3:
			return logical.NewConstant(octosql.NewBoolean(true))
		case 4:
			return logical.NewConstant(octosql.NewBoolean(false))
		case 5:
			return logical.NewConstant(octosql.NewNull())
		}
		return logical.NewVariable(c11LeafNames[t.leaf])
	case 'N':
		return logical.NewFunctionExpression("not", []logical.Expression{t.l.logical()})
	case 'A':
		return logical.NewAnd(t.l.logical(), t.r.logical())
	}
	return logical.NewOr(t.l.logical(), t.r.logical())
}

// ref: Kleene value under assignment asg (asg[i] in {kT,kF,kN}).
func (t *c11Tree) ref(asg [3]byte) byte {
	switch t.op {
	case 'L':
		switch t.leaf {
		case 3:
			return kT
		case 4:
			return kF
		case 5:
			return kN
		}
		return asg[t.leaf]
	case 'N':
		return kNot(t.l.ref(asg))
	case 'A':
		return kAnd(t.l.ref(asg), t.r.ref(asg))
	}
	return kOr(t.l.ref(asg), t.r.ref(asg))
}

// firstOcc appends the variables of t in order of first occurrence (left to right).
func (t *c11Tree) firstOcc(acc []int) []int {
	switch t.op {
	case 'L':
		if t.leaf < 3 {
			for _, v := range acc {
				if v == t.leaf {
					return acc
				}
			}
			acc = append(acc, t.leaf)
		}
		return acc
	case 'N':
		return t.l.firstOcc(acc)
	}
	return t.r.firstOcc(t.l.firstOcc(acc))
}

func (t *c11Tree) hasBinary() bool {
	if t.op == 'A' || t.op == 'O' {
		return true
	}
	if t.op == 'N' {
		return t.l.hasBinary()
	}
	return false
}

// c11Trees returns all trees of depth <= d (depth 0 = leaf), grouped so that
// out[:n[k]] are the trees of depth <= k.
func c11Trees(d int) (out []*c11Tree, upto []int) {
	for i := 0; i < 6; i++ {
		out = append(out, &c11Tree{op: 'L', leaf: i})
	}
	upto = []int{len(out)}
	prevStart := 0 // trees of depth exactly k-1 start here
	for k := 1; k <= d; k++ {
		n := len(out)
		var add []*c11Tree
		// NOT over trees of depth exactly k-1
		for i := prevStart; i < n; i++ {
			add = append(add, &c11Tree{op: 'N', l: out[i]})
		}
		for _, op := range []byte{'A', 'O'} {
			for i := 0; i < n; i++ {
				for j := 0; j < n; j++ {
					if i < prevStart && j < prevStart {
						continue // both children shallower than k-1: tree already generated
					}
					add = append(add, &c11Tree{op: op, l: out[i], r: out[j]})
				}
			}
		}
		prevStart = n
		out = append(out, add...)
		upto = append(upto, len(out))
	}
	return
}

var c11Asg = func() (out [27][3]byte) {
	for i := 0; i < 27; i++ {
		out[i] = [3]byte{byte(i / 9), byte(i / 3 % 3), byte(i % 3)}
	}
	return
}()

func c11AsgStr(a [3]byte) string {
	return "a=" + kName[a[0]] + ",b=" + kName[a[1]] + ",c=" + kName[a[2]]
}

type c11Case struct {
	Part   string `json:"part"`
	Expr   string `json:"expr"`
	Assign string `json:"assignment,omitempty"`
	Got    string `json:"got,omitempty"`
	Want   string `json:"want,omitempty"`
	Vector string `json:"results_over_27_assignments,omitempty"`
	Types  string `json:"arg_types,omitempty"`
	Path   string `json:"path,omitempty"`
}

var c11BoolNull = octosql.TypeSum(octosql.Boolean, octosql.Null)

func c11BoolFields() []physical.SchemaField {
	return []physical.SchemaField{{Name: "a", Type: c11BoolNull}, {Name: "b", Type: c11BoolNull}, {Name: "c", Type: c11BoolNull}}
}

// c11Blame descends into a tree whose root disagrees with the reference and returns a narrow classifier:
// the innermost operator whose operands all agree with the reference while its own result does not.
func c11Blame(lab *c11Lab, t *c11Tree, asg [3]byte) string {
	evalSub := func(s *c11Tree) string {
		p, rej := lab.typecheck(s.logical())
		if rej != "" {
			return "rejected"
		}
		e, err, pan := lab.materialize(p)
		if err != nil || pan != nil {
			return "materialize-failed"
		}
		v, err, pan := c11Eval(e, c11Ctx([]octosql.Value{kVal(asg[0]), kVal(asg[1]), kVal(asg[2])}))
		if pan != nil {
			return "panic"
		}
		if err != nil {
			return "error"
		}
		k := kOf(v)
		if k == 3 {
			return "non-boolean:" + v.TypeID.String()
		}
		return kName[k]
	}
	cur := t
	for {
		descended := false
		for _, ch := range []*c11Tree{cur.l, cur.r} {
			if ch == nil {
				continue
			}
			if evalSub(ch) != kName[ch.ref(asg)] {
				cur = ch
				descended = true
				break
			}
		}
		if descended {
			continue
		}
		got := evalSub(cur)
		switch cur.op {
		case 'L':
			return fmt.Sprintf("leaf:%s->%s", c11LeafNames[cur.leaf], got)
		case 'N':
			return fmt.Sprintf("not(%s)->%s", kName[cur.l.ref(asg)], got)
		case 'A':
			return fmt.Sprintf("and(%s,%s)->%s", kName[cur.l.ref(asg)], kName[cur.r.ref(asg)], got)
		}
		return fmt.Sprintf("or(%s,%s)->%s", kName[cur.l.ref(asg)], kName[cur.r.ref(asg)], got)
	}
}

// ---------------------------------------------------------------- part (b),(c) helpers

type c11Kind struct {
	name string
	typ  octosql.Type
	val  octosql.Value
}

func c11Kinds() []c11Kind {
	intT := octosql.Int
	strT := octosql.String
	return []c11Kind{
		{"Int", octosql.Int, octosql.NewInt(3)},
		{"Float", octosql.Float, octosql.NewFloat(1.5)},
		{"Boolean", octosql.Boolean, octosql.NewBoolean(true)},
		{"String", octosql.String, octosql.NewString("a")},
		{"Time", octosql.Time, octosql.NewTime(time.Unix(1, 0).UTC())},
		{"Duration", octosql.Duration, octosql.NewDuration(time.Second)},
		{"List", octosql.Type{TypeID: octosql.TypeIDList, List: struct{ Element *octosql.Type }{Element: &intT}}, octosql.NewList([]octosql.Value{octosql.NewInt(3), octosql.NewInt(4)})},
		{"Object", octosql.Type{TypeID: octosql.TypeIDStruct, Struct: struct{ Fields []octosql.StructField }{Fields: []octosql.StructField{{Name: "x", Type: intT}}}}, octosql.NewStruct([]octosql.Value{octosql.NewInt(3)})},
		{"Tuple", octosql.Type{TypeID: octosql.TypeIDTuple, Tuple: struct{ Elements []octosql.Type }{Elements: []octosql.Type{intT, strT}}}, octosql.NewTuple([]octosql.Value{octosql.NewInt(3), octosql.NewString("a")})},
	}
}

func c11KindOfType(kinds []c11Kind, t octosql.Type) (c11Kind, bool) {
	for _, k := range kinds {
		if k.typ.TypeID == t.TypeID {
			return k, true
		}
	}
	return c11Kind{}, false
}

type c11StrictTarget struct {
	fn    string
	di    int
	desc  physical.FunctionDescriptor
	kinds []c11Kind
}

func (t c11StrictTarget) sig() string {
	names := make([]string, len(t.kinds))
	for i, k := range t.kinds {
		names[i] = k.name
	}
	return fmt.Sprintf("%s(%s)", t.fn, strings.Join(names, ","))
}

// c11StrictTargets: every Strict descriptor x every concrete argument type tuple it accepts.
// ArgumentTypes descriptors: the declared types (Any expands to every kind). TypeFn descriptors: every tuple of
// kinds of arity 0..3 that the descriptor's own TypeFn accepts.
func c11StrictTargets(fns map[string]physical.FunctionDetails) (out []c11StrictTarget, strictDescriptors int) {
	kinds := c11Kinds()
	names := make([]string, 0, len(fns))
	for n := range fns {
		names = append(names, n)
	}
	sort.Strings(names)
	for _, n := range names {
		for di, d := range fns[n].Descriptors {
			if !d.Strict {
				continue
			}
			strictDescriptors++
			if d.TypeFn != nil {
				for arity := 0; arity <= 3; arity++ {
					sizes := make([]int, arity)
					for i := range sizes {
						sizes[i] = len(kinds)
					}
					try := func(idx []int) bool {
						ks := make([]c11Kind, arity)
						ts := make([]octosql.Type, arity)
						for i, x := range idx {
							ks[i] = kinds[x]
							ts[i] = kinds[x].typ
						}
						ok := false
						func() {
							defer func() { recover() }()
							_, ok = d.TypeFn(ts)
						}()
						if ok {
							out = append(out, c11StrictTarget{n, di, d, ks})
						}
						return true
					}
					if arity == 0 {
						try(nil)
					} else {
						enum.Product(sizes, try)
					}
				}
				continue
			}
			// expand Any over all kinds
			choices := make([][]c11Kind, len(d.ArgumentTypes))
			sizes := make([]int, len(d.ArgumentTypes))
			supported := true
			for i, at := range d.ArgumentTypes {
				if at.TypeID == octosql.TypeIDAny {
					choices[i] = kinds
				} else if k, ok := c11KindOfType(kinds, at); ok {
					choices[i] = []c11Kind{k}
				} else {
					supported = false
				}
				sizes[i] = len(choices[i])
			}
			if !supported {
				continue
			}
			if len(sizes) == 0 {
				out = append(out, c11StrictTarget{n, di, d, nil})
				continue
			}
			enum.Product(sizes, func(idx []int) bool {
				ks := make([]c11Kind, len(idx))
				for i, x := range idx {
					ks[i] = choices[i][x]
				}
				out = append(out, c11StrictTarget{n, di, d, ks})
				return true
			})
		}
	}
	return
}

func c11FnPtr(f func([]octosql.Value) (octosql.Value, error)) uintptr {
	if f == nil {
		return 0
	}
	return reflect.ValueOf(f).Pointer()
}

// ---------------------------------------------------------------- the check

func init() {
	register("C11", "exploration", func(r *findings.Run) {
		depth := r.Pick(2, 3)
		fns := functions.FunctionMap()
		lab := c11NewLab(fns, c11BoolFields())

		r.Rule = "(a) every boolean expression tree of depth <= bound over AND/OR/NOT with leaves {a,b,c,TRUE,FALSE,NULL} (a,b,c typed Boolean|NULL), typechecked by the real typechecker, materialized by physical.Expression.Materialize and evaluated under all 27 assignments of {TRUE,FALSE,NULL}^3, compared with a Kleene table written in the check; " +
			"at depth 3 (thorough) one representative per renaming of the variables (variables introduced in the order a,b,c left to right; depth <= 2 is enumerated without reduction); (a3) ternary AND/OR nodes over all leaf triples (physical node built by hand, Materialize real); " +
			"(b) every Strict descriptor of FunctionMap() x every concrete argument type tuple it accepts (Any and TypeFn expanded over 9 value kinds) x every non-empty subset of argument positions holding NULL, arguments typed T|NULL, through Materialize (nullCheckIndices) and through the typechecker, plus literal NULL arguments; must evaluate to NULL; " +
			"(c) IS NULL / IS NOT NULL on NULL and on a value of each of the 9 kinds under declared types T, T|NULL, constant; " +
			"(d) the real nodes.Filter over the 27-row table with every accepted tree of depth <= 2 as predicate keeps exactly the TRUE rows in order. " +
			"non-trivial = tree with at least one AND/OR whose 27 results are not all equal; strict case with NULL in a position; IS-test case"
		r.Assume(
			"typecheck rejections (NOT applied to the literal NULL; a literal NULL argument where the overload does not accept type NULL) are counted as rejected, not judged",
			"IS [NOT] NULL on tuples is only exercised with tuples without NULL elements (row-value IS NULL semantics differ between SQL dialects)",
			"strict functions are only required to return NULL when an argument declared T|NULL (or NULL) holds NULL; a NULL smuggled into an argument declared non-nullable is outside the contract",
			"depth-3 roots reuse the physical expressions the real typechecker produced for their depth<=2 subtrees (wrapped as logical.Expression); the root node itself is typechecked and the whole tree materialized for every case",
			"outcome histogram counts (work unit, class) pairs; the per-evaluation totals are in the result_* sums",
		)

		// ------------------------------------------------ (a) trees
		trees, upto := c11Trees(2)
		n2 := upto[2]
		phys := make([]physical.Expression, n2)
		rejected := make([]bool, n2)
		refVec := make([][27]byte, n2)
		var ctxs [27]execution.ExecutionContext
		for k := 0; k < 27; k++ {
			a := c11Asg[k]
			ctxs[k] = c11Ctx([]octosql.Value{kVal(a[0]), kVal(a[1]), kVal(a[2])})
		}
		var resCount [3]int64
		var rejCount, treeCount, nonconst int64

		judge := func(part string, t *c11Tree, e execution.Expression, ref *[27]byte, local *[3]int64) (vec [27]byte, ok bool) {
			ok = true
			for k := 0; k < 27; k++ {
				v, err, pan := c11Eval(e, ctxs[k])
				want := ref[k]
				var got string
				switch {
				case pan != nil:
					got = "panic"
				case err != nil:
					got = "error"
				default:
					g := kOf(v)
					vec[k] = g
					if g == want {
						local[g]++
						continue
					}
					if g == 3 {
						got = "non-boolean:" + v.TypeID.String()
					} else {
						got = kName[g]
					}
				}
				ok = false
				cls := c11Blame(lab, t, c11Asg[k])
				what := fmt.Sprintf("%s under %s evaluates to %s, Kleene logic says %s", t, c11AsgStr(c11Asg[k]), got, kName[want])
				if pan != nil {
					what += fmt.Sprintf(" (panic: %v)", pan)
				}
				if err != nil {
					what += fmt.Sprintf(" (error: %v)", err)
				}
				r.Violation("C11/"+part+"/"+cls, what, c11Case{Part: part, Expr: t.String(), Assign: c11AsgStr(c11Asg[k]), Got: got, Want: kName[want]})
			}
			return
		}

		vecStr := func(v [27]byte) string {
			var sb strings.Builder
			for _, x := range v {
				sb.WriteString(kName[x])
			}
			return sb.String()
		}

		// depth <= 2: full typecheck from scratch, sequentially cheap enough; parallel by tree
		enum.Parallel(n2, func(i int) {
			t := trees[i]
			for k := 0; k < 27; k++ {
				refVec[i][k] = t.ref(c11Asg[k])
			}
			p, rej := lab.typecheck(t.logical())
			if rej != "" {
				rejected[i] = true
				atomic.AddInt64(&rejCount, 1)
				return
			}
			phys[i] = p
			e, err, pan := lab.materialize(p)
			if err != nil || pan != nil {
				r.Violation("C11/tree/materialize-failed", fmt.Sprintf("%s typechecks but cannot be materialized: %v %v", t, err, pan), c11Case{Part: "tree", Expr: t.String()})
				rejected[i] = true
				return
			}
			var local [3]int64
			vec, ok := judge("tree", t, e, &refVec[i], &local)
			for x := range local {
				atomic.AddInt64(&resCount[x], local[x])
			}
			atomic.AddInt64(&treeCount, 1)
			r.Eval(27)
			distinct := false
			for k := 1; k < 27; k++ {
				if refVec[i][k] != refVec[i][0] {
					distinct = true
				}
			}
			if t.hasBinary() && distinct {
				r.Nontrivial("tree " + t.String())
				atomic.AddInt64(&nonconst, 1)
				if ok && i%1777 == 5 {
					r.Sample(c11Case{Part: "tree", Expr: t.String(), Vector: vecStr(vec) + " (assignments in order a,b,c over T,F,N; c fastest)"})
				}
			}
			// output type soundness is C08's business; here only the declared nullability is recorded
			if p.Type.TypeID == octosql.TypeIDBoolean {
				r.Outcome("tree/declared-Boolean")
			} else {
				r.Outcome("tree/declared-Boolean|NULL")
			}
		})
		rejD2 := rejCount
		r.Extra["trees_depth_le2"] = n2
		r.Extra["trees_depth_le2_rejected_at_typecheck"] = rejD2

		// depth 3: root over two depth<=2 subtrees (at least one of depth exactly 2), and NOT over depth-2 trees
		var d3trees, d3rej, d3nonconst int64
		if depth >= 3 {
			n1 := upto[1]
			// Symmetry reduction for depth 3 only: one representative per renaming of the variables, namely the
			// trees whose variables are introduced in the order a, b, c when read left to right. (Depth <= 2 above is
			// enumerated without any reduction, so every variable index is exercised in every position there.)
			firstOcc := make([][]int, n2)
			for i := 0; i < n2; i++ {
				firstOcc[i] = trees[i].firstOcc(nil)
			}
			canonicalPair := func(i, j int) bool {
				m := 0
				for _, v := range firstOcc[i] {
					if v != m {
						return false
					}
					m++
				}
				if j < 0 {
					return true
				}
				for _, v := range firstOcc[j] {
					if v < m {
						continue
					}
					if v != m {
						return false
					}
					m++
				}
				return true
			}
			var d3skippedSym int64
			oldGC := debug.SetGCPercent(800) // garbage here is tiny short-lived expression nodes; fewer GC cycles
			defer debug.SetGCPercent(oldGC)
			enum.Parallel(n2, func(i int) {
				if r.TimeUp() {
					return
				}
				if !canonicalPair(i, -1) {
					n := int64(2 * n2)
					if i < n1 {
						n = int64(2 * (n2 - n1))
					} else {
						n++
					}
					atomic.AddInt64(&d3skippedSym, n)
					return
				}
				var local [3]int64
				var lt, lrej, lnc, lsym int64
				check := func(t *c11Tree, le logical.Expression, ref *[27]byte) {
					p, rej := lab.typecheck(le)
					if rej != "" {
						lrej++
						return
					}
					e, err, pan := lab.materialize(p)
					if err != nil || pan != nil {
						r.Violation("C11/tree/materialize-failed", fmt.Sprintf("%s typechecks but cannot be materialized: %v %v", t, err, pan), c11Case{Part: "tree", Expr: t.String()})
						return
					}
					judge("tree", t, e, ref, &local)
					lt++
					for k := 1; k < 27; k++ {
						if ref[k] != ref[0] {
							lnc++
							break
						}
					}
				}
				li := trees[i]
				if i >= n1 { // NOT over a tree of depth exactly 2
					if rejected[i] {
						lrej++
					} else {
						var ref [27]byte
						for k := range ref {
							ref[k] = kNot(refVec[i][k])
						}
						check(&c11Tree{op: 'N', l: li}, logical.NewFunctionExpression("not", []logical.Expression{c11Pre{phys[i]}}), &ref)
					}
				}
				for j := 0; j < n2; j++ {
					if i < n1 && j < n1 {
						continue
					}
					if !canonicalPair(i, j) {
						lsym += 2
						continue
					}
					if rejected[i] || rejected[j] {
						lrej += 2 // the real typechecker recurses into the rejected subtree and panics there
						continue
					}
					rj := trees[j]
					var refA, refO [27]byte
					for k := 0; k < 27; k++ {
						refA[k] = kAnd(refVec[i][k], refVec[j][k])
						refO[k] = kOr(refVec[i][k], refVec[j][k])
					}
					check(&c11Tree{op: 'A', l: li, r: rj}, logical.NewAnd(c11Pre{phys[i]}, c11Pre{phys[j]}), &refA)
					check(&c11Tree{op: 'O', l: li, r: rj}, logical.NewOr(c11Pre{phys[i]}, c11Pre{phys[j]}), &refO)
				}
				for x := range local {
					atomic.AddInt64(&resCount[x], local[x])
				}
				atomic.AddInt64(&d3trees, lt)
				atomic.AddInt64(&d3rej, lrej)
				atomic.AddInt64(&d3nonconst, lnc)
				atomic.AddInt64(&d3skippedSym, lsym)
				r.Eval(27 * lt)
			})
			r.Extra["trees_depth3_skipped_as_variable_renamings"] = d3skippedSym
			r.Extra["trees_depth3_evaluated"] = d3trees
			r.Extra["trees_depth3_rejected_at_typecheck"] = d3rej
			r.Extra["trees_depth3_nonconstant"] = d3nonconst
		}
		r.Reject(rejD2 + d3rej)

		// ------------------------------------------------ (a3) ternary AND / OR (optimizer-shaped nodes)
		{
			leaves := trees[:6]
			leafPhys := phys[:6]
			enum.Product([]int{6, 6, 6}, func(idx []int) bool {
				for _, op := range []byte{'A', 'O'} {
					args := []physical.Expression{leafPhys[idx[0]], leafPhys[idx[1]], leafPhys[idx[2]]}
					var p physical.Expression
					if op == 'A' {
						p = physical.Expression{Type: c11BoolNull, ExpressionType: physical.ExpressionTypeAnd, And: &physical.And{Arguments: args}}
					} else {
						p = physical.Expression{Type: c11BoolNull, ExpressionType: physical.ExpressionTypeOr, Or: &physical.Or{Arguments: args}}
					}
					e, err, pan := lab.materialize(p)
					if err != nil || pan != nil {
						r.Violation("C11/nary/materialize-failed", fmt.Sprintf("ternary %c node cannot be materialized: %v %v", op, err, pan), nil)
						continue
					}
					name := map[byte]string{'A': "AND", 'O': "OR"}[op]
					expr := fmt.Sprintf("%s(%s, %s, %s)", name, leaves[idx[0]], leaves[idx[1]], leaves[idx[2]])
					for k := 0; k < 27; k++ {
						x, y, z := leaves[idx[0]].ref(c11Asg[k]), leaves[idx[1]].ref(c11Asg[k]), leaves[idx[2]].ref(c11Asg[k])
						want := kAnd(kAnd(x, y), z)
						if op == 'O' {
							want = kOr(kOr(x, y), z)
						}
						v, err, pan := c11Eval(e, ctxs[k])
						r.Eval(1)
						got := "panic"
						if pan == nil && err != nil {
							got = "error"
						} else if pan == nil {
							g := kOf(v)
							if g == want {
								atomic.AddInt64(&resCount[g], 1)
								continue
							}
							got = "non-boolean"
							if g < 3 {
								got = kName[g]
							}
						}
						r.Violation(fmt.Sprintf("C11/nary/%s/%s-instead-of-%s", strings.ToLower(name), got, kName[want]),
							fmt.Sprintf("%s under %s evaluates to %s, Kleene logic says %s", expr, c11AsgStr(c11Asg[k]), got, kName[want]),
							c11Case{Part: "nary", Expr: expr, Assign: c11AsgStr(c11Asg[k]), Got: got, Want: kName[want]})
					}
				}
				return true
			})
			r.Outcome("nary/evaluated")
		}
		r.Sum("result_TRUE", resCount[kT])
		r.Sum("result_FALSE", resCount[kF])
		r.Sum("result_NULL", resCount[kN])
		for x, n := range resCount {
			if n > 0 {
				r.Outcome("result/" + kName[x])
			}
		}

		// ------------------------------------------------ (b) strict descriptors
		c11Strict(r, fns)

		// ------------------------------------------------ (c) IS [NOT] NULL
		c11IsNull(r, fns)

		// ------------------------------------------------ (d) Filter keeps exactly the TRUE rows
		{
			var rows []stream.Ev
			for k := 0; k < 27; k++ {
				a := c11Asg[k]
				rows = append(rows, stream.R(0, kVal(a[0]), kVal(a[1]), kVal(a[2])))
			}
			var kept [28]int64
			enum.Parallel(n2, func(i int) {
				if rejected[i] {
					return
				}
				t := trees[i]
				e, err, pan := lab.materialize(phys[i])
				if err != nil || pan != nil {
					return // reported in (a)
				}
				log, rerr, rpan := stream.RunSingle(func(src execution.Node) execution.Node { return nodes.NewFilter(src, e) }, rows)
				r.Eval(1)
				var want, got []string
				for k := 0; k < 27; k++ {
					if refVec[i][k] == kT {
						want = append(want, rows[k].String())
					}
				}
				for _, o := range log {
					if !o.WM {
						got = append(got, o.String())
					}
				}
				cs := c11Case{Part: "filter", Expr: t.String(), Got: strings.Join(got, " "), Want: strings.Join(want, " ")}
				switch {
				case rpan != nil:
					r.Violation("C11/filter/panic", fmt.Sprintf("Filter(%s) over the 27-row table panics: %v", t, rpan), cs)
				case rerr != nil:
					r.Violation("C11/filter/error", fmt.Sprintf("Filter(%s) over the 27-row table fails: %v", t, rerr), cs)
				case strings.Join(got, " ") != strings.Join(want, " "):
					// classify by the predicate value of the first row treated wrongly
					cls := "order-or-duplicate"
					gs := map[string]bool{}
					for _, g := range got {
						gs[g] = true
					}
					for k := 0; k < 27; k++ {
						isT := refVec[i][k] == kT
						if gs[rows[k].String()] != isT {
							if isT {
								cls = "drops-row-with-predicate-T"
							} else {
								cls = "keeps-row-with-predicate-" + kName[refVec[i][k]]
							}
							break
						}
					}
					r.Violation("C11/filter/"+cls, fmt.Sprintf("Filter(%s) over the 27-row table keeps [%s], the rows whose predicate is TRUE are [%s]", t, cs.Got, cs.Want), cs)
				default:
					atomic.AddInt64(&kept[len(got)], 1)
					switch n := len(got); {
					case n == 0:
						r.Outcome("filter/kept=0")
					case n == 27:
						r.Outcome("filter/kept=27(all)")
					case n <= 9:
						r.Outcome("filter/kept=1..9")
					case n <= 18:
						r.Outcome("filter/kept=10..18")
					default:
						r.Outcome("filter/kept=19..26")
					}
					if len(got) > 0 && len(got) < 27 {
						r.Nontrivial("filter " + t.String())
						if i%2999 == 7 {
							r.Sample(cs)
						}
					}
				}
			})
			keptHist := map[string]int64{}
			for n, c := range kept {
				if c > 0 {
					keptHist[fmt.Sprint(n)] = c
				}
			}
			r.Extra["filter_predicates_by_rows_kept"] = keptHist
		}

		r.Bound = map[string]interface{}{"tree_depth": depth, "variables": 3, "assignments": 27, "leaves": c11LeafNames,
			"filter_predicates": "all accepted trees of depth<=2", "value_kinds": 9}
	})
}

// c11Strict: part (b).
func c11Strict(r *findings.Run, fns map[string]physical.FunctionDetails) {
	targets, nStrict := c11StrictTargets(fns)
	r.Extra["strict_descriptors"] = nStrict
	r.Extra["strict_descriptor_x_argtypes"] = len(targets)
	covered := map[string]bool{}
	for _, t := range targets {
		covered[fmt.Sprintf("%s#%d", t.fn, t.di)] = true
	}
	r.Extra["strict_descriptors_covered"] = len(covered)
	var rej int64
	enum.Parallel(len(targets), func(ti int) {
		t := targets[ti]
		n := len(t.kinds)
		if n == 0 {
			r.Outcome("strict/no-arguments")
			return
		}
		fields := make([]physical.SchemaField, n)
		lvars := make([]logical.Expression, n)
		pvars := make([]physical.Expression, n)
		for i, k := range t.kinds {
			name := fmt.Sprintf("v%d", i)
			ty := octosql.TypeSum(k.typ, octosql.Null)
			fields[i] = physical.SchemaField{Name: name, Type: ty}
			lvars[i] = logical.NewVariable(name)
			pvars[i] = physical.Expression{Type: ty, ExpressionType: physical.ExpressionTypeVariable, Variable: &physical.Variable{Name: name, IsLevel0: true}}
		}
		lab := c11NewLab(fns, fields)

		// path M: physical node built for exactly this descriptor, real Materialize
		pM := physical.Expression{Type: octosql.TypeSum(t.desc.OutputType, octosql.Null), ExpressionType: physical.ExpressionTypeFunctionCall,
			FunctionCall: &physical.FunctionCall{Name: t.fn, Arguments: pvars, FunctionDescriptor: t.desc}}
		eM, errM, panM := lab.materialize(pM)
		// path T: real typechecker picks the overload
		pT, rejT := lab.typecheck(logical.NewFunctionExpression(t.fn, lvars))
		var eT execution.Expression
		if rejT == "" {
			var err error
			var pan interface{}
			eT, err, pan = lab.materialize(pT)
			if err != nil || pan != nil {
				r.Violation(fmt.Sprintf("C11/strict/%s/materialize-failed", t.sig()), fmt.Sprintf("%s with arguments typed T|NULL typechecks but cannot be materialized: %v %v", t.sig(), err, pan), c11Case{Part: "strict", Expr: t.sig()})
				eT = nil
			} else if pT.ExpressionType == physical.ExpressionTypeFunctionCall && c11FnPtr(pT.FunctionCall.FunctionDescriptor.Function) != c11FnPtr(t.desc.Function) {
				r.Outcome("strict/typechecker-picked-another-overload")
			}
		} else {
			atomic.AddInt64(&rej, 1)
			r.Outcome("strict/typecheck-rejects-nullable-arguments")
		}
		if errM != nil || panM != nil {
			r.Violation(fmt.Sprintf("C11/strict/%s/materialize-failed", t.sig()), fmt.Sprintf("%s cannot be materialized: %v %v", t.sig(), errM, panM), c11Case{Part: "strict", Expr: t.sig()})
			return
		}
		// path W: the arguments are declared as a wider union T | X | NULL (a column holding mixed kinds): the
		// typechecker accepts the call as a "maybe" match and wraps the argument in a run-time type assertion; a NULL
		// argument must still make the strict function return NULL
		var eW execution.Expression
		{
			wfields := make([]physical.SchemaField, n)
			for i, k := range t.kinds {
				other := octosql.String
				if k.typ.TypeID == octosql.TypeIDString {
					other = octosql.Int
				}
				wfields[i] = physical.SchemaField{Name: fmt.Sprintf("v%d", i), Type: octosql.TypeSum(octosql.TypeSum(k.typ, other), octosql.Null)}
			}
			labW := c11NewLab(fns, wfields)
			if pW, rejW := labW.typecheck(logical.NewFunctionExpression(t.fn, lvars)); rejW == "" {
				if e, err, pan := labW.materialize(pW); err == nil && pan == nil {
					eW = e
					r.Outcome("strict/wide-union-arguments-accepted")
				}
			} else {
				atomic.AddInt64(&rej, 1)
			}
		}

		expectNull := func(path string, e execution.Expression, vals []octosql.Value, desc string) (ok bool) {
			v, err, pan := c11Eval(e, c11Ctx(vals))
			r.Eval(1)
			got := ""
			switch {
			case pan != nil:
				got = fmt.Sprintf("panic: %v", pan)
			case err != nil && path == "typecheck-wide-union":
				// with a wide union the typechecker may pick another overload and the run-time type assertion of a
				// non-NULL argument fails: a reported error, by design, not a wrong value
				r.Outcome("strict/wide-union/type-assertion-error")
				return true
			case err != nil:
				got = fmt.Sprintf("error: %v", err)
			case v.TypeID != octosql.TypeIDNull:
				got = v.String()
			default:
				return true
			}
			cls := "returns-non-null"
			if pan != nil {
				cls = "panic"
			} else if err != nil {
				cls = "error"
			}
			r.Violation(fmt.Sprintf("C11/strict/%s/%s/%s", t.sig(), path, cls),
				fmt.Sprintf("strict function %s called with %s gives %s, expected NULL", t.sig(), desc, got),
				c11Case{Part: "strict", Expr: t.sig(), Assign: desc, Got: got, Want: "NULL", Path: path})
			return false
		}

		for mask := 1; mask < 1<<n; mask++ {
			vals := make([]octosql.Value, n)
			var ds []string
			for i, k := range t.kinds {
				if mask&(1<<i) != 0 {
					vals[i] = octosql.NewNull()
					ds = append(ds, "NULL")
				} else {
					vals[i] = k.val
					ds = append(ds, k.val.String())
				}
			}
			desc := "(" + strings.Join(ds, ", ") + ")"
			r.Nontrivial(fmt.Sprintf("strict %s#%d %s", t.sig(), t.di, desc))
			// one report per root cause: the typechecker paths are only judged when the plain Materialize path is right
			if !expectNull("materialize", eM, vals, desc) {
				continue
			}
			if eT != nil && !expectNull("typecheck", eT, vals, desc) {
				continue
			}
			if eW != nil && !expectNull("typecheck-wide-union", eW, vals, desc+" with arguments declared T | X | NULL") {
				continue
			}

			// literal NULL constants at the masked positions (type NULL instead of T|NULL)
			largs := make([]logical.Expression, n)
			for i := range largs {
				if mask&(1<<i) != 0 {
					largs[i] = logical.NewConstant(octosql.NewNull())
				} else {
					largs[i] = lvars[i]
				}
			}
			pL, rejL := lab.typecheck(logical.NewFunctionExpression(t.fn, largs))
			if rejL != "" {
				atomic.AddInt64(&rej, 1)
				continue
			}
			eL, err, pan := lab.materialize(pL)
			if err != nil || pan != nil {
				r.Violation(fmt.Sprintf("C11/strict/%s/literal-null/materialize-failed", t.sig()), fmt.Sprintf("%s with literal NULL %s typechecks but cannot be materialized: %v %v", t.sig(), desc, err, pan), c11Case{Part: "strict", Expr: t.sig(), Assign: desc})
				continue
			}
			r.Outcome("strict/literal-NULL-accepted")
			if !expectNull("literal-null", eL, vals, desc+" with literal NULL") {
				continue
			}
			// one level up: the NULL result of the call is itself the argument of a strict function (x = x), once with the
			// nullable variables and once with the literal NULLs: the outer call must see a nullable argument type
			for ni, inner := range []logical.Expression{logical.NewFunctionExpression(t.fn, lvars), logical.NewFunctionExpression(t.fn, largs)} {
				pN, rejN := lab.typecheck(logical.NewFunctionExpression("=", []logical.Expression{inner, inner}))
				if rejN != "" {
					continue
				}
				eN, err, pan := lab.materialize(pN)
				if err != nil || pan != nil {
					continue
				}
				r.Outcome("strict/nested-in-equality")
				expectNull([]string{"nested-in-equality", "nested-in-equality/literal-null"}[ni], eN, vals, desc+" as both sides of an outer =")
			}
		}
		r.Outcome("strict/NULL-in-each-position")
	})
	r.Reject(rej)
}

// c11IsNull: part (c).
func c11IsNull(r *findings.Run, fns map[string]physical.FunctionDetails) {
	kinds := c11Kinds()
	type vcase struct {
		name string
		val  octosql.Value
		typs []octosql.Type // declared types to try for a variable holding val
	}
	intT := octosql.Int
	listOfNullable := octosql.TypeSum(octosql.Int, octosql.Null)
	var cases []vcase
	cases = append(cases, vcase{"NULL", octosql.NewNull(), []octosql.Type{octosql.Null, octosql.TypeSum(octosql.Int, octosql.Null), octosql.TypeSum(octosql.TypeSum(octosql.Int, octosql.String), octosql.Null), octosql.Any}})
	for _, k := range kinds {
		cases = append(cases, vcase{k.name, k.val, []octosql.Type{k.typ, octosql.TypeSum(k.typ, octosql.Null), octosql.Any}})
	}
	// edge representatives of non-NULL values that look empty
	cases = append(cases,
		vcase{"Int zero", octosql.NewInt(0), []octosql.Type{octosql.Int, octosql.TypeSum(octosql.Int, octosql.Null)}},
		vcase{"Boolean false", octosql.NewBoolean(false), []octosql.Type{octosql.Boolean, c11BoolNull}},
		vcase{"empty String", octosql.NewString(""), []octosql.Type{octosql.String, octosql.TypeSum(octosql.String, octosql.Null)}},
		vcase{"zero Time", octosql.NewTime(time.Time{}), []octosql.Type{octosql.Time, octosql.TypeSum(octosql.Time, octosql.Null)}},
		vcase{"zero Duration", octosql.NewDuration(0), []octosql.Type{octosql.Duration}},
		vcase{"empty List", octosql.NewList(nil), []octosql.Type{{TypeID: octosql.TypeIDList, List: struct{ Element *octosql.Type }{Element: &intT}}, {TypeID: octosql.TypeIDList}}},
		vcase{"List of NULL", octosql.NewList([]octosql.Value{octosql.NewNull()}), []octosql.Type{{TypeID: octosql.TypeIDList, List: struct{ Element *octosql.Type }{Element: &listOfNullable}}}},
		vcase{"Object with NULL field", octosql.NewStruct([]octosql.Value{octosql.NewNull()}), []octosql.Type{{TypeID: octosql.TypeIDStruct, Struct: struct{ Fields []octosql.StructField }{Fields: []octosql.StructField{{Name: "x", Type: listOfNullable}}}}}},
	)
	for _, fn := range []string{"is null", "is not null"} {
		if _, ok := fns[fn]; !ok {
			r.Violation("C11/isnull/"+strings.ReplaceAll(fn, " ", "-")+"/missing", "function "+fn+" is not in FunctionMap()", nil)
			continue
		}
		for _, c := range cases {
			want := c.val.TypeID == octosql.TypeIDNull
			if fn == "is not null" {
				want = !want
			}
			judge := func(how string, lab *c11Lab, le logical.Expression, vals []octosql.Value) {
				expr := fmt.Sprintf("%s %s [%s]", c.name, strings.ToUpper(fn), how)
				p, rej := lab.typecheck(le)
				if rej != "" {
					r.Reject(1)
					r.Outcome("isnull/typecheck-rejected")
					return
				}
				e, err, pan := lab.materialize(p)
				if err != nil || pan != nil {
					r.Violation("C11/isnull/materialize-failed", fmt.Sprintf("%s cannot be materialized: %v %v", expr, err, pan), c11Case{Part: "isnull", Expr: expr})
					return
				}
				v, err, pan := c11Eval(e, c11Ctx(vals))
				r.Eval(1)
				r.Nontrivial("isnull " + expr)
				got := ""
				switch {
				case pan != nil:
					got = fmt.Sprintf("panic: %v", pan)
				case err != nil:
					got = fmt.Sprintf("error: %v", err)
				case v.TypeID != octosql.TypeIDBoolean:
					got = v.String()
				case v.Boolean != want:
					got = v.String()
				default:
					r.Outcome(fmt.Sprintf("isnull/%v", v.Boolean))
					if c.name == "List of NULL" && how == "variable typed [NULL | Int]" {
						r.Sample(c11Case{Part: "isnull", Expr: expr, Got: v.String(), Want: fmt.Sprint(want)})
					}
					return
				}
				cls := "wrong-boolean"
				if v.TypeID == octosql.TypeIDNull && err == nil && pan == nil {
					cls = "returns-NULL"
				} else if pan != nil {
					cls = "panic"
				} else if err != nil {
					cls = "error"
				}
				r.Violation(fmt.Sprintf("C11/isnull/%s(%s)/%s", strings.ReplaceAll(fn, " ", "-"), strings.ReplaceAll(c.name, " ", "-"), cls),
					fmt.Sprintf("%s gives %s, expected %v", expr, got, want), c11Case{Part: "isnull", Expr: expr, Got: got, Want: fmt.Sprint(want)})
			}
			for _, ty := range c.typs {
				lab := c11NewLab(fns, []physical.SchemaField{{Name: "v", Type: ty}})
				judge("variable typed "+ty.String(), lab, logical.NewFunctionExpression(fn, []logical.Expression{logical.NewVariable("v")}), []octosql.Value{c.val})
			}
			lab := c11NewLab(fns, nil)
			judge("constant", lab, logical.NewFunctionExpression(fn, []logical.Expression{logical.NewConstant(c.val)}), nil)
		}
	}
	// IS-tests on the result of a NULL-producing expression: (a AND b) IS NULL over the 27 assignments never NULL
	lab := c11NewLab(fns, c11BoolFields())
	for _, fn := range []string{"is null", "is not null"} {
		le := logical.NewFunctionExpression(fn, []logical.Expression{logical.NewAnd(logical.NewVariable("a"), logical.NewOr(logical.NewVariable("b"), logical.NewVariable("c")))})
		p, rej := lab.typecheck(le)
		if rej != "" {
			r.Reject(1)
			continue
		}
		e, err, pan := lab.materialize(p)
		if err != nil || pan != nil {
			continue
		}
		for k := 0; k < 27; k++ {
			a := c11Asg[k]
			inner := kAnd(a[0], kOr(a[1], a[2]))
			want := inner == kN
			if fn == "is not null" {
				want = !want
			}
			v, err, pan := c11Eval(e, c11Ctx([]octosql.Value{kVal(a[0]), kVal(a[1]), kVal(a[2])}))
			r.Eval(1)
			if pan != nil || err != nil || v.TypeID != octosql.TypeIDBoolean || v.Boolean != want {
				r.Violation("C11/isnull/"+strings.ReplaceAll(fn, " ", "-")+"(expression)/wrong", fmt.Sprintf("(a AND (b OR c)) %s under %s gives %v %v %v, expected %v", strings.ToUpper(fn), c11AsgStr(a), v, err, pan, want), nil)
			}
		}
	}
}
