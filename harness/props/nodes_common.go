package props

import (
	"fmt"
	"sort"

	"github.com/cube2222/octosql/aggregates"
	"github.com/cube2222/octosql/execution"
	"github.com/cube2222/octosql/execution/nodes"
	"github.com/cube2222/octosql/octosql"

	"verif/harness/internal/stream"
)

// exprFn lets the harness supply expressions without going through the planner.
type exprFn func(ctx execution.ExecutionContext) (octosql.Value, error)

func (f exprFn) Evaluate(ctx execution.ExecutionContext) (octosql.Value, error) { return f(ctx) }

func col(i int) execution.Expression { return execution.NewVariable(0, i) }

func constInt(n int64) execution.Expression { return execution.NewConstant(octosql.NewInt(n)) }

// crow: one distinct row of a consolidated input with its net count.
type crow struct {
	vals []octosql.Value
	n    int
}

func consRows(evs []stream.Ev) []crow {
	cnt := map[string]int{}
	rows := map[string][]octosql.Value{}
	for _, e := range evs {
		if e.Kind != stream.Rec {
			continue
		}
		k := stream.ValsKey(e.Vals)
		rows[k] = e.Vals
		if e.Retract {
			cnt[k]--
		} else {
			cnt[k]++
		}
	}
	keys := make([]string, 0, len(cnt))
	for k := range cnt {
		keys = append(keys, k)
	}
	sort.Strings(keys)
	var out []crow
	for _, k := range keys {
		if cnt[k] != 0 {
			out = append(out, crow{rows[k], cnt[k]})
		}
	}
	return out
}

// nodeSpec: one single-input operator with its batch reference.
type nodeSpec struct {
	name  string
	build func(src execution.Node) execution.Node
	// batch: expected consolidated output (by values) for a consolidated input
	batch func(rows []crow) stream.Bag
	// forwardsWatermarks: whether the node is expected to forward watermarks at all
	retractionsOK bool
	listInput     bool
}

func isOne(v octosql.Value) bool { return v.TypeID == octosql.TypeIDInt && v.Int == 1 }

func groupRef(rows []crow) stream.Bag {
	// key col0; count(*) , count(col1), sum(col1)
	type g struct {
		key octosql.Value
		all int
		cnt int
		sum int64
	}
	gs := map[string]*g{}
	for _, r := range rows {
		k := stream.ValKey(r.vals[0])
		x, ok := gs[k]
		if !ok {
			x = &g{key: r.vals[0]}
			gs[k] = x
		}
		x.all += r.n
		if r.vals[1].TypeID != octosql.TypeIDNull {
			x.cnt += r.n
			x.sum += int64(r.n) * r.vals[1].Int
		}
	}
	out := stream.Bag{}
	for _, x := range gs {
		if x.all <= 0 {
			continue
		}
		row := []octosql.Value{x.key, octosql.NewInt(int64(x.all)), octosql.NewNull(), octosql.NewNull(), octosql.NewNull(), octosql.NewNull(), octosql.NewNull()}
		if x.cnt > 0 {
			row[2] = octosql.NewInt(int64(x.cnt))
			row[3] = octosql.NewInt(x.sum)
			// min, max, avg over the non-NULL inputs that are still present
			first := true
			var mn, mx int64
			for _, r := range rows {
				if stream.ValKey(r.vals[0]) != stream.ValKey(x.key) || r.vals[1].TypeID == octosql.TypeIDNull || r.n <= 0 {
					continue
				}
				v := r.vals[1].Int
				if first || v < mn {
					mn = v
				}
				if first || v > mx {
					mx = v
				}
				first = false
			}
			row[4], row[5] = octosql.NewInt(mn), octosql.NewInt(mx)
			row[6] = octosql.NewInt(x.sum / int64(x.cnt))
		}
		out.Add(stream.ValsKey(row), 1)
	}
	return out
}

func groupBuild(trigger func() execution.Trigger) func(src execution.Node) execution.Node {
	protos := []func() nodes.Aggregate{aggregates.NewCountPrototype(), aggregates.NewCountPrototype(), aggregates.NewSumIntPrototype(),
		aggregates.NewMinPrototype(), aggregates.NewMaxPrototype(), aggregates.NewAverageIntPrototype()}
	// count(*) is planned as count over a constant; count(col1), sum(col1), min(col1), max(col1), avg(col1)
	exprs := []execution.Expression{constInt(1), col(1), col(1), col(1), col(1), col(1)}
	keys := []execution.Expression{col(0)}
	return func(src execution.Node) execution.Node {
		if trigger == nil {
			return nodes.NewSimpleGroupBy(protos, exprs, keys, src)
		}
		return nodes.NewCustomTriggerGroupBy(protos, exprs, keys, -1, src, trigger)
	}
}

var lookupRight = [][]octosql.Value{
	{octosql.NewInt(1), octosql.NewString("x")},
	{octosql.NewInt(1), octosql.NewString("y")},
	{octosql.NewInt(2), octosql.NewString("z")},
	{octosql.NewNull(), octosql.NewString("n")},
}

func singleInputNodes() []nodeSpec {
	identity := func(rows []crow) stream.Bag {
		out := stream.Bag{}
		for _, r := range rows {
			out.Add(stream.ValsKey(r.vals), r.n)
		}
		return out
	}
	sortedLimit := func(limit int, desc bool) func(rows []crow) stream.Bag {
		return func(rows []crow) stream.Bag {
			var all [][]octosql.Value
			for _, r := range rows {
				for i := 0; i < r.n; i++ {
					all = append(all, r.vals)
				}
			}
			// order by col0 (NULL first), ties by whole row; the bag of the first n rows is only
			// well-defined when the cut does not split a tie group of different rows: handled by caller via tiesAtCut
			sort.SliceStable(all, func(i, j int) bool {
				c := all[i][0].Compare(all[j][0])
				if desc {
					c = -c
				}
				if c != 0 {
					return c < 0
				}
				return stream.ValsKey(all[i]) < stream.ValsKey(all[j])
			})
			if limit >= 0 && len(all) > limit {
				all = all[:limit]
			}
			out := stream.Bag{}
			for _, v := range all {
				out.Add(stream.ValsKey(v), 1)
			}
			return out
		}
	}
	_ = sortedLimit
	specs := []nodeSpec{
		{name: "filter(col0=1)", retractionsOK: true,
			build: func(src execution.Node) execution.Node {
				return nodes.NewFilter(src, exprFn(func(ctx execution.ExecutionContext) (octosql.Value, error) {
					v := ctx.VariableContext.Values[0]
					if v.TypeID == octosql.TypeIDNull {
						return octosql.NewNull(), nil
					}
					return octosql.NewBoolean(v.Int == 1), nil
				}))
			},
			batch: func(rows []crow) stream.Bag {
				out := stream.Bag{}
				for _, r := range rows {
					if isOne(r.vals[0]) {
						out.Add(stream.ValsKey(r.vals), r.n)
					}
				}
				return out
			}},
		{name: "map(col1,col0)", retractionsOK: true,
			build: func(src execution.Node) execution.Node {
				return nodes.NewMap(src, []execution.Expression{col(1), col(0)})
			},
			batch: func(rows []crow) stream.Bag {
				out := stream.Bag{}
				for _, r := range rows {
					out.Add(stream.ValsKey([]octosql.Value{r.vals[1], r.vals[0]}), r.n)
				}
				return out
			}},
		{name: "map(col0) non-injective", retractionsOK: true,
			build: func(src execution.Node) execution.Node {
				return nodes.NewMap(src, []execution.Expression{col(0)})
			},
			batch: func(rows []crow) stream.Bag {
				out := stream.Bag{}
				for _, r := range rows {
					out.Add(stream.ValsKey([]octosql.Value{r.vals[0]}), r.n)
				}
				return out
			}},
		{name: "distinct", retractionsOK: true,
			build: func(src execution.Node) execution.Node { return nodes.NewDistinct(src) },
			batch: func(rows []crow) stream.Bag {
				out := stream.Bag{}
				for _, r := range rows {
					if r.n > 0 {
						out.Add(stream.ValsKey(r.vals), 1)
					}
				}
				return out
			}},
		{name: "distinct over map(col0)", retractionsOK: true,
			build: func(src execution.Node) execution.Node {
				return nodes.NewDistinct(nodes.NewMap(src, []execution.Expression{col(0)}))
			},
			batch: func(rows []crow) stream.Bag {
				cnt := map[string]int{}
				for _, r := range rows {
					cnt[stream.ValKey(r.vals[0])] += r.n
				}
				out := stream.Bag{}
				for k, n := range cnt {
					if n > 0 {
						out.Add(k, 1)
					}
				}
				return out
			}},
		{name: "simple_group_by", retractionsOK: true, build: groupBuild(nil), batch: groupRef},
		{name: "group_by trigger counting 1", retractionsOK: true, build: groupBuild(execution.NewCountingTriggerPrototype(1)), batch: groupRef},
		{name: "group_by trigger counting 2", retractionsOK: true, build: groupBuild(execution.NewCountingTriggerPrototype(2)), batch: groupRef},
		{name: "group_by trigger end of stream", retractionsOK: true, build: groupBuild(execution.NewEndOfStreamTriggerPrototype()), batch: groupRef},
		{name: "group_by trigger counting 2 + end of stream", retractionsOK: true,
			build: groupBuild(execution.NewMultiTriggerPrototype([]func() execution.Trigger{execution.NewCountingTriggerPrototype(2), execution.NewEndOfStreamTriggerPrototype()})), batch: groupRef},
		{name: "order_by(col0)", retractionsOK: true,
			build: func(src execution.Node) execution.Node {
				return nodes.NewOrderSensitiveTransform(src, []execution.Expression{col(0)}, []int{1}, nil, false)
			},
			batch: identity},
		{name: "order_by(col0 desc)", retractionsOK: true,
			build: func(src execution.Node) execution.Node {
				return nodes.NewOrderSensitiveTransform(src, []execution.Expression{col(0)}, []int{-1}, nil, false)
			},
			batch: identity},
		{name: "event_time_buffer", retractionsOK: true,
			build: func(src execution.Node) execution.Node { return nodes.NewEventTimeBuffer(src) },
			batch: identity},
		{name: "lookup_join(static right, on l.col0=r.col0)", retractionsOK: true,
			build: func(src execution.Node) execution.Node {
				// joined side: a filter over a static table comparing with the source record (parent scope)
				joined := nodes.NewFilter(&staticSrc{rows: lookupRight}, exprFn(func(ctx execution.ExecutionContext) (octosql.Value, error) {
					r := ctx.VariableContext.Values[0]
					l := ctx.VariableContext.Parent.Values[0]
					if r.TypeID == octosql.TypeIDNull || l.TypeID == octosql.TypeIDNull {
						return octosql.NewNull(), nil
					}
					return octosql.NewBoolean(r.Int == l.Int), nil
				}))
				return nodes.NewLookupJoin(src, joined)
			},
			batch: func(rows []crow) stream.Bag {
				out := stream.Bag{}
				for _, r := range rows {
					for _, rr := range lookupRight {
						if r.vals[0].TypeID != octosql.TypeIDNull && rr[0].TypeID != octosql.TypeIDNull && r.vals[0].Int == rr[0].Int {
							out.Add(stream.ValsKey(append(append([]octosql.Value{}, r.vals...), rr...)), r.n)
						}
					}
				}
				return out
			}},
		{name: "lookup_join(changelog right, on l.col0=r.col0)", retractionsOK: true,
			build: func(src execution.Node) execution.Node {
				// joined side: a changelog, as a counting-triggered subquery produces it: every matching row is preceded
				// by a provisional row that is retracted again (+tmp, -tmp, +row)
				return nodes.NewLookupJoin(src, &flickerSrc{rows: lookupRight})
			},
			batch: func(rows []crow) stream.Bag {
				out := stream.Bag{}
				for _, r := range rows {
					for _, rr := range lookupRight {
						if r.vals[0].TypeID != octosql.TypeIDNull && rr[0].TypeID != octosql.TypeIDNull && r.vals[0].Int == rr[0].Int {
							out.Add(stream.ValsKey(append(append([]octosql.Value{}, r.vals...), rr...)), r.n)
						}
					}
				}
				return out
			}},
		{name: "unnest(col1)", retractionsOK: true, listInput: true,
			build: func(src execution.Node) execution.Node { return nodes.NewUnnest(src, 1) },
			batch: func(rows []crow) stream.Bag {
				out := stream.Bag{}
				for _, r := range rows {
					for _, el := range r.vals[1].List {
						out.Add(stream.ValsKey([]octosql.Value{r.vals[0], el}), r.n)
					}
				}
				return out
			}},
	}
	return specs
}

// staticSrc: a re-runnable source of fixed rows (zero event times, no watermarks).
type staticSrc struct{ rows [][]octosql.Value }

func (s *staticSrc) Run(ctx execution.ExecutionContext, produce execution.ProduceFn, metaSend execution.MetaSendFn) error {
	for _, row := range s.rows {
		if err := produce(execution.ProduceFromExecutionContext(ctx), execution.NewRecord(row, false, stream.T(0))); err != nil {
			return err
		}
	}
	return nil
}

// flickerSrc: the joined side of a lookup join as a changelog. For the source record in scope it emits, per matching
// row, a provisional row, its retraction and then the row itself.
type flickerSrc struct{ rows [][]octosql.Value }

func (s *flickerSrc) Run(ctx execution.ExecutionContext, produce execution.ProduceFn, metaSend execution.MetaSendFn) error {
	l := ctx.VariableContext.Values[0]
	for _, row := range s.rows {
		if l.TypeID == octosql.TypeIDNull || row[0].TypeID == octosql.TypeIDNull || l.Int != row[0].Int {
			continue
		}
		tmp := []octosql.Value{row[0], octosql.NewString("provisional")}
		for _, rec := range []execution.Record{execution.NewRecord(tmp, false, stream.T(0)), execution.NewRecord(tmp, true, stream.T(0)), execution.NewRecord(row, false, stream.T(0))} {
			if err := produce(execution.ProduceFromExecutionContext(ctx), rec); err != nil {
				return err
			}
		}
	}
	return nil
}

// changelogOpts: rows {(1,1),(1,2),(2,1),(NULL,1)} as key x payload.
func changelogOpts(maxLen int, times []int, watermarks bool) stream.ScriptOpts {
	rows := [][]octosql.Value{
		{octosql.NewInt(1), octosql.NewInt(1)},
		{octosql.NewInt(1), octosql.NewInt(2)},
		{octosql.NewInt(2), octosql.NewInt(1)},
		{octosql.NewNull(), octosql.NewInt(1)},
		{octosql.NewInt(1), octosql.NewNull()}, // a NULL aggregate input that keeps its group alive
	}
	return stream.ScriptOpts{Rows: rows, Times: times, MaxLen: maxLen, Retractions: true, Watermarks: watermarks}
}

// listify: turns the payload column into a list column for unnest ([], [p], [p,p+1]).
func listify(evs []stream.Ev) []stream.Ev {
	out := make([]stream.Ev, len(evs))
	for i, e := range evs {
		out[i] = e
		if e.Kind == stream.Rec {
			p := e.Vals[1].Int
			var l []octosql.Value
			for x := int64(0); x < p; x++ {
				l = append(l, octosql.NewInt(p+x))
			}
			out[i].Vals = []octosql.Value{e.Vals[0], octosql.NewList(l)}
		}
	}
	return out
}

var _ = fmt.Sprint
