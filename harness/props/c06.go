package props

import (
	"fmt"
	"os"
	"path/filepath"
	"strings"

	"verif/harness/internal/enum"
	"verif/harness/internal/findings"
	"verif/harness/internal/runner"
)

type c06Fault struct {
	kind string // panic-expr, type-assertion, malformed-json, csv-field-count, json-line-too-long, lines-row-too-long
	n    int    // rows in the file
	pos  int    // 0-based row that fails
	src  string // SQL source fragment with alias b exposing columns k (number) and g (group)
	good string // a fault-free table with columns k, g (alias g0 in joins)
}

func c06Pos(n, first int) []int {
	if n-first <= 1 {
		return []int{first}
	}
	m := map[int]bool{first: true, (first + n - 1) / 2: true, n - 1: true}
	var out []int
	for p := range m {
		out = append(out, p)
	}
	return out
}

func c06Faults(dir string, thorough bool) []c06Fault {
	w := func(name, content string) string {
		p := filepath.Join(dir, name)
		if err := os.WriteFile(p, []byte(content), 0o644); err != nil {
			panic(err)
		}
		return p
	}
	var out []c06Fault
	goodJSON := func(n int) string {
		var b strings.Builder
		for i := 0; i < n; i++ {
			fmt.Fprintf(&b, "{\"k\":%d,\"g\":%d,\"m\":%d}\n", i, i%2, i)
		}
		return b.String()
	}
	good := w("good.json", goodJSON(5))
	goodCSV := w("good.csv", "k,g\n0,0\n1,1\n2,0\n")
	sizes := []int{1, 3, 70}
	if thorough {
		sizes = append(sizes, 200)
	}
	// expression faults: reachable at any row
	for _, n := range sizes {
		f := w(fmt.Sprintf("ok%d.json", n), goodJSON(n))
		for _, pos := range c06Pos(n, 0) {
			out = append(out, c06Fault{"panic-expr", n, pos,
				fmt.Sprintf("(SELECT t.k AS k, t.g AS g FROM %s t WHERE (t.k != %d.0 OR panic('boom') = 1)) b", f, pos), good})
			// type assertion: column m is Float | String, only row pos holds a string
			var b strings.Builder
			for i := 0; i < n; i++ {
				if i == pos {
					fmt.Fprintf(&b, "{\"k\":%d,\"g\":%d,\"m\":\"x\"}\n", i, i%2)
				} else {
					fmt.Fprintf(&b, "{\"k\":%d,\"g\":%d,\"m\":%d}\n", i, i%2, i)
				}
			}
			if n > 1 {
				tf := w(fmt.Sprintf("ta%d_%d.json", n, pos), b.String())
				out = append(out, c06Fault{"type-assertion", n, pos,
					fmt.Sprintf("(SELECT t.k AS k, t.g AS g FROM %s t WHERE t.m + 1.0 > -1.0) b", tf), good})
			}
		}
	}
	// input faults: only rows beyond the 100-row schema preview reach execution
	for _, n := range []int{102, 150} {
		for _, pos := range c06Pos(n, 101) {
			var jb, cb, lb strings.Builder
			cb.WriteString("k,g\n")
			for i := 0; i < n; i++ {
				if i == pos {
					fmt.Fprintf(&jb, "{\"k\":%d,\"g\":%d\n", i, i%2)
					fmt.Fprintf(&cb, "%d\n", i)
					fmt.Fprintf(&lb, "{\"k\":%d,\"g\":%d,\"pad\":\"%s\"}\n", i, i%2, strings.Repeat("x", 300))
				} else {
					fmt.Fprintf(&jb, "{\"k\":%d,\"g\":%d}\n", i, i%2)
					fmt.Fprintf(&cb, "%d,%d\n", i, i%2)
					fmt.Fprintf(&lb, "{\"k\":%d,\"g\":%d,\"pad\":\"\"}\n", i, i%2)
				}
			}
			out = append(out, c06Fault{"malformed-json", n, pos, w(fmt.Sprintf("bad%d_%d.json", n, pos), jb.String()) + " b", good})
			out = append(out, c06Fault{"csv-field-count", n, pos, w(fmt.Sprintf("bad%d_%d.csv", n, pos), cb.String()) + " b", goodCSV})
			out = append(out, c06Fault{"json-line-too-long", n, pos, w(fmt.Sprintf("long%d_%d.json", n, pos), lb.String()) + " b", good})
		}
	}
	// lines source: a row longer than the scanner's default 64 KiB token limit (no preview: any position)
	for _, n := range []int{1, 3} {
		for _, pos := range c06Pos(n, 0) {
			var b strings.Builder
			for i := 0; i < n; i++ {
				if i == pos {
					b.WriteString(strings.Repeat("y", 70000) + "\n")
				} else {
					fmt.Fprintf(&b, "row%d\n", i)
				}
			}
			f := w(fmt.Sprintf("big%d_%d.lines", n, pos), b.String())
			out = append(out, c06Fault{"lines-row-too-long", n, pos, fmt.Sprintf("(SELECT t.number AS k, t.number AS g FROM %s t) b", f), good})
		}
	}
	return out
}

// operator stacks above the failing source (alias b with columns k, g); %[1]s = source, %[2]s = fault-free table
var c06Stacks = []struct{ name, sql string }{
	{"none", "SELECT * FROM %[1]s"},
	{"where", "SELECT b.k FROM %[1]s WHERE b.k >= 0"},
	{"projection", "SELECT b.k AS x, b.g AS y FROM %[1]s"},
	{"distinct", "SELECT DISTINCT b.g FROM %[1]s"},
	{"distinct-star", "SELECT DISTINCT * FROM %[1]s"},
	{"order-by", "SELECT b.k FROM %[1]s ORDER BY b.k"},
	{"order-by-desc-2", "SELECT b.k, b.g FROM %[1]s ORDER BY b.g DESC, b.k"},
	{"group-by", "SELECT b.g, COUNT(*) AS c FROM %[1]s GROUP BY b.g"},
	{"group-by-nokey", "SELECT COUNT(*) AS c FROM %[1]s"},
	{"group-by-trigger", "SELECT b.g, COUNT(*) AS c FROM %[1]s GROUP BY b.g TRIGGER COUNTING 1000"},
	{"subquery", "SELECT s.k FROM (SELECT * FROM %[1]s) s"},
	{"join-left-side", "SELECT b.k FROM %[1]s JOIN %[2]s g0 ON b.g = g0.k"},
	{"join-right-side", "SELECT b.k FROM %[2]s g0 JOIN %[1]s ON b.g = g0.k"},
	{"left-join-left-side", "SELECT b.k FROM %[1]s LEFT JOIN %[2]s g0 ON b.g = g0.k"},
	{"left-join-right-side", "SELECT b.k FROM %[2]s g0 LEFT JOIN %[1]s ON b.g = g0.k"},
	{"lookup-join-source-side", "SELECT b.k FROM %[1]s LOOKUP JOIN %[2]s g0 ON b.g = g0.k"},
	{"lookup-join-joined-side", "SELECT b.k FROM %[2]s g0 LOOKUP JOIN %[1]s ON b.g = g0.k"},
	{"subquery-expression-in", "SELECT g0.k FROM %[2]s g0 WHERE g0.k IN (SELECT b.g FROM %[1]s)"},
	{"distinct-over-ordered-subquery", "SELECT DISTINCT s.g FROM (SELECT * FROM %[1]s ORDER BY b.k) s"},
	{"order-by-over-distinct", "SELECT s.g FROM (SELECT DISTINCT b.g FROM %[1]s) s ORDER BY s.g"},
	{"group-by-over-join", "SELECT g0.k, COUNT(*) AS c FROM %[1]s JOIN %[2]s g0 ON b.g = g0.k GROUP BY g0.k"},
	{"order-by-over-group-by", "SELECT s.g, s.c FROM (SELECT b.g, COUNT(*) AS c FROM %[1]s GROUP BY b.g) s ORDER BY s.c"},
}

func init() {
	register("C06", "fault_enumeration", func(r *findings.Run) {
		defer cleanupTables()
		dir := tablesDir()
		// scratch HOME with a small JSON line limit for the over-long-line fault
		home := filepath.Join(dir, "home")
		os.MkdirAll(filepath.Join(home, ".octosql"), 0o755)
		os.WriteFile(filepath.Join(home, ".octosql", "octosql.yml"), []byte("files:\n  json:\n    max_line_size_bytes: 256\n"), 0o644)
		pool := runner.NewPool(0, "HOME="+home)
		defer pool.Close()
		faults := c06Faults(dir, r.Thorough())
		modes := []string{"json", "csv", "batch_table", "stream_native"}
		type cs struct {
			f     c06Fault
			stack string
			sql   string
			mode  string
		}
		var cases []cs
		for _, f := range faults {
			for _, st := range c06Stacks {
				sql := fmt.Sprintf(st.sql, f.src, f.good)
				for mi, m := range modes {
					if !r.Thorough() && f.n > 3 && mi > 0 && f.pos != f.n-1 {
						continue // quick: all four modes for the small files and for the last-row position of the big ones
					}
					cases = append(cases, cs{f, st.name, sql, m})
				}
			}
		}
		r.Bound = map[string]interface{}{"fault_placements": len(faults), "operator_stacks": len(c06Stacks), "modes": modes, "cases": len(cases)}
		r.Rule = "fault menu {panic() reached only at row i, failed type assertion at row i, malformed JSON line i, CSV row i with a wrong field count, JSON line i longer than files.json.max_line_size_bytes, lines row longer than 64 KiB} x row position {first, middle, last reachable at run time; input faults sit beyond the 100-row schema preview} x file sizes x 22 operator stacks above the fault (none, WHERE, projection, DISTINCT, ORDER BY, GROUP BY (+trigger), subquery, both sides of JOIN / LEFT JOIN / LOOKUP JOIN, IN-subquery expression, depth-2 combinations) x output modes, through the real root command: the run must end with a reported error; plus, on the real join nodes, an input that fails while the join loop is a full channel buffer (10 000 messages) behind a busy consumer, and (hook H1, every interleaving, four join kinds) an input failing at every position of a script of <=2 events next to an input that is empty or sends one event; non-trivial = every case (a fault is always reachable)"
		r.Assume("LIMIT above the fault is excluded (stopping before the bad row is legitimate)", "the in-process entry point returns exactly the error that makes the binary exit non-zero; each distinct violating (fault kind, stack) is confirmed on the real binary", "a Go panic instead of an error is C07's business and is not counted here")
		c06Backlog(r) // node-level scenario: an input of a join fails while the join loop is a full buffer behind
		c06Joins(r)   // node-level, every interleaving: a failing input next to an empty / one-event input, four join kinds
		confirmed := map[string]bool{}
		enum.Parallel(len(cases), func(i int) {
			if r.TimeUp() {
				return
			}
			c := cases[i]
			res := pool.Run(sqlArgs(c.sql, c.mode, true), "")
			r.Eval(1)
			cls := res.Class()
			if cls == "error" && isTypecheckErr(res.Err) && !strings.Contains(res.Err, "couldn't create datasource") {
				r.Reject(1)
				r.Outcome("rejected/" + c.stack)
				return
			}
			r.Nontrivial(c.sql + c.mode)
			r.Outcome(c.f.kind + "/" + cls)
			if cls != "ok" {
				if i%800 == 13 {
					r.Sample(map[string]interface{}{"fault": c.f.kind, "rows": c.f.n, "failing_row": c.f.pos, "stack": c.stack, "mode": c.mode, "sql": c.sql, "error": oneLineC04(res.Err + res.Panic)})
				}
				return
			}
			// the operator stack decides which operator swallows the error; the lines source swallows its own read error
			fp := fmt.Sprintf("C06/swallowed-above:%s", c.stack)
			if c.f.kind == "lines-row-too-long" {
				fp = "C06/source-swallows-read-error/lines-row-too-long"
			}
			_ = confirmed
			// confirm on the real binary (fresh process, exit status)
			bin := runner.RunBinary(sqlArgs(c.sql, c.mode, true), nil, "HOME="+home)
			if bin.Exit != 0 || bin.Crash != "" {
				fmt.Printf("HARNESS ERROR: in-process run succeeded but the real binary failed for %s (%s)\n", c.sql, c.mode)
				panic("runner disagreement")
			}
			out := res.Out
			if len(out) > 300 {
				out = out[:300] + "..."
			}
			r.Violation(fp, fmt.Sprintf("%s [-o %s]: %s at row %d of %d is swallowed: exit 0, output %q", c.sql, c.mode, c.f.kind, c.f.pos, c.f.n, out),
				map[string]interface{}{"fault": c.f.kind, "rows": c.f.n, "failing_row": c.f.pos, "stack": c.stack, "mode": c.mode, "sql": c.sql, "args": sqlArgs(c.sql, c.mode, true), "stdout": out})
		})
	})
}
