package props

// C30: SQL formatting round-trips through the parser.
//
//	p1 = Parse(q); s = String(p1); p2 = Parse(s)  must succeed,
//	p1 == p2 structurally (reflect.DeepEqual, or the check's own reflect-based
//	structural diff which is also the classifier), String(p2) == s.
//
// Space: (1) a depth-bounded generator of the SELECT dialect with every
// OctoSQL extension of sql.y, (2) every Go string literal of the vendored
// parser's *_test.go files and every query of tests/scenarios/**/*.in, read
// from the current tree at run time, and (thorough) all their single-token
// deletions / duplications.

import (
	"fmt"
	"go/ast"
	goparser "go/parser"
	"go/token"
	"os"
	"path/filepath"
	"reflect"
	"regexp"
	"sort"
	"strconv"
	"strings"
	"sync"

	"github.com/cube2222/octosql/parser/sqlparser"

	"verif/harness/internal/enum"
	"verif/harness/internal/findings"
)

// ---------------------------------------------------------------------------
// structural diff (strict: same dynamic types, same nil-ness, same lengths,
// same scalars, unexported fields included). Returns nil when equal.

type c30Difference struct {
	Path  string `json:"path"`  // e.g. *Select.From[0].*JoinTableExpr.Strategy
	Owner string `json:"owner"` // Go type of the struct that holds the differing field
	Field string `json:"field"`
	Kind  string `json:"kind"` // dropped | added | changed | type-changed:X->Y | len-changed
	A     string `json:"in_first_tree"`
	B     string `json:"in_reparsed_tree"`
}

func c30TypeName(t reflect.Type) string {
	if t.Kind() == reflect.Ptr {
		return t.Elem().Name()
	}
	return t.Name()
}

func c30Short(v reflect.Value) string {
	var s string
	switch v.Kind() {
	case reflect.Invalid:
		s = "<nil>"
	case reflect.String:
		s = strconv.Quote(v.String())
	case reflect.Bool:
		s = fmt.Sprint(v.Bool())
	case reflect.Int, reflect.Int8, reflect.Int16, reflect.Int32, reflect.Int64:
		s = fmt.Sprint(v.Int())
	case reflect.Slice:
		if v.IsNil() {
			s = "nil"
		} else if v.Type().Elem().Kind() == reflect.Uint8 {
			s = strconv.Quote(string(c30Bytes(v)))
		} else {
			s = fmt.Sprintf("%s(len %d)", v.Type().String(), v.Len())
		}
	case reflect.Ptr, reflect.Interface:
		if v.IsNil() {
			s = "nil"
		} else {
			s = c30Short(v.Elem())
		}
	case reflect.Struct:
		if v.CanInterface() {
			if n, ok := v.Interface().(sqlparser.SQLNode); ok {
				s = v.Type().Name() + "{" + c30SafeString(n) + "}"
				break
			}
			if v.CanAddr() {
				if n, ok := v.Addr().Interface().(sqlparser.SQLNode); ok {
					s = v.Type().Name() + "{" + c30SafeString(n) + "}"
					break
				}
			}
		}
		s = v.Type().Name() + "{...}"
	default:
		s = v.Kind().String()
	}
	if len(s) > 120 {
		s = s[:120] + "..."
	}
	return s
}

func c30SafeString(n sqlparser.SQLNode) (s string) {
	defer func() {
		if p := recover(); p != nil {
			s = fmt.Sprintf("<String panics: %v>", p)
		}
	}()
	return sqlparser.String(n)
}

func c30Bytes(v reflect.Value) []byte {
	out := make([]byte, v.Len())
	for i := range out {
		out[i] = byte(v.Index(i).Uint())
	}
	return out
}

func c30IsZeroish(v reflect.Value) bool {
	switch v.Kind() {
	case reflect.Invalid:
		return true
	case reflect.Ptr, reflect.Interface:
		return v.IsNil()
	case reflect.Slice:
		return v.Len() == 0
	case reflect.String:
		return v.String() == ""
	}
	return false
}

// c30DirectionIrrelevant: the printer deliberately omits ASC/DESC after ORDER BY NULL and ORDER BY rand()
// (Order.Format); sorting by a constant or by a random key does not depend on the direction.
func c30DirectionIrrelevant(order reflect.Value) bool {
	if !order.CanInterface() {
		return false
	}
	o, ok := order.Interface().(sqlparser.Order)
	if !ok {
		return false
	}
	switch e := o.Expr.(type) {
	case *sqlparser.NullVal:
		return true
	case *sqlparser.FuncExpr:
		return e.Name.Lowered() == "rand"
	}
	return false
}

func c30Diff(a, b reflect.Value, path, owner, field string, rules *int) *c30Difference {
	mk := func(kind string) *c30Difference {
		return &c30Difference{Path: path, Owner: owner, Field: field, Kind: kind, A: c30Short(a), B: c30Short(b)}
	}
	presence := func() string {
		switch {
		case c30IsZeroish(b) && !c30IsZeroish(a):
			return "dropped"
		case c30IsZeroish(a) && !c30IsZeroish(b):
			return "added"
		}
		return "changed"
	}
	if a.IsValid() != b.IsValid() {
		return mk(presence())
	}
	if !a.IsValid() {
		return nil
	}
	if a.Type() != b.Type() {
		return mk("type-changed:" + c30TypeName(a.Type()) + "->" + c30TypeName(b.Type()))
	}
	switch a.Kind() {
	case reflect.Interface:
		if a.IsNil() || b.IsNil() {
			if a.IsNil() && b.IsNil() {
				return nil
			}
			return mk(presence())
		}
		ae, be := a.Elem(), b.Elem()
		if ae.Type() != be.Type() {
			return mk("type-changed:" + c30TypeName(ae.Type()) + "->" + c30TypeName(be.Type()))
		}
		return c30Diff(ae, be, path, owner, field, rules)
	case reflect.Ptr:
		if a.IsNil() || b.IsNil() {
			if a.IsNil() && b.IsNil() {
				return nil
			}
			return mk(presence())
		}
		return c30Diff(a.Elem(), b.Elem(), path+".*"+a.Type().Elem().Name(), owner, field, rules)
	case reflect.Struct:
		t := a.Type()
		for i := 0; i < t.NumField(); i++ {
			f := t.Field(i)
			if f.Name == "_" {
				continue
			}
			if t.Name() == "Order" && f.Name == "Direction" && c30DirectionIrrelevant(a) && c30DirectionIrrelevant(b) {
				if a.Field(i).String() != b.Field(i).String() {
					*rules++
				}
				continue
			}
			if d := c30Diff(a.Field(i), b.Field(i), path+"."+f.Name, t.Name(), f.Name, rules); d != nil {
				return d
			}
		}
		return nil
	case reflect.Slice:
		if a.IsNil() != b.IsNil() {
			if a.Len() == 0 && b.Len() == 0 {
				return mk("nil-vs-empty")
			}
			return mk(presence())
		}
		if a.Type().Elem().Kind() == reflect.Uint8 {
			if string(c30Bytes(a)) != string(c30Bytes(b)) {
				return mk(presence())
			}
			return nil
		}
		if a.Len() != b.Len() {
			if k := presence(); k != "changed" {
				return mk(k)
			}
			return mk("len-changed")
		}
		// a named slice type that is itself a node owns its elements
		eo, ef := owner, field
		if a.Type().Name() != "" && owner == "" {
			eo, ef = a.Type().Name(), "[]"
		}
		for i := 0; i < a.Len(); i++ {
			if d := c30Diff(a.Index(i), b.Index(i), fmt.Sprintf("%s[%d]", path, i), eo, ef, rules); d != nil {
				return d
			}
		}
		return nil
	case reflect.Array:
		for i := 0; i < a.Len(); i++ {
			if d := c30Diff(a.Index(i), b.Index(i), fmt.Sprintf("%s[%d]", path, i), owner, field, rules); d != nil {
				return d
			}
		}
		return nil
	case reflect.String:
		if a.String() != b.String() {
			return mk(presence())
		}
		return nil
	case reflect.Bool:
		if a.Bool() != b.Bool() {
			return mk("changed")
		}
		return nil
	case reflect.Int, reflect.Int8, reflect.Int16, reflect.Int32, reflect.Int64:
		if a.Int() != b.Int() {
			return mk("changed")
		}
		return nil
	case reflect.Uint, reflect.Uint8, reflect.Uint16, reflect.Uint32, reflect.Uint64:
		if a.Uint() != b.Uint() {
			return mk("changed")
		}
		return nil
	case reflect.Float32, reflect.Float64:
		if a.Float() != b.Float() {
			return mk("changed")
		}
		return nil
	}
	panic("c30Diff: unhandled kind " + a.Kind().String() + " at " + path)
}

// c30DiffFingerprint: one fingerprint per (owning Go type, field, relation).
func c30DiffFingerprint(d *c30Difference) string {
	kind := d.Kind
	// a join strategy is reset to the parser's default ("undefined") when it is not printed
	if d.Owner == "JoinTableExpr" && d.Field == "Strategy" && d.B == strconv.Quote(sqlparser.UndefinedJoinStrategy) {
		kind = "dropped"
	}
	owner := d.Owner
	if owner == "" {
		owner = "root"
	}
	return "C30/" + owner + "." + d.Field + "/" + kind
}

// ---------------------------------------------------------------------------
// walking the tree: extension tags and blame for unparseable / panicking output

func c30Walk(v reflect.Value, depth int, f func(v reflect.Value, depth int)) {
	switch v.Kind() {
	case reflect.Interface:
		if !v.IsNil() {
			c30Walk(v.Elem(), depth, f)
		}
	case reflect.Ptr:
		if !v.IsNil() {
			f(v, depth)
			e := v.Elem()
			if e.Kind() == reflect.Struct {
				for i := 0; i < e.NumField(); i++ {
					if e.Type().Field(i).PkgPath != "" { // unexported
						continue
					}
					c30Walk(e.Field(i), depth+1, f)
				}
			} else {
				c30Walk(e, depth+1, f)
			}
		}
	case reflect.Struct:
		f(v, depth)
		for i := 0; i < v.NumField(); i++ {
			if v.Type().Field(i).PkgPath != "" {
				continue
			}
			c30Walk(v.Field(i), depth+1, f)
		}
	case reflect.Slice:
		if v.Type().Elem().Kind() == reflect.Uint8 {
			if v.Type().Name() != "" { // ListArg
				f(v, depth)
			}
			return
		}
		if v.Type().Name() != "" && v.Len() > 0 {
			f(v, depth)
		}
		for i := 0; i < v.Len(); i++ {
			c30Walk(v.Index(i), depth+1, f)
		}
	}
}

// tags that make a statement "non-trivial" (contains an OctoSQL extension)
var c30QualifyingTags = map[string]bool{
	"WITH": true, "TVF": true, "TVF-arg:expr": true, "TVF-arg:TABLE()": true, "TVF-arg:DESCRIPTOR()": true,
	"LOOKUP-JOIN": true, "STREAM-JOIN": true, "OUTER-JOIN": true, "->": true, "->*": true, "::cast": true,
	"type:[]": true, "type:{}": true, "TRIGGER": true, "TRIGGER:COUNTING": true, "TRIGGER:ON-WATERMARK": true,
	"TRIGGER:ON-END-OF-STREAM": true, "TRIGGER:AFTER-DELAY": true, "index[]": true, "regex-op": true,
}

func c30Tags(q string, p sqlparser.Statement) []string {
	set := map[string]bool{}
	if strings.Contains(q, "::") {
		set["::cast"] = true
	}
	c30Walk(reflect.ValueOf(p), 0, func(v reflect.Value, _ int) {
		if !v.CanInterface() {
			return
		}
		switch n := v.Interface().(type) {
		case *sqlparser.With:
			set["WITH"] = true
		case *sqlparser.TableValuedFunction:
			set["TVF"] = true
		case *sqlparser.ExprTableValuedFunctionArgumentValue:
			set["TVF-arg:expr"] = true
		case *sqlparser.TableDescriptorTableValuedFunctionArgumentValue:
			set["TVF-arg:TABLE()"] = true
		case *sqlparser.FieldDescriptorTableValuedFunctionArgumentValue:
			set["TVF-arg:DESCRIPTOR()"] = true
		case *sqlparser.JoinTableExpr:
			switch n.Strategy {
			case sqlparser.LookupJoinStrategy:
				set["LOOKUP-JOIN"] = true
			case sqlparser.StreamJoinStrategy:
				set["STREAM-JOIN"] = true
			}
			if n.Join == sqlparser.OuterJoinStr {
				set["OUTER-JOIN"] = true
			}
		case *sqlparser.ObjectFieldAccess:
			set["->"] = true
		case *sqlparser.ObjectExplode:
			set["->*"] = true
		case *sqlparser.IntervalExpr:
			set["INTERVAL"] = true
		case *sqlparser.ConvertTypeList:
			set["type:[]"] = true
		case *sqlparser.ConvertTypeObject:
			set["type:{}"] = true
		case *sqlparser.Select:
			if len(n.Trigger) > 0 {
				set["TRIGGER"] = true
			}
		case *sqlparser.CountingTrigger:
			set["TRIGGER:COUNTING"] = true
		case *sqlparser.WatermarkTrigger:
			set["TRIGGER:ON-WATERMARK"] = true
		case *sqlparser.EndOfStreamTrigger:
			set["TRIGGER:ON-END-OF-STREAM"] = true
		case *sqlparser.DelayTrigger:
			set["TRIGGER:AFTER-DELAY"] = true
		case *sqlparser.BinaryExpr:
			if n.Operator == sqlparser.ArrayElement {
				set["index[]"] = true
			}
		case *sqlparser.ComparisonExpr:
			switch n.Operator {
			case sqlparser.LikeRegexpStr, sqlparser.LikeRegexpCaseInsensitiveStr, sqlparser.NotLikeRegexpStr, sqlparser.NotLikeRegexpCaseInsensitiveStr:
				set["regex-op"] = true
			}
		case sqlparser.ValTuple:
			set["tuple"] = true
		case *sqlparser.Subquery:
			set["subquery"] = true
		}
	})
	out := make([]string, 0, len(set))
	for k := range set {
		out = append(out, k)
	}
	sort.Strings(out)
	return out
}

// Identifiers that a node keeps as a plain string and prints without quoting (site = Type.Field).
// c30RawIdent returns the site and the identifier of such a node.
func c30RawIdent(n interface{}) (site, id string) {
	switch x := n.(type) {
	case *sqlparser.FuncExpr:
		return "FuncExpr.Name", x.Name.String()
	case *sqlparser.ConvertExpr:
		if t, ok := x.Type.(*sqlparser.ConvertTypeSimple); ok {
			return "ConvertTypeSimple.Name", t.Name
		}
	case *sqlparser.CollateExpr:
		return "CollateExpr.Charset", x.Charset
	case *sqlparser.ConvertUsingExpr:
		return "ConvertUsingExpr.Type", x.Type
	case *sqlparser.TimestampFuncExpr:
		return "TimestampFuncExpr.Unit", x.Unit
	case *sqlparser.IntervalExpr:
		return "IntervalExpr.Unit", x.Unit
	case *sqlparser.Default:
		return "Default.ColName", x.ColName
	}
	return "", ""
}

var c30RawIdentSites = map[string]bool{"FuncExpr.Name": true, "ConvertTypeSimple.Name": true, "CollateExpr.Charset": true, "ConvertUsingExpr.Type": true,
	"TimestampFuncExpr.Unit": true, "IntervalExpr.Unit": true, "Default.ColName": true}

// c30IdentClass says why an identifier cannot be read back when printed without quotes ("" if it can).
func c30IdentClass(id string) string {
	if id == "" {
		return ""
	}
	for i, c := range id {
		letter := c == '_' || c == '/' || c == '@' || (c >= 'a' && c <= 'z') || (c >= 'A' && c <= 'Z')
		if !letter && (i == 0 || c < '0' || c > '9') {
			return "non-identifier-characters"
		}
	}
	if _, err, pan := c30TryParse("select " + id + " from c30t"); err != nil || pan != "" {
		return "reserved-word"
	}
	return ""
}

// c30UnquotedIdentFingerprint: one fingerprint per (class, site) whether the mangled text fails to parse or parses to another tree.
func c30UnquotedIdentFingerprint(site, id string) string {
	if cl := c30IdentClass(id); site != "" && cl != "" {
		return "C30/unquoted-identifier/" + cl + "/" + site
	}
	return ""
}

func c30NodeLabel(n interface{}) string {
	name := c30TypeName(reflect.TypeOf(n))
	switch x := n.(type) {
	case *sqlparser.BinaryExpr:
		return name + ":" + x.Operator
	case *sqlparser.ComparisonExpr:
		return name + ":" + strings.ReplaceAll(x.Operator, " ", "_")
	case *sqlparser.UnaryExpr:
		return name + ":" + strings.TrimSpace(x.Operator)
	case *sqlparser.SQLVal:
		names := map[sqlparser.ValType]string{sqlparser.StrVal: "StrVal", sqlparser.IntVal: "IntVal", sqlparser.FloatVal: "FloatVal",
			sqlparser.HexNum: "HexNum", sqlparser.HexVal: "HexVal", sqlparser.ValArg: "ValArg", sqlparser.BitVal: "BitVal"}
		return name + ":" + names[x.Type]
	}
	return name
}

// c30Blame finds the deepest node of p whose own printed form (wrapped in the
// smallest statement of its syntactic category) is bad, where bad = String
// panics (wantPanic) or the text does not parse. Returns "" if none is found.
func c30Blame(p sqlparser.Statement, printed string, wantPanic bool) (label string, text string, blamed interface{}) {
	bestDepth := -1
	c30Walk(reflect.ValueOf(p), 0, func(v reflect.Value, depth int) {
		if !v.CanInterface() || depth <= bestDepth {
			return
		}
		n := v.Interface()
		var wrap func(string) string
		switch n.(type) {
		case *sqlparser.ParenSelect:
			wrap = func(s string) string { return s + " union select 1 from c30t" }
		case sqlparser.Statement:
			wrap = func(s string) string { return s }
		case sqlparser.Expr:
			wrap = func(s string) string { return "select " + s + " from c30t" }
		case sqlparser.TableExpr:
			wrap = func(s string) string { return "select 1 from " + s }
		case *sqlparser.ObjectExplode:
			wrap = func(s string) string { return "select " + s + " from c30t" }
		case sqlparser.Trigger:
			wrap = func(s string) string { return "select 1 from c30t trigger " + s }
		case sqlparser.Triggers:
			wrap = func(s string) string { return "select 1 from c30t " + s }
		case sqlparser.TableValuedFunctionArgumentValue:
			wrap = func(s string) string { return "select 1 from c30f(c30p => " + s + ") c30t" }
		case *sqlparser.CommonTableExpression:
			wrap = func(s string) string { return "with " + s + " select 1" }
		default:
			if _, ok := n.(sqlparser.SQLNode); !ok || !wantPanic {
				return
			}
		}
		node := n.(sqlparser.SQLNode)
		s, pan := c30TryString(node)
		bad := false
		if wantPanic {
			bad = pan != ""
		} else if pan == "" && strings.Contains(printed, s) {
			_, err, ppan := c30TryParse(wrap(s))
			bad = err != nil || ppan != ""
		}
		if bad {
			bestDepth = depth
			blamed = n
			label = c30NodeLabel(n)
			text = s
			if pan != "" {
				text = pan
			}
		}
	})
	return
}

func c30TryParse(q string) (st sqlparser.Statement, err error, pan string) {
	defer func() {
		if p := recover(); p != nil {
			pan = fmt.Sprint(p)
		}
	}()
	st, err = sqlparser.Parse(q)
	return
}

func c30TryString(n sqlparser.SQLNode) (s string, pan string) {
	defer func() {
		if p := recover(); p != nil {
			pan = fmt.Sprint(p)
		}
	}()
	s = sqlparser.String(n)
	return
}

// ---------------------------------------------------------------------------
// the oracle for one statement

type c30Case struct {
	Source     string         `json:"source"`
	Input      string         `json:"input"`
	Printed    string         `json:"printed,omitempty"`
	Error      string         `json:"error,omitempty"`
	Blamed     string         `json:"blamed_node,omitempty"`
	BlamedText string         `json:"blamed_node_text,omitempty"`
	Diff       *c30Difference `json:"difference,omitempty"`
	Reprinted  string         `json:"reprinted,omitempty"`
	Extensions []string       `json:"extensions,omitempty"`
}

type c30Viol struct {
	count int64
	what  string
	cs    c30Case
}

type c30Local struct {
	evals, rejected, selfCheck, skipped, normalised int64
	outcomes                                        map[string]int64
	tags                                            map[string]int64
	viol                                            map[string]*c30Viol
	examples                                        map[string]c30Case
}

// example keeps, per class, the shortest input seen (deterministic whatever the schedule)
func (loc *c30Local) example(class string, cs c30Case) {
	old, ok := loc.examples[class]
	if !ok || len(cs.Input) < len(old.Input) || (len(cs.Input) == len(old.Input) && cs.Input < old.Input) {
		loc.examples[class] = cs
	}
}

// violation: per fingerprint the shortest (then lexicographically first) input is kept as the replay case
func (loc *c30Local) violation(fp, what string, cs c30Case) {
	loc.outcomes["violation:"+fp]++
	v := loc.viol[fp]
	if v == nil {
		loc.viol[fp] = &c30Viol{count: 1, what: what, cs: cs}
		return
	}
	v.count++
	if len(cs.Input) < len(v.cs.Input) || (len(cs.Input) == len(v.cs.Input) && cs.Input < v.cs.Input) {
		v.what, v.cs = what, cs
	}
}

func c30Check(r *findings.Run, loc *c30Local, source, q string) {
	loc.evals++
	p1, err, pan := c30TryParse(q)
	if pan != "" {
		// not an accepted statement; a crash of Parse itself is C07's subject, but the task counts it here too
		loc.violation("C30/panic@Parse", fmt.Sprintf("Parse(%q) panics: %s", q, pan), c30Case{Source: source, Input: q, Error: pan})
		return
	}
	if err != nil || p1 == nil {
		loc.rejected++
		loc.outcomes["rejected"]++
		if strings.Contains(q, "=>") && len(q) > 30 {
			e := "empty statement"
			if err != nil {
				e = err.Error()
			}
			loc.example("4 rejected (counted, not judged)", c30Case{Source: source, Input: q, Error: e})
		}
		return
	}
	switch p1.(type) {
	case *sqlparser.OtherRead, *sqlparser.OtherAdmin:
		// the grammar skips to the end of such statements and keeps no syntax tree at all
		loc.skipped++
		loc.outcomes["skipped:placeholder-tree(OtherRead/OtherAdmin)"]++
		return
	}
	tags := c30Tags(q, p1)
	nontrivial := false
	for _, t := range tags {
		loc.tags[t]++
		if c30QualifyingTags[t] {
			nontrivial = true
		}
	}
	if nontrivial {
		r.Nontrivial(q)
	}
	root := c30TypeName(reflect.TypeOf(p1))
	cs := c30Case{Source: source, Input: q, Extensions: tags}

	s, pan := c30TryString(p1)
	if pan != "" {
		label, text, _ := c30Blame(p1, "", true)
		if label == "" {
			label = root
		}
		cs.Error, cs.Blamed, cs.BlamedText = pan, label, text
		fp := "C30/panic@String/" + label
		loc.violation(fp, fmt.Sprintf("input %q is accepted but String(tree) panics (%s) while formatting a %s node", q, pan, label), cs)
		return
	}
	cs.Printed = s
	p2, err2, pan2 := c30TryParse(s)
	if err2 != nil || pan2 != "" || p2 == nil {
		label, text, blamed := c30Blame(p1, s, false)
		if label == "" {
			label = root
		}
		cs.Error = pan2
		if err2 != nil {
			cs.Error = err2.Error()
		}
		cs.Blamed, cs.BlamedText = label, text
		fp := "C30/unparseable-output/" + label
		if ufp := c30UnquotedIdentFingerprint(c30RawIdent(blamed)); ufp != "" {
			fp = ufp
		}
		loc.violation(fp, fmt.Sprintf("input %q prints as %q which does not parse (%s); smallest node whose printed form is not valid syntax: %s printed as %q", q, s, cs.Error, label, text), cs)
		return
	}
	deep := reflect.DeepEqual(p1, p2)
	rules := 0
	d := c30Diff(reflect.ValueOf(p1), reflect.ValueOf(p2), "", "", "", &rules)
	if rules > 0 {
		loc.normalised++
	}
	if deep != (d == nil && rules == 0) {
		// the diff is strict, so it must agree with reflect.DeepEqual; anything else is a bug of this check
		loc.selfCheck++
	}
	if d != nil {
		cs.Diff = d
		fp := c30DiffFingerprint(d)
		if site := d.Owner + "." + d.Field; c30RawIdentSites[site] {
			if id, err := strconv.Unquote(d.A); err == nil {
				if ufp := c30UnquotedIdentFingerprint(site, id); ufp != "" {
					fp = ufp
				}
			}
		}
		loc.violation(fp, fmt.Sprintf("input %q prints as %q; re-parsing gives a different tree at %s: first tree has %s, re-parsed tree has %s (%s)", q, s, d.Path, d.A, d.B, d.Kind), cs)
		return
	}
	s2, pan3 := c30TryString(p2)
	if pan3 != "" || s2 != s {
		cs.Reprinted, cs.Error = s2, pan3
		fp := "C30/non-idempotent-print/" + root
		loc.violation(fp, fmt.Sprintf("input %q prints as %q, whose tree prints as %q (%s)", q, s, s2, pan3), cs)
		return
	}
	loc.outcomes["ok:"+root]++
	switch {
	case strings.HasPrefix(source, "scenario:") && nontrivial:
		loc.example("2 round-trips: tests/scenarios query", cs)
	case strings.HasPrefix(source, "mutation-of:") && nontrivial:
		loc.example("3 round-trips: 1-word mutation of a corpus query", cs)
	case nontrivial && len(tags) >= 4:
		loc.example("1 round-trips: generated, >=4 extension kinds", cs)
	case strings.HasPrefix(source, "go-test:") && len(q) > 40:
		loc.example("5 round-trips: string literal of a vendored *_test.go", cs)
	}
}

// ---------------------------------------------------------------------------
// corpus from the current tree

func c30RepoDir() string {
	if d := os.Getenv("REPO_DIR"); d != "" {
		return d
	}
	return "/repo"
}

type c30Stmt struct{ source, q string }

// every Go string literal (and every constant concatenation of literals) of the
// vendored parser's test files
func c30GoTestStrings() (out []c30Stmt, files []string, errs []string) {
	matches, _ := filepath.Glob(filepath.Join(c30RepoDir(), "parser", "sqlparser", "*_test.go"))
	sort.Strings(matches)
	for _, path := range matches {
		fset := token.NewFileSet()
		f, err := goparser.ParseFile(fset, path, nil, 0)
		if err != nil {
			errs = append(errs, path+": "+err.Error())
			continue
		}
		files = append(files, filepath.Base(path))
		var concat func(e ast.Expr) (string, bool)
		concat = func(e ast.Expr) (string, bool) {
			switch x := e.(type) {
			case *ast.BasicLit:
				if x.Kind != token.STRING {
					return "", false
				}
				s, err := strconv.Unquote(x.Value)
				return s, err == nil
			case *ast.ParenExpr:
				return concat(x.X)
			case *ast.BinaryExpr:
				if x.Op != token.ADD {
					return "", false
				}
				l, ok1 := concat(x.X)
				rr, ok2 := concat(x.Y)
				return l + rr, ok1 && ok2
			}
			return "", false
		}
		ast.Inspect(f, func(n ast.Node) bool {
			switch x := n.(type) {
			case *ast.ImportSpec:
				return false
			case *ast.BasicLit:
				if s, ok := concat(x); ok {
					out = append(out, c30Stmt{"go-test:" + filepath.Base(path), s})
				}
			case *ast.BinaryExpr:
				if s, ok := concat(x); ok {
					out = append(out, c30Stmt{"go-test:" + filepath.Base(path), s})
				}
			}
			return true
		})
	}
	return
}

var c30InRe = regexp.MustCompile(`(?s)octosql\s+"((?:[^"\\]|\\.)*)"`)

func c30ScenarioQueries() (out []c30Stmt, nfiles int) {
	root := filepath.Join(c30RepoDir(), "tests", "scenarios")
	var paths []string
	filepath.Walk(root, func(p string, info os.FileInfo, err error) error {
		if err == nil && !info.IsDir() && strings.HasSuffix(p, ".in") {
			paths = append(paths, p)
		}
		return nil
	})
	sort.Strings(paths)
	unesc := strings.NewReplacer(`\"`, `"`, `\\`, `\`, `\$`, `$`, "\\`", "`")
	for _, p := range paths {
		b, err := os.ReadFile(p)
		if err != nil {
			continue
		}
		nfiles++
		rel, _ := filepath.Rel(root, p)
		for _, m := range c30InRe.FindAllStringSubmatch(string(b), -1) {
			out = append(out, c30Stmt{"scenario:" + rel, unesc.Replace(m[1])})
		}
	}
	return
}

func c30Mutations(q string) []string {
	toks := strings.Fields(q)
	var out []string
	out = append(out, strings.Join(toks, " "))
	for i := range toks {
		del := append(append([]string{}, toks[:i]...), toks[i+1:]...)
		out = append(out, strings.Join(del, " "))
		dup := append(append(append([]string{}, toks[:i+1]...), toks[i]), toks[i+1:]...)
		out = append(out, strings.Join(dup, " "))
	}
	return out
}

// ---------------------------------------------------------------------------
// generator

func c30Cross(format string, lists ...[]string) []string {
	var out []string
	sizes := make([]int, len(lists))
	for i, l := range lists {
		sizes[i] = len(l)
	}
	args := make([]interface{}, len(lists))
	enum.Product(sizes, func(idx []int) bool {
		for i, j := range idx {
			args[i] = lists[i][j]
		}
		out = append(out, fmt.Sprintf(format, args...))
		return true
	})
	return out
}

func c30Each(formats []string, lists ...[]string) []string {
	var out []string
	for _, f := range formats {
		out = append(out, c30Cross(f, lists...)...)
	}
	return out
}

var (
	c30Atoms     = []string{"a", "t.a", "1", "2.5", "'x'", "true", "null"}
	c30AtomsMore = []string{"-1", "1e3", ".5", "0x1F", "x'0A'", "b'01'", "`my col`", "db.t.a", "\"q\"", "?", "false", "''", "'it''s'", `'a\nb'`, `'a\\b'`, "'a\tb'", `'a"b'`, "'a\rb'", `'a\tb'`, `'a\0b'`, `'a\Zb'`, `'a\bb'`, `'%_'`, `'\%'`, "'é'", "end", "t.`select`", "a/b", "count"}
	c30Atoms3    = []string{"a", "1", "'x'"}
	c30Atoms2    = []string{"a", "1"}

	c30Unary   = []string{"-%s", "+%s", "NOT %s", "!%s", "~%s", "INTERVAL %s SECOND", "INTERVAL %s HOURS", "BINARY %s"}
	c30Postfix = []string{"%s IS NULL", "%s IS NOT NULL", "%s IS TRUE", "%s IS NOT FALSE", "%s::int", "%s::float", "%s::[]", "%s::{}", "%s::string::int",
		"%s->f", "%s->f->g", "%s->`my f`", "%s->end", "%s[0]", "%s[a]", "%s[0][1]", "%s IN (1, 2)", "%s NOT IN (1)", "%s IN (SELECT a FROM t)", "%s IN ((1, 2), (3, 4))", "%s COLLATE utf8"}
	c30BinOps = []string{"+", "-", "*", "/", "%", "=", "<", ">", "<=", ">=", "!=", "<>", "<=>", "AND", "OR", "&&", "||", "LIKE", "NOT LIKE",
		"~", "~*", "!~", "!~*", "&", "|", "^", "<<", ">>", "DIV", "MOD", "REGEXP", "NOT REGEXP"}
	c30BinOpsOuter = []string{"+", "*", "=", "<", "AND", "OR", "LIKE", "~", "!~*", "-"}
	c30Wrap1       = []string{"(%s)", "((%s))", "f(%s)", "f(DISTINCT %s)", "t.f(%s)", "CAST(%s AS int)", "CONVERT(%s, float)", "(SELECT %s FROM t)", "(SELECT %s)",
		"EXISTS (SELECT %s FROM t)", "if(%s, 1, 2)", "left(%s, 1)", "(%s)->f", "(%s)::int", "(%s)[0]"}
	c30Wrap0 = []string{"count(*)", "f()", "now()", "f(*)", "f(t.*)", "CURRENT_TIMESTAMP", "DEFAULT"}
	c30Wrap2 = []string{"(%s, %s)", "f(%s, %s)", "CASE WHEN %s THEN %s END", "coalesce(%s, %s)", "%s[%s]", "((%s, %s), 1)"}
	c30Wrap3 = []string{"(%s, %s, %s)", "CASE %s WHEN %s THEN %s ELSE 0 END", "CASE WHEN %s THEN %s ELSE %s END", "substr(%s, %s, %s)",
		"%s BETWEEN %s AND %s", "%s NOT BETWEEN %s AND %s", "%s LIKE %s ESCAPE %s"}
	c30Wrap1Outer = []string{"(%s)", "f(%s)", "(SELECT %s FROM t)", "CAST(%s AS int)", "(%s, 1)"}
)

// expressions of depth <= 1 (an operator / wrapper over atoms)
func c30Exprs1() []string {
	var e []string
	e = append(e, c30Atoms...)
	e = append(e, c30AtomsMore...)
	e = append(e, c30Each(c30Unary, c30Atoms)...)
	e = append(e, c30Each(c30Postfix, c30Atoms)...)
	e = append(e, c30Cross("%s %s %s", c30Atoms, c30BinOps, c30Atoms)...)
	e = append(e, c30Wrap0...)
	e = append(e, c30Each(c30Wrap1, c30Atoms)...)
	e = append(e, c30Each(c30Wrap2, c30Atoms3, c30Atoms3)...)
	e = append(e, c30Each(c30Wrap3, c30Atoms3, c30Atoms3, c30Atoms3)...)
	return e
}

// expressions of depth 2: one more operator / wrapper around every depth-1 expression
func c30Exprs2(e1 []string) []string {
	var e []string
	e = append(e, c30Each(c30Unary, e1)...)
	e = append(e, c30Each(c30Postfix, e1)...)
	e = append(e, c30Cross("%s %s %s", e1, c30BinOpsOuter, c30Atoms2)...)
	e = append(e, c30Cross("%s %s %s", c30Atoms2, c30BinOpsOuter, e1)...)
	e = append(e, c30Each(c30Wrap1Outer, e1)...)
	return e
}

var c30ExprContextsQuick = []string{
	"SELECT %s FROM t",
	"SELECT a FROM t WHERE %s",
	"SELECT a FROM t x JOIN u y ON %s",
	"SELECT a FROM f(p => %s) x",
	"SELECT a, count(*) FROM t GROUP BY a TRIGGER COUNTING %s",
}

var c30ExprContextsMore = []string{
	"SELECT %s",
	"SELECT %s AS x FROM t",
	"SELECT %s x, b FROM t",
	"SELECT a, count(*) FROM t GROUP BY %s",
	"SELECT a FROM t ORDER BY %s DESC",
	"SELECT a, count(*) FROM t GROUP BY a TRIGGER AFTER DELAY %s",
	"SELECT a FROM t LIMIT %s",
	"SELECT a FROM t GROUP BY a HAVING %s",
	"SELECT a FROM t x LOOKUP JOIN u y ON %s",
	"WITH c AS (SELECT %s FROM t) SELECT * FROM c",
	"SELECT %s->* FROM t",
}

var c30Triggers = []string{"COUNTING 3", "ON WATERMARK", "ON END OF STREAM", "AFTER DELAY INTERVAL 1 SECOND"}

// every trigger list of length <= 2 (all orders, repetitions included) plus 3-trigger lists
func c30TriggerClauses() []string {
	out := []string{""}
	for _, a := range c30Triggers {
		out = append(out, " TRIGGER "+a)
	}
	for _, a := range c30Triggers {
		for _, b := range c30Triggers {
			out = append(out, " TRIGGER "+a+", "+b)
		}
	}
	out = append(out, " TRIGGER COUNTING 3, ON WATERMARK, ON END OF STREAM")
	out = append(out, " TRIGGER ON END OF STREAM, AFTER DELAY INTERVAL 1 SECOND, COUNTING a + 1")
	return out
}

var c30JoinKinds = []string{"JOIN", "INNER JOIN", "CROSS JOIN", "LOOKUP JOIN", "STREAM JOIN", "LOOKUP INNER JOIN", "STREAM CROSS JOIN",
	"LEFT JOIN", "LEFT OUTER JOIN", "RIGHT JOIN", "RIGHT OUTER JOIN", "OUTER JOIN", "STRAIGHT_JOIN", "NATURAL JOIN", "NATURAL LEFT JOIN",
	"NATURAL RIGHT OUTER JOIN", "LOOKUP LEFT JOIN", "STREAM OUTER JOIN", ","}

var c30TVFValues = []string{"1", "'x'", "a + 1", "t.a", "INTERVAL 1 SECOND", "TABLE(t)", "TABLE(t x)", "TABLE(g(a => 1) y)", "TABLE(t x JOIN u y ON x.a = y.a)",
	"TABLE((SELECT a FROM t) s)", "TABLE(./data/f.csv)", "DESCRIPTOR(a)", "DESCRIPTOR(t.a)", "DESCRIPTOR(db.t.a)", "(SELECT 1)", "(1, 2)", "a->f", "a::int", "a = 1"}

func c30TVFs(thorough bool) []string {
	out := []string{"f()", "f() x", "f() AS x", "f() AS 'x'", "range(start => 1, end => 10) r", "range(start=>1,end=>10) r", "db.f(p => 1) x", "`my f`(p => 1) x",
		"f(1) x", "f(p => 1,) x", "f(p => TABLE(t), q => DESCRIPTOR(a), r => INTERVAL 1 SECOND) x",
		"tumble(source => TABLE(t), time_field => DESCRIPTOR(t.time), window_length => INTERVAL 1 MINUTE, offset => INTERVAL 5 SECONDS) w",
		"max_diff_watermark(source => TABLE(tumble(source => TABLE(t x), time_field => DESCRIPTOR(time)) y), max_diff => INTERVAL 5 SECONDS, time_field => DESCRIPTOR(time)) z"}
	out = append(out, c30Each([]string{"f(p => %s)", "f(p => %s) x", "f(p => %s) AS x", "f(`end` => %s) x", "f(end => %s) x"}, c30TVFValues)...)
	if thorough {
		out = append(out, c30Cross("f(p => %s, q => %s) x", c30TVFValues, c30TVFValues)...)
	} else {
		out = append(out, c30Cross("f(p => %s, q => %s) x", c30TVFValues[:8], c30TVFValues[8:])...)
	}
	return out
}

func c30FromItems(thorough bool) []string {
	out := []string{"t", "t x", "t AS x", "t AS 'x'", "db.t", "db.t x", "./data/f.csv", "./data/f.csv c", "data/f.json j", "/abs/path/f.json j", "`my table` m",
		"f.csv?header=false c", "./f.csv?header=false&sep=1 c", "stdin.json", "lines.stdin", "dual", "DUAL",
		"(SELECT a FROM t) s", "(SELECT a FROM t) AS s", "(SELECT a FROM t)", "(t)", "(t, u)", "(t x)", "t, u", "t x, u y", "t USE INDEX (i)", "t PARTITION (p) x",
		"(SELECT a FROM (SELECT a FROM t) s1) s2", "(WITH c AS (SELECT a FROM t) SELECT a FROM c) s", "((SELECT a FROM t) UNION (SELECT a FROM u)) s"}
	out = append(out, c30TVFs(thorough)...)
	return out
}

func c30Joins(thorough bool) []string {
	sides := []string{"t x", "t", "(SELECT a FROM t) x", "f(p => 1) x", "data/f.json x", "(t x JOIN u y ON x.a = y.a)"}
	sidesR := []string{"u y", "u", "(SELECT a FROM u) y", "g(p => TABLE(u)) y", "data/g.json y", "(u y LEFT JOIN v z ON y.a = z.a)"}
	conds := []string{"", " ON x.a = y.a", " ON x.a = y.a AND x.b > 1", " USING (a)", " USING (a, b)", " ON true"}
	if !thorough {
		sides, sidesR = sides[:4], sidesR[:4]
		conds = conds[:4]
	}
	var out []string
	out = append(out, c30Cross("%s %s %s%s", sides, c30JoinKinds, sidesR, conds)...)
	c3 := []string{"", " ON x.a = y.a", " USING (a)"}
	c3b := []string{"", " ON y.a = z.a", " USING (a)"}
	kinds := c30JoinKinds
	if !thorough {
		kinds = []string{"JOIN", "LOOKUP JOIN", "STREAM JOIN", "LEFT JOIN", "OUTER JOIN", ","}
	}
	out = append(out, c30Cross("t x %s u y%s %s v z%s", kinds, c3, kinds, c3b)...)
	// right-nested: both conditions at the end
	out = append(out, c30Cross("t x %s u y %s v z ON y.a = z.a ON x.a = y.a", kinds, kinds)...)
	out = append(out, c30Cross("t x %s (u y %s v z ON y.a = z.a) ON x.a = y.a", kinds, kinds)...)
	return out
}

func c30Generate(thorough bool) []string {
	set := map[string]struct{}{}
	add := func(l []string) {
		for _, s := range l {
			set[s] = struct{}{}
		}
	}
	e1 := c30Exprs1()
	add(c30Each(c30ExprContextsQuick, e1))
	if thorough {
		add(c30Each(c30ExprContextsMore, e1))
		e2 := c30Exprs2(e1)
		add(c30Each([]string{"SELECT %s FROM t", "SELECT a FROM t WHERE %s"}, e2))
	} else {
		// a slice of depth 2 in quick: operators around the extension forms only
		var ext []string
		ext = append(ext, c30Each([]string{"%s::int", "%s->f", "%s[0]", "INTERVAL %s SECOND", "(%s, 1)", "%s ~ 'x'", "-%s", "%s + 1", "%s = 1"}, c30Atoms3)...)
		add(c30Each([]string{"SELECT %s FROM t"}, c30Exprs2(ext)))
	}

	// select list forms
	selLists := []string{"*", "a", "a, b", "t.*", "a AS x", "a x", "a AS 'x'", "a->*", "t.a->*", "a->f->*", "f(a)->*", "(a)->*", "*, a", "a, *", "count(*)",
		"a, count(*) AS c", "db.t.*", "a->f AS x, b->*", "a + 1->*", "a::{}->*", "DISTINCT a", "DISTINCT a, b", "DISTINCT *", "SQL_NO_CACHE a", "STRAIGHT_JOIN a", "/* c */ a"}
	add(c30Cross("SELECT %s FROM t", selLists))
	add(c30Cross("SELECT %s FROM f(p => TABLE(t)) x GROUP BY a TRIGGER ON WATERMARK", selLists))

	// FROM items and joins
	froms := c30FromItems(thorough)
	add(c30Cross("SELECT * FROM %s", froms))
	add(c30Cross("SELECT a FROM %s WHERE a > 1 ORDER BY a LIMIT 3", froms))
	joins := c30Joins(thorough)
	add(c30Cross("SELECT * FROM %s", joins))
	if thorough {
		add(c30Cross("SELECT x.a, count(*) FROM %s GROUP BY x.a TRIGGER COUNTING 2, ON END OF STREAM ORDER BY x.a DESC LIMIT 3", joins))
		add(c30Cross("SELECT * FROM f(s => TABLE(%s)) w", joins))
	}

	// clause product
	trig := c30TriggerClauses()
	sel := []string{"a", "a, count(*) AS c", "*", "t.a, sum(b)"}
	dist := []string{"", "DISTINCT "}
	from := []string{"t", "f(p => TABLE(t), q => DESCRIPTOR(a)) t", "t LOOKUP JOIN u ON t.a = u.a"}
	where := []string{"", " WHERE a > 1"}
	group := []string{"", " GROUP BY a", " GROUP BY a, t.b"}
	order := []string{"", " ORDER BY a", " ORDER BY a DESC, b ASC", " ORDER BY a ASC"}
	limit := []string{"", " LIMIT 5", " LIMIT 5 OFFSET 2"}
	with := []string{"", "WITH c AS (SELECT a FROM t) ", "WITH c AS (SELECT a FROM t), d AS (SELECT a FROM c GROUP BY a TRIGGER COUNTING 1) "}
	if !thorough {
		sel, from, group, limit = sel[:2], from[:2], group[:2], limit[:2]
		order = []string{"", " ORDER BY a DESC, b ASC"}
	}
	core := c30Cross("SELECT %s%s FROM %s%s%s", dist, sel, from, where, group)
	add(c30Cross("%s%s%s%s%s", with, core, trig, order, limit))

	// the same bodies nested: as a derived table, as a CTE body, as an expression subquery, under UNION, as TABLE() argument
	inner := c30Cross("SELECT a FROM %s%s%s%s%s", from[:2], group[:2], trig, []string{"", " ORDER BY a DESC"}, []string{"", " LIMIT 5"})
	add(c30Each([]string{
		"SELECT * FROM (%s) s",
		"WITH c AS (%s) SELECT * FROM c",
		"WITH c AS (%s), SELECT * FROM c",
		"WITH c AS (SELECT 1), d AS (%s) SELECT * FROM c JOIN d ON true",
		"SELECT (%s) FROM t",
		"SELECT a FROM t WHERE a IN (%s)",
		"(%s) UNION (SELECT a FROM u)",
		"(%s) UNION ALL SELECT a FROM u GROUP BY a TRIGGER ON WATERMARK",
		"SELECT * FROM f(p => TABLE((%s) s)) x",
		"INSERT INTO t %s",
	}, inner))

	// every directly nested pair of unary operators, with and without a space and parentheses: the printer must keep
	// tokens apart that the tokenizer would otherwise fuse ("! ~a" vs the operator "!~", "- -a" vs a comment)
	{
		ops := []string{"-", "+", "~", "!", "NOT "}
		var nested []string
		for _, o1 := range ops {
			for _, o2 := range ops {
				nested = append(nested, "SELECT "+o1+" "+o2+"a FROM t", "SELECT "+o1+"("+o2+"a) FROM t", "SELECT "+o1+o2+"a FROM t", "SELECT b "+strings.TrimSpace(o1)+" "+o2+"a FROM t")
				for _, o3 := range ops {
					nested = append(nested, "SELECT "+o1+" "+o2+" "+o3+"a FROM t")
				}
			}
		}
		add(nested)
	}
	// odds and ends of the dialect
	add([]string{
		"SELECT", "SELECT 1", "SELECT 1;", "select 1 from dual", "SELECT a FROM t FOR UPDATE", "SELECT a FROM t LIMIT 1, 2",
		"SELECT a FROM t GROUP BY a HAVING count(*) > 1 TRIGGER ON WATERMARK",
		"SELECT a FROM t TRIGGER ON WATERMARK GROUP BY a", "SELECT a FROM t GROUP BY a TRIGGER", "SELECT a FROM t GROUP BY a TRIGGER ON", "SELECT a FROM t GROUP BY a TRIGGER ON END",
		"SELECT a FROM t GROUP BY a TRIGGER DELAY 1", "SELECT a FROM t GROUP BY a TRIGGER AFTER DELAY 1", "SELECT a FROM t GROUP BY a TRIGGER COUNTING", "SELECT a FROM t GROUP BY a TRIGGER ON WATERMARK,",
		"SELECT a FROM t ORDER BY a TRIGGER ON WATERMARK", "SELECT a FROM t GROUP BY a ORDER BY a TRIGGER COUNTING 1",
		"STREAM * FROM t", "STREAM a FROM db.t", "WITH c AS (SELECT 1) (SELECT * FROM c)", "WITH RECURSIVE c AS (SELECT 1) SELECT * FROM c", "WITH c(a) AS (SELECT 1) SELECT * FROM c",
		"WITH `my c` AS (SELECT 1) SELECT * FROM `my c`", "WITH c AS (SELECT 1) SELECT * FROM c ORDER BY 1 LIMIT 1", "WITH c AS (WITH d AS (SELECT 1) SELECT * FROM d) SELECT * FROM c",
		"WITH 'c' AS (SELECT 1) SELECT * FROM c", "WITH end AS (SELECT 1) SELECT * FROM end",
		"SELECT * FROM t x LOOKUP JOIN u y", "SELECT * FROM t x STREAM JOIN u y USING (a)", "SELECT * FROM t LOOKUP STRAIGHT_JOIN u", "SELECT * FROM t STREAM NATURAL JOIN u",
		"SELECT a->* FROM t", "SELECT a ->* FROM t", "SELECT a -> f FROM t", "SELECT a->f->* AS x FROM t", "SELECT a->>f FROM t", "SELECT a->'f' FROM t", "SELECT a->1 FROM t",
		"SELECT a::int AS x FROM t", "SELECT a :: int FROM t", "SELECT a::int->f FROM t", "SELECT -a::int FROM t", "SELECT a::varchar(3) FROM t", "SELECT a::[]::{} FROM t", "SELECT [] FROM t", "SELECT {} FROM t",
		"SELECT INTERVAL 1 SECOND", "SELECT INTERVAL '1' DAY", "SELECT INTERVAL 1 + 2 SECOND", "SELECT INTERVAL (1 + 2) SECOND", "SELECT INTERVAL 1 SECOND + INTERVAL 2 MINUTES", "SELECT a + INTERVAL 1 `my unit`",
		"SELECT INTERVAL(1, 2)", "SELECT interval 1 second * 3",
		"SELECT (a, b) FROM t", "SELECT (a, b) = (1, 2) FROM t", "SELECT ((a, b), c) FROM t", "SELECT () FROM t", "SELECT (a) FROM t", "SELECT (a, b) x FROM t", "SELECT (a, b)->f FROM t", "SELECT (a, b)[0] FROM t",
		"SELECT a[0] FROM t", "SELECT a[0][1] FROM t", "SELECT a[b + 1] FROM t", "SELECT a[0]->f[1] FROM t", "SELECT f(a)[0] FROM t", "SELECT (SELECT a FROM t)[0] FROM t", "SELECT a [0] FROM t", "SELECT a[ 0 ] FROM t",
		"SELECT a ~ 'x', a ~* 'x', a !~ 'x', a !~* 'x' FROM t", "SELECT a~'x' FROM t", "SELECT a ~ * FROM t", "SELECT a FROM t WHERE NOT a ~ 'x'",
		"SELECT * FROM a/b/c.json", "SELECT * FROM ./a.json", "SELECT * FROM ../a.json", "SELECT * FROM ~/a.json", "SELECT * FROM a.b.c", "SELECT * FROM `a.b.c`", "SELECT * FROM `./a b.json` x",
		"SELECT * FROM ./a.json?x=1 j", "SELECT * FROM a.json?x=1&y=2", "SELECT * FROM ./dir/a.csv x JOIN ./dir/b.csv y ON x.id = y.id", "SELECT a / b, a/b, a /b, a/ b FROM t",
		"SELECT `a`, \"b\", 'c' FROM `t`", "SELECT a AS `select`, b AS \"from\" FROM t `where`", "SELECT t.`end`, t.end FROM t",
		"SELECT * FROM t x OUTER JOIN u y ON x.a = y.a OUTER JOIN v z ON x.a + y.a = z.a",
		"SELECT * FROM f(a => 1, a => 2) x", "SELECT * FROM f(a => TABLE(t), b => DESCRIPTOR(a), c => 1 + 2, d => 'x', e => INTERVAL 1 DAY, f => (SELECT 1), g => (1, 2), h => a->b, i => a::int, j => [] ) x",
		"SELECT * FROM f(a => TABLE(t) x) y", "SELECT * FROM f(a => TABLE()) y", "SELECT * FROM f(a => DESCRIPTOR()) y", "SELECT * FROM f(a => DESCRIPTOR(a, b)) y", "SELECT * FROM f(a => DESCRIPTOR(a->b)) y",
		"SELECT * FROM f(a => TABLE(t, u)) y", "SELECT * FROM f(a => TABLE(t) + 1) y", "SELECT * FROM f(TABLE(t)) y", "SELECT * FROM f(a = 1) y", "SELECT * FROM f(a => b => 1) y", "SELECT * FROM TABLE(t) y",
		"SELECT a::`my type` FROM t", "SELECT a::`int` FROM t", "SELECT `my f`(a) FROM t", "SELECT `select`(a) FROM t", "SELECT `count`(a) FROM t", "SELECT a COLLATE `my cs` FROM t",
		"SELECT a->`select` FROM t", "SELECT * FROM `select`(`from` => 1) `where`", "SELECT * FROM f(p => DESCRIPTOR(`my t`.`my c`)) x", "WITH `select` AS (SELECT 1) SELECT * FROM `select`",
		"SELECT INTERVAL 1 `second`", "SELECT INTERVAL 1 year", "SELECT INTERVAL 1 day_hour", "SELECT timestampadd(`my unit`, 1, a) FROM t", "SELECT a AS `my alias`, b `x``y` FROM t `my t`",
		"SELECT a::`select` FROM t", "SELECT a COLLATE `select` FROM t", "SELECT CONVERT(a USING `select`) FROM t", "SELECT timestampdiff(`select`, 1, a) FROM t", "SELECT DEFAULT(`select`) FROM t", "SELECT a COLLATE 'utf8' FROM t", "SELECT CONVERT(a USING `my cs`) FROM t", "SELECT INTERVAL 1 `select`", "SELECT DEFAULT(`my c`) FROM t",
		"SELECT a IN :: FROM t", "SELECT a FROM t WHERE a NOT IN ::", "SELECT a FROM t WHERE a = :x", "SELECT a FROM t LIMIT ? OFFSET ?", "SELECT ?, ? FROM t",
		"SELECT f(a => 1) FROM t", "SELECT * FROM t WHERE a => 1", "SELECT * FROM select(a => 1) x", "SELECT * FROM f(a => 1) select",
	})
	// identifier spellings: every short statement that contains back-quoted identifiers is repeated with all of them
	// replaced by each spelling that needs (or might need) quoting for another reason: all digits, leading digit,
	// number-like, punctuation, non-ASCII, upper case, leading underscore
	{
		var quoted []string
		for s := range set {
			if strings.Contains(s, "`") && len(s) <= 90 && !strings.Contains(s, "``") {
				quoted = append(quoted, s)
			}
		}
		sort.Strings(quoted)
		for _, s := range quoted {
			for _, sp := range c30Spellings {
				set[c30Backquoted.ReplaceAllLiteralString(s, "`"+sp+"`")] = struct{}{}
			}
		}
	}
	out := make([]string, 0, len(set))
	for s := range set {
		out = append(out, s)
	}
	sort.Strings(out)
	return out
}

var c30Backquoted = regexp.MustCompile("`[^`]+`")
var c30Spellings = []string{"2019", "1a", "1", "0x1F", "1e3", "a-b", "a.b", "a b", "é", "Ab", "_a", "a1", "$a", "a$b", "@a",
	// keywords in other letter cases (the tokenizer recognises keywords case-insensitively): reserved and non-reserved
	"Select", "FROM", "Status", "VALUES", "Time", "offset", "Date"}

// ---------------------------------------------------------------------------

func init() {
	register("C30", "exploration", func(r *findings.Run) {
		thorough := r.Thorough()
		r.Rule = "every statement of (1) a depth-bounded grammar of the SELECT dialect: expressions = {atoms} closed once (quick; twice in thorough) under every unary/postfix/binary operator and wrapper of sql.y incl. ::type, ->, ->*, [i], ~ ~* !~ !~*, INTERVAL, tuples, subqueries, placed in every expression position (select item, WHERE, ON, GROUP BY, HAVING, ORDER BY, LIMIT, TVF argument, COUNTING/AFTER DELAY argument, CTE body); FROM items = tables, file paths, derived tables, table valued functions with every argument kind (expression, TABLE(), DESCRIPTOR()) x alias forms, all pairs of them under every join kind and strategy (19) x 6 join conditions, 3-way joins; clause product DISTINCT x select list x FROM x WHERE x GROUP BY x every TRIGGER list of length <= 2 over the 4 trigger kinds (+ two of length 3) x ORDER BY x LIMIT x WITH (0,1,2 CTEs), and the same bodies nested as derived table / CTE / subquery / UNION arm / TABLE() argument / INSERT source; (2) every Go string literal of parser/sqlparser/*_test.go and every octosql \"...\" query of tests/scenarios/**/*.in read from the current tree (thorough: plus every single-word deletion and duplication of those). Oracle per accepted statement q: s=String(Parse(q)) does not panic, Parse(s) succeeds, the two trees are identical under a strict structural comparison (reflect.DeepEqual cross-checked with the check's own reflect diff; only the direction of ORDER BY NULL / rand() is ignored), String(Parse(s))==s. non-trivial = distinct accepted statement whose tree contains at least one OctoSQL extension node (WITH, table valued function or its argument kinds, LOOKUP/STREAM/OUTER join, ->, ->*, ::, []/{} types, [i], regex operators, TRIGGER)"
		r.Assume(
			"statements the parser rejects are counted as rejected, never judged",
			"equivalence = structural identity of the two syntax trees (same node types, same field values, nil-ness included); printed text is allowed to differ from the input (keyword case, CAST->convert, CROSS JOIN->join, a::t->convert(a, t), back-quoting)",
			"the only field normalised away is Order.Direction when the ORDER BY expression is NULL or rand(): Order.Format omits the direction there on purpose and sorting by a constant / random key does not depend on it (cases counted in equal_only_after_normalising_...); the AST stores no positions; ParenExpr/ParenSelect are real nodes that are printed; comments are printed",
			"statements the grammar only recognises by their first word and then skips to the end (describe/explain/repair/optimize/truncate...: tree is the empty placeholder OtherRead/OtherAdmin, printed as 'otherread'/'otheradmin' by design) have no syntax tree to round-trip and are skipped",
			"parse_test.go does not exist in this tree (never vendored); the corpus is every string literal of the *_test.go files that are present, rejected ones counted as rejected",
		)

		gen := c30Generate(thorough)
		var stmts []c30Stmt
		for _, q := range gen {
			stmts = append(stmts, c30Stmt{"generator", q})
		}
		goStrs, goFiles, goErrs := c30GoTestStrings()
		scen, scenFiles := c30ScenarioQueries()
		seen := map[string]struct{}{}
		for _, q := range gen {
			seen[q] = struct{}{}
		}
		corpusN, mutN := 0, 0
		addStmt := func(src, q string) bool {
			if _, ok := seen[q]; ok {
				return false
			}
			seen[q] = struct{}{}
			stmts = append(stmts, c30Stmt{src, q})
			return true
		}
		corpus := append(append([]c30Stmt{}, goStrs...), scen...)
		for _, c := range corpus {
			if addStmt(c.source, c.q) {
				corpusN++
			}
		}
		if thorough {
			for _, c := range corpus {
				if len(c.q) > 4000 {
					continue
				}
				for _, m := range c30Mutations(c.q) {
					if addStmt("mutation-of:"+c.source, m) {
						mutN++
					}
				}
			}
		}
		r.Bound = map[string]interface{}{
			"generated_statements": len(gen), "expression_depth": r.Pick(1, 2), "corpus_statements": corpusN, "corpus_mutations": mutN,
			"go_test_files": goFiles, "scenario_in_files": scenFiles, "trigger_lists": len(c30TriggerClauses()), "join_kinds": len(c30JoinKinds),
		}
		if len(goErrs) > 0 {
			r.Extra["corpus_read_errors"] = goErrs
		}

		const chunk = 512
		nChunks := (len(stmts) + chunk - 1) / chunk
		var mu sync.Mutex
		outcomes := map[string]int64{}
		tags := map[string]int64{}
		var selfCheck, skipped, normalised int64
		global := &c30Local{examples: map[string]c30Case{}}
		viol := map[string]*c30Viol{}
		accepted := map[string]int64{}
		enum.Parallel(nChunks, func(ci int) {
			loc := &c30Local{outcomes: map[string]int64{}, tags: map[string]int64{}, viol: map[string]*c30Viol{}, examples: map[string]c30Case{}}
			hi := (ci + 1) * chunk
			if hi > len(stmts) {
				hi = len(stmts)
			}
			acc := map[string]int64{}
			for _, st := range stmts[ci*chunk : hi] {
				before := loc.rejected + loc.skipped
				c30Check(r, loc, st.source, st.q)
				if loc.rejected+loc.skipped == before {
					src := st.source
					if i := strings.Index(src, ":"); i >= 0 {
						src = src[:i]
					}
					acc[src]++
				}
			}
			r.Eval(loc.evals)
			r.Reject(loc.rejected)
			mu.Lock()
			for k, v := range loc.outcomes {
				outcomes[k] += v
			}
			for k, v := range loc.tags {
				tags[k] += v
			}
			for k, v := range acc {
				accepted[k] += v
			}
			selfCheck += loc.selfCheck
			skipped += loc.skipped
			for k, v := range loc.examples {
				global.example(k, v)
			}
			normalised += loc.normalised
			for fp, v := range loc.viol {
				g := viol[fp]
				if g == nil {
					viol[fp] = v
					continue
				}
				g.count += v.count
				if len(v.cs.Input) < len(g.cs.Input) || (len(v.cs.Input) == len(g.cs.Input) && v.cs.Input < g.cs.Input) {
					g.what, g.cs = v.what, v.cs
				}
			}
			mu.Unlock()
		})
		for fp, v := range viol {
			for i := int64(0); i < v.count; i++ {
				r.Violation(fp, v.what, v.cs)
			}
		}
		var classes []string
		for k := range global.examples {
			classes = append(classes, k)
		}
		sort.Strings(classes)
		for _, k := range classes {
			cs := global.examples[k]
			cs.Source = k[2:] + " [" + cs.Source + "]"
			r.Sample(cs)
		}
		r.Extra["skipped_placeholder_trees"] = skipped
		r.Extra["equal_only_after_normalising_order_by_null_or_rand_direction"] = normalised
		for k, v := range outcomes {
			for i := int64(0); i < v; i++ {
				r.Outcome(k)
			}
		}
		r.Extra["outcome_counts"] = outcomes
		r.Extra["accepted_statements_containing"] = tags
		r.Extra["accepted_by_source"] = accepted
		r.Extra["diff_vs_DeepEqual_disagreements"] = selfCheck
		if selfCheck > 0 {
			fmt.Fprintf(os.Stderr, "C30: HARNESS ERROR: the structural diff disagreed with reflect.DeepEqual on %d statements\n", selfCheck)
			r.Exhaustive = false
		}
	})
}
