package props

import (
	"fmt"
	"sort"
	"strings"

	"verif/harness/internal/findings"
	"verif/harness/internal/runner"
)

// c05StreamingLimits: LIMIT n above streaming subqueries (range -> [LIMIT m] -> max_diff_watermark -> tumble -> GROUP BY
// with a trigger), in every output mode and nested once more. Differential oracle, no reference evaluator needed: the
// query X without the outer LIMIT is run first (csv); the limited query must print exactly min(n, |X|) rows, each of
// them a row of X (as a multiset). X never retracts (ON WATERMARK / end-of-stream triggers over an append-only source).
func c05StreamingLimits(r *findings.Run, pool *runner.Pool) {
	type shape struct{ name, cte, body string }
	var shapes []shape
	for _, inner := range []string{"", " LIMIT 50", " LIMIT 7"} {
		for _, trig := range []string{"TRIGGER ON WATERMARK", "", "TRIGGER ON WATERMARK, ON END OF STREAM"} {
			cte := fmt.Sprintf("WITH src AS (SELECT time_from_unix(r.i) AS t FROM range(start=>0, end=>40) r%s), "+
				"wm AS (SELECT * FROM max_diff_watermark(source=>TABLE(src), max_diff=>INTERVAL 0 SECONDS, time_field=>DESCRIPTOR(t)) x), "+
				"tu AS (SELECT * FROM tumble(source=>TABLE(wm), window_length=>INTERVAL 10 SECONDS) y)", inner)
			shapes = append(shapes, shape{"group-by-over-tumble" + inner + "/" + trig, cte, "SELECT window_end, COUNT(*) AS c FROM tu GROUP BY window_end " + trig})
		}
		shapes = append(shapes, shape{"plain-range" + inner, fmt.Sprintf("WITH src AS (SELECT r.i AS i FROM range(start=>0, end=>40) r%s)", inner), "SELECT i FROM src WHERE i > 2"})
	}
	parse := func(mode, out string) ([]string, bool) {
		rows, err := c05Parse(mode, out)
		if err != nil {
			return nil, false
		}
		var keys []string
		for _, row := range rows {
			keys = append(keys, strings.Join(row, "|"))
		}
		sort.Strings(keys)
		return keys, true
	}
	for _, sh := range shapes {
		base := pool.Run(sqlArgs(sh.cte+" "+sh.body, "csv", true), "")
		r.Eval(1)
		X, ok := parse("csv", base.Out)
		if base.Class() != "ok" || !ok || len(X) == 0 {
			fmt.Printf("HARNESS ERROR: C05 streaming shape %q does not run: %s %s\n", sh.name, base.Class(), oneLineC04(base.Err))
			panic("C05 streaming shape does not run")
		}
		avail := map[string]int{}
		for _, k := range X {
			avail[k]++
		}
		for _, n := range []int{0, 1, 2, 3, len(X), len(X) + 2} {
			for _, nested := range []bool{false, true} {
				for _, mode := range []string{"csv", "json", "stream_native", "batch_table"} {
					sql := fmt.Sprintf("%s %s LIMIT %d", sh.cte, sh.body, n)
					if nested {
						sql = fmt.Sprintf("%s SELECT * FROM (%s LIMIT %d) q", sh.cte, sh.body, n)
					}
					res := pool.Run(sqlArgs(sql, mode, true), "")
					r.Eval(1)
					r.AddCounts(1, 1, 1)
					cs := map[string]interface{}{"sql": sql, "mode": mode, "rows_without_limit": X, "stdout": res.Out, "error": oneLineC04(res.Err)}
					fpBase := "C05/streaming-subquery/" + sh.name + "/" + mode
					if res.Class() != "ok" {
						r.Outcome("streaming/" + res.Class())
						r.Violation(fpBase+"/"+res.Class(), fmt.Sprintf("%s [-o %s]: %s: %s", sql, mode, res.Class(), oneLineC04(res.Err+res.Crash)), cs)
						continue
					}
					got, ok := parse(mode, res.Out)
					if !ok {
						r.Outcome("streaming/unparsable")
						continue
					}
					want := n
					if len(X) < n {
						want = len(X)
					}
					bad := ""
					if len(got) != want {
						bad = fmt.Sprintf("prints %d rows, expected min(%d, %d) = %d", len(got), n, len(X), want)
					} else if mode == "csv" {
						left := map[string]int{}
						for k, v := range avail {
							left[k] = v
						}
						for _, k := range got {
							if left[k] == 0 {
								bad = fmt.Sprintf("prints the row %s, which the query without LIMIT does not produce (that often)", k)
								break
							}
							left[k]--
						}
					}
					if bad != "" {
						r.Outcome("streaming/MISMATCH")
						r.Violation(fpBase+"/row-count-or-content", fmt.Sprintf("%s [-o %s]: %s", sql, mode, bad), cs)
						continue
					}
					r.Outcome("streaming/ok")
					if want > 0 && want < len(X) {
						r.Nontrivial(sql + mode)
					}
				}
			}
		}
	}
}
