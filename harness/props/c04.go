package props

import (
	"fmt"
	"os"
	"path/filepath"
	"sort"
	"strings"

	"verif/harness/internal/enum"
	"verif/harness/internal/findings"
	. "verif/harness/internal/refsql"
	"verif/harness/internal/runner"
)

type c04Case struct {
	family string
	sql    string
	q      *Query // nil for raw SQL
}

// c04Outcome: canonical outcome of one run: sorted row multiset, or an error class.
func c04Outcome(res runner.Result) (kind string, rows []string, detail string) {
	switch res.Class() {
	case "error":
		if isTypecheckErr(res.Err) {
			return "rejected", nil, res.Err
		}
		return "error", nil, res.Err
	case "PANIC":
		return "panic", nil, res.Frame + ": " + res.Panic
	case "CRASH":
		return "crash", nil, res.Crash
	case "HANG":
		return "hang", nil, ""
	}
	_, got, err := ParseJSONLines(res.Out)
	if err != nil {
		return "unparsable", nil, err.Error()
	}
	for _, r := range got {
		rows = append(rows, RowKey(r))
	}
	sort.Strings(rows)
	return "rows", rows, ""
}

func c04RawFamilies(dir string) []c04Case {
	w := func(name, content string) string {
		p := filepath.Join(dir, name)
		if err := os.WriteFile(p, []byte(content), 0o644); err != nil {
			panic(err)
		}
		return p
	}
	u := w("u.json", `{"k":1,"m":1,"l":[1,2],"s":"a","ts":"2021-01-01T00:00:01Z"}
{"k":2,"m":"x","l":[],"s":"b","ts":"2021-01-01T00:00:05Z"}
{"k":3,"m":2.5,"l":[3],"s":null,"ts":"2021-01-01T00:00:03Z"}
{"k":null,"m":null,"l":[4,4],"s":"a","ts":"2021-01-01T00:00:04Z"}
`)
	wide := w("wide.csv", "a,b,c,d\n1,x,true,10\n2,y,false,20\n,z,,30\n1,x,true,10\n")
	var out []c04Case
	add := func(family, sql string) { out = append(out, c04Case{family: family, sql: sql}) }
	// filter merge: an inner filter guards the outer predicate against a runtime failure.
	// Two inputs: one where the inner predicate is TRUE or FALSE on every row, one with a row on which it is NULL.
	g := w("g.json", `{"k":1,"s":"a"}
{"k":2,"s":"b"}
{"k":3,"s":"c"}
`)
	gn := w("gn.json", `{"k":1,"s":"a"}
{"k":2,"s":"b"}
{"k":null,"s":null}
`)
	for _, guard := range []string{"u.k != 2.0", "u.k < 2.0", "u.s = 'a'", "u.k != 2.0 AND u.s != 'b'"} {
		for _, outer := range []string{"(s.k = 1.0 OR s.k = 3.0 OR panic('outer predicate evaluated on a row the inner filter removed') = 1)", "(s.s = 'a' OR s.s = 'c' OR panic('boom') = 1)"} {
			for fam, file := range map[string]string{"filter-merge-guard": g, "filter-merge-guard/inner-predicate-NULL-on-a-row": gn} {
				add(fam, fmt.Sprintf("SELECT s.k FROM (SELECT * FROM %s u WHERE %s) s WHERE %s", file, guard, outer))
				add(fam, fmt.Sprintf("WITH s AS (SELECT * FROM %s u WHERE %s) SELECT s.k FROM s WHERE %s", file, guard, outer))
			}
		}
		add("filter-merge", fmt.Sprintf("SELECT * FROM (SELECT * FROM (SELECT * FROM %s u WHERE %s) s WHERE s.k IS NOT NULL) q WHERE q.k > 0.0", u, guard))
	}
	// unused map fields, incl. unnest, under distinct / order by / limit
	for _, inner := range []string{
		"SELECT u.k, unnest(u.l) AS e FROM %s u",
		"SELECT u.k AS k, u.k + 1.0 AS e, u.s AS s FROM %s u",
		"SELECT DISTINCT u.s AS k, u.k AS e FROM %s u",
		"SELECT u.k AS k, u.s AS e FROM %s u ORDER BY u.s DESC LIMIT 2",
		"SELECT u.s AS k, COUNT(*) AS e, SUM(u.k) AS f FROM %s u GROUP BY u.s",
	} {
		in := fmt.Sprintf(inner, u)
		for _, outer := range []string{"SELECT s.k FROM (%s) s", "SELECT s.e FROM (%s) s", "SELECT COUNT(*) AS c FROM (%s) s", "SELECT s.k FROM (%s) s WHERE s.k IS NOT NULL", "SELECT DISTINCT s.k FROM (%s) s"} {
			add("unused-fields", fmt.Sprintf(outer, in))
		}
	}
	// unused datasource fields: every non-empty ordered selection of up to 3 columns of a 4-column csv and of the json file
	cols := []string{"a", "b", "c", "d"}
	for i := range cols {
		add("datasource-fields", fmt.Sprintf("SELECT t.%s FROM %s t", cols[i], wide))
		for j := range cols {
			if i != j {
				add("datasource-fields", fmt.Sprintf("SELECT t.%s, t.%s FROM %s t", cols[i], cols[j], wide))
				add("datasource-fields", fmt.Sprintf("SELECT t.%s FROM %s t WHERE t.%s IS NOT NULL", cols[i], wide, cols[j]))
				for k := range cols {
					if k != i && k != j {
						add("datasource-fields", fmt.Sprintf("SELECT t.%s, t.%s, t.%s FROM %s t", cols[i], cols[j], cols[k], wide))
					}
				}
			}
		}
	}
	// zero-column reads (COUNT(*), constants, a join branch nobody reads from) over files whose physical line
	// structure differs from their record structure: a shortcut that counts lines instead of decoding records
	// would only show up here
	tricky := map[string]string{
		"ml.csv":   "id,note\n1,\"two\nlines\"\n2,\"a \"\"quoted\"\" word, and a comma\"\n3,\n\n4,\"three\n\nlines\"\n",
		"ml.tsv":   "id\tnote\n1\t\"two\nlines\"\n2\tplain\n",
		"crlf.csv": "id,note\r\n1,a\r\n2,\"b\r\nc\"\r\n",
		"nl.json":  "{\"id\":1,\"note\":\"two\\nlines\"}\n\n{\"id\":2,\"note\":\"x\"}\n",
		"t.lines":  "a\n\nb\nc",
	}
	for name, content := range tricky {
		f := w(name, content)
		add("datasource-fields/zero-columns", fmt.Sprintf("SELECT COUNT(*) AS c FROM %s t", f))
		add("datasource-fields/zero-columns", fmt.Sprintf("SELECT 1 AS one FROM %s t", f))
		add("datasource-fields/zero-columns", fmt.Sprintf("SELECT w.a FROM %s w JOIN %s t ON TRUE", wide, f))
		add("datasource-fields/zero-columns", fmt.Sprintf("SELECT COUNT(*) AS c FROM (SELECT * FROM %s t) s", f))
	}
	for _, c := range []string{"k", "m", "l", "s", "ts"} {
		add("datasource-fields", fmt.Sprintf("SELECT t.%s FROM %s t", c, u))
		add("datasource-fields", fmt.Sprintf("SELECT t.%s, t.k FROM %s t WHERE t.s = 'a'", c, u))
	}
	// table valued function sources
	for _, q := range []string{
		"SELECT * FROM range(start=>0, end=>5) r WHERE r.i > 2",
		"SELECT r.i + 1 AS j FROM range(start=>0, end=>5) r WHERE r.i != 3",
		"SELECT COUNT(*) AS c FROM range(start=>-2, end=>3) r",
		"SELECT r.i, q.i FROM range(start=>0, end=>3) r JOIN range(start=>1, end=>4) q ON r.i = q.i",
		"SELECT r.i, q.i FROM range(start=>0, end=>3) r JOIN range(start=>1, end=>4) q ON r.i + 1 = q.i WHERE r.i > 0 AND q.i < 3",
		fmt.Sprintf("WITH w AS (SELECT * FROM max_diff_watermark(source=>TABLE(%s), max_diff=>INTERVAL 1 SECOND, time_field=>DESCRIPTOR(ts)) c), t AS (SELECT * FROM tumble(source=>TABLE(w), window_length=>INTERVAL 2 SECONDS) c) SELECT t.window_end, COUNT(*) AS n FROM t GROUP BY t.window_end", u),
		fmt.Sprintf("WITH w AS (SELECT * FROM max_diff_watermark(source=>TABLE(%s), max_diff=>INTERVAL 1 SECOND, time_field=>DESCRIPTOR(ts)) c), t AS (SELECT * FROM tumble(source=>TABLE(w), window_length=>INTERVAL 2 SECONDS) c) SELECT t.window_end, t.s, COUNT(*) AS n FROM t WHERE t.k IS NOT NULL GROUP BY t.window_end, t.s TRIGGER ON WATERMARK", u),
		fmt.Sprintf("WITH w AS (SELECT * FROM max_diff_watermark(source=>TABLE(%s), max_diff=>INTERVAL 1 SECOND, time_field=>DESCRIPTOR(ts)) c) SELECT w.k FROM w WHERE w.s = 'a'", u),
	} {
		add("tvf", q)
	}
	// directly nested table valued functions over files whose time column is first / in the middle / last, reading
	// every subset of the other columns: field pruning below a function that locates its time field by position
	for _, order := range [][]string{{"ts", "tag", "val"}, {"tag", "ts", "val"}, {"tag", "val", "ts"}} {
		var b strings.Builder
		b.WriteString(strings.Join(order, ",") + "\n")
		for i, ts := range []string{"2021-01-01T00:00:01Z", "2021-01-01T00:00:02Z", "2021-01-01T00:00:04Z", "2021-01-01T00:00:03Z", "2021-01-01T00:00:09Z"} {
			vals := map[string]string{"ts": ts, "tag": fmt.Sprintf("g%d", i%2), "val": fmt.Sprint(i + 1)}
			for j, c := range order {
				if j > 0 {
					b.WriteString(",")
				}
				b.WriteString(vals[c])
			}
			b.WriteString("\n")
		}
		f := w("ev_"+strings.Join(order, "_")+".csv", b.String())
		md := fmt.Sprintf("max_diff_watermark(source=>TABLE(%s), max_diff=>INTERVAL 1 SECOND, time_field=>DESCRIPTOR(ts)) m", f)
		for _, tf := range []string{"", ", time_field=>DESCRIPTOR(ts)"} {
			tb := fmt.Sprintf("tumble(source=>TABLE(%s), window_length=>INTERVAL 2 SECONDS%s) e", md, tf)
			for _, q := range []string{
				"SELECT e.window_end, COUNT(*) AS c FROM %s GROUP BY e.window_end",
				"SELECT e.window_end, SUM(e.val) AS s FROM %s GROUP BY e.window_end",
				"SELECT e.window_end, e.tag, COUNT(*) AS c FROM %s GROUP BY e.window_end, e.tag TRIGGER ON WATERMARK",
				"SELECT e.window_start, e.window_end FROM %s",
				"SELECT e.val, e.window_end FROM %s WHERE e.tag = 'g1'",
				"SELECT e.ts, e.window_end FROM %s",
				"SELECT COUNT(*) AS c FROM %s",
			} {
				add("tvf/nested", fmt.Sprintf(q, tb))
			}
		}
		for _, q := range []string{"SELECT m.val FROM %s", "SELECT m.tag, m.ts FROM %s", "SELECT COUNT(*) AS c FROM %s", "SELECT m.tag, COUNT(*) AS c FROM %s GROUP BY m.tag TRIGGER ON WATERMARK"} {
			add("tvf/nested", fmt.Sprintf(q, md))
		}
		// ... and the same through an explicit projection (a Map node between the two functions) listing the columns in file order
		proj := "m." + strings.Join(order, ", m.")
		for _, q := range []string{
			"SELECT e.window_end, COUNT(*) AS c FROM tumble(source=>TABLE(p), window_length=>INTERVAL 2 SECONDS) e GROUP BY e.window_end",
			"SELECT e.window_end, SUM(e.val) AS s FROM tumble(source=>TABLE(p), window_length=>INTERVAL 2 SECONDS) e GROUP BY e.window_end",
			"SELECT e.ts, e.window_end FROM tumble(source=>TABLE(p), window_length=>INTERVAL 2 SECONDS) e",
			"SELECT e.window_end, e.tag FROM tumble(source=>TABLE(p), window_length=>INTERVAL 2 SECONDS, time_field=>DESCRIPTOR(ts)) e",
		} {
			add("tvf/nested-through-projection", fmt.Sprintf("WITH p AS (SELECT %s FROM %s) %s", proj, md, q))
		}
	}
	return out
}

func init() {
	register("C04", "exploration", func(r *findings.Run) {
		defer cleanupTables()
		pool := runner.NewPool(0)
		defer pool.Close()
		var cases []c04Case
		// single-source queries (C01's space, every k-th)
		qs, _, _ := c01Queries(2, 3)
		step := r.Pick(5, 1)
		for i, q := range qs {
			if i%step == 0 {
				cases = append(cases, c04Case{family: "single-source", sql: q.SQL(), q: q})
			}
		}
		// joins (C02's shapes)
		ls, rs := c02Tables(r.Pick(2, 3))
		for li, lrows := range ls {
			for ri, rrows := range rs {
				if !r.Thorough() && (li+ri)%2 != 0 {
					continue
				}
				l := mkCSV("l", []string{"k", "v"}, lrows)
				rt := mkCSV("r", []string{"k", "w"}, rrows)
				for _, s := range c02Shapes() {
					q := s.mk(l, rt)
					cases = append(cases, c04Case{family: "join/" + s.name, sql: q.SQL(), q: q})
				}
			}
		}
		// group by over join / subquery (unused group-by aggregates)
		{
			l := mkCSV("l", []string{"k", "v"}, [][]V{{Int(1), Int(1)}, {Int(1), Int(2)}, {Int(2), Int(1)}, {Null, Int(1)}})
			for _, outer := range []string{"SELECT s.k FROM (%s) s", "SELECT s.c FROM (%s) s", "SELECT s.k, s.m FROM (%s) s WHERE s.c > 1", "SELECT COUNT(*) AS n FROM (%s) s"} {
				in := fmt.Sprintf("SELECT l.k AS k, COUNT(*) AS c, SUM(l.v) AS m, MAX(l.v) AS x FROM %s l GROUP BY l.k", l.Path)
				cases = append(cases, c04Case{family: "unused-groupby-aggregates", sql: fmt.Sprintf(outer, in)})
			}
		}
		cases = append(cases, c04RawFamilies(tablesDir())...)
		r.Bound = map[string]interface{}{"cases": len(cases)}
		r.Rule = "every case is run with --optimize=true and --optimize=false through the real root command and the two outcomes are compared (row multisets; an error on one side only is a difference): C01's single-source space (every 5th quick), C02's 19 join shapes x table pairs, and one family per rewrite rule (filter merge incl. an inner filter guarding the outer predicate, unused map fields incl. unnest under DISTINCT/ORDER BY/LIMIT/GROUP BY, unused group-by aggregates, unused datasource fields for every ordered column subset of csv/json files, TVF sources range/max_diff_watermark/tumble, nested directly and through an explicit projection, over files with the time column first/middle/last); non-trivial = case where both runs return at least one row"
		r.Assume("queries whose result is not determined (LIMIT cutting through a tie group, nested or top-level) are skipped", "both runs failing is agreement", "parquet column pruning and plugin predicate pushdown are exercised by C23/C26")
		enum.Parallel(len(cases), func(i int) {
			if r.TimeUp() {
				return
			}
			c := cases[i]
			if c.q != nil {
				if want, err := Eval(c.q); err == nil && (want.Ambiguous || wantCutAmbiguous(want)) {
					r.Outcome("skipped: result not determined (LIMIT over ties)")
					return
				}
			}
			resOn := pool.Run(sqlArgs(c.sql, "json", true), "")
			resOff := pool.Run(sqlArgs(c.sql, "json", false), "")
			r.Eval(1)
			kOn, rowsOn, dOn := c04Outcome(resOn)
			kOff, rowsOff, dOff := c04Outcome(resOff)
			if kOn == "rejected" && kOff == "rejected" {
				r.Reject(1)
				r.Outcome("rejected")
				return
			}
			same := kOn == kOff && strings.Join(rowsOn, "\n") == strings.Join(rowsOff, "\n")
			if kOn == "rows" && len(rowsOn) > 0 && same {
				r.Nontrivial(c.sql)
			}
			r.Outcome(fmt.Sprintf("on=%s off=%s same=%v", kOn, kOff, same))
			if same {
				if i%900 == 11 {
					r.Sample(map[string]interface{}{"family": c.family, "sql": c.sql, "rows": rowsOn})
				}
				return
			}
			feat := c.family
			if c.q != nil {
				feat += "/" + strings.Join(featureList(c.q, true), "+")
			}
			diff := fmt.Sprintf("optimized:%s/unoptimized:%s", kOn, kOff)
			if kOn == "rows" && kOff == "rows" {
				diff = "rows-differ"
			}
			if kOn == "panic" {
				diff += "@" + resOn.Frame
			}
			r.Violation("C04/"+diff+"/"+feat,
				fmt.Sprintf("%s: with the optimizer: %s %v %s; without: %s %v %s", c.sql, kOn, rowsOn, oneLineC04(dOn), kOff, rowsOff, oneLineC04(dOff)),
				map[string]interface{}{"family": c.family, "sql": c.sql, "optimized": map[string]interface{}{"kind": kOn, "rows": rowsOn, "detail": dOn}, "unoptimized": map[string]interface{}{"kind": kOff, "rows": rowsOff, "detail": dOff}})
		})
	})
}

func wantCutAmbiguous(res Result) bool {
	if res.Limit < 0 || len(res.Pre) <= res.Limit || res.Limit == 0 {
		return false
	}
	// reuse Match's tie logic: ambiguous if the rows at the cut are not all identical within the boundary tie group
	if !res.Sorted {
		for _, row := range res.Pre[1:] {
			if RowKey(row) != RowKey(res.Pre[0]) {
				return true
			}
		}
		return false
	}
	n := res.Limit
	for i := n; i < len(res.Pre); i++ {
		same := true
		for k := range res.PreKeys[i] {
			if Cmp(res.PreKeys[i][k], res.PreKeys[n-1][k]) != 0 {
				same = false
			}
		}
		if !same {
			break
		}
		if RowKey(res.Pre[i]) != RowKey(res.Pre[n-1]) {
			return true
		}
	}
	return false
}

func oneLineC04(s string) string {
	s = strings.ReplaceAll(s, "\n", " ")
	if len(s) > 200 {
		s = s[:200]
	}
	return s
}
