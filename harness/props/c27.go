package props

// C27 — Plugin installation survives a crash at any point (fault enumeration).
//
// The real binary (tag verif, hook H3 = package plugins/verifcrash) is run against a loopback HTTP server that
// serves repository JSON, manifests and tar.gz archives holding a REAL plugin (harness/cmd/crashplugin, version
// baked in with -ldflags). A dry run with VERIF_CRASH_LIST lists every crash point / written file reached by the
// command; then the command is re-run once per crash point and per torn-write prefix length on a fresh copy of
// the prepared state (must exit 97) and the recovery oracle is evaluated with fresh real-binary runs.

import (
	"archive/tar"
	"bytes"
	"compress/gzip"
	"crypto/sha1"
	"encoding/hex"
	"encoding/json"
	"fmt"
	"io"
	"net"
	"net/http"
	"os"
	"os/exec"
	"path/filepath"
	"regexp"
	"runtime"
	"sort"
	"strconv"
	"strings"
	"sync"
	"time"

	"verif/harness/internal/findings"
	"verif/harness/internal/runner"
)

const (
	c27V1      = "1.0.0"
	c27V2      = "2.0.0"
	c27ExtV    = "1.0.0"
	c27Plugin  = "crashplugin"
	c27Ext     = "crashext"
	c27Config  = "databases:\n  - name: mydb\n    type: crashplugin\n    version: \"*\"\n"
	c27ExitHit = 97
)

func c27Fatal(format string, a ...interface{}) {
	fmt.Printf("HARNESS ERROR: C27: "+format+"\n", a...)
	os.Exit(2)
}

// ---------------------------------------------------------------- test plugin + archives

func c27BuildPlugin(dir, version string) []byte {
	out := filepath.Join(dir, "crashplugin-"+version)
	cmd := exec.Command("go", "build", "-tags", "verif", "-ldflags", "-s -w -X main.Version="+version, "-o", out, "./cmd/crashplugin")
	cmd.Dir = filepath.Join(findings.VerifDir(), "harness")
	if b, err := cmd.CombinedOutput(); err != nil {
		c27Fatal("cannot build crashplugin %s: %v\n%s", version, err, b)
	}
	b, err := os.ReadFile(out)
	if err != nil {
		c27Fatal("%v", err)
	}
	return b
}

// c27LibMarker: content of lib/marker.txt inside every plugin archive (must equal the constant in cmd/crashplugin).
const c27LibMarker = "octosql-crashplugin-lib v1\n"

func c27TarGz(fileName string, content []byte) []byte {
	var buf bytes.Buffer
	gz, _ := gzip.NewWriterLevel(&buf, gzip.BestSpeed)
	tw := tar.NewWriter(gz)
	tw.WriteHeader(&tar.Header{Name: fileName, Mode: 0o755, Size: int64(len(content)), Typeflag: tar.TypeReg})
	tw.Write(content)
	// the plugin also ships a sub-directory with a file it needs at start-up (crashplugin refuses to run without
	// it), so "complete and runnable" covers more than the executable
	lib := []byte(c27LibMarker)
	tw.WriteHeader(&tar.Header{Name: "lib/", Mode: 0o755, Typeflag: tar.TypeDir})
	tw.WriteHeader(&tar.Header{Name: "lib/marker.txt", Mode: 0o644, Size: int64(len(lib)), Typeflag: tar.TypeReg})
	tw.Write(lib)
	tw.Close()
	gz.Close()
	return buf.Bytes()
}

type c27Server struct {
	ln       net.Listener
	base     string
	archives map[string][]byte // "<plugin>/<version>" -> tar.gz
}

func c27StartServer(archives map[string][]byte) *c27Server {
	ln, err := net.Listen("tcp", "127.0.0.1:0")
	if err != nil {
		c27Fatal("listen: %v", err)
	}
	s := &c27Server{ln: ln, base: "http://" + ln.Addr().String(), archives: archives}
	mux := http.NewServeMux()
	mux.HandleFunc("/core.json", func(w http.ResponseWriter, req *http.Request) {
		json.NewEncoder(w).Encode(map[string]interface{}{"name": "core", "description": "verif core repository", "slug": "core", "plugins": []interface{}{
			map[string]interface{}{"name": c27Plugin, "description": "crash test plugin", "file_extensions": []string{}, "manifest_url": s.base + "/manifest/" + c27Plugin + ".json"},
			map[string]interface{}{"name": c27Ext, "description": "crash test plugin with a file extension", "file_extensions": []string{"xyz"}, "manifest_url": s.base + "/manifest/" + c27Ext + ".json"},
		}})
	})
	mux.HandleFunc("/extra.json", func(w http.ResponseWriter, req *http.Request) {
		json.NewEncoder(w).Encode(map[string]interface{}{"name": "extra", "description": "verif extra repository", "slug": "extra", "plugins": []interface{}{}})
	})
	mux.HandleFunc("/manifest/", func(w http.ResponseWriter, req *http.Request) {
		name := strings.TrimSuffix(strings.TrimPrefix(req.URL.Path, "/manifest/"), ".json")
		versions := []interface{}{}
		switch name {
		case c27Plugin:
			versions = []interface{}{map[string]string{"number": c27V1}, map[string]string{"number": c27V2}}
		case c27Ext:
			versions = []interface{}{map[string]string{"number": c27ExtV}}
		default:
			http.NotFound(w, req)
			return
		}
		json.NewEncoder(w).Encode(map[string]interface{}{"binary_download_url_pattern": s.base + "/dl/" + name + "/{{version}}/plugin_{{os}}_{{arch}}.tar.gz", "versions": versions})
	})
	mux.HandleFunc("/dl/", func(w http.ResponseWriter, req *http.Request) {
		parts := strings.Split(strings.TrimPrefix(req.URL.Path, "/dl/"), "/")
		if len(parts) >= 2 {
			if b, ok := s.archives[parts[0]+"/"+parts[1]]; ok {
				w.Header().Set("Content-Length", strconv.Itoa(len(b)))
				w.Write(b)
				return
			}
		}
		http.NotFound(w, req)
	})
	go http.Serve(ln, mux)
	return s
}

// ---------------------------------------------------------------- filesystem helpers

func c27CopyTree(src, dst string) {
	err := filepath.Walk(src, func(p string, info os.FileInfo, err error) error {
		if err != nil {
			return err
		}
		rel, _ := filepath.Rel(src, p)
		target := filepath.Join(dst, rel)
		switch {
		case info.IsDir():
			return os.MkdirAll(target, 0o755)
		case info.Mode().IsRegular():
			if info.Mode().Perm()&0o111 != 0 {
				// plugin binaries are hard-linked, never opened for writing by this process: a write descriptor inherited by a
				// concurrently forked child would make exec of the binary fail with ETXTBSY. Safe because octosql never
				// modifies an installed binary in place (it unlinks and creates new files).
				if os.Link(p, target) == nil {
					return nil
				}
			}
			in, err := os.Open(p)
			if err != nil {
				return err
			}
			defer in.Close()
			out, err := os.OpenFile(target, os.O_WRONLY|os.O_CREATE|os.O_TRUNC, info.Mode().Perm())
			if err != nil {
				return err
			}
			if _, err := io.Copy(out, in); err != nil {
				out.Close()
				return err
			}
			return out.Close()
		}
		return nil
	})
	if err != nil {
		c27Fatal("copy %s: %v", src, err)
	}
}

// c27TreeHash: hash of relative paths + kinds + permissions + sizes + content hashes below <home>/.octosql,
// ignoring what every octosql run rewrites (logs.txt, tmp/). listing = human-readable form for replays.
func c27TreeHash(home string) (string, []string) {
	root := filepath.Join(home, ".octosql")
	var lines []string
	filepath.Walk(root, func(p string, info os.FileInfo, err error) error {
		if err != nil {
			return nil
		}
		rel, _ := filepath.Rel(root, p)
		if rel == "logs.txt" || rel == "tmp" {
			if info.IsDir() {
				return filepath.SkipDir
			}
			return nil
		}
		if info.IsDir() {
			lines = append(lines, fmt.Sprintf("%s/", rel))
			return nil
		}
		h := sha1.New()
		if f, err := os.Open(p); err == nil {
			io.Copy(h, f)
			f.Close()
		}
		lines = append(lines, fmt.Sprintf("%s mode=%o size=%d sha1=%s", rel, info.Mode().Perm(), info.Size(), hex.EncodeToString(h.Sum(nil))[:12]))
		return nil
	})
	sort.Strings(lines)
	sum := sha1.Sum([]byte(strings.Join(lines, "\n")))
	return hex.EncodeToString(sum[:8]), lines
}

// ---------------------------------------------------------------- scenarios

type c27Scenario struct {
	ID       string
	Title    string
	Args     func(s *c27Server) []string
	Target   string   // plugin whose version directory the command (re)writes ("" = none)
	TargetV  string   // version it writes
	Allowed  []string // versions that may answer SELECT * FROM mydb.t after a crash
	Finished string   // version that must answer after exit 0
}

var c27Scenarios = []c27Scenario{
	{ID: "S1", Title: "upgrade crashplugin 1.0.0 -> 2.0.0, database mydb configured with version \"*\"",
		Args:   func(s *c27Server) []string { return []string{"plugin", "install", c27Plugin} },
		Target: c27Plugin, TargetV: c27V2, Allowed: []string{c27V1, c27V2}, Finished: c27V2},
	{ID: "S2", Title: "re-install of the installed crashplugin 1.0.0",
		Args:   func(s *c27Server) []string { return []string{"plugin", "install", c27Plugin + "@" + c27V1} },
		Target: c27Plugin, TargetV: c27V1, Allowed: []string{c27V1}, Finished: c27V1},
	{ID: "S3", Title: "install of a second plugin (crashext) that registers the file extension xyz",
		Args:   func(s *c27Server) []string { return []string{"plugin", "install", c27Ext} },
		Target: c27Ext, TargetV: c27ExtV, Allowed: []string{c27V1}, Finished: c27V1},
	{ID: "S4", Title: "plugin repository add <extra repository>",
		Args:    func(s *c27Server) []string { return []string{"plugin", "repository", "add", s.base + "/extra.json"} },
		Allowed: []string{c27V1}, Finished: c27V1},
}

type c27Crash struct {
	Sel   string // value of VERIF_CRASH ("" = no crash, the command runs to completion)
	Name  string // hook name
	K     int    // torn prefix length (-1 for points)
	Len   int    // full length of the written file (-1 for points)
	Class string // coarse crash class used in outcome labels
	N     int    // >0: no hook; the process is killed by strace at the N-th file/write syscall of a thread (thorough only)
}

func c27CrashClass(name string) string {
	switch {
	case name == "":
		return "no-crash"
	case name == "extensions/write":
		return "torn-file_extension_handlers.json"
	case name == "repository/write":
		return "torn-repository-entry"
	case name == "install/archive-copy":
		return "torn-archive"
	case strings.HasPrefix(name, "install/unarchive/"):
		return "torn-extracted-file"
	}
	return "crash-" + strings.ReplaceAll(name, "/", "-")
}

func (e *c27Exp) env(home string, extra ...string) []string {
	// OCTOSQL_PLUGIN_TMP_DIR: short path, because the plugin's unix sockets live there (sun_path is limited to 108 bytes)
	return append([]string{"HOME=" + home, "OCTOSQL_PLUGIN_TMP_DIR=" + filepath.Join(e.scratch, "t", filepath.Base(home)),
		"OCTOSQL_PLUGIN_REPOSITORY_OFFICIAL_URL=" + e.srv.base + "/core.json"}, extra...)
}

type c27Exp struct {
	r       *findings.Run
	srv     *c27Server
	scratch string
	base    string // prepared HOME (v1 really installed, config written)
	baseSum string
	binLen  map[string]int // plugin/version -> size of the complete binary
	mu      sync.Mutex
	states  map[string]struct{}
	seq     int

	straceKilled map[string]bool
}

// syscalls at which the thorough strace sweep kills the process: everything taking a path, plus writes and mode changes
const c27StraceSet = "%file,write,fchmod"

func (e *c27Exp) freshHome() string {
	e.mu.Lock()
	e.seq++
	n := e.seq
	e.mu.Unlock()
	home := filepath.Join(e.scratch, fmt.Sprintf("r%d", n))
	c27CopyTree(e.base, home)
	return home
}

// dryRun lists the crash space of a scenario: every point reached and every file written.
func (e *c27Exp) dryRun(sc c27Scenario) []c27Crash {
	home := e.freshHome()
	defer os.RemoveAll(home)
	list := filepath.Join(e.scratch, "list-"+sc.ID)
	os.Remove(list)
	res := runner.RunBinary(sc.Args(e.srv), nil, e.env(home, "VERIF_CRASH_LIST="+list)...)
	if res.Exit != 0 || res.Hang {
		c27Fatal("%s dry run failed: exit %d hang %v: %s", sc.ID, res.Exit, res.Hang, res.Err)
	}
	b, err := os.ReadFile(list)
	if err != nil {
		c27Fatal("%s dry run wrote no crash list (binary built without -tags verif or hook H3 missing?): %v", sc.ID, err)
	}
	var out []c27Crash
	seen := map[string]bool{}
	for _, line := range strings.Split(strings.TrimSpace(string(b)), "\n") {
		f := strings.Split(line, "\t")
		if len(f) < 2 {
			continue
		}
		name := f[0]
		n, _ := strconv.Atoi(f[1])
		if seen[name] {
			continue
		}
		seen[name] = true
		if n < 0 {
			out = append(out, c27Crash{Sel: name, Name: name, K: -1, Len: -1, Class: c27CrashClass(name)})
			continue
		}
		var ks []int
		if name == "extensions/write" || name == "repository/write" { // small JSON files: every prefix length
			for k := 0; k <= n; k++ {
				ks = append(ks, k)
			}
		} else { // archive and extracted binary
			cand := []int{0, 1, n / 2, n - 1}
			if e.r.Thorough() {
				for i := 1; i < 16; i++ {
					cand = append(cand, n*i/16)
				}
				cand = append(cand, 4096, n-4096, n)
			}
			sort.Ints(cand)
			for i, k := range cand {
				if k >= 0 && k <= n && (i == 0 || k != cand[i-1]) {
					ks = append(ks, k)
				}
			}
		}
		for _, k := range ks {
			out = append(out, c27Crash{Sel: name + ":" + strconv.Itoa(k), Name: name, K: k, Len: n, Class: c27CrashClass(name)})
		}
	}
	out = append(out, c27Crash{Sel: "", Name: "", K: -1, Len: -1, Class: "no-crash"})
	return out
}

// c27StateClass describes the crashed state by what is wrong in it (root-cause oriented, independent of the crash point name).
func (e *c27Exp) stateClass(home string, sc c27Scenario) string {
	oc := filepath.Join(home, ".octosql")
	if b, err := os.ReadFile(filepath.Join(oc, "file_extension_handlers.json")); err == nil {
		var m map[string]string
		if json.Unmarshal(b, &m) != nil {
			return "torn-file_extension_handlers.json"
		}
	}
	if entries, err := os.ReadDir(filepath.Join(oc, "repositories")); err == nil {
		for _, en := range entries {
			b, _ := os.ReadFile(filepath.Join(oc, "repositories", en.Name()))
			var m map[string]string
			if json.Unmarshal(b, &m) != nil {
				return "torn-repository-entry"
			}
		}
	}
	if sc.Target == "" {
		return "state-consistent"
	}
	role := "new-version"
	if sc.ID == "S2" {
		role = "installed-version"
	} else if sc.ID == "S3" {
		role = "second-plugin-version"
	}
	full := "octosql-plugin-" + sc.Target
	vdir := filepath.Join(oc, "plugins", "core", full, sc.TargetV)
	if _, err := os.Stat(vdir); err != nil {
		if sc.ID == "S2" {
			return role + "-dir-removed"
		}
		return "state-consistent" // nothing of the new version exists yet
	}
	st, err := os.Stat(filepath.Join(vdir, full))
	if err != nil {
		return role + "-dir-without-binary"
	}
	if int(st.Size()) != e.binLen[sc.Target+"/"+sc.TargetV] {
		return role + "-binary-truncated"
	}
	if _, err := os.Stat(filepath.Join(vdir, "archive.tar.gz")); err == nil {
		return role + "-complete-archive-left"
	}
	return "state-consistent"
}

var c27ErrClasses = []struct {
	re    *regexp.Regexp
	class string
}{
	{regexp.MustCompile(`couldn't json-decode file extension handlers`), "handlers-file-undecodable"},
	{regexp.MustCompile(`couldn't parse plugin .* version number`), "non-semver-directory-in-plugin-dir"},
	{regexp.MustCompile(`is not installed with the required version`), "configured-database-unresolvable"},
	{regexp.MustCompile(`plugin '.*' version '.*' is not installed`), "resolved-version-has-no-binary"},
	{regexp.MustCompile(`couldn't start plugin|plugin exited prematurely`), "resolved-version-binary-not-runnable"},
	{regexp.MustCompile(`couldn't decode plugin repository file`), "repository-entry-undecodable"},
}

func c27ErrClass(res runner.Result) string {
	if res.Hang {
		return "hang"
	}
	for _, c := range c27ErrClasses {
		if c.re.MatchString(res.Err) {
			return c.class
		}
	}
	if res.Crash != "" {
		return "octosql-crash"
	}
	return "other-error"
}

// c27Rows parses `-o csv` output of SELECT * FROM mydb.t: returns the version that answered, or "" if the output is not the plugin's two rows.
func c27Rows(out string) string {
	lines := strings.Split(strings.TrimSpace(out), "\n")
	if len(lines) != 3 || strings.TrimSpace(lines[0]) != "id,version" {
		return ""
	}
	a, b := strings.Split(strings.TrimSpace(lines[1]), ","), strings.Split(strings.TrimSpace(lines[2]), ",")
	if len(a) != 2 || len(b) != 2 || a[1] != b[1] {
		return ""
	}
	if !((a[0] == "1" && b[0] == "2") || (a[0] == "2" && b[0] == "1")) {
		return ""
	}
	return a[1]
}

func c27ErrLine(res runner.Result) string {
	s := strings.TrimSpace(res.Err)
	if i := strings.LastIndex(s, "\nError: "); i >= 0 {
		s = s[i+1:]
	}
	if len(s) > 300 {
		s = s[:300] + "…"
	}
	if res.Hang {
		s = "(no exit within 90 s) " + s
	}
	return s
}

// c27RunRetry: a run that hits the horizon is repeated alone before it counts as a hang (overloaded machine).
var c27RetryMu sync.Mutex

func c27RunRetry(args []string, env []string) runner.Result {
	res := runner.RunBinary(args, nil, env...)
	for try := 0; res.Hang && try < 2; try++ {
		c27RetryMu.Lock()
		res = runner.RunBinary(args, nil, env...)
		c27RetryMu.Unlock()
	}
	return res
}

func (e *c27Exp) crashCase(sc c27Scenario, c c27Crash, doneSum string) {
	r := e.r
	home := e.freshHome()
	defer os.RemoveAll(home)
	defer os.RemoveAll(filepath.Join(e.scratch, "t", filepath.Base(home)))
	args := sc.Args(e.srv)
	var crashEnv []string
	if c.Sel != "" {
		crashEnv = []string{"VERIF_CRASH=" + c.Sel}
	}
	var cres runner.Result
	killed := c.Sel != ""
	if c.N > 0 {
		sargs := append([]string{"-f", "-o", "/dev/null", "-e", "trace=" + c27StraceSet, "-e", fmt.Sprintf("inject=%s:signal=SIGKILL:when=%d", c27StraceSet, c.N), runner.BinaryPath()}, args...)
		cres = runner.RunCommand("strace", sargs, nil, e.env(home, "GOMAXPROCS=1")...)
		r.Eval(1)
		switch {
		case cres.Exit == -1 && !cres.Hang:
			killed = true
			c.Sel = fmt.Sprintf("(strace SIGKILL at syscall #%d of a thread, set %s)", c.N, c27StraceSet)
		case cres.Exit == 0 && !cres.Hang:
			killed = false // N is beyond the last matching syscall: the command completed
		default:
			c27Fatal("%s: strace sweep N=%d: unexpected exit %d hang=%v: %s", sc.ID, c.N, cres.Exit, cres.Hang, c27ErrLine(cres))
		}
		e.mu.Lock()
		e.straceKilled[sc.ID+"/"+strconv.Itoa(c.N)] = killed
		e.mu.Unlock()
	} else {
		cres = runner.RunBinary(args, nil, e.env(home, crashEnv...)...)
		r.Eval(1)
	}
	if c.N == 0 && c.Sel != "" && cres.Exit != c27ExitHit {
		// the dry run reached this point, so the crash run must reach it too
		c27Fatal("%s: VERIF_CRASH=%s was listed by the dry run but the command exited %d (hang=%v): %s", sc.ID, c.Sel, cres.Exit, cres.Hang, c27ErrLine(cres))
	}
	if c.N == 0 && c.Sel == "" && cres.Exit != 0 {
		c27Fatal("%s: uncrashed command failed: exit %d: %s", sc.ID, cres.Exit, c27ErrLine(cres))
	}
	sum, listing := c27TreeHash(home)
	e.mu.Lock()
	_, seen := e.states[sc.ID+"/"+sum]
	e.states[sc.ID+"/"+sum] = struct{}{}
	e.mu.Unlock()
	if !seen {
		r.AddCounts(1, 0, 0)
	}
	r.AddCounts(0, 1, 0)
	if sum != e.baseSum && sum != doneSum {
		r.Nontrivial(sc.ID + "/" + sum)
	}
	state := e.stateClass(home, sc)

	// ---- recovery oracle: fresh real-binary runs on the crashed state
	// (a successful query on mydb has gone through the complete start-up, so `SELECT 1` is run only when it fails)
	q2 := c27RunRetry([]string{"SELECT * FROM mydb.t", "-o", "csv"}, e.env(home))
	r.Eval(1)
	answered := ""
	if q2.Exit == 0 && !q2.Hang {
		answered = c27Rows(q2.Out)
	}
	for try := 0; answered == "" && try < 2; try++ {
		// a failure must be reproducible on the same crashed state (DESIGN 2.5 rule 5); a transient one is only counted
		again := c27RunRetry([]string{"SELECT * FROM mydb.t", "-o", "csv"}, e.env(home))
		r.Eval(1)
		if again.Exit == 0 && !again.Hang && c27Rows(again.Out) != "" {
			r.Sum("recovery_failures_not_reproduced", 1)
			q2, answered = again, c27Rows(again.Out)
		}
	}
	q1 := runner.Result{Out: "(not run: the mydb query succeeded, which includes a successful start-up)"}
	if answered == "" {
		q1 = c27RunRetry([]string{"SELECT 1", "-o", "csv"}, e.env(home))
		r.Eval(1)
	}
	logTail := ""
	if answered == "" {
		if b, err := os.ReadFile(filepath.Join(home, ".octosql", "logs.txt")); err == nil {
			logTail = string(b)
			if len(logTail) > 1500 {
				logTail = "…" + logTail[len(logTail)-1500:]
			}
		}
	}
	replay := map[string]interface{}{
		"logs_txt_after_mydb_query": logTail,
		"scenario":                  sc.ID + ": " + sc.Title, "prepared_state": "fresh HOME; octosql.yml = " + c27Config + "; `octosql plugin install crashplugin@1.0.0` run to completion",
		"command": "octosql " + strings.Join(args, " "), "VERIF_CRASH": c.Sel, "command_exit": cres.Exit, "state_class": state, "crashed_tree": listing,
		"recovery": map[string]interface{}{
			"SELECT 1":             map[string]interface{}{"exit": q1.Exit, "stdout": q1.Out, "error": c27ErrLine(q1)},
			"SELECT * FROM mydb.t": map[string]interface{}{"exit": q2.Exit, "stdout": q2.Out, "error": c27ErrLine(q2)},
		},
	}
	how := fmt.Sprintf("%s (%s): `octosql %s` killed at VERIF_CRASH=%s", sc.ID, sc.Title, strings.Join(args, " "), c.Sel)
	if !killed {
		how = fmt.Sprintf("%s (%s): `octosql %s` finished with exit 0", sc.ID, sc.Title, strings.Join(args, " "))
	}
	startOK := answered != "" || (q1.Exit == 0 && !q1.Hang && strings.TrimSpace(q1.Out) == "col_0\n1")
	verdict := ""
	switch {
	case !startOK:
		cls := c27ErrClass(q1)
		verdict = "every-invocation-fails:" + cls
		r.Violation("C27/"+sc.ID+"/"+state+"/every-invocation-fails:"+cls,
			how+"; afterwards `octosql \"SELECT 1\"` fails: "+c27ErrLine(q1), replay)
	case answered == "":
		cls := c27ErrClass(q2)
		if q2.Exit == 0 && !q2.Hang {
			cls = "wrong-rows"
		}
		verdict = "mydb-query-fails:" + cls
		r.Violation("C27/"+sc.ID+"/"+state+"/configured-database-not-runnable:"+cls,
			how+"; afterwards `octosql \"SELECT * FROM mydb.t\"` does not return the plugin's rows: exit "+strconv.Itoa(q2.Exit)+" "+c27ErrLine(q2)+" stdout="+strconv.Quote(c27Short(q2.Out)), replay)
	default:
		allowed := false
		for _, v := range sc.Allowed {
			if v == answered {
				allowed = true
			}
		}
		switch {
		case !allowed:
			verdict = "unexpected-version-answers:" + answered
			r.Violation("C27/"+sc.ID+"/"+state+"/unexpected-version-answers",
				how+fmt.Sprintf("; afterwards mydb.t is answered by version %q, allowed %v", answered, sc.Allowed), replay)
		case !killed && answered != sc.Finished:
			verdict = "finished-install-not-effective:" + answered
			r.Violation("C27/"+sc.ID+"/"+state+"/finished-install-not-effective",
				how+fmt.Sprintf("; afterwards mydb.t is answered by version %q, but the finished command must make %s effective", answered, sc.Finished), replay)
		default:
			verdict = "ok:answered-by-" + answered
		}
	}
	r.Outcome(sc.ID + " " + state + " -> " + verdict)

	// ---- continuation from the crashed state (first occurrence of each distinct crashed tree): a later, uninterrupted
	// `plugin install` is also a "later octosql invocation"; whatever it does, the invocations after it must still start
	// and mydb must still resolve to a complete version (the crash must not leave anything behind that poisons later commands)
	if killed && !seen && strings.HasPrefix(verdict, "ok:") {
		for _, f := range c27FollowUps(sc, e.srv, r.Thorough()) {
			e.mu.Lock()
			e.seq++
			h2 := filepath.Join(e.scratch, fmt.Sprintf("f%d", e.seq)) // short: the plugin's unix socket paths are built from it
			e.mu.Unlock()
			c27CopyTree(home, h2)
			fres := c27RunRetry(f.args, e.env(h2))
			q := c27RunRetry([]string{"SELECT * FROM mydb.t", "-o", "csv"}, e.env(h2))
			r.Eval(2)
			r.AddCounts(0, 1, 0)
			ans := ""
			if q.Exit == 0 && !q.Hang {
				ans = c27Rows(q.Out)
			}
			if ans == "" { // must be reproducible
				q = c27RunRetry([]string{"SELECT * FROM mydb.t", "-o", "csv"}, e.env(h2))
				r.Eval(1)
				if q.Exit == 0 && !q.Hang {
					ans = c27Rows(q.Out)
				}
			}
			okVersion := false
			for _, v := range append(append([]string{}, sc.Allowed...), f.version) {
				okVersion = okVersion || v == ans
			}
			fverdict := "ok:answered-by-" + ans
			if ans == "" || !okVersion {
				fverdict = "mydb-query-fails:" + c27ErrClass(q)
				if ans != "" {
					fverdict = "unexpected-version-answers:" + ans
				}
				rp := map[string]interface{}{}
				for k, v := range replay {
					rp[k] = v
				}
				_, l2 := c27TreeHash(h2)
				rp["follow_up_command"] = "octosql " + strings.Join(f.args, " ")
				rp["follow_up_exit"] = fres.Exit
				rp["follow_up_error"] = c27ErrLine(fres)
				rp["tree_after_follow_up"] = l2
				rp["after_follow_up"] = map[string]interface{}{"SELECT * FROM mydb.t": map[string]interface{}{"exit": q.Exit, "stdout": q.Out, "error": c27ErrLine(q)}}
				r.Violation("C27/"+sc.ID+"/"+state+"/then-"+f.id+"/"+fverdict,
					how+fmt.Sprintf("; then the uninterrupted `octosql %s` (exit %d); afterwards `octosql \"SELECT * FROM mydb.t\"` does not return the rows of a complete version: exit %d %s stdout=%q",
						strings.Join(f.args, " "), fres.Exit, q.Exit, c27ErrLine(q), c27Short(q.Out)), rp)
			}
			follow := "exit0"
			if fres.Exit != 0 {
				follow = "fails"
			}
			r.Outcome(sc.ID + " " + state + " then " + f.id + "(" + follow + ") -> " + fverdict)
			os.RemoveAll(h2)
			os.RemoveAll(filepath.Join(e.scratch, "t", filepath.Base(h2)))
		}
	}

	// informational (not judged, see assumptions): does a command that needs the repository list still work?
	if sc.ID == "S4" && (c.K < 0 || c.K <= 1 || c.K == c.Len/2 || c.K >= c.Len-1) {
		q3 := c27RunRetry([]string{"SELECT slug FROM plugins.repositories", "-o", "csv"}, e.env(home))
		r.Eval(1)
		if q3.Exit != 0 {
			r.Outcome("S4:info(not judged): " + state + " -> `SELECT slug FROM plugins.repositories` fails:" + c27ErrClass(q3))
			e.mu.Lock()
			if _, ok := r.Extra["S4_not_judged_example"]; !ok {
				r.Extra["S4_not_judged_example"] = map[string]interface{}{"VERIF_CRASH": c.Sel, "query": "SELECT slug FROM plugins.repositories", "exit": q3.Exit, "error": c27ErrLine(q3)}
			}
			e.mu.Unlock()
		} else {
			r.Outcome("S4:info(not judged): " + state + " -> plugins.repositories readable")
		}
	}
	if (c.Class == "torn-extracted-file" || c.Class == "crash-install-after-unarchive") && sc.ID == "S1" && r.NeedSample() {
		r.Sample(map[string]interface{}{"scenario": sc.ID, "VERIF_CRASH": c.Sel, "state_class": state, "state_hash": sum, "verdict": verdict, "answered_by": answered})
	}
}

type c27Follow struct {
	id      string
	args    []string
	version string // crashplugin version the follow-up installs if it completes ("" = none)
}

// c27FollowUps: uninterrupted commands run on (a copy of) every distinct crashed state: the retry of the crashed
// command and the installation of each of the two plugins (one registers a file extension, one does not).
func c27FollowUps(sc c27Scenario, s *c27Server, thorough bool) []c27Follow {
	fs := []c27Follow{
		{"retry", sc.Args(s), sc.Finished},
		{"install-crashplugin-v1", []string{"plugin", "install", c27Plugin + "@" + c27V1}, c27V1},
		{"install-crashext", []string{"plugin", "install", c27Ext}, ""},
	}
	var out []c27Follow
	for _, f := range fs {
		if f.id != "retry" && strings.Join(f.args, " ") == strings.Join(sc.Args(s), " ") {
			continue
		}
		// quick: the retry and the installation of the other plugin (the one whose handlers file differs)
		if !thorough && ((f.id == "install-crashplugin-v1" && sc.Target != c27Ext) || (f.id == "install-crashext" && sc.Target == c27Ext)) {
			continue
		}
		out = append(out, f)
	}
	return out
}

func c27Short(s string) string {
	if len(s) > 120 {
		return s[:120] + "…"
	}
	return s
}

func c27Parallel(n, workers int, f func(i int)) {
	if workers > n {
		workers = n
	}
	var wg sync.WaitGroup
	ch := make(chan int)
	for w := 0; w < workers; w++ {
		wg.Add(1)
		go func() {
			defer wg.Done()
			for i := range ch {
				f(i)
			}
		}()
	}
	for i := 0; i < n; i++ {
		ch <- i
	}
	close(ch)
	wg.Wait()
}

func init() {
	register("C27", "fault_enumeration", func(r *findings.Run) {
		r.Rule = "for each scenario S1..S4: crash space = every hook point reached in a dry run (VERIF_CRASH_LIST) + every torn prefix of every file written " +
			"(file_extension_handlers.json and repository entry: all lengths 0..len; downloaded archive and extracted plugin binary: {0,1,len/2,len-1}, thorough: 16ths and +-4096) + the uncrashed run; " +
			"thorough adds for S1 and S2 a real SIGKILL (strace inject) at the N-th file/write syscall for every N; " +
			"each crash executed with the real binary on a fresh copy of a really installed state (must exit 97), then fresh real-binary runs: `SELECT 1` must succeed (run only if the next query fails, whose success implies a successful start-up), " +
			"`SELECT * FROM mydb.t` must return the plugin's two rows from version 1.0.0 or (S1 only) 2.0.0; after exit 0 the new version is mandatory. " +
			"continuation: on a copy of every distinct crashed tree each of {retry of the crashed command, `plugin install crashext`, `plugin install crashplugin@1.0.0`} (quick: the retry and the installation of the other plugin) is run uninterrupted and the mydb query must again return the rows of a complete allowed version. " +
			"non-trivial: the crashed tree differs from both the prepared and the completed tree. states = distinct crashed trees (paths+modes+sizes+content hashes), transitions = crash executions"
		r.Assume(
			"a crash is a process kill (exit at the hook); data already written stays (no power-loss reordering)",
			"a crash in the middle of the third-party unarchiver is represented by truncating the extracted file after Unarchive returned (archive still present), as DESIGN B.3 describes",
			"the prepared state is produced once per run of the check by the real `plugin install crashplugin@1.0.0` and copied for every crash execution",
			"the new version is accepted whenever it is complete and runnable, even if the command did not finish (weaker reading); it is demanded only after exit 0",
			"S4: only `SELECT 1` and the configured database are judged; that commands needing the repository list (plugin install, plugins.* tables) fail after a torn repository entry is recorded as an outcome, not as a violation (the statement speaks of start-up and configured databases)",
		)
		scratch := c28Scratch()
		defer os.RemoveAll(scratch)
		t0 := time.Now()
		timing := map[string]interface{}{}
		r.Extra["phase_wall_s"] = timing

		// test plugin binaries and archives
		var bins [2][]byte
		var wg sync.WaitGroup
		for i, v := range []string{c27V1, c27V2} {
			wg.Add(1)
			go func(i int, v string) { defer wg.Done(); bins[i] = c27BuildPlugin(scratch, v) }(i, v)
		}
		wg.Wait()
		extBin := bins[0] // the second plugin is the same program under another name (its rows say 1.0.0)
		archives := map[string][]byte{
			c27Plugin + "/" + c27V1: c27TarGz("octosql-plugin-"+c27Plugin, bins[0]),
			c27Plugin + "/" + c27V2: c27TarGz("octosql-plugin-"+c27Plugin, bins[1]),
			c27Ext + "/" + c27ExtV:  c27TarGz("octosql-plugin-"+c27Ext, extBin),
		}
		srv := c27StartServer(archives)
		defer srv.ln.Close()
		timing["build_test_plugins"] = int(time.Since(t0).Seconds())
		e := &c27Exp{r: r, srv: srv, scratch: scratch, states: map[string]struct{}{}, straceKilled: map[string]bool{},
			binLen: map[string]int{c27Plugin + "/" + c27V1: len(bins[0]), c27Plugin + "/" + c27V2: len(bins[1]), c27Ext + "/" + c27ExtV: len(extBin)}}

		// prepared state: config + real install of v1
		e.base = filepath.Join(scratch, "base")
		if err := os.MkdirAll(filepath.Join(e.base, ".octosql"), 0o755); err != nil {
			c27Fatal("%v", err)
		}
		os.WriteFile(filepath.Join(e.base, ".octosql", "octosql.yml"), []byte(c27Config), 0o644)
		if res := runner.RunBinary([]string{"plugin", "install", c27Plugin + "@" + c27V1}, nil, e.env(e.base)...); res.Exit != 0 || res.Hang {
			c27Fatal("preparing the base state failed: exit %d: %s", res.Exit, c27ErrLine(res))
		}
		if res := c27RunRetry([]string{"SELECT * FROM mydb.t", "-o", "csv"}, e.env(e.base)); c27Rows(res.Out) != c27V1 {
			c27Fatal("prepared state does not answer with v1: exit %d out %q err %s", res.Exit, res.Out, c27ErrLine(res))
		}
		os.Remove(filepath.Join(e.base, ".octosql", "logs.txt"))
		os.RemoveAll(filepath.Join(e.base, ".octosql", "tmp"))
		var baseListing []string
		e.baseSum, baseListing = c27TreeHash(e.base)
		r.Extra["prepared_tree"] = baseListing

		workers := runtime.NumCPU()
		if v, err := strconv.Atoi(os.Getenv("VERIF_PAR")); err == nil && v > 0 {
			workers = v
		}
		space := map[string]interface{}{}
		for _, sc := range c27Scenarios {
			ts := time.Now()
			crashes := e.dryRun(sc)
			// completed tree (for the non-triviality rule)
			doneHome := e.freshHome()
			if res := runner.RunBinary(sc.Args(srv), nil, e.env(doneHome)...); res.Exit != 0 {
				c27Fatal("%s: uncrashed command failed: %s", sc.ID, c27ErrLine(res))
			}
			doneSum, _ := c27TreeHash(doneHome)
			os.RemoveAll(doneHome)
			var names []string
			points, torn := 0, 0
			lastName := ""
			for _, c := range crashes {
				if c.K < 0 && c.Sel != "" {
					points++
					names = append(names, c.Name)
				} else if c.Sel != "" {
					torn++
					if c.Name != lastName {
						names = append(names, fmt.Sprintf("%s[len %d]", c.Name, c.Len))
					}
				}
				lastName = c.Name
			}
			space[sc.ID] = map[string]interface{}{"title": sc.Title, "points": points, "torn_writes": torn, "hooks_reached_in_order": names}
			c27Parallel(len(crashes), workers, func(i int) { e.crashCase(sc, crashes[i], doneSum) })
			if r.Thorough() && (sc.ID == "S1" || sc.ID == "S2") && os.Getenv("VERIF_NO_STRACE") == "" {
				// supplementary sweep through code without hooks (the third-party unarchiver, os.RemoveAll): real SIGKILL at the
				// N-th matching syscall of a thread, N = 1,2,... until 2*workers consecutive N complete unharmed
				n, quiet, kills := 0, 0, 0
				for quiet < 2*workers && n < 4000 {
					first := n + 1
					c27Parallel(workers, workers, func(i int) {
						e.crashCase(sc, c27Crash{Class: "strace-kill", K: -1, Len: -1, N: first + i}, doneSum)
					})
					for i := 0; i < workers; i++ {
						if e.straceKilled[sc.ID+"/"+strconv.Itoa(first+i)] {
							quiet = 0
							kills++
						} else {
							quiet++
						}
					}
					n += workers
				}
				space[sc.ID+"_strace_sweep"] = map[string]interface{}{"syscall_set": c27StraceSet, "N_tried": n, "killed_runs": kills,
					"note": "strace counts per thread and the Go scheduler moves goroutines between threads, so this sweep is a supplement to, not part of, the exhaustive hook enumeration"}
			}
			timing[sc.ID] = int(time.Since(ts).Seconds())
			if sc.ID == "S3" {
				// sanity of the scenario itself: the completed install makes the second plugin usable
				h := e.freshHome()
				runner.RunBinary(sc.Args(srv), nil, e.env(h)...)
				if res := c27RunRetry([]string{"SELECT * FROM crashext.t", "-o", "csv"}, e.env(h)); c27Rows(res.Out) != c27V1 {
					c27Fatal("S3: completed install of crashext is not usable: exit %d out %q err %s", res.Exit, res.Out, c27ErrLine(res))
				}
				os.RemoveAll(h)
			}
		}
		r.Extra["crash_space"] = space
		r.Bound = map[string]interface{}{"scenarios": 4, "archive_and_binary_prefixes": map[bool]string{false: "{0,1,len/2,len-1}", true: "{0,1,4096,i*len/16,len-4096,len-1,len}"}[r.Thorough()], "json_prefixes": "all 0..len"}
	})
}
