package props

import (
	"encoding/csv"
	"fmt"
	"strings"

	"verif/harness/internal/enum"
	"verif/harness/internal/findings"
	. "verif/harness/internal/refsql"
	"verif/harness/internal/runner"
)

var c05Modes = []string{"live_table", "batch_table", "csv", "json", "stream_native"}

// cellText: how a value is printed in the given mode (Int/String/Boolean/NULL only).
func c05CellText(mode string, v V) string {
	switch v.K {
	case KNull:
		if mode == "csv" {
			return ""
		}
		return "<null>"
	case KInt:
		return fmt.Sprint(v.I)
	case KFloat:
		return fmt.Sprint(v.F) // whole numbers print without a fraction in every mode
	case KBool:
		if v.B {
			return "true"
		}
		return "false"
	case KStr:
		if mode == "csv" {
			return v.S
		}
		return "'" + v.S + "'"
	}
	return v.String()
}

// c05Parse returns the printed rows as cell texts; for stream_native the
// consolidated rows (retractions applied) in order of first appearance.
func c05Parse(mode, out string) ([][]string, error) {
	var rows [][]string
	switch mode {
	case "csv":
		r := csv.NewReader(strings.NewReader(out))
		r.FieldsPerRecord = -1
		recs, err := r.ReadAll()
		if err != nil {
			return nil, err
		}
		if len(recs) == 0 {
			return nil, nil
		}
		return recs[1:], nil
	case "live_table", "batch_table":
		// the last rendered table: lines between the 2nd and 3rd border of the final frame
		lines := strings.Split(out, "\n")
		var frames [][]string
		var cur []string
		borders := 0
		for _, l := range lines {
			l = strings.TrimRight(l, "\r")
			if i := strings.LastIndex(l, "\x1b["); i >= 0 {
				// strip cursor escapes
				for strings.Contains(l, "\x1b[") {
					j := strings.Index(l, "\x1b[")
					k := j + 2
					for k < len(l) && !((l[k] >= 'A' && l[k] <= 'Z') || (l[k] >= 'a' && l[k] <= 'z')) {
						k++
					}
					if k < len(l) {
						k++
					}
					l = l[:j] + l[k:]
				}
			}
			if strings.HasPrefix(l, "+-") {
				borders++
				if borders == 3 {
					frames = append(frames, cur)
					cur = nil
					borders = 0
				}
				continue
			}
			if strings.HasPrefix(l, "|") && borders == 2 {
				cur = append(cur, l)
			}
		}
		if len(frames) == 0 {
			if strings.TrimSpace(out) == "" {
				return nil, nil
			}
			return nil, fmt.Errorf("no table frame found")
		}
		for _, l := range frames[len(frames)-1] {
			parts := strings.Split(strings.Trim(l, "|"), "|")
			for i := range parts {
				parts[i] = strings.TrimSpace(parts[i])
			}
			rows = append(rows, parts)
		}
		return rows, nil
	case "stream_native":
		for _, l := range strings.Split(out, "\n") {
			l = strings.TrimSpace(l)
			if l == "" || strings.HasPrefix(l, "{~") {
				continue
			}
			if !strings.HasPrefix(l, "{") || !strings.HasSuffix(l, "|}") {
				return nil, fmt.Errorf("unparsable line %q", l)
			}
			retract := l[1] == '-'
			i := strings.Index(l, "| ")
			body := strings.TrimSuffix(l[i+2:], " |}")
			cells := strings.Split(body, ", ")
			if retract {
				found := false
				for ri := range rows {
					if strings.Join(rows[ri], "\x00") == strings.Join(cells, "\x00") {
						rows = append(rows[:ri], rows[ri+1:]...)
						found = true
						break
					}
				}
				if !found {
					return nil, fmt.Errorf("retraction of a row that was not printed: %q", l)
				}
			} else {
				rows = append(rows, cells)
			}
		}
		return rows, nil
	}
	return nil, fmt.Errorf("unknown mode")
}

func c05TextRows(mode string, rows [][]V) [][]V {
	out := make([][]V, len(rows))
	for i, r := range rows {
		out[i] = make([]V, len(r))
		for j := range r {
			out[i][j] = Str(c05CellText(mode, r[j]))
		}
	}
	return out
}

func c05Judge(pool *runner.Pool, q *Query, mode string) verdict {
	want, err := Eval(q)
	if err != nil {
		return verdict{Class: "harness-unresolved", Why: err.Error()}
	}
	if want.Ambiguous {
		return verdict{Class: "ambiguous"}
	}
	if mode == "json" {
		return judge(pool, q, true)
	}
	res := pool.Run(sqlArgs(q.SQL(), mode, true), "")
	v := verdict{Res: res}
	switch res.Class() {
	case "error":
		if isTypecheckErr(res.Err) {
			v.Class = "rejected"
			return v
		}
		v.Class, v.Why = "runtime-error", res.Err
		return v
	case "PANIC":
		v.Class, v.Why = "panic@"+res.Frame, res.Panic
		return v
	case "CRASH", "HANG":
		v.Class, v.Why = strings.ToLower(res.Class()), res.Crash
		return v
	}
	cells, perr := c05Parse(mode, res.Out)
	if perr != nil {
		v.Class, v.Why = "unparsable-output", perr.Error()+": "+res.Out
		return v
	}
	got := make([][]V, len(cells))
	for i, r := range cells {
		got[i] = make([]V, len(r))
		for j := range r {
			got[i][j] = Str(r[j])
		}
	}
	v.Got = got
	// compare in text space: same Result structure with rows rendered for this mode
	tw := want
	tw.Rows = c05TextRows(mode, want.Rows)
	tw.Pre = c05TextRows(mode, want.Pre)
	// table modes print the final table sorted; without ORDER BY the order is unspecified -> Match ignores order then
	v.Class, v.Why = Match(tw, got)
	return v
}

func init() {
	register("C05", "exploration", func(r *findings.Run) {
		defer cleanupTables()
		pool := runner.NewPool(0)
		defer pool.Close()
		base := [][]V{
			{Int(1), Str("x")},
			{Int(1), Str("y")},
			{Int(2), Str("x")},
			{Null, Str("x")},
		}
		nrows := r.Pick(3, 4)
		var tables [][][]V
		enum.Multisets(nrows, 4, func(ms []int) {
			var t [][]V
			for _, i := range ms {
				t = append(t, base[i])
			}
			tables = append(tables, t)
		})
		orders := [][]Order{nil, {{E: Col("t.a")}}, {{E: Col("t.a"), Desc: true}}, {{E: Col("t.b"), Desc: true}, {E: Col("t.a")}}}
		limits := []int{0, 1, 2, 3, 4}
		type cs struct {
			q    *Query
			mode string
		}
		var cases []cs
		for _, rows := range tables {
			t := mkCSV("t", []string{"a", "b"}, rows)
			for _, ob := range orders {
				for _, lim := range limits {
					// top level
					q := NewQuery()
					q.From = &From{Table: t}
					q.Proj = []Proj{{Star: true}}
					q.OrderBy = ob
					q.Limit = lim
					// nested: the LIMIT / ORDER BY sit in a FROM subquery
					in := cloneQuery(q)
					n := NewQuery()
					n.From = &From{Sub: in, Alias: "s"}
					n.Proj = []Proj{{Star: true}}
					// source with retractions: counting-triggered group by below the LIMIT
					g := NewQuery()
					g.From = &From{Table: t}
					g.Proj = []Proj{{E: Col("t.a"), Alias: "a"}, {Agg: "count", Alias: "cnt"}}
					g.GroupBy = []*Expr{Col("t.a")}
					g.Trigger = "TRIGGER COUNTING 1"
					rq := NewQuery()
					rq.From = &From{Sub: g, Alias: "t"}
					rq.Proj = []Proj{{Star: true}}
					rq.Limit = lim
					if ob != nil {
						rq.OrderBy = []Order{{E: Col("t.cnt"), Desc: ob[0].Desc}, {E: Col("t.a")}}
					}
					// ... and the same LIMIT / ORDER BY over the retracting source nested in a FROM subquery
					nrq := NewQuery()
					nrq.From = &From{Sub: cloneQuery(rq), Alias: "y"}
					nrq.Proj = []Proj{{Star: true}}
					for _, m := range c05Modes {
						cases = append(cases, cs{q, m}, cs{n, m})
						if len(rows) > 0 && (lim == 1 || lim == 3 || r.Thorough()) {
							cases = append(cases, cs{rq, m})
							if m == "csv" || m == "stream_native" || r.Thorough() {
								cases = append(cases, cs{nrq, m})
							}
						}
					}
				}
			}
		}
		// a JSON source that spans several parser batches (64 lines each): limits around the batch boundaries,
		// so the early stop happens while other batches are still in flight
		{
			var rows [][]V
			for i := 0; i < 130; i++ {
				rows = append(rows, []V{Int(int64(i % 7)), Str(fmt.Sprintf("r%03d", i))})
			}
			big := mkJSON("t", []string{"a", "b"}, rows)
			for _, lim := range []int{0, 1, 63, 64, 65, 129, 130, 131} {
				for _, ob := range [][]Order{nil, {{E: Col("t.b"), Desc: true}}, {{E: Col("t.a")}, {E: Col("t.b")}}} {
					q := NewQuery()
					q.From = &From{Table: big}
					q.Proj = []Proj{{Star: true}}
					q.OrderBy = ob
					q.Limit = lim
					n := NewQuery()
					n.From = &From{Sub: cloneQuery(q), Alias: "s"}
					n.Proj = []Proj{{Star: true}}
					for _, m := range c05Modes {
						cases = append(cases, cs{q, m}, cs{n, m})
					}
				}
			}
		}
		r.Bound = map[string]interface{}{"tables": len(tables), "distinct_rows": nrows, "max_rows": 4, "limits": limits, "order_by_forms": len(orders), "modes": c05Modes, "cases": len(cases)}
		r.Rule = "LIMIT n (n=0..4) x ORDER BY {none, a, a DESC, b DESC+a} x every multiset of <=4 rows over 3 (4) distinct rows (duplicates straddle the cut) x {top level, inside a FROM subquery, over a counting-triggered GROUP BY that emits retractions, the latter again inside a FROM subquery} x all five output modes, plus a 130-line JSON source (three parser batches) with limits around the batch boundaries, plus LIMIT n above streaming subqueries (range [LIMIT m] -> max_diff_watermark -> tumble -> GROUP BY with ON WATERMARK / default / combined triggers; differential: exactly min(n, rows without the LIMIT) rows, all of them rows of the unlimited query), through the real root command in-process; each mode's output is parsed (final table frame, csv, json, consolidated native stream) and compared with the reference; non-trivial = case where the limit actually cuts rows"
		r.Assume("values are short, comma/quote free Int/String/NULL so every format parses unambiguously", "tie order unspecified; a tie group split by the cut may contribute any of its members", "LIMIT without ORDER BY: any min(n,N) rows")
		cache := newFPCache()
		c05StreamingLimits(r, pool)
		enum.Parallel(len(cases), func(i int) {
			if r.TimeUp() {
				return
			}
			c := cases[i]
			v := c05Judge(pool, c.q, c.mode)
			r.Eval(1)
			switch v.Class {
			case "rejected":
				r.Reject(1)
				r.Outcome("rejected")
				return
			case "ambiguous":
				r.Outcome("skipped: nested LIMIT admits several answers")
				return
			case "harness-unresolved":
				panic("reference cannot evaluate: " + c.q.SQL() + ": " + v.Why)
			}
			r.Outcome(c.mode + "/" + orOK(v.Class))
			want, _ := Eval(c.q)
			if want.Limit >= 0 && len(want.Pre) > want.Limit {
				r.Nontrivial(c.mode + c.q.SQL())
			}
			if v.Class != "" {
				mode := c.mode
				reportMismatch(r, cache, "C05/"+mode, c.q, v, sqlArgs(c.q.SQL(), mode, true), func(q *Query) verdict { return c05Judge(pool, q, mode) })
			} else if i%1700 == 3 {
				s := mkCase(c.q, sqlArgs(c.q.SQL(), c.mode, true))
				s.Got = RowsString(v.Got)
				r.Sample(s)
			}
		})
	})
}
