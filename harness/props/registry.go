package props

import "verif/harness/internal/findings"

type Check struct {
	ID    string
	Level string
	Run   func(r *findings.Run)
}

var Registry = map[string]Check{}

func register(id, level string, f func(r *findings.Run)) {
	Registry[id] = Check{ID: id, Level: level, Run: f}
}
