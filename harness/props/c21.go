package props

import (
	"context"
	"errors"
	"fmt"
	"math/big"
	"strings"
	"sync/atomic"
	"time"

	"github.com/cube2222/octosql/execution"
	"github.com/cube2222/octosql/octosql"
	"github.com/cube2222/octosql/physical"
	tvf "github.com/cube2222/octosql/table_valued_functions"

	"verif/harness/internal/enum"
	"verif/harness/internal/findings"
	"verif/harness/internal/stream"
)

// C21: tumble, range and poll, each materialized as the REAL node through its
// logical.TableValuedFunctionDescription.Descriptors[0].Materialize.

type c21Case struct {
	Part   string   `json:"part"`
	Config string   `json:"config"`
	Input  []string `json:"input,omitempty"`
	Output []string `json:"output_log,omitempty"`
	At     string   `json:"at,omitempty"`
	Got    string   `json:"got,omitempty"`
	Want   string   `json:"want,omitempty"`
}

// ---------------------------------------------------------------- tumble

type c21Time struct {
	Name  string
	T     time.Time
	Class string // for fingerprints
}

func c21Times() []c21Time {
	e := time.Unix(0, 0).UTC()
	return []c21Time{
		{"epoch+0s", e, "near-epoch"},
		{"epoch+1ns", e.Add(1), "near-epoch"},
		{"epoch+59.999s", e.Add(59999 * time.Millisecond), "near-epoch"},
		{"epoch+60s", e.Add(60 * time.Second), "near-epoch"},
		{"epoch+61s", e.Add(61 * time.Second), "near-epoch"},
		{"epoch+1h", e.Add(time.Hour), "near-epoch"},
		{"year1+1h", time.Time{}.Add(time.Hour), "year1"},
		{"2262-01-01", time.Date(2262, 1, 1, 0, 0, 0, 0, time.UTC), "year2262"},
	}
}

// c21Abs: nanoseconds since Go's zero time (January 1, year 1 UTC), exact.
func c21Abs(t time.Time) *big.Int {
	const unixToInternal = int64((1969*365 + 1969/4 - 1969/100 + 1969/400) * 86400)
	s := new(big.Int).SetInt64(t.Unix())
	s.Add(s, big.NewInt(unixToInternal))
	s.Mul(s, big.NewInt(1e9))
	s.Add(s, big.NewInt(int64(t.Nanosecond())))
	return s
}

func c21IsMultiple(x *big.Int, l time.Duration) bool {
	m := new(big.Int).Mod(x, big.NewInt(int64(l)))
	return m.Sign() == 0
}

func c21TStr(t time.Time) string {
	if t.IsZero() {
		return "zero-time"
	}
	if t.Equal(execution.WatermarkMaxValue) {
		return "max"
	}
	return t.UTC().Format("2006-01-02T15:04:05.999999999Z")
}

type c21Sym struct {
	Time    int
	Variant int // 0: insert, event time = ts; 1: retraction, event time = ts; 2: insert, zero event time
}

func c21EvStr(e stream.Ev) string {
	if e.Kind == stream.WM {
		return "wm " + c21TStr(e.T)
	}
	s := "+"
	if e.Retract {
		s = "-"
	}
	return fmt.Sprintf("%s[k=%d ts=%s]@%s", s, e.Vals[0].Int, c21TStr(e.Vals[1].Time), c21TStr(e.T))
}

func c21OutStr(o stream.Out) string {
	if o.WM {
		return "wm " + c21TStr(o.T)
	}
	s := "+"
	if o.Retract {
		s = "-"
	}
	parts := []string{}
	for _, v := range o.Vals {
		if v.TypeID == octosql.TypeIDTime {
			parts = append(parts, c21TStr(v.Time))
		} else {
			parts = append(parts, stream.ValKey(v))
		}
	}
	return fmt.Sprintf("%s[%s]@%s", s, strings.Join(parts, " "), c21TStr(o.T))
}

// c21TumbleScript builds the event script for a symbol sequence; withWM
// interleaves a watermark before every record and after the last one such
// that no record is late (w_j = min event time of the remaining records - 1ns).
func c21TumbleScript(times []c21Time, syms []c21Sym, withWM bool) []stream.Ev {
	recs := make([]stream.Ev, len(syms))
	for i, s := range syms {
		ts := times[s.Time].T
		ev := stream.Ev{Kind: stream.Rec, Vals: []octosql.Value{octosql.NewInt(int64(i)), octosql.NewTime(ts)}, T: ts, Retract: s.Variant == 1}
		if s.Variant == 2 {
			ev.T = time.Time{}
		}
		recs[i] = ev
	}
	if !withWM {
		return recs
	}
	var evs []stream.Ev
	last := time.Time{}
	for i := range recs {
		w, have := time.Time{}, false
		for _, r := range recs[i:] {
			if !r.T.IsZero() && (!have || r.T.Before(w)) {
				w, have = r.T, true
			}
		}
		if have {
			w = w.Add(-1)
		} else {
			w = last
		}
		if w.Before(last) {
			w = last
		}
		last = w
		evs = append(evs, stream.Ev{Kind: stream.WM, T: w}, recs[i])
	}
	evs = append(evs, stream.Ev{Kind: stream.WM, T: execution.WatermarkMaxValue})
	return evs
}

// c21TumbleCheck returns fingerprint, sentence, case and the number of distinct windows seen.
func c21TumbleCheck(times []c21Time, syms []c21Sym, withWM bool, length time.Duration, offset *time.Duration) (fp, what string, cs c21Case, windows int) {
	evs := c21TumbleScript(times, syms, withWM)
	off := time.Duration(0)
	offName := "absent"
	if offset != nil {
		off, offName = *offset, offset.String()
	}
	cs = c21Case{Part: "tumble", Config: fmt.Sprintf("window_length=%s offset=%s", length, offName)}
	for _, e := range evs {
		cs.Input = append(cs.Input, c21EvStr(e))
	}
	log, err, pan := stream.RunSingle(func(src execution.Node) execution.Node {
		return mustNode(mkTumble(src, length, offset))
	}, evs)
	for _, o := range log {
		cs.Output = append(cs.Output, c21OutStr(o))
	}
	desc := fmt.Sprintf("tumble(%s) over %v", cs.Config, cs.Input)
	if pan != nil {
		return "tumble/panic@tumble.Run", fmt.Sprintf("%s: panic: %v", desc, pan), cs, 0
	}
	if err != nil {
		return "tumble/unexpected-error", fmt.Sprintf("%s: unexpected error: %v", desc, err), cs, 0
	}
	// one output per input event, in place
	if len(log) != len(evs) {
		return "tumble/event-count-changed", fmt.Sprintf("%s: %d input events, %d output events", desc, len(evs), len(log)), cs, 0
	}
	var starts []*big.Int
	var startClass []string
	seen := map[string]bool{}
	for i, e := range evs {
		o := log[i]
		cs.At = fmt.Sprintf("event %d: %s -> %s", i, c21EvStr(e), c21OutStr(o))
		if o.InputsSeen != i+1 {
			return "tumble/output-not-in-place", fmt.Sprintf("%s: %s was emitted while input event %d was being delivered", desc, cs.At, o.InputsSeen-1), cs, 0
		}
		if e.Kind == stream.WM {
			if !o.WM || !o.T.Equal(e.T) {
				return "tumble/watermark-changed-or-moved", fmt.Sprintf("%s: %s, want the watermark forwarded unchanged at this position", desc, cs.At), cs, 0
			}
			continue
		}
		if o.WM {
			return "tumble/watermark-changed-or-moved", fmt.Sprintf("%s: %s, a watermark took the place of a record", desc, cs.At), cs, 0
		}
		// suffix only for the far times, where overflow would be a root cause of its own
		cls := ""
		if c := times[syms[len(starts)].Time].Class; c != "near-epoch" {
			cls = ":far-time"
		}
		if len(o.Vals) != 4 || o.Vals[2].TypeID != octosql.TypeIDTime || o.Vals[3].TypeID != octosql.TypeIDTime {
			return "tumble/output-shape", fmt.Sprintf("%s: %s, want the input fields followed by window_start and window_end of type Time", desc, cs.At), cs, 0
		}
		if stream.ValsKey(o.Vals[:2]) != stream.ValsKey(e.Vals) || !o.Vals[1].Time.Equal(e.Vals[1].Time) {
			return "tumble/other-fields-changed", fmt.Sprintf("%s: %s, the source fields changed", desc, cs.At), cs, 0
		}
		if o.Retract != e.Retract {
			return "tumble/retraction-flag-changed", fmt.Sprintf("%s: %s", desc, cs.At), cs, 0
		}
		if !o.T.Equal(e.T) || o.T.IsZero() != e.T.IsZero() {
			return "tumble/event-time-changed", fmt.Sprintf("%s: %s, event time changed", desc, cs.At), cs, 0
		}
		t, ws, we := e.Vals[1].Time, o.Vals[2].Time, o.Vals[3].Time
		if ws.After(t) {
			return "tumble/window-start-after-time" + cls, fmt.Sprintf("%s: %s, window_start > time", desc, cs.At), cs, 0
		}
		if !t.Before(we) {
			return "tumble/window-end-not-after-time" + cls, fmt.Sprintf("%s: %s, time >= window_end", desc, cs.At), cs, 0
		}
		aws, awe := c21Abs(ws), c21Abs(we)
		if new(big.Int).Sub(awe, aws).Cmp(big.NewInt(int64(length))) != 0 {
			return "tumble/window-end-minus-start-not-length" + cls, fmt.Sprintf("%s: %s, window_end - window_start != %s", desc, cs.At, length), cs, 0
		}
		if !c21IsMultiple(new(big.Int).Sub(aws, big.NewInt(int64(off))), length) {
			return "tumble/start-minus-offset-not-multiple-of-length" + cls, fmt.Sprintf("%s: %s, (window_start - offset) counted from Go's zero time is not a multiple of %s", desc, cs.At, length), cs, 0
		}
		for j, other := range starts {
			if !c21IsMultiple(new(big.Int).Sub(aws, other), length) {
				return "tumble/windows-of-two-records-not-aligned" + cls + startClass[j], fmt.Sprintf("%s: %s, window_start differs from that of record %d by a non-multiple of %s", desc, cs.At, j, length), cs, 0
			}
		}
		starts = append(starts, aws)
		startClass = append(startClass, cls)
		seen[aws.String()] = true
	}
	cs.At = ""
	return "", "", cs, len(seen)
}

// ---------------------------------------------------------------- range

func c21MkRange(start, end int64) (execution.Node, error) {
	args := map[string]physical.TableValuedFunctionArgument{
		"start": constArg(octosql.NewInt(start), octosql.Int),
		"end":   constArg(octosql.NewInt(end), octosql.Int),
	}
	return tvf.Range.Descriptors[0].Materialize(context.Background(), physical.Environment{}, args)
}

func c21RangeCheck(start, end int64) (fp, what string, cs c21Case) {
	cs = c21Case{Part: "range", Config: fmt.Sprintf("start=%d end=%d", start, end)}
	sink := &stream.Sink{}
	var err error
	var pan interface{}
	func() {
		defer func() {
			if r := recover(); r != nil {
				pan = r
			}
		}()
		node := mustNode(c21MkRange(start, end))
		err = node.Run(stream.Ctx(), sink.Produce, sink.Meta)
	}()
	cs.Output = stream.LogStrs(sink.Log)
	desc := fmt.Sprintf("range(%d, %d)", start, end)
	if pan != nil {
		return "range/panic@rangeNode.Run", fmt.Sprintf("%s: panic: %v", desc, pan), cs
	}
	if err != nil {
		return "range/unexpected-error", fmt.Sprintf("%s: unexpected error: %v", desc, err), cs
	}
	var got []string
	for _, o := range sink.Log {
		if o.WM {
			continue // metadata is not judged
		}
		if o.Retract {
			cs.Got = o.String()
			return "range/emits-retraction", fmt.Sprintf("%s: emitted retraction %s", desc, o), cs
		}
		if len(o.Vals) != 1 || o.Vals[0].TypeID != octosql.TypeIDInt {
			cs.Got = o.String()
			return "range/row-shape", fmt.Sprintf("%s: emitted %s, want one Int field", desc, o), cs
		}
		got = append(got, fmt.Sprint(o.Vals[0].Int))
	}
	var want []string
	for i := start; i < end; i++ {
		want = append(want, fmt.Sprint(i))
	}
	cs.Got, cs.Want = strings.Join(got, ","), strings.Join(want, ",")
	if cs.Got != cs.Want {
		kind := "wrong-sequence"
		switch {
		case len(want) == 0:
			kind = "nonempty-for-start>=end"
		case len(got) == len(want)-1 && strings.Join(want[:len(want)-1], ",") == cs.Got:
			kind = "last-missing"
		case len(got) == len(want)+1 && strings.Join(got[:len(got)-1], ",") == cs.Want:
			kind = "end-included"
		case len(got) == len(want)-1 && strings.Join(want[1:], ",") == cs.Got:
			kind = "first-missing"
		}
		return "range/" + kind, fmt.Sprintf("%s: emitted [%s], want [%s]", desc, cs.Got, cs.Want), cs
	}
	return "", "", cs
}

// ---------------------------------------------------------------- poll

var c21PollFields = []physical.SchemaField{{Name: "a", Type: octosql.Int}, {Name: "b", Type: octosql.String}}

var c21ErrRoundsOver = errors.New("c21: scripted source has no more snapshots")

// c21SnapshotSource returns a different snapshot on every Run call and fails
// on the call after the last snapshot (which is what stops poll's loop).
type c21SnapshotSource struct {
	Rounds [][][]octosql.Value
	Calls  int // number of Run calls started
}

func (s *c21SnapshotSource) Run(ctx execution.ExecutionContext, produce execution.ProduceFn, metaSend execution.MetaSendFn) error {
	s.Calls++
	if s.Calls > len(s.Rounds) {
		return c21ErrRoundsOver
	}
	for _, row := range s.Rounds[s.Calls-1] {
		vals := make([]octosql.Value, len(row))
		copy(vals, row)
		if err := produce(execution.ProduceFromExecutionContext(ctx), execution.NewRecord(vals, false, time.Time{})); err != nil {
			return err
		}
	}
	return nil
}

// c21MkPoll materializes the real poll. poll.go's Materialize reads
// args["poll_interval"].Expression, so the interval is passed as an expression
// argument (see the report about the matcher declaring it a descriptor).
func c21MkPoll(src execution.Node, interval time.Duration) (execution.Node, error) {
	args := map[string]physical.TableValuedFunctionArgument{
		"source":        tableArg(physSource(src, c21PollFields, -1)),
		"poll_interval": constArg(octosql.NewDuration(interval), octosql.Duration),
	}
	return tvf.Poll.Descriptors[0].Materialize(context.Background(), physical.Environment{}, args)
}

func c21Row(v int) []octosql.Value {
	return []octosql.Value{octosql.NewInt(int64(v)), octosql.NewString(fmt.Sprintf("r%d", v))}
}

type c21PollObs struct {
	RetractionAtOrBelowForwardedWatermark bool
	InsertEventTimeIsTimeColumn           bool
}

func c21PollCheck(snaps [][]int, interval time.Duration) (fp, what string, cs c21Case, obs c21PollObs) {
	k := len(snaps)
	rounds := make([][][]octosql.Value, k)
	for i, s := range snaps {
		for _, v := range s {
			rounds[i] = append(rounds[i], c21Row(v))
		}
	}
	cs = c21Case{Part: "poll", Config: fmt.Sprintf("poll_interval=%s rounds=%d (source fails on round %d)", interval, k, k+1)}
	for i, s := range snaps {
		cs.Input = append(cs.Input, fmt.Sprintf("snapshot %d: %v", i+1, s))
	}
	src := &c21SnapshotSource{Rounds: rounds}
	sink := &stream.Sink{Counter: &src.Calls}
	var err error
	var pan interface{}
	func() {
		defer func() {
			if r := recover(); r != nil {
				pan = r
			}
		}()
		node := mustNode(c21MkPoll(src, interval))
		err = node.Run(stream.Ctx(), sink.Produce, sink.Meta)
	}()
	log := sink.Log
	// render with the time column replaced by its rank so that replays are readable
	for _, o := range log {
		cs.Output = append(cs.Output, c21OutStr(o))
	}
	desc := fmt.Sprintf("poll(%s) over snapshots %v", cs.Config, snaps)
	if pan != nil {
		return "poll/panic@poll.Run", fmt.Sprintf("%s: panic: %v", desc, pan), cs, obs
	}
	if err == nil || !errors.Is(err, c21ErrRoundsOver) {
		return "poll/did-not-stop-with-the-source-error", fmt.Sprintf("%s: returned %v, want the source's error of round %d", desc, err, k+1), cs, obs
	}
	if src.Calls != k+1 {
		return "poll/source-run-count", fmt.Sprintf("%s: source was run %d times, want %d", desc, src.Calls, k+1), cs, obs
	}
	// split into rounds at the watermarks
	type seg struct {
		recs []stream.Out
		wm   *stream.Out
	}
	segs := []seg{{}}
	for i := range log {
		o := log[i]
		if o.WM {
			segs[len(segs)-1].wm = &log[i]
			segs = append(segs, seg{})
		} else {
			segs[len(segs)-1].recs = append(segs[len(segs)-1].recs, o)
		}
	}
	if len(segs) != k+1 {
		return "poll/watermark-count", fmt.Sprintf("%s: %d watermarks emitted, want one per completed round = %d", desc, len(segs)-1, k), cs, obs
	}
	rowKey := func(o stream.Out) string { // full row incl. time column, exact instant
		return fmt.Sprintf("%d|%s", o.Vals[0].Time.UnixNano(), stream.ValsKey(o.Vals[1:]))
	}
	obs.InsertEventTimeIsTimeColumn = true
	bag := stream.Bag{}
	var prevInserts stream.Bag = stream.Bag{}
	var lastWM time.Time
	haveWM := false
	for ri, sg := range segs {
		round := ri + 1
		var retr, ins []stream.Out
		for _, o := range sg.recs {
			cs.At = fmt.Sprintf("round %d: %s", round, c21OutStr(o))
			if len(o.Vals) != 1+len(c21PollFields) || o.Vals[0].TypeID != octosql.TypeIDTime {
				return "poll/row-shape", fmt.Sprintf("%s: %s, want [time, source fields...]", desc, cs.At), cs, obs
			}
			if o.Retract {
				if len(ins) > 0 {
					return "poll/retraction-after-insert-within-round", fmt.Sprintf("%s: %s is emitted after rows of the current snapshot", desc, cs.At), cs, obs
				}
				retr = append(retr, o)
				if haveWM && !o.T.IsZero() && !o.T.After(lastWM) {
					obs.RetractionAtOrBelowForwardedWatermark = true
				}
			} else {
				ins = append(ins, o)
				if !o.T.Equal(o.Vals[0].Time) {
					obs.InsertEventTimeIsTimeColumn = false
				}
			}
		}
		// retractions == exactly the previous snapshot as it was emitted
		rb := stream.Bag{}
		for _, o := range retr {
			rb.Add(rowKey(o), 1)
			bag.Add(rowKey(o), -1)
		}
		if ri < k {
			if !rb.Equal(prevInserts) {
				cs.At, cs.Got, cs.Want = fmt.Sprintf("round %d", round), rb.String(), prevInserts.String()
				kind := "retractions-differ-from-previous-snapshot"
				if len(rb) == 0 {
					kind = "previous-snapshot-not-retracted"
				}
				return "poll/" + kind, fmt.Sprintf("%s: round %d retracts %s, previous round emitted %s", desc, round, rb, prevInserts), cs, obs
			}
		} else {
			// round k+1 fails in the source: nothing but (a part of) the retractions of snapshot k may appear
			if len(ins) > 0 {
				cs.At = fmt.Sprintf("round %d", round)
				return "poll/rows-emitted-in-failed-round", fmt.Sprintf("%s: rows %v emitted in the round whose source run failed", desc, stream.LogStrs(ins)), cs, obs
			}
			for key, n := range rb {
				if prevInserts[key] < n {
					cs.At, cs.Got, cs.Want = fmt.Sprintf("round %d", round), rb.String(), prevInserts.String()
					return "poll/retractions-differ-from-previous-snapshot", fmt.Sprintf("%s: failed round %d retracts %s, previous round emitted %s", desc, round, rb, prevInserts), cs, obs
				}
			}
			break
		}
		// current snapshot
		ib := stream.Bag{}
		proj := stream.Bag{}
		for _, o := range ins {
			ib.Add(rowKey(o), 1)
			bag.Add(rowKey(o), 1)
			proj.Add(stream.ValsKey(o.Vals[1:]), 1)
		}
		wantProj := stream.Bag{}
		for _, row := range rounds[ri] {
			wantProj.Add(stream.ValsKey(row), 1)
		}
		if !proj.Equal(wantProj) {
			cs.At, cs.Got, cs.Want = fmt.Sprintf("round %d", round), proj.String(), wantProj.String()
			return "poll/current-snapshot-not-emitted-exactly", fmt.Sprintf("%s: round %d emitted rows %s, snapshot is %s", desc, round, proj, wantProj), cs, obs
		}
		// consolidated output at the watermark of round i == snapshot i
		if key, neg := bag.HasNegative(); neg {
			cs.At, cs.Got = fmt.Sprintf("watermark of round %d", round), bag.String()
			return "poll/consolidated-negative", fmt.Sprintf("%s: after round %d the consolidated output has a negative count for %s", desc, round, key), cs, obs
		}
		if !bag.Equal(ib) {
			cs.At, cs.Got, cs.Want = fmt.Sprintf("watermark of round %d", round), bag.String(), ib.String()
			return "poll/consolidated-differs-from-snapshot", fmt.Sprintf("%s: after round %d the consolidated output is %s, want exactly this round's rows %s", desc, round, bag, ib), cs, obs
		}
		// watermarks non-decreasing (order relation between two clock readings only)
		if haveWM && sg.wm.T.Before(lastWM) {
			cs.At = fmt.Sprintf("watermark of round %d", round)
			return "poll/watermark-regressed", fmt.Sprintf("%s: watermark of round %d (%s) is before the previous one (%s)", desc, round, c21TStr(sg.wm.T), c21TStr(lastWM)), cs, obs
		}
		lastWM, haveWM = sg.wm.T, true
		prevInserts = ib
	}
	cs.At = ""
	return "", "", cs, obs
}

// c21PollDescriptorProbe: what happens when poll_interval is passed the way
// the argument matcher declares it (a descriptor). Observation only.
func c21PollDescriptorProbe() (res string) {
	defer func() {
		if r := recover(); r != nil {
			res = fmt.Sprintf("panic: %v", r)
		}
	}()
	args := map[string]physical.TableValuedFunctionArgument{
		"source":        tableArg(physSource(&c21SnapshotSource{}, c21PollFields, -1)),
		"poll_interval": descArg("a"),
	}
	_, err := tvf.Poll.Descriptors[0].Materialize(context.Background(), physical.Environment{}, args)
	return fmt.Sprintf("materialized, err=%v", err)
}

// ---------------------------------------------------------------- driver

func init() {
	register("C21", "exploration", func(r *findings.Run) {
		// ---- tumble
		times := c21Times()
		lengths := []time.Duration{time.Second, 7 * time.Second, time.Minute, time.Hour}
		o0, o1, om1, o30 := time.Duration(0), time.Second, -time.Second, 30*time.Second
		offsets := []*time.Duration{nil, &o0, &o1, &om1, &o30}
		maxRecs := r.Pick(2, 3)
		var scripts [][]c21Sym
		enum.Sequences(len(times)*3, maxRecs, nil, func(seq []int) {
			s := make([]c21Sym, len(seq))
			for i, x := range seq {
				s[i] = c21Sym{Time: x / 3, Variant: x % 3}
			}
			scripts = append(scripts, s)
		})
		nCfg := len(lengths) * len(offsets) * 2
		var tumbleSamples, pollSamples int32
		enum.Parallel(len(scripts)*nCfg, func(j int) {
			syms := scripts[j/nCfg]
			c := j % nCfg
			withWM := c%2 == 1
			c /= 2
			length, offset := lengths[c/len(offsets)], offsets[c%len(offsets)]
			fp, what, cs, windows := c21TumbleCheck(times, syms, withWM, length, offset)
			r.Eval(1)
			r.Sum("tumble_runs", 1)
			if fp != "" {
				r.Outcome("tumble:violation:" + fp)
				r.Violation("C21/"+fp, what, cs)
				return
			}
			r.Outcome(fmt.Sprintf("tumble:records=%d,distinct_windows=%d,watermarks=%v", len(syms), windows, withWM))
			if windows >= 2 && withWM {
				r.Nontrivial("tumble|" + cs.Config + "|" + strings.Join(cs.Input, " "))
				if j%1013 == 0 && atomic.AddInt32(&tumbleSamples, 1) <= 2 {
					r.Sample(cs)
				}
			}
		})

		// ---- range
		for start := int64(-3); start <= 4; start++ {
			for end := int64(-3); end <= 4; end++ {
				fp, what, cs := c21RangeCheck(start, end)
				r.Eval(1)
				r.Sum("range_runs", 1)
				if fp != "" {
					r.Outcome("range:violation:" + fp)
					r.Violation("C21/"+fp, what, cs)
					continue
				}
				n := end - start
				if n < 0 {
					n = 0
				}
				r.Outcome(fmt.Sprintf("range:emitted=%d", n))
				if n >= 2 {
					r.Nontrivial("range|" + cs.Config)
					if start == -1 && end == 2 {
						r.Sample(cs)
					}
				}
			}
		}

		// ---- poll
		var snapshots [][]int
		enum.Sequences(2, 3, nil, func(seq []int) {
			s := make([]int, len(seq))
			for i, x := range seq {
				s[i] = x + 1
			}
			snapshots = append(snapshots, s)
		})
		const k = 3
		intervals := []time.Duration{0, time.Millisecond}
		n := len(snapshots)
		enum.Parallel(n*n*n*len(intervals), func(j int) {
			iv := intervals[j%len(intervals)]
			x := j / len(intervals)
			snaps := [][]int{snapshots[x/(n*n)], snapshots[(x/n)%n], snapshots[x%n]}
			fp, what, cs, obs := c21PollCheck(snaps, iv)
			r.Eval(1)
			r.Sum("poll_runs", 1)
			if obs.RetractionAtOrBelowForwardedWatermark {
				r.Sum("poll_runs_with_retraction_event_time_at_or_below_forwarded_watermark", 1)
			}
			if obs.InsertEventTimeIsTimeColumn {
				r.Sum("poll_runs_with_insert_event_time_equal_time_column", 1)
			}
			if fp != "" {
				r.Outcome("poll:violation:" + fp)
				r.Violation("C21/"+fp, what, cs)
				return
			}
			changes := 0
			for i := 1; i < k; i++ {
				if len(snaps[i]) > 0 && len(snaps[i-1]) > 0 && fmt.Sprint(snaps[i]) != fmt.Sprint(snaps[i-1]) {
					changes++
				}
			}
			r.Outcome(fmt.Sprintf("poll:rows=%d/%d/%d", len(snaps[0]), len(snaps[1]), len(snaps[2])))
			if changes >= 1 {
				r.Nontrivial("poll|" + cs.Config + "|" + strings.Join(cs.Input, " "))
				if j%701 == 0 && atomic.AddInt32(&pollSamples, 1) <= 2 {
					r.Sample(cs)
				}
			}
		})
		r.Extra["poll_interval_passed_as_descriptor_(as_the_argument_matcher_declares)"] = c21PollDescriptorProbe()
		r.Extra["poll_observations_not_judged"] = "coverage sums poll_runs_with_*: (1) retractions of round i+1 carry event time == the watermark forwarded at the end of round i (late by C18's definition; C21's statement is silent about event times); (2) poll_interval is declared a descriptor argument by the matcher/typecheck but read as an expression by Materialize (nil dereference when passed as declared)"

		r.Bound = map[string]interface{}{
			"tumble": map[string]interface{}{"times": func() []string {
				var s []string
				for _, t := range times {
					s = append(s, t.Name)
				}
				return s
			}(), "record_variants": []string{"insert,event_time=ts", "retraction,event_time=ts", "insert,zero_event_time"},
				"max_records": maxRecs, "window_length": []string{"1s", "7s", "1m", "1h"}, "offset": []string{"absent", "0", "1s", "-1s", "30s"},
				"watermarks": []string{"none", "before every record and after the last (no late records)"}, "scripts": len(scripts)},
			"range": "all (start,end) in [-3,4]^2",
			"poll":  map[string]interface{}{"snapshots": "all row sequences of length 0..3 over rows {1,2}", "rounds": k, "poll_interval": []string{"0s", "1ms"}, "snapshot_triples": n * n * n},
		}
		r.Rule = "tumble: every script of up to max_records records over times x variants, without and with interleaved watermarks, x window_length x offset on the real node; per record window_start <= ts < window_end, window_end-window_start == L, (window_start-offset) multiple of L counted from Go's zero time (exact big-integer arithmetic), pairwise window_start differences multiples of L, source fields/retraction flag/event time unchanged, every watermark forwarded unchanged at its position. " +
			"range: every (start,end), the real node emits exactly start..end-1 ascending as non-retraction single-Int rows. " +
			"poll: every triple of snapshots x interval on the real node over a source that returns snapshot i on its i-th Run and an error on the 4th; rounds are split at the emitted watermarks: round i = retractions equal (as a multiset of full rows incl. the time column) to the rows emitted in round i-1, then rows whose source fields equal snapshot i (multiset), then one watermark; watermarks non-decreasing; consolidated output at watermark i == rows of round i; the failed round may only emit retractions of snapshot 3. " +
			"non-trivial = tumble script with watermarks whose records fall in >= 2 distinct windows; range with >= 2 integers; poll triple with a change between two non-empty consecutive snapshots"
		r.Assume("tumble's origin is the one time.Truncate documents (Go's zero time); for L dividing 24h this coincides with the Unix-epoch reading, 7s does not divide 24h and is judged by the Truncate reading only",
			"window_length <= 0 is out of contract and not generated",
			"range: metadata messages are not judged, only records",
			"poll: order of rows inside the retraction block and inside the snapshot block is not judged (multisets); event times of poll's rows are not judged (the statement is silent), only observed in extra",
			"poll: the wall clock is only observed through order relations between emitted watermarks; no duration is compared with real time",
			"poll_interval is passed as an expression argument because that is what poll.go's Materialize reads")
	})
}
