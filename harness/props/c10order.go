package props

import "github.com/cube2222/octosql/octosql"

// c10Orderings: t itself and, for a union, every rotation of its alternatives as a hand-built union value.
func c10Orderings(t octosql.Type) []octosql.Type {
	out := []octosql.Type{t}
	if t.TypeID != octosql.TypeIDUnion {
		return out
	}
	alts := t.Union.Alternatives
	for k := 1; k < len(alts); k++ {
		rot := append(append([]octosql.Type{}, alts[k:]...), alts[:k]...)
		out = append(out, octosql.Type{TypeID: octosql.TypeIDUnion, Union: struct{ Alternatives []octosql.Type }{Alternatives: rot}})
	}
	return out
}

func c10KeyOrdered(t octosql.Type) string { return c10Key(t) }
