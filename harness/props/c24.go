package props

// C24: File datasources produce values that match their inferred schema.
//
// For every generated CSV / JSON-lines file (one index column i, one column c built from a small alphabet
// of cell texts / JSON value kinds: every ordered pair and triple as a 2/3-row column, and every pair
// (A in rows 1..100, B in row 101) - the schema is inferred from the first 100 rows):
//   seam 1 (CLI, vrun pool): `--describe -o json` gives the column type, `SELECT * -o json` the values;
//   seam 2 (in-process): the datasource is built through the Creator cmd/root.go uses, materialized and run
//           with a recording produce function: exact octosql.Value type ids against the physical.Schema.
// Oracle 1: every produced value conforms to the reported column type (own conforms()).
// Oracle 2: a row that cannot be represented in the reported schema makes the query fail; it is not
//           silently nulled, dropped or converted.

import (
	"context"
	"encoding/json"
	"fmt"
	"math"
	"os"
	"sort"
	"strconv"
	"strings"
	"time"

	"github.com/cube2222/octosql/config"
	csvds "github.com/cube2222/octosql/datasources/csv"
	jsonds "github.com/cube2222/octosql/datasources/json"
	"github.com/cube2222/octosql/execution"
	"github.com/cube2222/octosql/octosql"
	"github.com/cube2222/octosql/physical"

	"verif/harness/internal/enum"
	"verif/harness/internal/findings"
	"verif/harness/internal/runner"
	"verif/harness/internal/stream"
)

// c24Preview: number of rows both datasources look at when inferring the schema
// (datasources/csv/impl.go: `for i := 0; i < 100; i++`, datasources/json/impl.go: `for sc.Scan() && i < 100`).
const c24Preview = 100

// ---------------------------------------------------------------- type syntax printed by --describe

type c24Type struct {
	K     string // NULL Int Float Boolean String Time Duration Any list struct tuple union
	Elem  *c24Type
	Names []string  // struct field names
	Sub   []c24Type // struct field types / tuple elements / union alternatives
}

func (t c24Type) String() string {
	switch t.K {
	case "list":
		if t.Elem == nil {
			return "[]"
		}
		return "[" + t.Elem.String() + "]"
	case "struct":
		p := make([]string, len(t.Sub))
		for i := range t.Sub {
			p[i] = t.Names[i] + ": " + t.Sub[i].String()
		}
		return "{" + strings.Join(p, "; ") + "}"
	case "tuple":
		p := make([]string, len(t.Sub))
		for i := range t.Sub {
			p[i] = t.Sub[i].String()
		}
		return "(" + strings.Join(p, ", ") + ")"
	case "union":
		p := make([]string, len(t.Sub))
		for i := range t.Sub {
			p[i] = t.Sub[i].String()
		}
		return strings.Join(p, " | ")
	}
	return t.K
}

type c24TypeParser struct {
	s string
	i int
}

func (p *c24TypeParser) has(x string) bool { return strings.HasPrefix(p.s[p.i:], x) }
func (p *c24TypeParser) eat(x string) bool {
	if p.has(x) {
		p.i += len(x)
		return true
	}
	return false
}

func (p *c24TypeParser) union() (c24Type, error) {
	first, err := p.alt()
	if err != nil {
		return c24Type{}, err
	}
	alts := []c24Type{first}
	for p.eat(" | ") {
		a, err := p.alt()
		if err != nil {
			return c24Type{}, err
		}
		alts = append(alts, a)
	}
	if len(alts) == 1 {
		return first, nil
	}
	return c24Type{K: "union", Sub: alts}, nil
}

func (p *c24TypeParser) alt() (c24Type, error) {
	switch {
	case p.eat("["):
		if p.eat("]") {
			return c24Type{K: "list"}, nil
		}
		e, err := p.union()
		if err != nil {
			return c24Type{}, err
		}
		if !p.eat("]") {
			return c24Type{}, fmt.Errorf("expected ] at %d in %q", p.i, p.s)
		}
		return c24Type{K: "list", Elem: &e}, nil
	case p.eat("{"):
		t := c24Type{K: "struct"}
		if p.eat("}") {
			return t, nil
		}
		for {
			j := strings.Index(p.s[p.i:], ": ")
			if j < 0 {
				return c24Type{}, fmt.Errorf("expected field name at %d in %q", p.i, p.s)
			}
			name := p.s[p.i : p.i+j]
			p.i += j + 2
			ft, err := p.union()
			if err != nil {
				return c24Type{}, err
			}
			t.Names = append(t.Names, name)
			t.Sub = append(t.Sub, ft)
			if p.eat("; ") {
				continue
			}
			if p.eat("}") {
				return t, nil
			}
			return c24Type{}, fmt.Errorf("expected ; or } at %d in %q", p.i, p.s)
		}
	case p.eat("("):
		t := c24Type{K: "tuple"}
		if p.eat(")") {
			return t, nil
		}
		for {
			et, err := p.union()
			if err != nil {
				return c24Type{}, err
			}
			t.Sub = append(t.Sub, et)
			if p.eat(", ") {
				continue
			}
			if p.eat(")") {
				return t, nil
			}
			return c24Type{}, fmt.Errorf("expected , or ) at %d in %q", p.i, p.s)
		}
	}
	for _, k := range []string{"NULL", "Int", "Float", "Boolean", "String", "Time", "Duration", "Any"} {
		if p.eat(k) {
			return c24Type{K: k}, nil
		}
	}
	return c24Type{}, fmt.Errorf("unknown type syntax at %d in %q", p.i, p.s)
}

func c24ParseType(s string) (c24Type, error) {
	p := &c24TypeParser{s: s}
	t, err := p.union()
	if err != nil {
		return c24Type{}, err
	}
	if p.i != len(s) {
		return c24Type{}, fmt.Errorf("trailing text at %d in %q", p.i, s)
	}
	return t, nil
}

func (t c24Type) alts() []c24Type {
	if t.K == "union" {
		return t.Sub
	}
	return []c24Type{t}
}

func (t c24Type) hasAlt(k string) bool {
	for _, a := range t.alts() {
		if a.K == k || a.K == "Any" {
			return true
		}
	}
	return false
}

// ---------------------------------------------------------------- observed values

// c24Obs: a produced value. K: null int float num bool string clistr time duration list struct obj tuple
//
//	num    = CLI number without fraction/exponent (an Int or a Float, -o json prints both alike)
//	clistr = CLI string (a String, a Time or a Duration)
//	obj    = CLI object (keys in Names), struct = in-process positional struct
type c24Obs struct {
	K     string
	S     string
	F     float64
	B     bool
	L     []c24Obs
	Names []string
}

func (o c24Obs) String() string {
	switch o.K {
	case "null":
		return "NULL"
	case "int", "float", "num":
		return o.K + "(" + o.S + ")"
	case "bool":
		return fmt.Sprintf("bool(%v)", o.B)
	case "string", "clistr", "time", "duration":
		return o.K + "(" + strconv.QuoteToASCII(o.S) + ")"
	case "list", "tuple", "struct":
		p := make([]string, len(o.L))
		for i := range o.L {
			p[i] = o.L[i].String()
		}
		return o.K + "[" + strings.Join(p, ", ") + "]"
	case "obj":
		p := make([]string, len(o.L))
		for i := range o.L {
			p[i] = o.Names[i] + ": " + o.L[i].String()
		}
		return "obj{" + strings.Join(p, ", ") + "}"
	}
	return "?" + o.K
}

func c24ObsFromCLI(v c23V) c24Obs {
	switch v.K {
	case "null":
		return c24Obs{K: "null"}
	case "num":
		if strings.ContainsAny(v.S, ".eE") {
			return c24Obs{K: "float", S: v.S, F: v.N}
		}
		return c24Obs{K: "num", S: v.S, F: v.N}
	case "str":
		return c24Obs{K: "clistr", S: v.S}
	case "bool":
		return c24Obs{K: "bool", B: v.B}
	case "list":
		o := c24Obs{K: "list"}
		for _, e := range v.L {
			o.L = append(o.L, c24ObsFromCLI(e))
		}
		return o
	case "obj":
		o := c24Obs{K: "obj", Names: v.Keys}
		for _, e := range v.L {
			o.L = append(o.L, c24ObsFromCLI(e))
		}
		return o
	}
	return c24Obs{K: "?" + v.K}
}

func c24ObsFromValue(v octosql.Value) c24Obs {
	switch v.TypeID {
	case octosql.TypeIDNull:
		return c24Obs{K: "null"}
	case octosql.TypeIDInt:
		return c24Obs{K: "int", S: strconv.FormatInt(v.Int, 10), F: float64(v.Int)}
	case octosql.TypeIDFloat:
		return c24Obs{K: "float", S: strconv.FormatFloat(v.Float, 'g', -1, 64), F: v.Float}
	case octosql.TypeIDBoolean:
		return c24Obs{K: "bool", B: v.Boolean}
	case octosql.TypeIDString:
		return c24Obs{K: "string", S: v.Str}
	case octosql.TypeIDTime:
		return c24Obs{K: "time", S: v.Time.Format(time.RFC3339Nano)}
	case octosql.TypeIDDuration:
		return c24Obs{K: "duration", S: v.Duration.String()}
	case octosql.TypeIDList:
		o := c24Obs{K: "list"}
		for _, e := range v.List {
			o.L = append(o.L, c24ObsFromValue(e))
		}
		return o
	case octosql.TypeIDStruct:
		o := c24Obs{K: "struct"}
		for _, e := range v.Struct {
			o.L = append(o.L, c24ObsFromValue(e))
		}
		return o
	case octosql.TypeIDTuple:
		o := c24Obs{K: "tuple"}
		for _, e := range v.Tuple {
			o.L = append(o.L, c24ObsFromValue(e))
		}
		return o
	}
	return c24Obs{K: fmt.Sprintf("?typeid%d", int(v.TypeID))}
}

// c24Conforms: does the produced value belong to the type? nanOK: the CLI prints NaN/Inf floats as null.
func c24Conforms(o c24Obs, t c24Type, nanOK bool) bool {
	if t.K == "union" {
		for _, a := range t.Sub {
			if c24Conforms(o, a, nanOK) {
				return true
			}
		}
		return false
	}
	if t.K == "Any" {
		return true
	}
	switch o.K {
	case "null":
		return t.K == "NULL" || (nanOK && t.K == "Float")
	case "int":
		return t.K == "Int"
	case "float":
		return t.K == "Float"
	case "num":
		return t.K == "Int" || t.K == "Float"
	case "bool":
		return t.K == "Boolean"
	case "string":
		return t.K == "String"
	case "time":
		return t.K == "Time"
	case "duration":
		return t.K == "Duration"
	case "clistr":
		switch t.K {
		case "String":
			return true
		case "Time":
			_, err := time.Parse(time.RFC3339Nano, o.S)
			return err == nil
		case "Duration":
			_, err := time.ParseDuration(o.S)
			return err == nil
		}
		return false
	case "list":
		if t.K == "tuple" {
			if len(o.L) != len(t.Sub) {
				return false
			}
			for i := range o.L {
				if !c24Conforms(o.L[i], t.Sub[i], nanOK) {
					return false
				}
			}
			return true
		}
		if t.K != "list" {
			return false
		}
		for _, e := range o.L {
			if t.Elem == nil || !c24Conforms(e, *t.Elem, nanOK) {
				return false
			}
		}
		return true
	case "tuple":
		if t.K != "tuple" || len(o.L) != len(t.Sub) {
			return false
		}
		for i := range o.L {
			if !c24Conforms(o.L[i], t.Sub[i], nanOK) {
				return false
			}
		}
		return true
	case "struct":
		if t.K != "struct" || len(o.L) != len(t.Sub) {
			return false
		}
		for i := range o.L {
			if !c24Conforms(o.L[i], t.Sub[i], nanOK) {
				return false
			}
		}
		return true
	case "obj":
		if t.K != "struct" || len(o.L) != len(t.Sub) {
			return false
		}
		for i, n := range t.Names {
			found := false
			for j, on := range o.Names {
				if on == n {
					found = true
					if !c24Conforms(o.L[j], t.Sub[i], nanOK) {
						return false
					}
				}
			}
			if !found {
				return false
			}
		}
		return true
	}
	return false
}

// ---------------------------------------------------------------- source cells

// c24Src: what the generator wrote into column c of one row.
type c24Src struct {
	CSV     bool
	Text    string // CSV: cell text; JSON: value text ("" with Missing)
	Missing bool   // JSON: the key is absent
	V       c23V   // JSON: the value
	Bad     string // the whole row is malformed (ragged CSV row, non-object JSON line): text of the line
}

func (s c24Src) String() string {
	if s.Bad != "" {
		return "malformed-row " + strconv.QuoteToASCII(s.Bad)
	}
	if s.Missing {
		return "(key absent)"
	}
	if s.CSV {
		return "cell " + strconv.QuoteToASCII(s.Text)
	}
	return s.Text
}

func (s c24Src) kind() string {
	if s.Bad != "" {
		return "malformed-row"
	}
	if s.Missing {
		return "missing"
	}
	if s.CSV {
		return "text:" + s.Text
	}
	return s.Text
}

// c24Representable (JSON): can the schema type hold this JSON value without losing anything?
func c24Representable(v c23V, missing bool, t c24Type) bool {
	if t.K == "Any" {
		return true
	}
	if missing || v.K == "null" {
		return t.hasAlt("NULL")
	}
	for _, a := range t.alts() {
		switch v.K {
		case "num":
			if a.K == "Float" || a.K == "Int" {
				return true
			}
		case "bool":
			if a.K == "Boolean" {
				return true
			}
		case "str":
			if a.K == "String" {
				return true
			}
			if a.K == "Time" {
				if _, err := time.Parse(time.RFC3339Nano, v.S); err == nil {
					return true
				}
			}
			if a.K == "Duration" {
				if _, err := time.ParseDuration(v.S); err == nil {
					return true
				}
			}
		case "list":
			if a.K == "list" {
				ok := true
				for _, e := range v.L {
					if a.Elem == nil || !c24Representable(e, false, *a.Elem) {
						ok = false
					}
				}
				if ok {
					return true
				}
			}
		case "obj":
			if a.K == "struct" {
				ok := true
				for i, k := range v.Keys {
					found := false
					for j, n := range a.Names {
						if n == k {
							found = true
							if !c24Representable(v.L[i], false, a.Sub[j]) {
								ok = false
							}
						}
					}
					if !found {
						ok = false
					}
				}
				for j, n := range a.Names {
					if _, present := v.get(n); !present && !c24Representable(c23V{}, true, a.Sub[j]) {
						ok = false
					}
				}
				if ok {
					return true
				}
			}
		}
	}
	return false
}

func c24IsNaNInfText(s string) bool {
	f, err := strconv.ParseFloat(strings.TrimSpace(s), 64)
	if err != nil && !math.IsInf(f, 0) {
		return false
	}
	return math.IsNaN(f) || math.IsInf(f, 0)
}

// c24CSVFaithful: is the produced value one of the reasonable typings of the cell text? (weak on purpose)
func c24CSVFaithful(text string, o c24Obs) bool {
	switch o.K {
	case "null":
		return text == "" || c24IsNaNInfText(text) // CLI prints NaN/Inf as null
	case "string", "clistr":
		if o.S == text {
			return true
		}
		if t, err := time.Parse(time.RFC3339Nano, text); err == nil && o.K == "clistr" {
			return o.S == t.Format(time.RFC3339)
		}
		return false
	case "time":
		t, err := time.Parse(time.RFC3339Nano, text)
		if err != nil {
			return false
		}
		t2, err := time.Parse(time.RFC3339Nano, o.S)
		return err == nil && t.Equal(t2)
	case "int", "float", "num":
		f, err := strconv.ParseFloat(strings.TrimSpace(text), 64)
		if err != nil && !math.IsInf(f, 0) {
			return false
		}
		if math.IsNaN(f) {
			return math.IsNaN(o.F)
		}
		return f == o.F || math.Abs(f-o.F) <= 4e-16*math.Abs(f)
	case "bool":
		b, err := strconv.ParseBool(text)
		return err == nil && b == o.B
	}
	return false
}

// ---------------------------------------------------------------- files

type c24File struct {
	Format  string // csv json
	Constr  string // single pair triple beyond-preview malformed-row
	Srcs    []c24Src
	Content []byte
	Desc    string
	NonTriv bool
}

var c24CSVTexts = []string{"", "0", "-1", "+1", "007", "1.5", "1e3", ".5", "5.", "0x10", "1_000", "Inf", "-inf", "NaN", "true", "T", "abc",
	"2021-01-01T00:00:00Z", " 1", "9223372036854775808", "-9223372036854775808", "1e400"}

type c24JSONKind struct {
	Text    string
	V       c23V
	Missing bool
}

func c24JSONKinds() []c24JSONKind {
	return []c24JSONKind{
		{Text: "null", V: c23Null()},
		{Text: "1", V: c23Num(1)},
		{Text: "1.5", V: c23Num(1.5)},
		{Text: `"s"`, V: c23Str("s")},
		{Text: `"2021-01-01T00:00:00Z"`, V: c23Str("2021-01-01T00:00:00Z")},
		{Text: "true", V: c23Bool(true)},
		{Text: "{}", V: c23Obj()},
		{Text: `{"a":1}`, V: c23Obj("a", c23Num(1))},
		{Text: `{"b":"x"}`, V: c23Obj("b", c23Str("x"))},
		{Text: "[]", V: c23List()},
		{Text: "[1]", V: c23List(c23Num(1))},
		{Text: `["x"]`, V: c23List(c23Str("x"))},
		{Text: "[[1]]", V: c23List(c23List(c23Num(1)))},
		// multi-element lists and multi-member objects: a value of another kind in a non-final / final position
		{Text: "[1,2]", V: c23List(c23Num(1), c23Num(2))},
		{Text: `["x",2]`, V: c23List(c23Str("x"), c23Num(2))},
		{Text: `[1,"x"]`, V: c23List(c23Num(1), c23Str("x"))},
		{Text: `{"a":1,"b":2}`, V: c23Obj("a", c23Num(1), "b", c23Num(2))},
		{Text: `{"a":"x","b":2}`, V: c23Obj("a", c23Str("x"), "b", c23Num(2))},
		{Text: `{"a":1,"b":"x"}`, V: c23Obj("a", c23Num(1), "b", c23Str("x"))},
		{Missing: true},
	}
}

func c24MkCSV(constr string, texts []string, bad map[int]string) c24File {
	var b strings.Builder
	b.WriteString("i,c\n")
	f := c24File{Format: "csv", Constr: constr}
	for i, t := range texts {
		if line, ok := bad[i]; ok {
			b.WriteString(line + "\n")
			f.Srcs = append(f.Srcs, c24Src{CSV: true, Bad: line})
			continue
		}
		fmt.Fprintf(&b, "%d,%s\n", i, t)
		f.Srcs = append(f.Srcs, c24Src{CSV: true, Text: t})
	}
	f.Content = []byte(b.String())
	return f
}

func c24MkJSON(constr string, kinds []c24JSONKind, bad map[int]string) c24File {
	var b strings.Builder
	f := c24File{Format: "json", Constr: constr}
	for i, k := range kinds {
		if line, ok := bad[i]; ok {
			b.WriteString(line + "\n")
			f.Srcs = append(f.Srcs, c24Src{Bad: line})
			continue
		}
		if k.Missing {
			fmt.Fprintf(&b, "{\"i\":%d}\n", i)
			f.Srcs = append(f.Srcs, c24Src{Missing: true})
		} else {
			fmt.Fprintf(&b, "{\"i\":%d,\"c\":%s}\n", i, k.Text)
			f.Srcs = append(f.Srcs, c24Src{Text: k.Text, V: k.V})
		}
	}
	f.Content = []byte(b.String())
	return f
}

func c24Describe(srcs []c24Src) string {
	if len(srcs) > 4 {
		return fmt.Sprintf("rows 1..%d: %s; row %d: %s", len(srcs)-1, srcs[0].String(), len(srcs), srcs[len(srcs)-1].String())
	}
	p := make([]string, len(srcs))
	for i := range srcs {
		p[i] = srcs[i].String()
	}
	return "rows: " + strings.Join(p, " / ")
}

func c24BuildFiles(r *findings.Run) []c24File {
	var files []c24File
	add := func(f c24File, nontriv bool) {
		f.Desc = f.Format + " " + f.Constr + " " + c24Describe(f.Srcs)
		f.NonTriv = nontriv
		files = append(files, f)
	}
	T := c24CSVTexts
	K := c24JSONKinds()
	// CSV
	for _, a := range T {
		add(c24MkCSV("single", []string{a}, nil), false)
		for _, b := range T {
			add(c24MkCSV("pair", []string{a, b}, nil), a != b)
			rows := make([]string, c24Preview+1)
			for i := range rows {
				rows[i] = a
			}
			rows[c24Preview] = b
			add(c24MkCSV("beyond-preview", rows, nil), a != b)
			if r.Thorough() {
				for _, c := range T {
					add(c24MkCSV("triple", []string{a, b, c}, nil), a != b || b != c)
				}
			}
		}
	}
	// JSON
	for _, a := range K {
		add(c24MkJSON("single", []c24JSONKind{a}, nil), false)
		for _, b := range K {
			add(c24MkJSON("pair", []c24JSONKind{a, b}, nil), a.Text != b.Text)
			rows := make([]c24JSONKind, c24Preview+1)
			for i := range rows {
				rows[i] = a
			}
			rows[c24Preview] = b
			add(c24MkJSON("beyond-preview", rows, nil), a.Text != b.Text)
			for _, c := range K {
				// quick: triples only over the one-element kinds (the multi-element kinds take part in pairs and
				// beyond-preview files)
				multi := func(k c24JSONKind) bool { return strings.Contains(k.Text, ",") }
				if !r.Thorough() && (multi(a) || multi(b) || multi(c)) {
					continue
				}
				add(c24MkJSON("triple", []c24JSONKind{a, b, c}, nil), a.Text != b.Text || b.Text != c.Text)
			}
		}
	}
	// malformed rows: must be rejected, inside and beyond the preview
	for _, pos := range []int{1, c24Preview} {
		n := pos + 1
		texts := make([]string, n)
		kinds := make([]c24JSONKind, n)
		for i := range texts {
			texts[i] = "1"
			kinds[i] = K[1]
		}
		for _, line := range []string{"7", "7,8,9"} {
			add(c24MkCSV("malformed-row", texts, map[int]string{pos: line}), true)
		}
		for _, line := range []string{"1", `"s"`, "[1]", `{"i":1,"c":`} {
			add(c24MkJSON("malformed-row", kinds, map[int]string{pos: line}), true)
		}
	}
	// simplest constructions first, so that the first replay of a fingerprint is a small file
	rank := map[string]int{"single": 0, "pair": 1, "beyond-preview": 2, "triple": 3, "malformed-row": 4}
	sort.SliceStable(files, func(i, j int) bool { return rank[files[i].Constr] < rank[files[j].Constr] })
	return files
}

// ---------------------------------------------------------------- running one file

type c24Finding struct {
	FP   string
	What string
}

type c24Replay struct {
	Format    string   `json:"format"`
	Constr    string   `json:"construction"`
	File      string   `json:"file_content"`
	Truncated bool     `json:"file_content_truncated,omitempty"`
	Seam      string   `json:"seam"`
	SQL       string   `json:"sql"`
	Described string   `json:"described_type_of_c"`
	Row       int      `json:"row_index_from_0"`
	Source    string   `json:"source_cell"`
	Produced  string   `json:"produced_value"`
	Output    []string `json:"output_tail,omitempty"`
}

func c24Where(row int) string {
	if row >= c24Preview {
		return "beyond-preview"
	}
	return "preview"
}

// c24Classify: fingerprint for a judged row. t == nil: column c is not in the schema.
func c24Classify(f c24File, row int, src c24Src, t *c24Type, o c24Obs, problem string) string {
	where := c24Where(row)
	ts := "(no such column)"
	if t != nil {
		ts = t.String()
	}
	if f.Format == "csv" {
		// (the CLI prints a String that is not in a union column type as null)
		if where == "preview" && t != nil && (o.K == "string" || o.K == "clistr" || (o.K == "null" && src.Text != "")) && !t.hasAlt("String") {
			_, e1 := strconv.ParseInt(src.Text, 10, 64)
			_, e2 := strconv.ParseFloat(src.Text, 64)
			if e1 == nil || e2 == nil {
				return "C24/csv/number-syntax-accepted-by-strconv-at-inference-but-not-by-fastfloat-at-execution-becomes-String"
			}
		}
		if where == "beyond-preview" {
			return "C24/csv/value-beyond-preview-silently-String-or-NULL"
		}
		return fmt.Sprintf("C24/csv/%s/%s/text=%s/type=%s/got=%s", where, problem, src.Text, ts, o.K)
	}
	// json
	if t == nil {
		if where == "beyond-preview" {
			return "C24/json/key-first-seen-beyond-preview-silently-dropped"
		}
		return fmt.Sprintf("C24/json/%s/%s/column-missing-from-schema/src=%s", where, problem, src.kind())
	}
	rep := c24Representable(src.V, src.Missing, *t)
	if where == "preview" && src.Missing && !t.hasAlt("NULL") && o.K == "null" {
		return "C24/json/key-missing-in-a-previewed-row-but-column-not-nullable"
	}
	if rep && src.V.K == "obj" && o.K == "null" && t.K == "union" && t.hasAlt("struct") {
		return "C24/json/object-lacking-a-nullable-member-rejected-by-union-type-becomes-NULL"
	}
	if where == "beyond-preview" && !rep && problem == "silently-converted" && src.V.K == "obj" && (o.K == "obj" || o.K == "struct") {
		// the object came back as an object of the reported type: members the schema does not know were dropped
		return "C24/json/key-first-seen-beyond-preview-silently-dropped"
	}
	if where == "beyond-preview" && !rep {
		return "C24/json/value-beyond-preview-silently-null"
	}
	return fmt.Sprintf("C24/json/%s/%s/src=%s/type=%s/got=%s", where, problem, src.kind(), ts, o.K)
}

// c24JudgeRow returns "" or the problem: nonconforming | silently-converted.
func c24JudgeRow(f c24File, src c24Src, t *c24Type, present bool, o c24Obs, cli bool) string {
	if f.Format == "csv" {
		if t == nil {
			return "column-missing"
		}
		nanOK := cli && c24IsNaNInfText(src.Text)
		if !c24Conforms(o, *t, nanOK) {
			return "nonconforming"
		}
		if !c24CSVFaithful(src.Text, o) {
			return "silently-converted"
		}
		return ""
	}
	if t == nil {
		// column c not in the schema: fine only when the row has no value for it
		if src.Missing || src.V.K == "null" {
			return ""
		}
		return "silently-converted"
	}
	if !present {
		return "nonconforming"
	}
	if !c24Conforms(o, *t, false) {
		return "nonconforming"
	}
	if !c24Representable(src.V, src.Missing, *t) {
		return "silently-converted"
	}
	return ""
}

var c24Cfg = &config.Config{Files: config.FilesConfig{BufferSizeBytes: 4096 * 1024, JSON: config.JSONConfig{MaxLineSizeBytes: 1024 * 1024}}}

// c24RunInProcess builds the datasource the way cmd/root.go does and records what it produces.
func c24RunInProcess(format, path string) (schema physical.Schema, rows [][]octosql.Value, err error, panicked interface{}) {
	defer func() {
		if p := recover(); p != nil {
			panicked = p
		}
	}()
	ctx := config.ContextWithConfig(context.Background(), c24Cfg)
	creator := jsonds.Creator
	if format == "csv" {
		creator = csvds.Creator(',')
	}
	impl, schema, err := creator(ctx, path, map[string]string{})
	if err != nil {
		return schema, nil, fmt.Errorf("creator: %w", err), nil
	}
	node, err := impl.Materialize(ctx, physical.Environment{}, schema, nil)
	if err != nil {
		return schema, nil, fmt.Errorf("materialize: %w", err), nil
	}
	sink := &stream.Sink{}
	err = node.Run(execution.ExecutionContext{Context: ctx}, sink.Produce, sink.Meta)
	for _, o := range sink.Log {
		if !o.WM {
			rows = append(rows, o.Vals)
		}
	}
	return schema, rows, err, nil
}

func c24DescribeArgs(sql string) []string {
	return []string{sql, "-o", "json", "--optimize=true", "--describe=true", "--explain=0"}
}

func c24PoolRun(pool *runner.Pool, args []string) runner.Result {
	res := pool.Run(args, "")
	if cl := res.Class(); cl == "HANG" || cl == "CRASH" {
		// repeat in a fresh process: overload of the machine must not become a finding; a genuine crash reproduces
		res = runner.RunBinary(args, nil)
	}
	return res
}

func init() {
	register("C24", "exploration", func(r *findings.Run) {
		defer cleanupTables()
		pool := runner.NewPool(0, strings.Fields(os.Getenv("VERIF_WORKER_ENV"))...)
		defer pool.Close()
		files := c24BuildFiles(r)
		if only := os.Getenv("C24_ONLY"); only != "" {
			var f []c24File
			for _, x := range files {
				if x.Format == only || x.Format+"/"+x.Constr == only {
					f = append(f, x)
				}
			}
			files = f
			r.Exhaustive = false
		}
		r.Rule = "files with an index column i and a column c: CSV cell texts {\"\",0,-1,+1,007,1.5,1e3,.5,5.,0x10,1_000,Inf,-inf,NaN,true,T,abc,RFC3339,\" 1\",2^63,-2^63,1e400} and JSON values {null,1,1.5,\"s\",RFC3339 string,true,{},{a:1},{b:\"x\"},[],[1],[\"x\"],[[1]],key absent}: every single, ordered pair (and triple: JSON always, CSV in thorough) as a 1/2/3-row column, every (A in rows 1..100, B in row 101) pair, and malformed rows (ragged CSV row, non-object/truncated JSON line) at row 2 and row 101. For each file: --describe -o json, SELECT * -o json (vrun pool) and the datasource driven in-process through json.Creator / csv.Creator(',') + Materialize + Run with a recording produce. Oracle: every produced value conforms to the reported type of its column (own conforms()); a row the reported schema cannot hold makes the query fail. non-trivial = file whose cells differ from each other"
		r.Assume(
			"how a CSV text is typed (\" 1\", 007, T, 1e400, Inf ...) is octosql's choice: any typing is accepted as long as the value conforms to the reported type and is a faithful reading of the text (number equal to strconv's reading, boolean per ParseBool, the text itself, or NULL for the empty cell)",
			"the empty CSV cell is NULL (empty string vs NULL is not judged); NULL in a column whose reported type has no NULL is judged",
			"-o json prints Int 1 and Float 1.0 alike and NaN/Inf as null: the CLI seam accepts an integer-looking number for Int and Float and null for a NaN/Inf cell; exact type ids are judged on the in-process seam",
			"-o json prints a value that is not in a union column type as null (formatter behaviour): such cases are only visible on the in-process seam",
			"a JSON key that is absent counts as NULL (documented: missing keys -> NULL); the column type must then admit NULL",
			"a JSON object is representable in a struct type when each of its keys is a field that can hold the member and every other field admits NULL",
			"an error (non-zero exit / returned error) for a file with an unrepresentable or malformed row is the required behaviour and is counted as rejected; a crash (Go panic trace) is not a reported error",
			"a run of the in-process worker that hangs or crashes is repeated once with the real binary and judged on that result",
		)
		byKind := map[string]int{}
		for _, f := range files {
			byKind[f.Format+"/"+f.Constr]++
		}
		r.Bound = map[string]interface{}{"files": len(files), "files_by_construction": byKind, "preview_rows": c24Preview}

		type fileResult struct {
			findings []c24Finding
			replays  []c24Replay
			outcome  []string
			rejected bool
			harness  string
		}
		results := make([]fileResult, len(files))
		enum.Parallel(len(files), func(idx int) {
			if r.TimeUp() {
				return
			}
			f := files[idx]
			var fr fileResult
			defer func() { results[idx] = fr }()
			path := writeOnce("c24-"+hashName(f.Content)+"."+f.Format, f.Content)
			sql := "SELECT * FROM `" + path + "` t"
			fileText := string(f.Content)
			trunc := false
			if len(fileText) > 400 {
				fileText = fileText[:150] + " ... " + fileText[len(fileText)-200:]
				trunc = true
			}
			unrepresentableRow := -1 // by the reported schema, filled below
			anyBad := false
			for _, s := range f.Srcs {
				if s.Bad != "" {
					anyBad = true
				}
			}
			report := func(seam string, row int, src c24Src, t *c24Type, o c24Obs, problem string, tail []string) {
				fp := c24Classify(f, row, src, t, o, problem)
				ts := "(column c is not in the schema)"
				if t != nil {
					ts = t.String()
				}
				what := fmt.Sprintf("%s [%s]: row %d of column c holds %s, reported type %s, produced %s (%s) on the %s seam; %s", f.Format, f.Desc, row+1, src.String(), ts, o.String(), problem, seam, sql)
				fr.findings = append(fr.findings, c24Finding{fp, what})
				fr.replays = append(fr.replays, c24Replay{Format: f.Format, Constr: f.Constr, File: fileText, Truncated: trunc, Seam: seam, SQL: sql,
					Described: ts, Row: row, Source: src.String(), Produced: o.String(), Output: tail})
			}

			// ---- seam 1: CLI
			desc := c24PoolRun(pool, c24DescribeArgs(sql))
			r.Eval(1)
			var ctype *c24Type
			cliTypeStr := ""
			describeFailed := false
			switch desc.Class() {
			case "ok":
				rows, err := c23ParseOutput(desc.Out)
				if err != nil {
					fr.harness = "cannot parse --describe output: " + err.Error()
					return
				}
				for _, row := range rows {
					n, _ := row.get("name")
					ty, _ := row.get("type")
					if n.S == "c" {
						t, err := c24ParseType(ty.S)
						if err != nil {
							fr.harness = "cannot parse described type: " + err.Error()
							return
						}
						ctype = &t
						cliTypeStr = ty.S
					}
				}
			case "error":
				describeFailed = true
			default:
				describeFailed = true
				fr.outcome = append(fr.outcome, "describe: "+desc.Class())
			}
			if ctype != nil {
				for i, s := range f.Srcs {
					if s.Bad == "" && !s.CSV && !c24Representable(s.V, s.Missing, *ctype) {
						unrepresentableRow = i
						break
					}
				}
			} else if !describeFailed && f.Format == "json" {
				for i, s := range f.Srcs {
					if s.Bad == "" && !s.Missing && s.V.K != "null" {
						unrepresentableRow = i
						break
					}
				}
			}
			mustFail := anyBad || unrepresentableRow >= 0

			sel := c24PoolRun(pool, sqlArgs(sql, "json", true))
			r.Eval(1)
			crashed := false
			switch sel.Class() {
			case "ok":
				if describeFailed {
					fr.harness = "--describe failed (" + desc.Err + ") but SELECT succeeded"
					return
				}
				rows, err := c23ParseOutput(sel.Out)
				if err != nil {
					fr.harness = "cannot parse SELECT output: " + err.Error()
					return
				}
				tail := strings.Split(strings.TrimSpace(sel.Out), "\n")
				if len(tail) > 3 {
					tail = tail[len(tail)-3:]
				}
				if anyBad {
					for i, s := range f.Srcs {
						if s.Bad != "" {
							fp := fmt.Sprintf("C24/%s/%s/malformed-row-accepted-silently", f.Format, c24Where(i))
							fr.findings = append(fr.findings, c24Finding{fp, fmt.Sprintf("%s [%s]: the query succeeded with %d records although row %d is malformed; %s", f.Format, f.Desc, len(rows), i+1, sql)})
							fr.replays = append(fr.replays, c24Replay{Format: f.Format, Constr: f.Constr, File: fileText, Truncated: trunc, Seam: "cli", SQL: sql, Described: cliTypeStr, Row: i, Source: s.String(), Output: tail})
						}
					}
				} else if len(rows) != len(f.Srcs) {
					// row count is C23's property; here it only prevents row-wise judging
					fr.outcome = append(fr.outcome, "cli: row count differs (not judged here)")
				} else {
					bad := false
					for i, row := range rows {
						gv, present := row.get("c")
						o := c24ObsFromCLI(gv)
						if p := c24JudgeRow(f, f.Srcs[i], ctype, present, o, true); p != "" {
							report("cli", i, f.Srcs[i], ctype, o, p, tail)
							bad = true
							break // one report per seam and file
						}
					}
					if !bad {
						fr.outcome = append(fr.outcome, "cli: every value conforms")
					}
				}
			case "error":
				if mustFail || describeFailed {
					fr.rejected = true
					fr.outcome = append(fr.outcome, "cli: query failed for a file with a malformed/unrepresentable row (required)")
				} else {
					fr.outcome = append(fr.outcome, "cli: query failed although every row is representable (not judged)")
				}
			case "PANIC", "CRASH":
				crashed = true
				msg := sel.Panic
				if msg == "" {
					msg = firstLines(sel.Crash, 2)
				}
				short := "other"
				if strings.Contains(msg, "nil pointer dereference") {
					short = "nil-pointer-dereference"
				} else if strings.Contains(msg, "index out of range") {
					short = "index-out-of-range"
				}
				row := unrepresentableRow
				if row < 0 {
					row = len(f.Srcs) - 1
				}
				fp := fmt.Sprintf("C24/%s/%s/crash-instead-of-error/%s", f.Format, c24Where(row), short)
				fr.findings = append(fr.findings, c24Finding{fp, fmt.Sprintf("%s [%s]: reported type of c %q; the process crashed instead of reporting an error: %s; %s", f.Format, f.Desc, cliTypeStr, msg, sql)})
				fr.replays = append(fr.replays, c24Replay{Format: f.Format, Constr: f.Constr, File: fileText, Truncated: trunc, Seam: "cli", SQL: sql, Described: cliTypeStr, Row: row, Source: f.Srcs[row].String(), Produced: "CRASH: " + msg})
			default:
				fr.outcome = append(fr.outcome, "cli: "+sel.Class())
				crashed = true
			}
			if crashed {
				return // the JSON parser workers are global goroutines: a panic there would kill this process
			}

			// ---- seam 2: in-process
			schema, vals, err, panicked := c24RunInProcess(f.Format, path)
			r.Eval(1)
			if panicked != nil {
				fp := fmt.Sprintf("C24/%s/in-process/panic", f.Format)
				fr.findings = append(fr.findings, c24Finding{fp, fmt.Sprintf("%s [%s]: panic in the datasource: %v", f.Format, f.Desc, panicked)})
				fr.replays = append(fr.replays, c24Replay{Format: f.Format, Constr: f.Constr, File: fileText, Truncated: trunc, Seam: "in-process", SQL: sql, Produced: fmt.Sprint(panicked)})
				return
			}
			if err != nil {
				if mustFail || describeFailed {
					fr.rejected = true
					fr.outcome = append(fr.outcome, "in-process: datasource returned an error for a file with a malformed/unrepresentable row (required)")
				} else {
					fr.outcome = append(fr.outcome, "in-process: error although every row is representable (not judged)")
				}
				return
			}
			var ptype *c24Type
			cidx := -1
			for i, fld := range schema.Fields {
				if fld.Name == "c" {
					t, perr := c24ParseType(fld.Type.String())
					if perr != nil {
						fr.harness = "cannot parse schema type: " + perr.Error()
						return
					}
					ptype = &t
					cidx = i
				}
			}
			if (ptype == nil) != (ctype == nil) || (ptype != nil && ptype.String() != ctype.String()) {
				fr.harness = fmt.Sprintf("--describe says %q, the Creator's schema says %v", cliTypeStr, ptype)
				return
			}
			if anyBad {
				for i, s := range f.Srcs {
					if s.Bad != "" {
						fp := fmt.Sprintf("C24/%s/%s/malformed-row-accepted-silently", f.Format, c24Where(i))
						fr.findings = append(fr.findings, c24Finding{fp, fmt.Sprintf("%s [%s]: the datasource produced %d records without an error although row %d is malformed", f.Format, f.Desc, len(vals), i+1)})
						fr.replays = append(fr.replays, c24Replay{Format: f.Format, Constr: f.Constr, File: fileText, Truncated: trunc, Seam: "in-process", SQL: sql, Described: cliTypeStr, Row: i, Source: s.String()})
					}
				}
				return
			}
			if len(vals) != len(f.Srcs) {
				fr.outcome = append(fr.outcome, "in-process: row count differs (not judged here)")
				return
			}
			for i, row := range vals {
				var o c24Obs
				present := cidx >= 0 && cidx < len(row)
				if present {
					o = c24ObsFromValue(row[cidx])
				}
				if p := c24JudgeRow(f, f.Srcs[i], ptype, present, o, false); p != "" {
					report("in-process", i, f.Srcs[i], ptype, o, p, nil)
					return
				}
			}
			fr.outcome = append(fr.outcome, "in-process: every value conforms")
		})

		for idx, f := range files {
			fr := results[idx]
			if fr.harness != "" {
				fmt.Printf("HARNESS ERROR: C24 %s: %s\n", f.Desc, fr.harness)
				panic("C24 harness error: " + fr.harness)
			}
			if f.NonTriv {
				r.Nontrivial(f.Desc)
			}
			if fr.rejected {
				r.Reject(1)
			}
			for _, o := range fr.outcome {
				r.Outcome(f.Format + " " + f.Constr + ": " + o)
			}
			for i, fd := range fr.findings {
				tailSeg := strings.Split(fd.FP, "/")[2:]
				name := strings.Join(tailSeg, "/")
				if strings.Contains(name, "=") {
					name = "other (see violations)"
				}
				r.Outcome(f.Format + " " + f.Constr + ": VIOLATION " + name)
				r.Violation(fd.FP, fd.What, fr.replays[i])
			}
			if len(fr.findings) == 0 && f.NonTriv && idx%211 == 3 {
				b, _ := json.Marshal(map[string]interface{}{"file": f.Desc, "outcome": fr.outcome})
				r.Sample(json.RawMessage(b))
			}
		}
	})
}
