package props

import (
	"context"
	"fmt"
	"sync"
	"time"

	"github.com/cube2222/octosql/execution"
	"github.com/cube2222/octosql/execution/nodes"
	"github.com/cube2222/octosql/octosql"

	"verif/harness/internal/enum"
	"verif/harness/internal/findings"
	"verif/harness/internal/stream"
)

// c06Backlog: a join input fails while the join loop is a full channel buffer (10 000 messages) behind, because the
// consumer is busy. The failure must still fail the join. Deterministic: the consumer's first produce call blocks
// until the failing source has pushed its whole script and returned.
func c06Backlog(r *findings.Run) {
	const backlog = 10000
	for _, k := range joinKinds {
		for failSide := 0; failSide < 2; failSide++ {
			for _, extra := range []int{0, 1} { // the error arrives exactly when the buffer is full / has one free slot
				otherTaken := make(chan struct{})
				var once sync.Once
				hook := func(side int, closed, metadata bool) {
					if side == 1-failSide && !closed {
						once.Do(func() { close(otherTaken) })
					}
				}
				returned := make(chan struct{})
				failing := &funcSrc{run: func(ctx execution.ExecutionContext, produce execution.ProduceFn) error {
					defer close(returned)
					<-otherTaken
					pctx := execution.ProduceFromExecutionContext(ctx)
					for i := 0; i < backlog+1-extra; i++ {
						if err := produce(pctx, execution.NewRecord([]octosql.Value{octosql.NewInt(1)}, false, time.Time{})); err != nil {
							return err
						}
					}
					return stream.ErrInjected
				}}
				other := &funcSrc{run: func(ctx execution.ExecutionContext, produce execution.ProduceFn) error {
					return produce(execution.ProduceFromExecutionContext(ctx), execution.NewRecord([]octosql.Value{octosql.NewInt(1)}, false, time.Time{}))
				}}
				var l, rr execution.Node = failing, other
				if failSide == 1 {
					l, rr = other, failing
				}
				node := buildJoin(k, 1)(l, rr)
				first := true
				outputs := 0
				ctx := execution.ExecutionContext{Context: context.WithValue(context.Background(), nodes.VerifJoinHookKey{}, hook)}
				done := make(chan error, 1)
				go func() {
					done <- node.Run(ctx, func(pctx execution.ProduceContext, rec execution.Record) error {
						outputs++
						if first {
							first = false
							// wait until the failing source has pushed its script and returned; if it has not after 3 s it is
							// itself blocked on the full buffer (the join took none of its records yet), which is just as good
							select {
							case <-returned:
							case <-time.After(3 * time.Second):
							}
							time.Sleep(200 * time.Millisecond) // let the join's input goroutine try to hand over the error
						}
						return nil
					}, func(pctx execution.ProduceContext, msg execution.MetadataMessage) error { return nil })
				}()
				var err error
				stuck := false
				select {
				case err = <-done:
				case <-time.After(120 * time.Second):
					stuck = true
				}
				r.Eval(1)
				side := "left"
				if failSide == 1 {
					side = "right"
				}
				cs := map[string]interface{}{"join": k.Name, "failing_input": side, "records_before_failure": backlog + 1 - extra, "outputs": outputs}
				r.Outcome(fmt.Sprintf("backlog/%s err=%v stuck=%v", k.Name, err != nil, stuck))
				switch {
				case stuck:
					r.Violation("C06/join-input-fails-behind-full-backlog/stuck", fmt.Sprintf("%v: join did not return", cs), cs)
				case err == nil:
					r.Violation("C06/join-input-fails-behind-full-backlog/error-lost", fmt.Sprintf("%s join: the %s input failed after %d records while the join loop was busy in produce; Run returned nil after %d outputs", k.Name, side, backlog+1-extra, outputs), cs)
				default:
					r.Nontrivial(fmt.Sprint(cs))
				}
			}
		}
	}
}

type funcSrc struct {
	run func(ctx execution.ExecutionContext, produce execution.ProduceFn) error
}

func (s *funcSrc) Run(ctx execution.ExecutionContext, produce execution.ProduceFn, metaSend execution.MetaSendFn) error {
	return s.run(ctx, produce)
}

// c06Joins: node-level, schedule-exhaustive: one input of a join fails at every position of its script while the other
// input is empty, holds one record, or has only sent a watermark; every interleaving of the two inputs (join controller,
// hook H1), all four join kinds. Run must return the source's error whichever input finishes first.
func c06Joins(r *findings.Run) {
	scripts := stream.GenScripts(stream.ScriptOpts{Keys: []int{1}, Times: []int{1}, RecTimes: []int{0, 1}, MaxLen: 2, Watermarks: true})
	type jjob struct {
		k     joinKind
		l, rr []stream.Ev
	}
	var jobs []jjob
	for _, k := range joinKinds {
		for _, ok := range scripts {
			if len(ok) > 1 {
				continue // the healthy input: empty or one event
			}
			for _, bad := range scripts {
				for i := 0; i <= len(bad); i++ {
					f := append(append([]stream.Ev{}, bad[:i]...), stream.Ev{Kind: stream.Fail})
					jobs = append(jobs, jjob{k, f, ok}, jjob{k, ok, f})
				}
			}
		}
	}
	r.Extra["join_failing_source_script_pairs"] = len(jobs)
	enum.Parallel(len(jobs), func(i int) {
		j := jobs[i]
		stream.Schedules(len(j.l)+1, len(j.rr)+1, func(s []int) bool {
			sched := append([]int{}, s...)
			res := stream.RunJoin(buildJoin(j.k, 1), j.l, j.rr, sched, 0)
			r.AddCounts(1, int64(len(sched)), 1)
			r.Eval(1)
			r.Sum("join_schedules", 1)
			cs := c19Case{Kind: j.k.Name, Left: stream.Strs(j.l), Right: stream.Strs(j.rr), Schedule: stream.SchedStr(sched), Log: stream.LogStrs(res.Log)}
			switch {
			case res.Stuck:
				r.Violation("C06/join-node/stuck/"+j.k.Name, fmt.Sprintf("%v: Run did not return", cs), cs)
			case res.Panic != nil:
				r.Violation("C06/join-node/panic/"+j.k.Name, fmt.Sprintf("%v: panic %v", cs, res.Panic), cs)
			case res.Err == nil:
				empty := ""
				if len(j.l) == 0 || len(j.rr) == 0 {
					empty = "/other-input-empty"
				}
				r.Violation("C06/join-node/error-swallowed/"+j.k.Name+empty, fmt.Sprintf("%s join, left %v right %v schedule %s: an input failed but Run returned no error", j.k.Name, cs.Left, cs.Right, cs.Schedule), cs)
			default:
				r.Nontrivial(fmt.Sprint(cs.Kind, cs.Left, cs.Right, cs.Schedule))
			}
			r.Outcome(fmt.Sprintf("join-node err=%v", res.Err != nil))
			return true
		})
	})
}
