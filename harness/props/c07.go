package props

import (
	"fmt"
	"os"
	"path/filepath"
	"regexp"
	"sort"
	"strings"

	"github.com/cube2222/octosql/functions"
	"github.com/cube2222/octosql/octosql"

	"verif/harness/internal/enum"
	"verif/harness/internal/findings"
	"verif/harness/internal/runner"
)

var c07Tokens = []string{"(", ")", ",", "*", "->", "::", ".", "=", "<", "+", "-", "/", "[", "]", "SELECT", "FROM", "WHERE", "GROUP", "BY", "ORDER", "LIMIT", "AS", "JOIN", "ON", "AND", "OR", "NOT",
	"IN", "IS", "NULL", "DISTINCT", "COUNT", "TRIGGER", "COUNTING", "LOOKUP", "LEFT", "INTERVAL", "TABLE", "DESCRIPTOR", "=>", "0", "-1", "''", "t", "a"}

var c07Split = regexp.MustCompile(`'[^']*'|[A-Za-z_][A-Za-z_0-9./]*|[0-9]+(?:\.[0-9]+)?|=>|->\*?|::|<=|>=|!=|[^\s]`)

func c07Tokenize(q string) []string { return c07Split.FindAllString(q, -1) }

func c07Seeds(dir string) (quick, all []string) {
	w := func(name, content string) string {
		p := filepath.Join(dir, name)
		if err := os.WriteFile(p, []byte(content), 0o644); err != nil {
			panic(err)
		}
		return p
	}
	t := w("t.csv", "a,b,c\n1,x,true\n2,y,false\n,z,\n1,x,true\n")
	u := w("u.json", `{"k":1,"m":1,"l":[1,2],"o":{"p":1,"q":"s"},"s":"a","ts":"2021-01-01T00:00:01Z"}
{"k":2,"m":"x","l":[],"o":{"p":2,"q":null},"s":"b","ts":"2021-01-01T00:00:05Z"}
{"k":null,"m":2.5,"l":[3],"o":null,"s":null,"ts":"2021-01-01T00:00:03Z"}
`)
	quick = []string{
		fmt.Sprintf("SELECT t.a + 1 AS x , t.b FROM %s t WHERE t.a = 1 AND t.c ORDER BY t.b DESC LIMIT 2", t),
		fmt.Sprintf("SELECT t.b , COUNT ( * ) AS n , SUM ( t.a ) FROM %s t GROUP BY t.b TRIGGER COUNTING 2", t),
		fmt.Sprintf("SELECT u.o -> p , u.l [ 0 ] , u.k :: float FROM %s u WHERE u.s IN ( 'a' , 'b' )", u),
		fmt.Sprintf("SELECT * FROM %s l JOIN %s r ON l.a = r.a AND l.b < r.b WHERE r.c IS NOT NULL", t, t),
		fmt.Sprintf("SELECT * FROM %s l LEFT JOIN %s r ON l.a = r.a", t, t),
		fmt.Sprintf("SELECT DISTINCT s.a FROM ( SELECT * FROM %s t WHERE t.a > 0 ) s", t),
		"SELECT r.i * 2 AS j FROM range ( start => 0 , end => 4 ) r WHERE r.i / 2 > 0",
		fmt.Sprintf("SELECT u.k , unnest ( u.l ) AS e FROM %s u", u),
	}
	all = append(all, quick...)
	all = append(all,
		fmt.Sprintf("WITH s AS ( SELECT t.a AS a FROM %s t ) SELECT s.a FROM s WHERE s.a IN ( SELECT r.a FROM %s r )", t, t),
		fmt.Sprintf("SELECT * FROM %s l LOOKUP JOIN %s r ON l.a = r.a", t, t),
		fmt.Sprintf("SELECT u.o ->* FROM %s u", u),
		fmt.Sprintf("SELECT COALESCE ( u.k , 0.0 ) , ( u.k , u.s ) , NOT u.k = 1.0 OR u.s LIKE 'a%%' FROM %s u", u),
		fmt.Sprintf("SELECT w.window_end , COUNT ( * ) FROM tumble ( source => TABLE ( max_diff_watermark ( source => TABLE ( %s ) , max_diff => INTERVAL 1 SECOND , time_field => DESCRIPTOR ( ts ) ) ) , window_length => INTERVAL 2 SECONDS ) w GROUP BY w.window_end TRIGGER ON WATERMARK", u),
		fmt.Sprintf("SELECT array_agg ( t.a ) , min ( t.a ) , avg ( t.a ) , COUNT ( DISTINCT t.b ) FROM %s t", t),
		fmt.Sprintf("SELECT t.b ~ 'x.*' , upper ( t.b ) , substr ( t.b , 0 , 1 ) , len ( t.b ) FROM %s t", t),
		fmt.Sprintf("SELECT * FROM %s l OUTER JOIN %s r ON l.a = r.a ORDER BY l.a LIMIT 1", t, t),
	)
	return quick, all
}

// c07Edits: the complete single-token edit neighbourhood of q.
func c07Edits(q string) []string {
	toks := c07Tokenize(q)
	seen := map[string]bool{q: true}
	var out []string
	add := func(ts []string) {
		s := strings.Join(ts, " ")
		if !seen[s] {
			seen[s] = true
			out = append(out, s)
		}
	}
	for i := range toks {
		add(append(append([]string{}, toks[:i]...), toks[i+1:]...))
		for _, a := range c07Tokens {
			r := append([]string{}, toks...)
			r[i] = a
			add(r)
		}
	}
	for i := 0; i <= len(toks); i++ {
		for _, a := range c07Tokens {
			r := append(append(append([]string{}, toks[:i]...), a), toks[i:]...)
			add(r)
		}
	}
	return out
}

func c07Literals(t octosql.Type) []string {
	switch t.TypeID {
	case octosql.TypeIDInt:
		return []string{"0", "1", "-1", "2", "64", "-9223372036854775807 - 1", "9223372036854775807"}
	case octosql.TypeIDFloat:
		return []string{"0.0", "-0.0", "1.5", "-1.5", "1e308 * 10.0", "0.0 / 0.0"}
	case octosql.TypeIDString:
		return []string{"''", "'a'", "'é'", "'('", "'2021-01-01T00:00:00Z'"}
	case octosql.TypeIDBoolean:
		return []string{"TRUE", "FALSE"}
	case octosql.TypeIDDuration:
		return []string{"INTERVAL 0 SECONDS", "INTERVAL 1 SECOND", "INTERVAL -1 SECOND"}
	case octosql.TypeIDNull:
		return []string{"NULL"}
	case octosql.TypeIDTime:
		return []string{"time_from_unix(0)", "time_from_unix(-62135596800)", "time_from_unix(253402300800)"}
	case octosql.TypeIDList:
		return []string{"u.l", "u.e"}
	case octosql.TypeIDStruct:
		return []string{"u.o"}
	case octosql.TypeIDTuple:
		return []string{"(1, 'a')", "(NULL, 2)"}
	case octosql.TypeIDAny, octosql.TypeIDUnion:
		return []string{"0", "-1", "''", "NULL", "u.l", "u.o", "(1, 'a')", "0.5"}
	}
	return []string{"NULL"}
}

var c07Ident = regexp.MustCompile(`^[a-z_][a-z_0-9]*$`)

func c07FunctionCalls(ufile string) []string {
	fm := functions.FunctionMap()
	names := make([]string, 0, len(fm))
	for n := range fm {
		names = append(names, n)
	}
	sort.Strings(names)
	var out []string
	seen := map[string]bool{}
	for _, n := range names {
		for _, d := range fm[n].Descriptors {
			var sets [][]string
			argTypes := d.ArgumentTypes
			if d.TypeFn != nil && len(argTypes) == 0 {
				argTypes = []octosql.Type{octosql.Any, octosql.Any}
				if n == "len" || n == "not" {
					argTypes = argTypes[:1]
				}
			}
			for _, t := range argTypes {
				sets = append(sets, c07Literals(t))
			}
			sizes := make([]int, len(sets))
			for i := range sets {
				sizes[i] = len(sets[i])
			}
			if len(sets) == 0 {
				sizes = nil
			}
			emit := func(args []string) {
				var e string
				switch {
				case c07Ident.MatchString(n):
					e = n + "(" + strings.Join(args, ", ") + ")"
				case len(args) == 2 && n == "[]":
					e = "(" + args[0] + ")[" + args[1] + "]"
				case len(args) == 2:
					e = "(" + args[0] + ") " + strings.ToUpper(n) + " (" + args[1] + ")"
				case len(args) == 1:
					e = strings.ToUpper(n) + " (" + args[0] + ")"
					if strings.HasPrefix(n, "is ") {
						e = "(" + args[0] + ") " + strings.ToUpper(n)
					}
				default:
					return
				}
				q := fmt.Sprintf("SELECT %s AS r FROM %s u", e, ufile)
				if !seen[q] {
					seen[q] = true
					out = append(out, q)
				}
			}
			if len(sets) == 0 {
				emit(nil)
				continue
			}
			enum.Product(sizes, func(idx []int) bool {
				args := make([]string, len(idx))
				for i, j := range idx {
					args[i] = sets[i][j]
				}
				emit(args)
				return true
			})
		}
	}
	return out
}

func c07Handwritten(dir, t, u string) []string {
	late := filepath.Join(dir, "late.json")
	var b strings.Builder
	for i := 0; i < 100; i++ {
		b.WriteString("{\"l\":[],\"o\":{},\"x\":1}\n")
	}
	b.WriteString("{\"l\":[1,\"a\"],\"o\":{\"z\":1},\"x\":\"s\"}\n{\"l\":{},\"o\":[1],\"x\":[2]}\n")
	os.WriteFile(late, []byte(b.String()), 0o644)
	var out []string
	var rawList []string
	for _, q := range []string{
		"SELECT * FROM range(start=>0, end=>0) r", "SELECT * FROM range(start=>3, end=>-3) r", "SELECT * FROM range(start=>NULL, end=>1) r", "SELECT * FROM range(end=>1) r", "SELECT * FROM range(start=>0, end=>1, step=>0) r",
		"SELECT * FROM range(start=>'a', end=>1) r", "SELECT * FROM range(0, 1) r", "SELECT * FROM range(start=>0, end=>9223372036854775807) r LIMIT 1", "SELECT * FROM range(start=>TABLE(%[1]s), end=>1) r",
		"SELECT * FROM max_diff_watermark(source=>TABLE(%[2]s), max_diff=>INTERVAL 1 SECOND, time_field=>DESCRIPTOR(ts), resolution=>INTERVAL 0 SECONDS) w",
		"SELECT * FROM max_diff_watermark(source=>TABLE(%[2]s), max_diff=>INTERVAL -1 SECOND, time_field=>DESCRIPTOR(ts)) w",
		"SELECT * FROM max_diff_watermark(source=>TABLE(%[2]s), max_diff=>INTERVAL 1 SECOND, time_field=>DESCRIPTOR(k)) w",
		"SELECT * FROM max_diff_watermark(source=>TABLE(%[2]s), max_diff=>INTERVAL 1 SECOND, time_field=>DESCRIPTOR(nosuch)) w",
		"SELECT * FROM max_diff_watermark(source=>TABLE(%[2]s), max_diff=>1, time_field=>DESCRIPTOR(ts)) w",
		"SELECT * FROM max_diff_watermark(max_diff=>INTERVAL 1 SECOND, time_field=>DESCRIPTOR(ts)) w",
		"SELECT * FROM tumble(source=>TABLE(%[2]s), window_length=>INTERVAL 0 SECONDS, time_field=>DESCRIPTOR(ts)) w",
		"SELECT * FROM tumble(source=>TABLE(%[2]s), window_length=>INTERVAL -1 SECONDS, time_field=>DESCRIPTOR(ts)) w",
		"SELECT * FROM tumble(source=>TABLE(%[2]s), window_length=>INTERVAL 1 SECOND) w",
		"SELECT * FROM tumble(source=>TABLE(%[2]s), window_length=>INTERVAL 1 SECOND, time_field=>DESCRIPTOR(ts), offset=>INTERVAL 5 SECONDS) w",
		"SELECT * FROM tumble(source=>TABLE(%[2]s), window_length=>DESCRIPTOR(ts), time_field=>DESCRIPTOR(ts)) w",
		"SELECT * FROM poll(source=>TABLE(%[1]s), poll_interval=>DESCRIPTOR(a)) p LIMIT 1",
		"SELECT * FROM nosuchtvf(a=>1) x", "SELECT COUNT() FROM %[1]s t", "SELECT *, COUNT(*) FROM %[1]s t", "SELECT t.a, COUNT(*) FROM %[1]s t", "SELECT COUNT(*) FROM %[1]s t GROUP BY t.nosuch",
		"SELECT SUM(t.b) FROM %[1]s t", "SELECT MIN(t.c) FROM %[1]s t", "SELECT array_agg(*) FROM %[1]s t", "SELECT COUNT(*) FROM %[1]s t TRIGGER COUNTING 0", "SELECT COUNT(*) FROM %[1]s t GROUP BY t.a TRIGGER ON WATERMARK",
		"SELECT COUNT(*) FROM %[1]s t GROUP BY t.a TRIGGER AFTER DELAY INTERVAL 1 SECOND",
		"SELECT * FROM %[1]s l JOIN %[1]s r ON COALESCE(l.a, 0) = r.a", "SELECT * FROM %[1]s l JOIN %[1]s r ON (l.a, l.b) = (r.a, r.b)", "SELECT * FROM %[2]s l JOIN %[2]s r ON l.o->p = r.o->p",
		"SELECT * FROM %[1]s l JOIN %[1]s r ON l.a IN (SELECT x.a FROM %[1]s x)", "SELECT * FROM %[1]s l JOIN %[1]s r ON l.a = (SELECT x.a FROM %[1]s x)", "SELECT * FROM %[1]s l LEFT JOIN %[1]s r ON COALESCE(l.a, 0) = r.a",
		"SELECT * FROM %[1]s l LEFT JOIN %[1]s r ON l.a = r.a AND l.b < r.b", "SELECT * FROM %[1]s l JOIN %[1]s r ON 1 = r.a", "SELECT * FROM %[1]s l JOIN %[1]s r ON TRUE", "SELECT * FROM %[1]s l JOIN %[1]s r",
		"SELECT * FROM %[1]s t WHERE (SELECT x.a FROM %[1]s x) = 1", "SELECT (SELECT x.a, x.b FROM %[1]s x) FROM %[1]s t", "SELECT * FROM %[1]s t WHERE t.a", "SELECT * FROM %[1]s t WHERE NULL", "SELECT * FROM %[1]s t WHERE 'a'",
		"SELECT * FROM %[1]s t ORDER BY (SELECT 1)", "SELECT * FROM %[1]s t LIMIT -1", "SELECT * FROM %[1]s t LIMIT 'a'", "SELECT * FROM %[1]s t LIMIT NULL", "SELECT * FROM %[1]s t LIMIT t.a", "SELECT * FROM %[1]s t LIMIT 9223372036854775807",
		"SELECT * FROM %[1]s t ORDER BY t.a LIMIT -1", "SELECT * FROM (SELECT * FROM %[1]s t LIMIT -1) s", "SELECT t.a / 0 FROM %[1]s t", "SELECT 1 / 0", "SELECT t.a / t.a FROM %[1]s t", "SELECT -t.b FROM %[1]s t",
		"SELECT u.l[-1], u.l[5], u.l[NULL] FROM %[2]s u", "SELECT u.o->nosuch FROM %[2]s u", "SELECT u.k->p FROM %[2]s u", "SELECT u.l->* FROM %[2]s u", "SELECT u.o->*, u.o->* FROM %[2]s u", "SELECT unnest(u.k) FROM %[2]s u",
		"SELECT unnest(u.l), unnest(u.l) FROM %[2]s u", "SELECT unnest(unnest(u.l)) FROM %[2]s u", "SELECT u.k::nosuch FROM %[2]s u", "SELECT u.m::int, u.m::string, u.m::float FROM %[2]s u",
		"SELECT COALESCE() FROM %[1]s t", "SELECT COALESCE(NULL) FROM %[1]s t", "SELECT COALESCE(t.a, 'x') FROM %[1]s t", "SELECT COALESCE((1,'a'),(2,'b',3)) FROM %[1]s t", "SELECT () FROM %[1]s t", "SELECT (1) IN () FROM %[1]s t",
		"SELECT 1 IN (1) FROM %[1]s t", "SELECT substr('abc', -1, 2), substr('abc', 2, -1), substr('abc', 5, 1), substr('abc', 1, 100)", "SELECT repeat('a', -1)", "SELECT replace('', '', 'x')", "SELECT position('', '')",
		"SELECT 'a' ~ '('", "SELECT 'a' ~* '['", "SELECT 'a' LIKE '\\'", "SELECT 'a' LIKE NULL", "SELECT int('x'), float(''), int(1e300), int(0.0 / 0.0)", "SELECT time_from_unix(1e300), time_from_unix(-1e300)", "SELECT sqrt(-1.0), log(0.0), pow(0.0, -1.0)",
		"SELECT * FROM %[3]s t", "SELECT t.l[0], t.o->z FROM %[3]s t", "SELECT unnest(t.l) FROM %[3]s t", "SELECT COUNT(*), SUM(t.x) FROM %[3]s t", "SELECT DISTINCT t.x FROM %[3]s t ORDER BY t.x",
		"SELECT * FROM docs.functions f LIMIT 2", "SELECT * FROM plugins.plugins p", "SELECT * FROM docs.nosuch", "SELECT * FROM nosuch.json", "SELECT * FROM /nonexistent/dir/x.csv t", "SELECT * FROM %[1]s?sep=x t", "SELECT * FROM `%[1]s?a=` t",
		"SELECT", "", "SELECT * FROM", "SELECT 1 FROM dual WHERE", "SELECT 'unterminated", "SELECT `a", "SELECT * FROM %[1]s t WHERE t.a = 1 AND", "((((((((((SELECT 1))))))))))", "SELECT 1; SELECT 2", "INSERT INTO t VALUES (1)", "SELECT * FROM %[1]s t UNION SELECT * FROM %[1]s t",
	} {
		rawList = append(rawList, q)
	}
	// aggregates over a retracting source (a counting-triggered group-by below): the input of a group changes from
	// a value to NULL and back, so every non-NULL input can be retracted while a NULL input keeps the group alive
	var retracting []string
	for _, agg := range []string{"max", "min", "avg", "sum", "count", "array_agg"} {
		for _, inner := range []string{"SELECT t.b AS k, COUNT(*) AS c FROM %[1]s t GROUP BY t.b TRIGGER COUNTING 1", "SELECT t.c AS k, COUNT(*) AS c FROM %[1]s t GROUP BY t.c TRIGGER COUNTING 1, ON END OF STREAM"} {
			for _, arg := range []string{"int(substr('1x', q.c - 1, 1))", "int(substr('x1', q.c - 1, 1))", "q.c"} {
				retracting = append(retracting, fmt.Sprintf("SELECT %s(%s) AS r FROM (%s) q", agg, arg, inner))
				retracting = append(retracting, fmt.Sprintf("SELECT q.k, %s(%s) AS r FROM (%s) q GROUP BY q.k", agg, arg, inner))
				retracting = append(retracting, fmt.Sprintf("SELECT %s(%s) AS r FROM (%s) q GROUP BY q.k TRIGGER COUNTING 2", agg, arg, inner))
			}
		}
	}
	// two keys that are both counted up to 2, so that in the outer group the last non-NULL input is retracted while
	// the other key's NULL input is still there
	two := filepath.Join(dir, "twokeys.csv")
	os.WriteFile(two, []byte("b,c\np,u\nq,v\np,u\nq,v\np,u\n"), 0o644)
	for _, q := range retracting {
		out = append(out, fmt.Sprintf(q, t), fmt.Sprintf(q, two))
	}
	for _, q := range rawList {
		if strings.Contains(q, "%[") {
			q = fmt.Sprintf(q, t, u, late)
			q = strings.ReplaceAll(q, "%!(EXTRA string="+late+")", "")
		}
		out = append(out, q)
	}
	return out
}

var c07Digits = regexp.MustCompile(`[0-9]+`)
var c07Hex = regexp.MustCompile(`0x[0-9a-f]+`)

// c07MalformedFiles writes CSV and JSON files of 102 rows (columns a,b,c) in which one row (index 0, 50 or 101) is
// irregular in one of several ways; returns their paths.
func c07MalformedFiles(dir string) []string {
	csvBad := map[string]string{
		"short1": "7", "short2": "7,x", "long": "7,x,1.5,extra", "empty": "", "onlycommas": ",,", "barequote": "7,x\"y,1.5",
		"openquote": "7,\"x,1.5", "multiline": "7,\"x\ny\",1.5", "typeflip": "x,7,y", "nul": "7,\x00,1.5", "badutf8": "7,\xff\xfe,1.5", "crlf": "7,x,1.5\r",
	}
	jsonBad := map[string]string{
		"missingfield": `{"a":7}`, "extrafield": `{"a":7,"b":"x","c":1.5,"d":[1]}`, "empty": ``, "emptyobj": `{}`, "array": `[7,"x",1.5]`, "scalar": `7`,
		"truncated": `{"a":7,"b":"x"`, "typeflip": `{"a":"x","b":7,"c":"y"}`, "nulls": `{"a":null,"b":null,"c":null}`, "nested": `{"a":{"z":[{"y":1}]},"b":["x"],"c":{}}`,
		"dupkey": `{"a":7,"a":"x","b":"x","c":1.5}`, "badutf8": "{\"a\":7,\"b\":\"\xff\xfe\",\"c\":1.5}", "bignum": `{"a":1e999,"b":"x","c":-1e999}`, "trailing": `{"a":7,"b":"x","c":1.5} {"a":8}`,
	}
	var out []string
	names := func(m map[string]string) []string {
		var ks []string
		for k := range m {
			ks = append(ks, k)
		}
		sort.Strings(ks)
		return ks
	}
	// irregular CSV header lines over regular data rows
	for k, hdr := range map[string]string{"dupfirst": "a,a,c", "duplast": "a,c,c", "dupall": "a,a,a", "emptyname": "a,,c", "short": "a,b", "long": "a,b,c,d",
		"spaces": "a, b ,c", "quoted": "\"a\",\"b\",\"c\"", "blank": "", "numeric": "1,2,3"} {
		var b strings.Builder
		b.WriteString(hdr + "\n")
		for i := 0; i < 3; i++ {
			fmt.Fprintf(&b, "%d,s%d,%d.5\n", i, i%3, i)
		}
		p := filepath.Join(dir, fmt.Sprintf("hdr_%s.csv", k))
		os.WriteFile(p, []byte(b.String()), 0o644)
		out = append(out, p)
	}
	sort.Strings(out)
	for _, pos := range []int{0, 50, 101} {
		for _, k := range names(csvBad) {
			var b strings.Builder
			b.WriteString("a,b,c\n")
			for i := 0; i < 102; i++ {
				if i == pos {
					b.WriteString(csvBad[k] + "\n")
				} else {
					fmt.Fprintf(&b, "%d,s%d,%d.5\n", i, i%3, i)
				}
			}
			p := filepath.Join(dir, fmt.Sprintf("mal_%s_%d.csv", k, pos))
			os.WriteFile(p, []byte(b.String()), 0o644)
			out = append(out, p)
		}
		for _, k := range names(jsonBad) {
			var b strings.Builder
			for i := 0; i < 102; i++ {
				if i == pos {
					b.WriteString(jsonBad[k] + "\n")
				} else {
					fmt.Fprintf(&b, "{\"a\":%d,\"b\":\"s%d\",\"c\":%d.5}\n", i, i%3, i)
				}
			}
			p := filepath.Join(dir, fmt.Sprintf("mal_%s_%d.json", k, pos))
			os.WriteFile(p, []byte(b.String()), 0o644)
			out = append(out, p)
		}
	}
	return out
}

func c07PanicClass(msg string) string {
	msg = c07Hex.ReplaceAllString(msg, "0x?")
	msg = c07Digits.ReplaceAllString(msg, "N")
	if len(msg) > 90 {
		msg = msg[:90]
	}
	return strings.ReplaceAll(msg, " ", "_")
}

func init() {
	register("C07", "exploration", func(r *findings.Run) {
		defer cleanupTables()
		dir := tablesDir()
		pool := runner.NewPool(0)
		defer pool.Close()
		quickSeeds, allSeeds := c07Seeds(dir)
		t, u := filepath.Join(dir, "t.csv"), filepath.Join(dir, "u.json")
		os.WriteFile(filepath.Join(dir, "ue.json"), nil, 0o644)
		type cs struct {
			family, sql, mode string
		}
		var cases []cs
		seeds := quickSeeds
		if r.Thorough() {
			seeds = allSeeds
		}
		for _, s := range allSeeds {
			cases = append(cases, cs{"seed", s, "json"})
		}
		for _, s := range seeds {
			for _, e := range c07Edits(s) {
				cases = append(cases, cs{"one-token-edit", e, "json"})
			}
		}
		if r.Thorough() {
			// two-edit neighbourhood of a short seed
			short := fmt.Sprintf("SELECT t.a FROM %s t WHERE t.a = 1", t)
			for _, e1 := range c07Edits(short) {
				if len(e1)%7 != 0 {
					continue
				}
				for _, e2 := range c07Edits(e1) {
					cases = append(cases, cs{"two-token-edit", e2, "json"})
				}
			}
		}
		// u.json with an extra always-empty list column e for list-typed arguments
		ue := filepath.Join(dir, "ul.json")
		os.WriteFile(ue, []byte(`{"k":1,"l":[1,2],"e":[],"o":{"p":1,"q":"s"}}
{"k":2,"l":[3],"e":[],"o":{"p":2,"q":null}}
`), 0o644)
		for _, q := range c07FunctionCalls(ue) {
			cases = append(cases, cs{"function-edge-arguments", q, "json"})
		}
		for _, q := range c07Handwritten(dir, t, u) {
			cases = append(cases, cs{"handwritten-edge", q, "json"})
		}
		// every output mode x value kinds
		for _, m := range []string{"live_table", "batch_table", "csv", "json", "stream_native"} {
			for _, q := range []string{
				fmt.Sprintf("SELECT u.l, u.o, (u.k, u.s), u.ts, INTERVAL 1 SECOND AS d, NULL AS n, u.m FROM %s u", u),
				fmt.Sprintf("SELECT u.l FROM %s u", u), fmt.Sprintf("SELECT u.o FROM %s u", u), fmt.Sprintf("SELECT (u.k, u.s) AS tup FROM %s u", u),
				fmt.Sprintf("SELECT u.o->* FROM %s u", u), fmt.Sprintf("SELECT array_agg(u.o) AS x FROM %s u", u), fmt.Sprintf("SELECT * FROM %s u ORDER BY u.o, u.l", u),
				fmt.Sprintf("SELECT * FROM %s u", u) + " --describe",
			} {
				cases = append(cases, cs{"output-mode-x-value-kind", q, m})
			}
		}
		// (e) malformed input rows: 102-row files (the schema preview reads 100) with one irregular row at the start, inside
		// the preview, or beyond it, x queries reading all / the first / the last / no column
		for _, mf := range c07MalformedFiles(dir) {
			for _, q := range []string{"SELECT * FROM %s x", "SELECT x.a FROM %s x", "SELECT x.c FROM %s x", "SELECT COUNT(*) AS n FROM %s x",
				"SELECT x.b, COUNT(*) AS n FROM %s x GROUP BY x.b", "SELECT * FROM %s x WHERE x.c IS NOT NULL ORDER BY x.c LIMIT 3"} {
				cases = append(cases, cs{"malformed-input-row", fmt.Sprintf(q, mf), "json"})
			}
		}
		// (f) stacked triggered GROUP BYs keyed by the event-time field over a watermarked source with repeated timestamps:
		// the inner one retracts and re-emits (and empties groups of the outer one), every pair of trigger clauses
		{
			ev := filepath.Join(dir, "ev.json")
			os.WriteFile(ev, []byte(`{"t":"2021-01-01T00:00:01Z","k":1}
{"t":"2021-01-01T00:00:01Z","k":2}
{"t":"2021-01-01T00:00:03Z","k":1}
{"t":"2021-01-01T00:00:02Z","k":1}
{"t":"2021-01-01T00:00:03Z","k":2}
{"t":"2021-01-01T00:00:09Z","k":1}
`), 0o644)
			trigs := []string{"TRIGGER COUNTING 1", "TRIGGER COUNTING 2", "TRIGGER ON WATERMARK", "TRIGGER ON END OF STREAM", "TRIGGER COUNTING 1, ON WATERMARK", ""}
			src := fmt.Sprintf("max_diff_watermark(source=>TABLE(%s), max_diff=>INTERVAL 1 SECOND, time_field=>DESCRIPTOR(t)) x", ev)
			for _, in := range trigs {
				for _, out := range trigs {
					for _, shape := range []string{
						"SELECT y.t, COUNT(*) AS n FROM (SELECT x.t, COUNT(*) AS c FROM %s GROUP BY x.t %s) y GROUP BY y.t %s",
						"SELECT y.t, y.c, COUNT(*) AS n FROM (SELECT x.t, COUNT(*) AS c FROM %s GROUP BY x.t %s) y GROUP BY y.t, y.c %s",
						"SELECT y.t, SUM(y.k) AS n FROM (SELECT x.t, x.k, COUNT(*) AS c FROM %s GROUP BY x.t, x.k %s) y GROUP BY y.t %s",
					} {
						cases = append(cases, cs{"stacked-triggered-group-by", fmt.Sprintf(shape, src, in, out), "json"})
					}
				}
			}
		}
		// (g) join predicates whose equality sides mix columns of both inputs, constants or nothing of one input
		for _, jk := range []string{"JOIN", "LEFT JOIN", "LOOKUP JOIN"} {
			for _, on := range []string{"l.a + r.a = r.a", "r.a = r.a + l.a", "l.a + r.a = l.a + r.a", "l.a = l.a", "r.a = 1", "1 = 1", "l.a = r.a AND l.a + r.a = 2", "l.a + 1 = r.a + 1",
				"(l.a, r.a) = (r.a, l.a)", "l.b || r.b = r.b || l.b", "l.a = r.a OR l.a + r.a = r.a", "NOT (l.a + r.a = r.a)", "l.a IN (r.a, l.a + r.a)", "COALESCE(l.a, r.a) = r.a"} {
				cases = append(cases, cs{"join-mixed-equality", fmt.Sprintf("SELECT * FROM %s l %s %s r ON %s", t, jk, t, on), "json"})
			}
			cases = append(cases, cs{"join-mixed-equality", fmt.Sprintf("SELECT * FROM %s l %s %s r ON TRUE WHERE r.a = r.a + l.a", t, jk, t), "json"})
		}
		r.Bound = map[string]interface{}{"seeds": len(seeds), "token_alphabet": len(c07Tokens), "cases": len(cases)}
		r.Rule = "(a) the complete one-token edit neighbourhood (delete / replace / insert over a 45-token alphabet) of 8 (16) seed queries covering every grammar production used elsewhere (thorough: a two-edit neighbourhood too); (b) every function descriptor x all tuples of edge-value literals of its argument types rendered as SQL; (c) ~150 handwritten edge queries (TVF arguments, aggregates, join/WHERE oddities, LIMIT values, indexes, casts, files whose later rows disagree with the previewed schema, malformed statements); (d) every output mode x every value kind; (e) 102-row CSV and JSON files with one irregular row (12 CSV and 14 JSON kinds: short/long/empty rows, stray quotes, multi-line cells, NUL, invalid UTF-8, type flips, truncated or non-object JSON, duplicate keys, huge numbers) at row 0, 50 or 101, and CSV files with one of 10 irregular header lines (repeated, empty, missing, surplus, quoted, numeric names) x 6 queries reading all/first/last/no columns; (f) stacked GROUP BYs keyed by the event-time field over a watermarked source with repeated timestamps, every ordered pair of 6 trigger clauses x 3 shapes; (g) 15 join predicates whose equality sides mix columns of both inputs, constants or one input only x JOIN / LEFT JOIN / LOOKUP JOIN; each run through the real root command in-process; outcome must be output or a reported error, never a Go panic (main goroutine: recovered and recorded; other goroutine: worker crash); violations are confirmed on the real binary; non-trivial = case that gets past parsing and typechecking"
		r.Assume("huge repeat counts / ranges are excluded (memory, not panic)", "well-formed poll() queries are excluded: poll is an endless stream, not terminating is its specified behaviour", "a violation is identified by the top octosql stack frame of the panic and its message with numbers masked")
		enum.Parallel(len(cases), func(i int) {
			if r.TimeUp() {
				return
			}
			c := cases[i]
			args := sqlArgs(c.sql, c.mode, true)
			if strings.HasSuffix(c.sql, " --describe") {
				args = []string{strings.TrimSuffix(c.sql, " --describe"), "-o", c.mode, "--optimize=true", "--describe=true", "--explain=0"}
			}
			res := pool.Run(args, "")
			r.Eval(1)
			cls := res.Class()
			if cls == "HANG" || cls == "CRASH" {
				// machine overload must not become a finding: repeat on the real binary
				bin := runner.RunBinary(args, nil)
				if bin.Hang {
					r.Violation("C07/hang/"+c.family, fmt.Sprintf("%s [-o %s]: no result after 90 s (twice)", c.sql, c.mode), map[string]interface{}{"sql": c.sql, "args": args})
					return
				}
				if bin.Crash == "" {
					cls = "ok-on-binary"
				} else {
					res.Crash = bin.Crash
				}
			}
			r.Outcome(c.family + "/" + cls)
			if cls == "ok" || (cls == "error" && !isTypecheckErr(res.Err)) {
				r.Nontrivial(c.sql + c.mode)
			}
			if cls == "error" && isTypecheckErr(res.Err) {
				r.Reject(1)
			}
			if cls != "PANIC" && cls != "CRASH" {
				if i%9000 == 17 {
					r.Sample(map[string]interface{}{"family": c.family, "sql": c.sql, "mode": c.mode, "outcome": cls, "error": oneLineC04(res.Err)})
				}
				return
			}
			var fp, what string
			if cls == "PANIC" {
				fp = fmt.Sprintf("C07/panic@%s/%s", res.Frame, c07PanicClass(res.Panic))
				what = fmt.Sprintf("%s [-o %s]: Go panic %q at %s", c.sql, c.mode, res.Panic, res.Frame)
			} else {
				first := ""
				for _, l := range strings.Split(res.Crash, "\n") {
					if strings.HasPrefix(l, "panic:") || strings.HasPrefix(l, "fatal error:") {
						first = l
						break
					}
				}
				frame := ""
				for _, l := range strings.Split(res.Crash, "\n") {
					if strings.HasPrefix(l, "github.com/cube2222/octosql/") {
						frame = strings.TrimPrefix(strings.SplitN(l, "(", 2)[0], "github.com/cube2222/octosql/")
						break
					}
				}
				fp = fmt.Sprintf("C07/crash@%s/%s", frame, c07PanicClass(first))
				what = fmt.Sprintf("%s [-o %s]: process died: %s", c.sql, c.mode, first)
			}
			r.Violation(fp, what, map[string]interface{}{"family": c.family, "sql": c.sql, "mode": c.mode, "args": args, "panic": res.Panic, "frame": res.Frame, "crash": oneLineC04(res.Crash)})
		})
	})
}
