package props

import (
	"fmt"
	"regexp"
	"time"

	"github.com/cube2222/octosql/functions"
	"github.com/cube2222/octosql/octosql"

	"verif/harness/internal/findings"
)

// c12Sequences: the pattern operators keep state between calls (a compiled-pattern cache per operator instance that is
// filled asynchronously), so the answer for a pattern must not depend on which patterns were evaluated before it.
// For like, ~ and ~*: every ordered pair (P1, P2) of a pattern menu rich in spellings that differ only by case or by
// an escape, on a FRESH FunctionMap per pair: P1 is evaluated on every string until the cache has had time to settle,
// then P2 on every string; every answer is compared with the reference.
func c12Sequences(r *findings.Run, report func(fp, fn string, args []string, got, want string)) {
	menus := map[string][]string{
		"~":    {`\d`, `\D`, `\s`, `\S`, `\w`, `\W`, `a\b`, `a\B`, `a`, `A`, `[a-z]`, `[A-Z]`, `^a`, `\Aa`, `a.`, `a\.`},
		"~*":   {`\d`, `\D`, `\s`, `\S`, `\w`, `\W`, `a\b`, `a\B`, `a`, `A`, `[a-z]`, `[A-Z]`, `^a`, `\Aa`, `\pL`, `\PL`, `a.`, `a\.`},
		"like": {`a%`, `A%`, `a_`, `A_`, `a\%`, `a\_`, `%a`, `%A`, `a`, `A`, `_`, `%`},
	}
	strs := []string{"", "a", "A", "1", " ", "ab", "a1", "a.", "a%", "a_", "é", "Aa"}
	ref := func(op, p, s string) (int, bool) {
		switch op {
		case "~":
			re, err := regexp.Compile(p)
			return c12ReRes(re, err, s), true
		case "~*":
			re, err := regexp.Compile("(?i)" + p)
			return c12ReRes(re, err, s), true
		}
		pr := []rune(p)
		if !c12LikeValid(pr) {
			return 0, false
		}
		if c12Like([]rune(s), pr) {
			return c12True, true
		}
		return c12False, true
	}
	var pairs int64
	for _, op := range []string{"like", "~", "~*"} {
		menu := menus[op]
		for _, p1 := range menu {
			for _, p2 := range menu {
				if p1 == p2 {
					continue
				}
				f := c12Fn(functions.FunctionMap(), op, octosql.TypeIDString, octosql.TypeIDString)
				eval := func(p string, phase string) bool {
					for _, s := range strs {
						want, ok := ref(op, p, s)
						if !ok {
							continue
						}
						got, detail := c12CallBool(f, []octosql.Value{octosql.NewString(s), octosql.NewString(p)})
						r.Eval(1)
						if got != want {
							gotS := c12ResName(got)
							if detail != "" {
								gotS += ": " + detail
							}
							report("C12/"+op+"/answer-depends-on-earlier-patterns", op, []string{s, p},
								gotS+fmt.Sprintf(" (%s; earlier pattern on the same operator instance: %q)", phase, p1), c12ResName(want))
							return false
						}
					}
					return true
				}
				// let the asynchronous cache admit P1: keep evaluating it for a few milliseconds
				deadline := time.Now().Add(3 * time.Millisecond)
				okSoFar := true
				for rounds := 0; okSoFar && (rounds < 3 || time.Now().Before(deadline)); rounds++ {
					okSoFar = eval(p1, "first pattern")
				}
				if okSoFar {
					for rounds := 0; okSoFar && rounds < 2; rounds++ {
						okSoFar = eval(p2, "second pattern")
					}
				}
				pairs++
				if okSoFar {
					r.Nontrivial("seq\x00" + op + "\x00" + p1 + "\x00" + p2)
				}
			}
		}
	}
	r.Extra["pattern_sequence_pairs"] = pairs
}
