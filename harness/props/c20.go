package props

import (
	"fmt"
	"strings"
	"time"

	"github.com/cube2222/octosql/execution"
	"github.com/cube2222/octosql/octosql"

	"verif/harness/internal/enum"
	"verif/harness/internal/findings"
	"verif/harness/internal/stream"
)

// C20 max_diff_watermark: exhaustive time sequences x max_diff x resolution on
// the REAL node (mkMaxDiff in tvf_common.go). The oracle is the set of
// invariants of the property statement evaluated on the output log; the only
// arithmetic it does itself is floor(t, resolution) toward minus infinity.

type c20Case struct {
	RetractMask int      `json:"retraction_mask,omitempty"` // bit i set: input i is a retraction
	TimesNs     []int64  `json:"times_ns_since_unix_epoch"`
	MaxDiff     string   `json:"max_diff"`
	Resolution  string   `json:"resolution"`
	Output      []string `json:"output_log,omitempty"`
	At          string   `json:"at,omitempty"`
	Got         string   `json:"got,omitempty"`
	Want        string   `json:"want,omitempty"`
}

func c20Time(ns int64) time.Time { return time.Unix(0, ns).UTC() }

// c20Floor rounds ns down (toward minus infinity) to a multiple of res.
func c20Floor(ns, res int64) int64 {
	m := ns % res
	if m < 0 {
		m += res
	}
	return ns - m
}

func c20Dur(ns int64) string { return time.Duration(ns).String() }

// c20Check runs one sequence and returns (fingerprint, what, case, #watermarks, #dropped).
func c20Check(times []int64, maxDiff time.Duration, resolution *time.Duration) (fp, what string, cs c20Case, nWM, nDropped int) {
	return c20CheckMask(times, 0, maxDiff, resolution)
}

// c20CheckMask: bit i of retractMask makes input i a retraction (the rule "dropped iff at or below the current
// watermark, else passed unchanged" applies to retractions like to any other record).
func c20CheckMask(times []int64, retractMask int, maxDiff time.Duration, resolution *time.Duration) (fp, what string, cs c20Case, nWM, nDropped int) {
	res := int64(time.Second) // documented default
	resName := "default"
	if resolution != nil {
		res = int64(*resolution)
		resName = resolution.String()
	}
	cs = c20Case{TimesNs: times, MaxDiff: maxDiff.String(), Resolution: resName}
	evs := make([]stream.Ev, len(times))
	for i, ns := range times {
		evs[i] = stream.Ev{Kind: stream.Rec, Vals: []octosql.Value{octosql.NewInt(int64(i)), octosql.NewTime(c20Time(ns))}, Retract: retractMask&(1<<i) != 0}
	}
	cs.RetractMask = retractMask
	log, err, pan := stream.RunSingle(func(src execution.Node) execution.Node {
		return mustNode(mkMaxDiff(src, maxDiff, resolution))
	}, evs)
	cs.Output = stream.LogStrs(log)
	desc := fmt.Sprintf("times %v max_diff=%s resolution=%s", c20TimesStr(times), maxDiff, resName)
	if pan != nil {
		return "panic@maxDifferenceWatermarkGenerator.Run", fmt.Sprintf("%s: panic: %v", desc, pan), cs, 0, 0
	}
	if err != nil {
		return "unexpected-error", fmt.Sprintf("%s: unexpected error: %v", desc, err), cs, 0, 0
	}

	// Split the log by the input during which each output was emitted.
	perInput := make([][]stream.Out, len(times))
	for _, o := range log {
		i := o.InputsSeen - 1
		if i < 0 || i >= len(times) {
			cs.At = o.String()
			return "output-outside-any-input", fmt.Sprintf("%s: output %s emitted with %d inputs delivered", desc, o, o.InputsSeen), cs, 0, 0
		}
		perInput[i] = append(perInput[i], o)
	}

	cur := time.Time{} // current watermark = last emitted one, zero time initially
	haveMax := false   // largest time seen so far
	var maxSeen int64  // ns
	preFP, preWhat := "", ""
	for i, ns := range times {
		ts := c20Time(ns)
		curAtArrival := cur
		var recs, wms []stream.Out
		seenWMBeforeRec := false
		for _, o := range perInput[i] {
			if o.WM {
				wms = append(wms, o)
			} else {
				if len(wms) > 0 {
					seenWMBeforeRec = true
				}
				recs = append(recs, o)
			}
		}
		// (4) pass iff time > current watermark; unchanged; event time = time field
		shouldPass := ts.After(curAtArrival)
		at := fmt.Sprintf("input %d (ts=%s, current watermark %s)", i, c20Dur(ns), c20WMStr(curAtArrival))
		if !shouldPass {
			nDropped++
		}
		switch {
		case shouldPass && len(recs) == 0:
			cs.At = at
			return "record/dropped-though-above-watermark", fmt.Sprintf("%s: %s was dropped although its time is above the current watermark", desc, at), cs, nWM, nDropped
		case !shouldPass && len(recs) > 0:
			cs.At, cs.Got = at, recs[0].String()
			return "record/passed-though-at-or-below-watermark", fmt.Sprintf("%s: %s passed (%s) although its time is at or below the current watermark", desc, at, recs[0]), cs, nWM, nDropped
		case len(recs) > 1:
			cs.At = at
			return "record/duplicated", fmt.Sprintf("%s: %s was emitted %d times", desc, at, len(recs)), cs, nWM, nDropped
		}
		if len(recs) == 1 {
			o := recs[0]
			if o.Retract != evs[i].Retract || stream.ValsKey(o.Vals) != stream.ValsKey(evs[i].Vals) {
				cs.At, cs.Got, cs.Want = at, o.String(), evs[i].String()
				return "record/changed", fmt.Sprintf("%s: %s passed as %s, values or retraction flag changed", desc, at, o), cs, nWM, nDropped
			}
			if !o.T.Equal(ts) {
				cs.At, cs.Got, cs.Want = at, o.String(), c20Dur(ns)
				return "record/event-time-not-time-field", fmt.Sprintf("%s: %s passed with event time %s, want its time field", desc, at, c20WMStr(o.T)), cs, nWM, nDropped
			}
			if seenWMBeforeRec && !ts.After(wms[0].T) {
				cs.At = at
				return "record/emitted-after-own-watermark", fmt.Sprintf("%s: %s is emitted after watermark %s which is not below its time", desc, at, wms[0]), cs, nWM, nDropped
			}
		}
		// quantity of the statement after this input
		if !haveMax || ns > maxSeen {
			haveMax, maxSeen = true, ns
		}
		q := c20Time(c20Floor(maxSeen, res)).Add(-maxDiff)
		mustEmit := q.After(cur) // (3)
		for _, w := range wms {
			nWM++
			// (2) strictly increasing
			if !w.T.After(cur) {
				cs.At, cs.Got = at, w.String()
				return "watermark/not-strictly-increasing", fmt.Sprintf("%s: at %s emitted watermark %s which is not above the previous one %s", desc, at, c20WMStr(w.T), c20WMStr(cur)), cs, nWM, nDropped
			}
			// (1) value
			if !w.T.Equal(q) {
				cs.At, cs.Got, cs.Want = at, c20WMStr(w.T), c20WMStr(q)
				// classify: pre-epoch maximum and the emitted value is the round-toward-zero one
				towardZero := c20Time(maxSeen / res * res).Add(-maxDiff)
				if maxSeen < 0 && w.T.Equal(towardZero) {
					// remembered; the remaining invariants are still judged, relative to the emitted value
					if preFP == "" {
						preFP = "watermark/pre-epoch-rounds-toward-zero"
						preWhat = fmt.Sprintf("%s: at %s emitted watermark %s, want floor(max seen %s, %s) - %s = %s (the largest time seen is before 1970 and was rounded toward zero, i.e. up)", desc, at, c20WMStr(w.T), c20Dur(maxSeen), c20Dur(res), maxDiff, c20WMStr(q))
					}
					cur = w.T
					continue
				}
				return "watermark/wrong-value", fmt.Sprintf("%s: at %s emitted watermark %s, want floor(max seen %s, %s) - %s = %s", desc, at, c20WMStr(w.T), c20Dur(maxSeen), c20Dur(res), maxDiff, c20WMStr(q)), cs, nWM, nDropped
			}
			cur = w.T
		}
		if mustEmit && len(wms) == 0 {
			cs.At, cs.Want = at, c20WMStr(q)
			return "watermark/not-emitted-when-quantity-grew", fmt.Sprintf("%s: after %s floor(max seen)-max_diff = %s is above the last emitted watermark %s but no watermark was emitted", desc, at, c20WMStr(q), c20WMStr(cur)), cs, nWM, nDropped
		}
	}
	if preFP == "" {
		// the same generator instance is run once per outer record below a LOOKUP JOIN / subquery expression:
		// a second run over the same input must produce the same stream
		if d := stream.RerunDiff(func(src execution.Node) execution.Node { return mustNode(mkMaxDiff(src, maxDiff, resolution)) }, evs); d != "" {
			return "second-run-of-same-node-differs", fmt.Sprintf("%s: %s", desc, d), cs, nWM, nDropped
		}
	}
	return preFP, preWhat, cs, nWM, nDropped
}

// c20UpstreamWatermarks: "" if inserting an upstream watermark (two values) at any position leaves the output unchanged.
func c20UpstreamWatermarks(times []int64, maxDiff time.Duration, resolution *time.Duration) string {
	build := func(src execution.Node) execution.Node { return mustNode(mkMaxDiff(src, maxDiff, resolution)) }
	var base []stream.Ev
	for i, ns := range times {
		base = append(base, stream.Ev{Kind: stream.Rec, Vals: []octosql.Value{octosql.NewInt(int64(i)), octosql.NewTime(c20Time(ns))}})
	}
	log0, err0, pan0 := stream.RunSingle(build, base)
	if err0 != nil || pan0 != nil {
		return ""
	}
	want := strings.Join(stream.LogStrs(log0), " ")
	for pos := 0; pos <= len(base); pos++ {
		for _, w := range []int64{90_000_000_000, -5_000_000_000} {
			evs := append(append(append([]stream.Ev{}, base[:pos]...), stream.Ev{Kind: stream.WM, T: c20Time(w)}), base[pos:]...)
			log, err, pan := stream.RunSingle(build, evs)
			if err != nil || pan != nil {
				return fmt.Sprintf("with an upstream watermark at input position %d: error %v panic %v", pos, err, pan)
			}
			if got := strings.Join(stream.LogStrs(log), " "); got != want {
				return fmt.Sprintf("with an upstream watermark %s inserted at input position %d the node emits [%s], without it [%s]", c20WMStr(c20Time(w)), pos, got, want)
			}
		}
	}
	return ""
}

func c20WMStr(t time.Time) string {
	if t.IsZero() {
		return "zero-time"
	}
	return "epoch" + c20Signed(time.Duration(t.UnixNano()))
}

func c20Signed(d time.Duration) string {
	if d < 0 {
		return d.String()
	}
	return "+" + d.String()
}

func c20TimesStr(times []int64) string {
	parts := make([]string, len(times))
	for i, ns := range times {
		parts[i] = c20Dur(ns)
	}
	return "[" + strings.Join(parts, " ") + "]"
}

func init() {
	register("C20", "exploration", func(r *findings.Run) {
		ms := int64(time.Millisecond)
		alphabet := []int64{500 * ms, 1000 * ms, 1500 * ms, 2000 * ms, 3000 * ms, 5000 * ms}
		alphabet = append(alphabet, -1500*ms) // one pre-1970 instant
		maxLen := r.Pick(4, 6)
		maxDiffs := []time.Duration{0, time.Second, 2 * time.Second}
		one, two := time.Second, 2*time.Second
		resolutions := []*time.Duration{nil, &one, &two}

		var seqs [][]int64
		enum.Sequences(len(alphabet), maxLen, nil, func(seq []int) {
			s := make([]int64, len(seq))
			for i, x := range seq {
				s[i] = alphabet[x]
			}
			seqs = append(seqs, s)
		})
		alpha := make([]string, len(alphabet))
		for i, a := range alphabet {
			alpha[i] = c20Dur(a)
		}
		r.Bound = map[string]interface{}{"max_len": maxLen, "times_after_unix_epoch": alpha, "max_diff": []string{"0s", "1s", "2s"},
			"resolution": []string{"default(absent)", "1s", "2s"}, "sequences": len(seqs), "configs": len(maxDiffs) * len(resolutions)}
		r.Rule = "every sequence (any order, duplicates) of record times up to the length bound over the alphabet x max_diff x resolution, rows [k=index, ts] with zero event time (and, for short sequences, every choice of which rows are retractions), run on the real max_diff_watermark node; oracle = invariants on the output log aligned by input position: (1) each emitted watermark == floor(max time seen so far, resolution) - max_diff with floor toward minus infinity, (2) strictly increasing, (3) emitted whenever that quantity exceeds the last emitted watermark, (4) record passes iff its time > the last emitted watermark (zero time initially), once, unchanged, event time == time field, not after a watermark of its own input that is >= its time, (5) a second run of the same node instance over the same input emits the same stream, (6) watermarks carried by the input stream itself (inserted at every position, sequences <= 3) do not change the output; non-trivial = sequence with at least one dropped record and at least one emitted watermark"
		r.Assume("absent resolution means 1s (documented default)", "max_diff < 0 and resolution <= 0 are out of contract and not generated",
			"the statement is silent about the relative order of a record and the watermark emitted on the same input; only 'record after a watermark >= its time' is judged",
			"'current watermark' for the pass/drop decision is the last watermark the node actually emitted (so a wrong watermark value is reported once, as a watermark defect)")

		nCfg := len(maxDiffs) * len(resolutions)
		enum.Parallel(len(seqs)*nCfg, func(j int) {
			s := seqs[j/nCfg]
			c := j % nCfg
			md, res := maxDiffs[c/len(resolutions)], resolutions[c%len(resolutions)]
			fp, what, cs, nWM, nDropped := c20Check(s, md, res)
			r.Eval(1)
			// the same sequence with every non-empty choice of which inputs are retractions (lengths <= 3 quick, <= 4 thorough)
			if fp == "" && len(s) >= 1 && len(s) <= r.Pick(3, 4) {
				for mask := 1; mask < 1<<len(s); mask++ {
					fp2, what2, cs2, _, _ := c20CheckMask(s, mask, md, res)
					r.Eval(1)
					if fp2 != "" {
						fp, what, cs = "with-retractions/"+fp2, what2+fmt.Sprintf(" (retraction mask %b)", mask), cs2
						break
					}
				}
			}
			// the input stream may itself carry watermarks (a nested max_diff_watermark, a join of watermarked inputs): they are
			// not the generator's and must not change its output. Differential: the same sequence with an upstream watermark
			// inserted at every position must give the same output stream (lengths <= 3).
			if fp == "" && len(s) >= 1 && len(s) <= 3 {
				if d := c20UpstreamWatermarks(s, md, res); d != "" {
					fp, what = "upstream-watermark-changes-output", fmt.Sprintf("times %v max_diff=%s: %s", c20TimesStr(s), md, d)
				}
				r.Eval(int64(len(s) + 1))
			}
			if fp != "" {
				r.Outcome("violation:" + fp)
				r.Violation("C20/"+fp, what, cs)
				return
			}
			r.Outcome(fmt.Sprintf("watermarks=%d,dropped=%d", nWM, nDropped))
			if nWM >= 1 && nDropped >= 1 {
				r.Nontrivial(fmt.Sprintf("%v|%s|%s", s, cs.MaxDiff, cs.Resolution))
				if len(s) >= 3 && j%97 == 0 && r.NeedSample() {
					r.Sample(cs)
				}
			}
		})
	})
}
