package props

import (
	"encoding/json"
	"fmt"
	"os"
	"path/filepath"
	"strings"

	"verif/harness/internal/findings"
	"verif/harness/internal/runner"
)

// c23Appending: rows read from a file keep their values when an operator directly above the source EXTENDS each record
// (tumble appends window_start / window_end to the record's value slice; records of one parser batch must not share
// spare capacity). JSON, CSV and lines-free formats, 1..130 rows (more than two JSON parser batches).
func c23Appending(r *findings.Run, pool *runner.Pool) {
	dir := tablesDir()
	for _, n := range []int{1, 2, 3, 64, 65, 130} {
		var jb, cb strings.Builder
		cb.WriteString("id,ts,s\n")
		for i := 0; i < n; i++ {
			ts := fmt.Sprintf("2021-01-01T00:%02d:%02dZ", (i/60)%60, i%60)
			fmt.Fprintf(&jb, "{\"id\":%d,\"s\":\"r%d\",\"ts\":\"%s\"}\n", i, i, ts)
			fmt.Fprintf(&cb, "%d,%s,r%d\n", i, ts, i)
		}
		for ext, content := range map[string]string{"json": jb.String(), "csv": cb.String()} {
			f := filepath.Join(dir, fmt.Sprintf("app%d.%s", n, ext))
			if err := os.WriteFile(f, []byte(content), 0o644); err != nil {
				panic(err)
			}
			sql := fmt.Sprintf("SELECT e.id, e.s, e.ts, e.window_end FROM tumble(source=>TABLE(%s), window_length=>INTERVAL 1 HOUR, time_field=>DESCRIPTOR(ts)) e", f)
			res := pool.Run(sqlArgs(sql, "json", true), "")
			r.Eval(1)
			r.AddCounts(1, int64(n), 1)
			cs := map[string]interface{}{"sql": sql, "rows": n, "stdout_head": c27Short(res.Out), "error": oneLineC04(res.Err)}
			fp := "C23/" + ext + "/rows-through-appending-operator"
			if res.Class() != "ok" {
				r.Outcome("appending/" + res.Class())
				r.Violation(fp+"/"+res.Class(), fmt.Sprintf("%s: %s %s", sql, res.Class(), oneLineC04(res.Err+res.Crash)), cs)
				continue
			}
			lines := strings.Split(strings.TrimSpace(res.Out), "\n")
			bad := ""
			if len(lines) != n {
				bad = fmt.Sprintf("%d rows printed, the file has %d", len(lines), n)
			}
			for i := 0; bad == "" && i < n; i++ {
				var m map[string]interface{}
				if err := json.Unmarshal([]byte(lines[i]), &m); err != nil {
					bad = fmt.Sprintf("row %d is not JSON: %s", i, lines[i])
					break
				}
				if fmt.Sprint(m["id"]) != fmt.Sprint(i) || fmt.Sprint(m["s"]) != fmt.Sprintf("r%d", i) || fmt.Sprint(m["window_end"]) != "2021-01-01T01:00:00Z" {
					bad = fmt.Sprintf("row %d is printed as %s, the file row is id=%d s=r%d (window_end 2021-01-01T01:00:00Z)", i, lines[i], i, i)
				}
			}
			if bad != "" {
				r.Outcome("appending/MISMATCH")
				r.Violation(fp+"/row-values", fmt.Sprintf("%s: %s", sql, bad), cs)
				continue
			}
			r.Outcome("appending/ok")
			if n > 1 {
				r.Nontrivial(sql)
			}
		}
	}
}
