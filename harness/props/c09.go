package props

// C09 — value ordering, equality and hashing agree (in-process half: octosql.Value API).
//
// A finite universe U of values is built (c09Universe); Value.Compare is called once for every ordered pair and
// Value.Hash once per value (real code, panics recovered); the order laws are then decided on the resulting
// matrix for ALL pairs and ALL triples. The same is done for execution.CompareValueSlices / octosql.HashManyValues
// over all slices of length <= 2 over a sub-universe.
//
// Fingerprints are chosen by a small classifier on the failing values (c09Diff / deep-NaN flag), one per root cause:
//   C09/compare/nan-equals-everything   a law fails and a (deep) NaN is involved: NaN compares 0 with every Float
//   C09/hash/neg-zero-vs-zero           Compare==0, first representational difference is -0.0 against +0.0, hashes differ
//   C09/hash/nan-payloads-differ        Compare==0, both NaN with different bit patterns, hashes differ
//   C09/hash/...                        any other Compare==0 && Hash!= (classified by the first difference)
//   C09/compare/not-transitive:<types>  etc. for law failures without NaN
//   C09/compare/string-order-inverted, .../null-not-first:<T>, .../cross-type-order:<A>,<B>, .../<T>-order-inverted ...
//   C09/slices/...                      the same laws on CompareValueSlices when the element-level classes do not apply

import (
	"fmt"
	"math"
	"sort"
	"strconv"
	"strings"
	"sync"
	"time"

	"github.com/cube2222/octosql/aggregates"
	"github.com/cube2222/octosql/execution"
	"github.com/cube2222/octosql/execution/nodes"
	"github.com/cube2222/octosql/octosql"

	"verif/harness/internal/enum"
	"verif/harness/internal/findings"
)

type c09Case struct {
	Law    string   `json:"law"`
	Values []string `json:"values"`
	Got    string   `json:"got"`
	Want   string   `json:"want"`
}

// c09Str renders a value exactly (NaN payload, sign of zero, time zone offset), independent of Value.String.
func c09Str(v octosql.Value) string {
	var b strings.Builder
	c09Append(&b, v)
	return b.String()
}

func c09Append(b *strings.Builder, v octosql.Value) {
	seq := func(open, close string, vs []octosql.Value) {
		b.WriteString(open)
		for i, e := range vs {
			if i > 0 {
				b.WriteString(", ")
			}
			c09Append(b, e)
		}
		b.WriteString(close)
	}
	switch v.TypeID {
	case octosql.TypeIDNull:
		b.WriteString("NULL")
	case octosql.TypeIDInt:
		fmt.Fprintf(b, "Int(%d)", v.Int)
	case octosql.TypeIDFloat:
		switch {
		case v.Float != v.Float:
			fmt.Fprintf(b, "Float(NaN#%016x)", math.Float64bits(v.Float))
		case v.Float == 0 && math.Signbit(v.Float):
			b.WriteString("Float(-0.0)")
		case v.Float == 0:
			b.WriteString("Float(+0.0)")
		default:
			b.WriteString("Float(" + strconv.FormatFloat(v.Float, 'g', -1, 64) + ")")
		}
	case octosql.TypeIDBoolean:
		fmt.Fprintf(b, "%v", v.Boolean)
	case octosql.TypeIDString:
		fmt.Fprintf(b, "%q", v.Str)
	case octosql.TypeIDTime:
		b.WriteString("Time(" + v.Time.Format(time.RFC3339Nano) + ")")
	case octosql.TypeIDDuration:
		b.WriteString("Duration(" + v.Duration.String() + ")")
	case octosql.TypeIDList:
		seq("[", "]", v.List)
	case octosql.TypeIDStruct:
		seq("{", "}", v.Struct)
	case octosql.TypeIDTuple:
		seq("(", ")", v.Tuple)
	default:
		fmt.Fprintf(b, "?TypeID%d", int(v.TypeID))
	}
}

func c09Children(v octosql.Value) []octosql.Value {
	switch v.TypeID {
	case octosql.TypeIDList:
		return v.List
	case octosql.TypeIDStruct:
		return v.Struct
	case octosql.TypeIDTuple:
		return v.Tuple
	}
	return nil
}

func c09IsContainer(v octosql.Value) bool {
	return v.TypeID == octosql.TypeIDList || v.TypeID == octosql.TypeIDStruct || v.TypeID == octosql.TypeIDTuple
}

func c09DeepNaN(v octosql.Value) bool {
	if v.TypeID == octosql.TypeIDFloat {
		return v.Float != v.Float
	}
	for _, c := range c09Children(v) {
		if c09DeepNaN(c) {
			return true
		}
	}
	return false
}

var (
	c09NaN1  = math.NaN()                               // 0x7ff8000000000001, what strconv.ParseFloat("NaN") returns
	c09NaN2  = math.Float64frombits(0xfff8000000000000) // what 0.0/0.0 evaluates to at run time on amd64
	c09T1    = time.Date(2020, 1, 2, 3, 4, 5, 0, time.UTC)
	c09T1loc = c09T1.In(time.FixedZone("plus1", 3600)) // the same instant, other *time.Location
	c09T2    = c09T1.Add(time.Hour)
)

func c09Scalars() []octosql.Value {
	negZero := math.Copysign(0, -1)
	return []octosql.Value{
		octosql.NewNull(),
		octosql.NewInt(-1), octosql.NewInt(0), octosql.NewInt(1),
		octosql.NewFloat(math.Inf(-1)), octosql.NewFloat(-1), octosql.NewFloat(negZero), octosql.NewFloat(0), octosql.NewFloat(1), octosql.NewFloat(math.Inf(1)),
		octosql.NewFloat(c09NaN1), octosql.NewFloat(c09NaN2),
		octosql.NewBoolean(false), octosql.NewBoolean(true),
		octosql.NewString(""), octosql.NewString("a"), octosql.NewString("A"), octosql.NewString("ab"),
		octosql.NewTime(c09T1), octosql.NewTime(c09T1loc), octosql.NewTime(c09T2),
		octosql.NewDuration(time.Second), octosql.NewDuration(-2 * time.Second),
	}
}

var c09Kinds = []func([]octosql.Value) octosql.Value{octosql.NewList, octosql.NewStruct, octosql.NewTuple}

// c09UpTo: every sequence of length <= maxLen over base (minLen..maxLen).
func c09Seqs(base []octosql.Value, minLen, maxLen int) [][]octosql.Value {
	var out [][]octosql.Value
	enum.Sequences(len(base), maxLen, nil, func(seq []int) {
		if len(seq) < minLen {
			return
		}
		vs := make([]octosql.Value, len(seq))
		for i, s := range seq {
			vs[i] = base[s]
		}
		out = append(out, vs)
	})
	return out
}

// c09Universe: the value universe shared by C09 and C10 (value/type conformance).
func c09Universe(thorough bool) []octosql.Value {
	var out []octosql.Value
	seen := map[string]bool{}
	add := func(v octosql.Value) {
		k := c09Str(v)
		if !seen[k] {
			seen[k] = true
			out = append(out, v)
		}
	}
	for _, v := range c09Scalars() {
		add(v)
	}
	negZero := math.Copysign(0, -1)
	I, F, S := octosql.NewInt, octosql.NewFloat, octosql.NewString
	L, O, T := octosql.NewList, octosql.NewStruct, octosql.NewTuple
	vs := func(v ...octosql.Value) []octosql.Value { return append([]octosql.Value{}, v...) }

	// depth 1, hand-picked (quick and thorough)
	shallow := [][]octosql.Value{
		vs(), vs(octosql.NewNull()), vs(I(1)), vs(I(1), I(0)), vs(F(1)), vs(F(c09NaN1)), vs(F(negZero)), vs(F(0)),
		vs(S("a")), vs(I(1), S("a")), vs(octosql.NewTime(c09T1)), vs(octosql.NewTime(c09T1loc)),
	}
	for _, k := range c09Kinds {
		for _, e := range shallow {
			add(k(e))
		}
	}
	// depth 2, hand-picked
	nested := [][]octosql.Value{
		vs(L(vs())), vs(L(vs(F(c09NaN1)))), vs(L(vs(I(1)))), vs(T(vs(I(1), S("a")))), vs(O(vs(F(0)))), vs(O(vs(F(negZero)))),
		vs(L(vs(I(1))), L(vs(I(1), I(0)))), vs(T(vs(I(1))), T(vs(I(1), S("a")))), vs(O(vs(I(1))), O(vs(I(1), S("a")))),
	}
	for _, k := range c09Kinds {
		for _, e := range nested {
			add(k(e))
		}
	}
	if !thorough {
		return out
	}
	// thorough: systematic containers. depth 1: every kind x every sequence of length <= 2 over base1.
	base1 := []octosql.Value{octosql.NewNull(), I(0), I(1), F(negZero), F(0), F(c09NaN1), F(c09NaN2), S("a"), octosql.NewTime(c09T1), octosql.NewTime(c09T1loc)}
	for _, k := range c09Kinds {
		for _, e := range c09Seqs(base1, 0, 2) {
			add(k(e))
		}
	}
	// depth 2: every kind x sequences of length 1..2 over {kind x sequences of length <= 1 over base2}.
	base2 := []octosql.Value{I(1), F(c09NaN1), F(negZero), F(0)}
	var inner []octosql.Value
	for _, k := range c09Kinds {
		for _, e := range c09Seqs(base2, 0, 1) {
			inner = append(inner, k(e))
		}
	}
	for _, k := range c09Kinds {
		for _, e := range c09Seqs(inner, 1, 2) {
			add(k(e))
		}
	}
	return out
}

// c09Diff walks two values in parallel and names the first representational difference between leaves whose
// hashes differ ("" = none).
func c09Diff(a, b octosql.Value) string {
	if a.TypeID != b.TypeID {
		return "cross-type:" + a.TypeID.String() + "," + b.TypeID.String()
	}
	if !c09IsContainer(a) {
		// classification only (not the oracle): a leaf pair whose real hashes agree cannot be the reason for differing hashes
		ha, p1 := c09SafeHash(a)
		hb, p2 := c09SafeHash(b)
		if p1 == nil && p2 == nil && ha == hb {
			return ""
		}
	}
	switch a.TypeID {
	case octosql.TypeIDInt:
		if a.Int != b.Int {
			return "distinct-Int"
		}
	case octosql.TypeIDFloat:
		an, bn := a.Float != a.Float, b.Float != b.Float
		switch {
		case an && bn:
			if math.Float64bits(a.Float) != math.Float64bits(b.Float) {
				return "nan-payloads"
			}
		case an || bn:
			return "nan-vs-number"
		case a.Float == 0 && b.Float == 0:
			if math.Signbit(a.Float) != math.Signbit(b.Float) {
				return "neg-zero-vs-zero"
			}
		case a.Float != b.Float:
			return "distinct-Float"
		}
	case octosql.TypeIDBoolean:
		if a.Boolean != b.Boolean {
			return "distinct-Boolean"
		}
	case octosql.TypeIDString:
		if a.Str != b.Str {
			return "distinct-String"
		}
	case octosql.TypeIDTime:
		if a.Time.UnixNano() != b.Time.UnixNano() {
			return "distinct-Time"
		}
		if a.Time.Location().String() != b.Time.Location().String() {
			return "same-instant-different-location"
		}
	case octosql.TypeIDDuration:
		if a.Duration != b.Duration {
			return "distinct-Duration"
		}
	case octosql.TypeIDList, octosql.TypeIDStruct, octosql.TypeIDTuple:
		ac, bc := c09Children(a), c09Children(b)
		for i := 0; i < len(ac) && i < len(bc); i++ {
			if d := c09Diff(ac[i], bc[i]); d != "" {
				return d
			}
		}
		if len(ac) != len(bc) {
			return "length-" + a.TypeID.String()
		}
	}
	return ""
}

// c09HashFP: fingerprint of a "Compare==0 but hashes differ" case from the first difference of the two values.
func c09HashFP(prefix string, diff string, typ string) string {
	switch diff {
	case "nan-vs-number":
		return "C09/compare/nan-equals-everything"
	case "neg-zero-vs-zero":
		return "C09/hash/neg-zero-vs-zero"
	case "nan-payloads":
		return "C09/hash/nan-payloads-differ"
	case "same-instant-different-location":
		return "C09/hash/same-instant-different-location"
	case "":
		return strings.TrimSuffix("C09/"+prefix+"hash/identical-values-hash-differently:"+typ, ":")
	}
	if strings.HasPrefix(diff, "distinct-") {
		return "C09/compare/equal-but-" + diff // a leaf pair that Compare itself treats as equal: same root cause at both levels
	}
	return "C09/" + prefix + "compare/equal-but-" + diff
}

// c09Rel: a comparison relation tabulated from the real code over n items.
type c09Rel struct {
	prefix string // "" for Value.Compare, "slices-" for CompareValueSlices
	n      int
	cmp    []int8
	hash   []uint64
	nan    []bool // deep-contains a NaN; only set when the tree shows the defect "NaN compares 0 with a number" (probe)
	str    func(i int) string
	typ    func(i int) string
	diff   func(i, j int) string
}

func (q *c09Rel) at(i, j int) int8 { return q.cmp[i*q.n+j] }

// types: ":T1,T2,.." suffix of a generic fingerprint ("" for the slice relation, whose items have no TypeID).
func (q *c09Rel) types(is ...int) string {
	if q.typ == nil {
		return ""
	}
	parts := make([]string, len(is))
	for k, i := range is {
		parts[k] = q.typ(i)
	}
	return ":" + strings.Join(parts, ",")
}

// c09Agg collects violations per fingerprint: one findings.Violation call per (task, fingerprint) with the first
// example, exact case totals separately.
type c09Agg struct {
	mu     sync.Mutex
	totals map[string]int64
}

type c09Local struct {
	cnt   map[string]int64
	first map[string]func() (string, c09Case)
}

func newC09Local() *c09Local {
	return &c09Local{cnt: map[string]int64{}, first: map[string]func() (string, c09Case){}}
}

func (l *c09Local) hit(fp string, mk func() (string, c09Case)) {
	if l.cnt[fp] == 0 {
		l.first[fp] = mk
	}
	l.cnt[fp]++
}

func (a *c09Agg) flush(r *findings.Run, l *c09Local) {
	fps := make([]string, 0, len(l.cnt))
	for fp := range l.cnt {
		fps = append(fps, fp)
	}
	sort.Strings(fps)
	for _, fp := range fps {
		what, cs := l.first[fp]()
		r.Violation(fp, what, cs)
		a.mu.Lock()
		a.totals[fp] += l.cnt[fp]
		a.mu.Unlock()
	}
}

func c09Sign(x int) int {
	if x < 0 {
		return -1
	}
	if x > 0 {
		return 1
	}
	return 0
}

// c09Laws decides reflexivity, antisymmetry, cmp=0 => hash equal (all pairs) and transitivity (all triples) on a tabulated relation.
func c09Laws(r *findings.Run, agg *c09Agg, q *c09Rel, cmpName, hashName string) (pairs, triples int64) {
	n := q.n
	var mu sync.Mutex
	enum.Parallel(n, func(a int) {
		l := newC09Local()
		var np, nt int64
		if q.at(a, a) != 0 {
			l.hit("C09/"+q.prefix+"compare/not-reflexive"+q.types(a), func() (string, c09Case) {
				return fmt.Sprintf("%s(a,a) = %d for a = %s, expected 0", cmpName, q.at(a, a), q.str(a)),
					c09Case{Law: "reflexive", Values: []string{q.str(a)}, Got: fmt.Sprint(q.at(a, a)), Want: "0"}
			})
		}
		for b := 0; b < n; b++ {
			np++
			ab, ba := q.at(a, b), q.at(b, a)
			if ab != -ba && a < b {
				fp := "C09/" + q.prefix + "compare/not-antisymmetric" + q.types(a, b)
				if q.nan[a] || q.nan[b] {
					fp = "C09/compare/nan-equals-everything"
				}
				b := b
				l.hit(fp, func() (string, c09Case) {
					return fmt.Sprintf("%s(a,b) = %d but %s(b,a) = %d for a = %s, b = %s", cmpName, ab, cmpName, ba, q.str(a), q.str(b)),
						c09Case{Law: "antisymmetric", Values: []string{q.str(a), q.str(b)}, Got: fmt.Sprintf("%d / %d", ab, ba), Want: "opposite signs"}
				})
			}
			if ab == 0 && a < b && q.hash[a] != q.hash[b] {
				b := b
				d := q.diff(a, b)
				l.hit(c09HashFP(q.prefix, d, strings.TrimPrefix(q.types(a), ":")), func() (string, c09Case) {
					return fmt.Sprintf("%s(a,b) = 0 but %s(a) = %#x != %s(b) = %#x for a = %s, b = %s (first difference: %s)", cmpName, hashName, q.hash[a], hashName, q.hash[b], q.str(a), q.str(b), d),
						c09Case{Law: "compare=0 => hash equal", Values: []string{q.str(a), q.str(b)}, Got: fmt.Sprintf("%#x vs %#x", q.hash[a], q.hash[b]), Want: "equal hashes"}
				})
			}
			// transitivity: a<=b && b<=c => a<=c ; a==b && b==c => a==c
			if ab > 0 {
				nt += int64(n)
				continue
			}
			for c := 0; c < n; c++ {
				nt++
				bc := q.at(b, c)
				if bc > 0 {
					continue
				}
				ac := q.at(a, c)
				bad := ""
				if ac > 0 {
					bad = "not-transitive"
				} else if ab == 0 && bc == 0 && ac != 0 {
					bad = "equality-not-transitive"
				}
				if bad == "" {
					continue
				}
				fp := "C09/" + q.prefix + "compare/" + bad + q.types(a, b, c)
				if q.nan[a] || q.nan[b] || q.nan[c] {
					fp = "C09/compare/nan-equals-everything"
				}
				b, c := b, c
				l.hit(fp, func() (string, c09Case) {
					return fmt.Sprintf("%s(a,b) = %d and %s(b,c) = %d but %s(a,c) = %d for a = %s, b = %s, c = %s", cmpName, ab, cmpName, bc, cmpName, ac, q.str(a), q.str(b), q.str(c)),
						c09Case{Law: bad, Values: []string{q.str(a), q.str(b), q.str(c)}, Got: fmt.Sprintf("cmp(a,b)=%d cmp(b,c)=%d cmp(a,c)=%d", ab, bc, ac), Want: "cmp(a,c) <= 0 (and = 0 when both premises are 0)"}
				})
			}
		}
		agg.flush(r, l)
		mu.Lock()
		pairs += np
		triples += nt
		mu.Unlock()
	})
	return
}

func c09SafeCompare(a, b octosql.Value) (c int, pan interface{}) {
	defer func() {
		if p := recover(); p != nil {
			pan = p
		}
	}()
	return a.Compare(b), nil
}

func c09SafeHash(a octosql.Value) (h uint64, pan interface{}) {
	defer func() {
		if p := recover(); p != nil {
			pan = p
		}
	}()
	return a.Hash(), nil
}

func c09SafeEqual(a, b octosql.Value) (e bool, pan interface{}) {
	defer func() {
		if p := recover(); p != nil {
			pan = p
		}
	}()
	return a.Equal(b), nil
}

func c09SafeLess(a, b []octosql.Value) (l bool, pan interface{}) {
	defer func() {
		if p := recover(); p != nil {
			pan = p
		}
	}()
	return execution.CompareValueSlices(a, b), nil
}

func c09SafeHashMany(a []octosql.Value) (h uint64, pan interface{}) {
	defer func() {
		if p := recover(); p != nil {
			pan = p
		}
	}()
	return octosql.HashManyValues(a), nil
}

// c09Reference: the documented / uncontroversial order between two scalars. ok=false: no expectation.
// kind: "sign" (want is the expected sign) or "zero" (only want==0 <=> got==0 is required).
func c09Reference(a, b octosql.Value) (want int, kind string, ok bool) {
	if a.TypeID != b.TypeID {
		return c09Sign(int(a.TypeID) - int(b.TypeID)), "sign", true
	}
	switch a.TypeID {
	case octosql.TypeIDNull:
		return 0, "sign", true
	case octosql.TypeIDInt:
		return c09Sign(int(a.Int - b.Int)), "sign", true // universe ints are tiny
	case octosql.TypeIDFloat:
		if a.Float != a.Float || b.Float != b.Float || (a.Float == 0 && b.Float == 0) {
			return 0, "", false // NaN position and the order of signed zeros are not specified: laws only
		}
		switch {
		case a.Float < b.Float:
			return -1, "sign", true
		case a.Float > b.Float:
			return 1, "sign", true
		}
		return 0, "sign", true
	case octosql.TypeIDBoolean:
		if a.Boolean == b.Boolean {
			return 0, "zero", true
		}
		return 1, "zero", true
	case octosql.TypeIDString:
		return strings.Compare(a.Str, b.Str), "sign", true // bytewise
	case octosql.TypeIDTime:
		an, bn := a.Time.UnixNano(), b.Time.UnixNano()
		switch {
		case an < bn:
			return -1, "sign", true
		case an > bn:
			return 1, "sign", true
		}
		return 0, "sign", true
	case octosql.TypeIDDuration:
		switch {
		case a.Duration < b.Duration:
			return -1, "sign", true
		case a.Duration > b.Duration:
			return 1, "sign", true
		}
		return 0, "sign", true
	}
	return 0, "", false
}

func init() {
	register("C09", "exploration", func(r *findings.Run) {
		U := c09Universe(r.Thorough())
		n := len(U)
		strs := make([]string, n)
		nan := make([]bool, n)
		for i, v := range U {
			strs[i] = c09Str(v)
			nan[i] = c09DeepNaN(v)
		}
		agg := &c09Agg{totals: map[string]int64{}}

		r.Rule = "universe U: NULL; Int -1,0,1; Float -Inf,-1,-0.0,+0.0,1,+Inf, two NaN bit patterns; both booleans; strings \"\",\"a\",\"A\",\"ab\"; two instants, one also in a second *time.Location; two durations; " +
			"lists/objects/tuples of depth <= 2 (quick: 36 shallow + 27 nested hand-picked incl. [], [NaN], [-0.0], [+0.0]; thorough: every container kind x every sequence of length <= 2 over 10 scalars, and every kind x sequences of length 1..2 over the 15 containers of length <= 1 over {1, NaN, -0.0, +0.0}). " +
			"Value.Compare is called for every ordered pair of U and Value.Hash / Value.Equal for every value / pair; reflexivity, antisymmetry, cmp=0 => hash equal and Equal <=> cmp=0 are decided on all pairs, transitivity (a<=b, b<=c => a<=c; a=b, b=c => a=c) on ALL triples of U. " +
			"The same laws for execution.CompareValueSlices / octosql.HashManyValues over all slices of length <= 2 over a sub-universe (all pairs, all triples). " +
			"non-trivial = unordered pair of distinct members of U with the same TypeID, or of distinct slices of equal length >= 1 with position-wise equal TypeIDs (the comparison has to look inside the values)"
		r.Assume(
			"Value.Equal(NULL, NULL) = false is the documented SQL convention (anchor 'NULL never equal'): the top-level NULL/NULL pair is excluded from the Equal <=> Compare==0 check",
			"documented order conventions checked on scalars only: cross-type order follows TypeID (NULL first), strings compare bytewise, Int/Float/Duration numerically, Time by instant; for Boolean only equal/unequal is checked; the position of NaN and the order between -0.0 and +0.0 are not specified, only the laws apply to them",
			"the order between containers is not specified beyond the laws (no reference order for lists/objects/tuples)",
			"hash quality is not part of the property: Value.Hash of every object and tuple is the same constant on this tree (values.go hash() ranges over value.List in the Struct and Tuple cases); that is consistent with Compare, so it is noted in coverage.notes and not reported",
			"the CLI-observable half of C09 (DISTINCT / GROUP BY / ORDER BY / join / = agreement) is not part of this check yet",
		)

		// ---- tabulate the real Compare / Hash ----
		cmp := make([]int8, n*n)
		hash := make([]uint64, n)
		panicked := make([]bool, n*n)
		var evals int64
		var emu sync.Mutex
		enum.Parallel(n, func(i int) {
			l := newC09Local()
			h, pan := c09SafeHash(U[i])
			if pan != nil {
				l.hit("C09/panic@Hash:"+U[i].TypeID.String(), func() (string, c09Case) {
					return fmt.Sprintf("Hash(%s) panics: %v", strs[i], pan), c09Case{Law: "no panic", Values: []string{strs[i]}, Got: fmt.Sprint(pan), Want: "a hash"}
				})
			}
			hash[i] = h
			if h2, _ := c09SafeHash(U[i]); h2 != h {
				l.hit("C09/hash/not-deterministic:"+U[i].TypeID.String(), func() (string, c09Case) {
					return fmt.Sprintf("Hash(%s) returned %#x then %#x", strs[i], h, h2), c09Case{Law: "hash deterministic", Values: []string{strs[i]}, Got: fmt.Sprintf("%#x, %#x", h, h2), Want: "equal"}
				})
			}
			for j := 0; j < n; j++ {
				j := j
				c, pan := c09SafeCompare(U[i], U[j])
				if pan != nil {
					panicked[i*n+j] = true
					l.hit("C09/panic@Compare:"+U[i].TypeID.String()+","+U[j].TypeID.String(), func() (string, c09Case) {
						return fmt.Sprintf("Compare(%s, %s) panics: %v", strs[i], strs[j], pan), c09Case{Law: "no panic", Values: []string{strs[i], strs[j]}, Got: fmt.Sprint(pan), Want: "-1, 0 or 1"}
					})
					continue
				}
				cmp[i*n+j] = int8(c09Sign(c))

				// Equal <=> Compare == 0 (except NULL/NULL)
				if !(U[i].TypeID == octosql.TypeIDNull && U[j].TypeID == octosql.TypeIDNull) {
					e, pan := c09SafeEqual(U[i], U[j])
					if pan == nil && e != (c == 0) {
						l.hit("C09/equal/disagrees-with-compare:"+U[i].TypeID.String()+","+U[j].TypeID.String(), func() (string, c09Case) {
							return fmt.Sprintf("Equal(%s, %s) = %v but Compare = %d", strs[i], strs[j], e, c), c09Case{Law: "Equal <=> Compare==0", Values: []string{strs[i], strs[j]}, Got: fmt.Sprint(e), Want: fmt.Sprint(c == 0)}
						})
					}
				}

				// documented conventions on scalars
				if c09IsContainer(U[i]) || c09IsContainer(U[j]) {
					if U[i].TypeID != U[j].TypeID {
						want := c09Sign(int(U[i].TypeID) - int(U[j].TypeID))
						if c09Sign(c) != want {
							fp := "C09/compare/cross-type-order:" + U[i].TypeID.String() + "," + U[j].TypeID.String()
							if U[i].TypeID == octosql.TypeIDNull || U[j].TypeID == octosql.TypeIDNull {
								fp = "C09/compare/null-not-first"
							}
							l.hit(fp, func() (string, c09Case) {
								return fmt.Sprintf("Compare(%s, %s) = %d, expected sign %d (order of TypeIDs)", strs[i], strs[j], c, want), c09Case{Law: "cross-type order by TypeID", Values: []string{strs[i], strs[j]}, Got: fmt.Sprint(c), Want: fmt.Sprint(want)}
							})
						}
					}
					continue
				}
				want, kind, ok := c09Reference(U[i], U[j])
				if !ok {
					continue
				}
				got := c09Sign(c)
				if kind == "zero" {
					if (got == 0) != (want == 0) {
						l.hit("C09/compare/"+U[i].TypeID.String()+"-equality-wrong", func() (string, c09Case) {
							return fmt.Sprintf("Compare(%s, %s) = %d", strs[i], strs[j], c), c09Case{Law: "scalar equality", Values: []string{strs[i], strs[j]}, Got: fmt.Sprint(c), Want: map[bool]string{true: "0", false: "non-zero"}[want == 0]}
						})
					}
					continue
				}
				if got == want {
					continue
				}
				var fp string
				tn := strings.ToLower(U[i].TypeID.String())
				switch {
				case U[i].TypeID != U[j].TypeID && (U[i].TypeID == octosql.TypeIDNull || U[j].TypeID == octosql.TypeIDNull):
					other := U[i].TypeID
					if other == octosql.TypeIDNull {
						other = U[j].TypeID
					}
					fp = "C09/compare/null-not-first"
					_ = other
				case U[i].TypeID != U[j].TypeID:
					fp = "C09/compare/cross-type-order:" + U[i].TypeID.String() + "," + U[j].TypeID.String()
				case got == -want:
					fp = "C09/compare/" + tn + "-order-inverted"
				case got == 0:
					fp = "C09/compare/distinct-" + tn + "s-equal"
				default:
					fp = "C09/compare/equal-" + tn + "s-ordered"
				}
				l.hit(fp, func() (string, c09Case) {
					return fmt.Sprintf("Compare(%s, %s) = %d, expected sign %d", strs[i], strs[j], c, want), c09Case{Law: "documented scalar order", Values: []string{strs[i], strs[j]}, Got: fmt.Sprint(c), Want: fmt.Sprint(want)}
				})
			}
			agg.flush(r, l)
			emu.Lock()
			evals += int64(n)
			emu.Unlock()
		})

		// outcomes, non-trivial pairs, samples
		for i := 0; i < n; i++ {
			for j := i + 1; j < n; j++ {
				if U[i].TypeID == U[j].TypeID {
					r.Nontrivial(strs[i] + " | " + strs[j])
				}
				cls := "cross-type"
				if U[i].TypeID == U[j].TypeID {
					cls = "same-type"
				}
				if c09IsContainer(U[i]) && c09IsContainer(U[j]) {
					cls += "/nested"
				} else {
					cls += "/scalar"
				}
				switch c := cmp[i*n+j]; {
				case c < 0:
					cls += "/lt"
				case c > 0:
					cls += "/gt"
				case hash[i] == hash[j]:
					cls += "/eq,hash-equal"
				default:
					cls += "/eq,hash-differs"
				}
				r.Outcome(cls)
				if U[i].TypeID == U[j].TypeID && (i*7+j*13)%211 == 0 && r.NeedSample() {
					r.Sample(map[string]interface{}{"a": strs[i], "b": strs[j], "compare": cmp[i*n+j], "hash_a": fmt.Sprintf("%#x", hash[i]), "hash_b": fmt.Sprintf("%#x", hash[j])})
				}
			}
		}

		// classification probe: does this tree show "NaN compares 0 with an ordinary number"? Only then is a failing
		// law on values containing a NaN attributed to that root cause; otherwise the generic fingerprints are used.
		nanDefect := false
		for i := 0; i < n; i++ {
			for j := 0; j < n; j++ {
				if U[i].TypeID == octosql.TypeIDFloat && U[j].TypeID == octosql.TypeIDFloat && nan[i] && !nan[j] && cmp[i*n+j] == 0 {
					nanDefect = true
				}
			}
		}
		if !nanDefect {
			nan = make([]bool, n)
		}
		rel := &c09Rel{n: n, cmp: cmp, hash: hash, nan: nan,
			str:  func(i int) string { return strs[i] },
			typ:  func(i int) string { return U[i].TypeID.String() },
			diff: func(i, j int) string { return c09Diff(U[i], U[j]) },
		}
		pairs, triples := c09Laws(r, agg, rel, "Compare", "Hash")
		r.Eval(evals + pairs + triples)

		// ---- consumers of the order: each must agree with the sign of Compare on every pair of the universe ----
		// (group keys / join keys: execution.CompareValueSlices; min, max, array_agg and count distinct keep their values in trees)
		{
			l := newC09Local()
			var cevals int64
			minmax := func(proto func() nodes.Aggregate, a, b octosql.Value) (v octosql.Value, pan interface{}) {
				defer func() {
					if p := recover(); p != nil {
						pan = p
					}
				}()
				g := proto()
				g.Add(false, a)
				g.Add(false, b)
				return g.Trigger(), nil
			}
			for i := 0; i < n; i++ {
				for j := 0; j < n; j++ {
					if (nan[i] || nan[j]) && nanDefect {
						continue
					}
					c := int(cmp[i*n+j])
					lt, pan := c09SafeLess([]octosql.Value{U[i]}, []octosql.Value{U[j]})
					cevals++
					if pan == nil && lt != (c < 0) {
						i, j := i, j
						l.hit("C09/consumer-disagrees-with-Compare/CompareValueSlices", func() (string, c09Case) {
							return fmt.Sprintf("Compare(%s, %s) = %d but CompareValueSlices([a],[b]) (group and join keys) says less=%v", strs[i], strs[j], c, lt),
								c09Case{Law: "consumers agree with the sign of Compare", Values: []string{strs[i], strs[j]}, Got: fmt.Sprint(lt), Want: fmt.Sprint(c < 0)}
						})
					}
					if U[i].TypeID != U[j].TypeID || c >= 0 {
						continue
					}
					// a < b: min = a, max = b, count distinct = 2, array_agg keeps both
					for _, ag := range []struct {
						name  string
						proto func() nodes.Aggregate
						want  string
					}{
						{"min", aggregates.NewMinPrototype(), strs[i]}, {"max", aggregates.NewMaxPrototype(), strs[j]},
						{"count_distinct", aggregates.NewDistinctPrototype(aggregates.NewCountPrototype()), c09Str(octosql.NewInt(2))},
					} {
						v, pan := minmax(ag.proto, U[i], U[j])
						cevals++
						if pan != nil {
							continue
						}
						if got := c09Str(v); got != ag.want {
							i, j, ag := i, j, ag
							l.hit("C09/consumer-disagrees-with-Compare/"+ag.name, func() (string, c09Case) {
								return fmt.Sprintf("Compare(%s, %s) = %d (a < b) but %s over {a, b} gives %s, expected %s", strs[i], strs[j], c, ag.name, got, ag.want),
									c09Case{Law: "consumers agree with the sign of Compare", Values: []string{strs[i], strs[j]}, Got: got, Want: ag.want}
							})
						}
					}
				}
			}
			agg.flush(r, l)
			r.Eval(cevals)
			r.Extra["consumer_agreement_evaluations"] = cevals
		}

		// ---- slices: CompareValueSlices / HashManyValues ----
		negZero := math.Copysign(0, -1)
		I, F := octosql.NewInt, octosql.NewFloat
		sub := []octosql.Value{octosql.NewNull(), I(0), I(1), F(negZero), F(0), F(1), F(c09NaN1), F(c09NaN2), octosql.NewString("a"), octosql.NewString("A"),
			octosql.NewTime(c09T1), octosql.NewTime(c09T1loc), octosql.NewList([]octosql.Value{}), octosql.NewList([]octosql.Value{F(c09NaN1)}),
			octosql.NewList([]octosql.Value{F(0)}), octosql.NewList([]octosql.Value{F(negZero)}), octosql.NewTuple([]octosql.Value{I(1)})}
		if r.Thorough() {
			sub = append(sub, I(-1), F(math.Inf(1)), F(math.Inf(-1)), octosql.NewBoolean(false), octosql.NewBoolean(true), octosql.NewString(""), octosql.NewTime(c09T2),
				octosql.NewDuration(time.Second), octosql.NewStruct([]octosql.Value{F(0)}), octosql.NewStruct([]octosql.Value{F(negZero)}), octosql.NewTuple([]octosql.Value{F(c09NaN1)}),
				octosql.NewList([]octosql.Value{I(1), I(0)}), octosql.NewTuple([]octosql.Value{}))
		}
		SL := c09Seqs(sub, 0, 2)
		m := len(SL)
		sstr := make([]string, m)
		snan := make([]bool, m)
		for i, s := range SL {
			parts := make([]string, len(s))
			for k, v := range s {
				parts[k] = c09Str(v)
				snan[i] = snan[i] || c09DeepNaN(v)
			}
			sstr[i] = "<" + strings.Join(parts, "; ") + ">"
		}
		scmp := make([]int8, m*m)
		shash := make([]uint64, m)
		var sevals int64
		enum.Parallel(m, func(i int) {
			l := newC09Local()
			h, pan := c09SafeHashMany(SL[i])
			if pan != nil {
				l.hit("C09/panic@HashManyValues", func() (string, c09Case) {
					return fmt.Sprintf("HashManyValues(%s) panics: %v", sstr[i], pan), c09Case{Law: "no panic", Values: []string{sstr[i]}, Got: fmt.Sprint(pan)}
				})
			}
			shash[i] = h
			for j := 0; j < m; j++ {
				j := j
				lt, pan1 := c09SafeLess(SL[i], SL[j])
				gt, pan2 := c09SafeLess(SL[j], SL[i])
				if pan1 != nil || pan2 != nil {
					l.hit("C09/panic@CompareValueSlices", func() (string, c09Case) {
						return fmt.Sprintf("CompareValueSlices(%s, %s) panics: %v %v", sstr[i], sstr[j], pan1, pan2), c09Case{Law: "no panic", Values: []string{sstr[i], sstr[j]}, Got: fmt.Sprint(pan1, pan2)}
					})
					continue
				}
				switch {
				case lt && gt:
					// a<b and b<a: recorded as -1 in both cells, which the antisymmetry law reports (i<j side)
					scmp[i*m+j] = -1
				case lt:
					scmp[i*m+j] = -1
				case gt:
					scmp[i*m+j] = 1
				}
			}
			agg.flush(r, l)
			emu.Lock()
			sevals += int64(2 * m)
			emu.Unlock()
		})
		for i := 0; i < m; i++ {
			for j := i + 1; j < m; j++ {
				sameTypes := len(SL[i]) == len(SL[j]) && len(SL[i]) > 0
				for k := 0; sameTypes && k < len(SL[i]); k++ {
					sameTypes = SL[i][k].TypeID == SL[j][k].TypeID
				}
				if !sameTypes {
					continue
				}
				r.Nontrivial("slices " + sstr[i] + " | " + sstr[j])
				switch {
				case scmp[i*m+j] != 0:
					r.Outcome("slices/ordered")
				case shash[i] == shash[j]:
					r.Outcome("slices/eq,hash-equal")
				default:
					r.Outcome("slices/eq,hash-differs")
				}
			}
		}
		if !nanDefect {
			snan = make([]bool, m)
		}
		srel := &c09Rel{prefix: "slices-", n: m, cmp: scmp, hash: shash, nan: snan,
			str: func(i int) string { return sstr[i] },
			diff: func(i, j int) string {
				return c09Diff(octosql.NewTuple(SL[i]), octosql.NewTuple(SL[j]))
			},
		}
		spairs, striples := c09Laws(r, agg, srel, "CompareValueSlices-order", "HashManyValues")
		r.Eval(sevals + spairs + striples)

		// note on hash quality (not a violation)
		constHash := true
		var first uint64
		seenOne := false
		for i, v := range U {
			if v.TypeID == octosql.TypeIDStruct || v.TypeID == octosql.TypeIDTuple {
				if !seenOne {
					first, seenOne = hash[i], true
				} else if hash[i] != first {
					constHash = false
				}
			}
		}
		notes := []string{}
		if seenOne && constHash {
			notes = append(notes, fmt.Sprintf("every object and tuple value of the universe hashes to the same constant %#x (hash() ranges over value.List for Struct and Tuple): consistent with Compare, but degenerate", first))
		}
		r.Extra["notes"] = notes
		r.Extra["violating_cases"] = agg.totals
		r.Extra["violation_count_meaning"] = "the count of a VIOLATION line is the number of (first element, law pass) tasks with at least one failing case; exact numbers of failing pairs/triples per fingerprint are in violating_cases"
		r.Bound = map[string]interface{}{"universe": n, "pairs": n * n, "triples": int64(n) * int64(n) * int64(n), "slice_alphabet": len(sub), "slices": m, "slice_triples": int64(m) * int64(m) * int64(m), "max_depth": 2}
	})
}
