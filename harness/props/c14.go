package props

import (
	"fmt"
	"math"
	"sort"
	"strings"
	"time"

	"github.com/cube2222/octosql/aggregates"
	"github.com/cube2222/octosql/execution/nodes"
	"github.com/cube2222/octosql/octosql"

	"verif/harness/internal/enum"
	"verif/harness/internal/findings"
	"verif/harness/internal/stream"
)

type aggCase struct {
	Aggregate string   `json:"aggregate"`
	ArgType   string   `json:"arg_type"`
	History   []string `json:"history"`
	Prefix    int      `json:"prefix_len,omitempty"`
	Net       string   `json:"net_multiset,omitempty"`
	Got       string   `json:"got,omitempty"`
	Want      string   `json:"want,omitempty"`
}

func c14Domains() map[string][]octosql.Value {
	return map[string][]octosql.Value{
		"Int":      {octosql.NewInt(-3), octosql.NewInt(3), octosql.NewInt(7)}, // incl. an additive inverse: a net sum of 0 over a non-empty multiset
		"Float":    {octosql.NewFloat(0.5), octosql.NewFloat(-0.5), octosql.NewFloat(1.5)},
		"Duration": {octosql.NewDuration(time.Second), octosql.NewDuration(-time.Second), octosql.NewDuration(3 * time.Second)},
		"String":   {octosql.NewString(""), octosql.NewString("a"), octosql.NewString("B")},
		"Boolean":  {octosql.NewBoolean(false), octosql.NewBoolean(true)},
	}
}

// c14ExtremeDomains: values whose running sum leaves the int64 range and comes back (OctoSQL integers and durations wrap,
// so the result must still depend on the net multiset only). Judged against the fresh instance only: the reference
// in this file does not define overflow semantics.
func c14ExtremeDomains() map[string][]octosql.Value {
	return map[string][]octosql.Value{
		"Int":      {octosql.NewInt(math.MaxInt64), octosql.NewInt(5), octosql.NewInt(math.MinInt64)},
		"Duration": {octosql.NewDuration(time.Duration(math.MaxInt64)), octosql.NewDuration(time.Hour), octosql.NewDuration(time.Duration(math.MinInt64))},
	}
}

func sortedVals(vs []octosql.Value) []octosql.Value {
	out := append([]octosql.Value{}, vs...)
	sort.SliceStable(out, func(i, j int) bool { return refLess(out[i], out[j]) })
	return out
}

// refLess: independent ordering for the scalar kinds used here.
func refLess(a, b octosql.Value) bool {
	if a.TypeID != b.TypeID {
		return a.TypeID < b.TypeID
	}
	switch a.TypeID {
	case octosql.TypeIDInt:
		return a.Int < b.Int
	case octosql.TypeIDFloat:
		return a.Float < b.Float
	case octosql.TypeIDDuration:
		return a.Duration < b.Duration
	case octosql.TypeIDString:
		return a.Str < b.Str
	case octosql.TypeIDBoolean:
		return !a.Boolean && b.Boolean
	}
	return false
}

func distinctVals(vs []octosql.Value) []octosql.Value {
	s := sortedVals(vs)
	var out []octosql.Value
	for i, v := range s {
		if i == 0 || stream.ValKey(v) != stream.ValKey(s[i-1]) {
			out = append(out, v)
		}
	}
	return out
}

// refAggregate computes the aggregate of multiset m from scratch in plain Go.
// ok=false: undefined for this type.
func refAggregate(name string, m []octosql.Value) (octosql.Value, float64) {
	distinct := strings.HasSuffix(name, "_distinct")
	base := strings.TrimSuffix(name, "_distinct")
	if distinct {
		m = distinctVals(m)
	}
	tol := 0.0
	t := m[0].TypeID
	switch base {
	case "count":
		return octosql.NewInt(int64(len(m))), 0
	case "array_agg":
		return octosql.NewList(sortedVals(m)), 0
	case "min", "max":
		s := sortedVals(m)
		if base == "min" {
			return s[0], 0
		}
		return s[len(s)-1], 0
	case "sum", "avg":
		switch t {
		case octosql.TypeIDInt:
			var s int64
			for _, v := range m {
				s += v.Int
			}
			if base == "sum" {
				return octosql.NewInt(s), 0
			}
			return octosql.NewInt(s / int64(len(m))), 0
		case octosql.TypeIDFloat:
			var s, abs float64
			for _, v := range m {
				s += v.Float
				abs += math.Abs(v.Float)
			}
			tol = 1e-9 * abs
			if base == "sum" {
				return octosql.NewFloat(s), tol
			}
			return octosql.NewFloat(s / float64(len(m))), tol
		case octosql.TypeIDDuration:
			var s time.Duration
			for _, v := range m {
				s += v.Duration
			}
			if base == "sum" {
				return octosql.NewDuration(s), 0
			}
			return octosql.NewDuration(s / time.Duration(len(m))), 0
		}
	}
	panic("refAggregate: unsupported " + name)
}

func valsClose(a, b octosql.Value, tol float64) bool {
	if a.TypeID != b.TypeID {
		return false
	}
	if a.TypeID == octosql.TypeIDFloat {
		return math.Abs(a.Float-b.Float) <= tol
	}
	return stream.ValKey(a) == stream.ValKey(b)
}

type aggTarget struct {
	name    string
	argType string
	proto   func() nodes.Aggregate
	dom     []octosql.Value
	extreme bool
}

func c14Targets() []aggTarget {
	doms := c14Domains()
	var out []aggTarget
	names := make([]string, 0)
	for n := range aggregates.Aggregates {
		names = append(names, n)
	}
	sort.Strings(names)
	for _, n := range names {
		det := aggregates.Aggregates[n]
		for _, d := range det.Descriptors {
			var types []string
			if d.TypeFn != nil || d.ArgumentType.TypeID == octosql.TypeIDAny {
				types = []string{"Int", "Float", "String", "Boolean", "Duration"}
			} else {
				types = []string{d.ArgumentType.TypeID.String()}
			}
			for _, tn := range types {
				dom, ok := doms[tn]
				if !ok {
					continue
				}
				out = append(out, aggTarget{name: n, argType: tn, proto: d.Prototype, dom: dom})
				if ext, ok := c14ExtremeDomains()[tn]; ok {
					out = append(out, aggTarget{name: n, argType: tn + "(extreme values)", proto: d.Prototype, dom: ext, extreme: true})
				}
			}
		}
	}
	return out
}

func init() {
	register("C14", "model_checking", func(r *findings.Run) {
		L := r.Pick(6, 8)
		targets := c14Targets()
		r.Bound = map[string]interface{}{"history_length": L, "values_per_type": 3, "targets": len(targets)}
		r.Rule = "every prefix-valid add/retract history (a retraction never exceeds the earlier additions of that value) up to the length bound over 3 values per argument type (2 for Boolean; Int and Duration additionally over {MaxInt64, small, MinInt64}, where running sums wrap and only the comparison with a fresh instance is made), for every aggregate descriptor x applicable argument type, replayed on a fresh instance of the real aggregate; Trigger() is read at every prefix whose net multiset is non-empty, and every value it returned earlier in the history must still read the same afterwards; state = history prefix; non-trivial = prefix that contains a retraction and has a non-empty net multiset"
		r.Assume("Trigger is only called while the net multiset is non-empty (the group-by protocol)", "NaN and signed zeros excluded (C09)", "float sums compared within 1e-9*sum|x|")
		type job struct {
			t     aggTarget
			first []int
		}
		var jobs []job
		for _, t := range targets {
			k := 2 * len(t.dom)
			for a := 0; a < k; a++ {
				jobs = append(jobs, job{t, []int{a}})
			}
		}
		enum.Parallel(len(jobs), func(ji int) {
			j := jobs[ji]
			t := j.t
			nv := len(t.dom)
			var states, trans, traces int64
			// symbols: 0..nv-1 add, nv..2nv-1 retract
			valid := func(seq []int) bool {
				cnt := make([]int, nv)
				for _, s := range seq {
					if s < nv {
						cnt[s]++
					} else {
						cnt[s-nv]--
						if cnt[s-nv] < 0 {
							return false
						}
					}
				}
				return true
			}
			if !valid(j.first) {
				return
			}
			seq := append([]int{}, j.first...)
			var rec func()
			runMax := func() {
				// replay the maximal history, checking at every prefix not checked by a shorter-prefix sibling:
				// every prefix is checked (cheap), states are counted in the DFS below.
				agg := t.proto()
				cnt := make([]int, nv)
				hasRetr := false
				// values handed out by earlier Trigger() calls must stay what they were (a group-by keeps them to retract them later)
				var handedOut []octosql.Value
				var handedOutStr []string
				for i, s := range seq {
					if s < nv {
						cnt[s]++
						agg.Add(false, t.dom[s])
					} else {
						cnt[s-nv]--
						hasRetr = true
						agg.Add(true, t.dom[s-nv])
					}
					var m []octosql.Value
					for vi, c := range cnt {
						for x := 0; x < c; x++ {
							m = append(m, t.dom[vi])
						}
					}
					if len(m) == 0 {
						continue
					}
					got := agg.Trigger()
					for hi := range handedOut {
						if now := stream.ValKey(handedOut[hi]); now != handedOutStr[hi] {
							cs := aggCase{Aggregate: t.name, ArgType: t.argType, Prefix: i + 1, Got: now, Want: handedOutStr[hi]}
							for _, s2 := range seq {
								if s2 < nv {
									cs.History = append(cs.History, "+"+stream.ValKey(t.dom[s2]))
								} else {
									cs.History = append(cs.History, "-"+stream.ValKey(t.dom[s2-nv]))
								}
							}
							r.Violation(fmt.Sprintf("C14/%s(%s)/earlier-result-changed-afterwards", t.name, t.argType),
								fmt.Sprintf("%s over %s: history %v: the value returned by an earlier Trigger() was %s and reads %s after prefix %d", t.name, t.argType, cs.History, handedOutStr[hi], now, i+1), cs)
							return
						}
					}
					handedOut = append(handedOut, got)
					handedOutStr = append(handedOutStr, stream.ValKey(got))
					var want octosql.Value
					tol := 0.0
					if !t.extreme {
						want, tol = refAggregate(t.name, m)
					}
					// differential: fresh instance fed M in sorted order
					fresh := t.proto()
					for _, v := range sortedVals(m) {
						fresh.Add(false, v)
					}
					want2 := fresh.Trigger()
					if hasRetr {
						r.Nontrivial(fmt.Sprint(t.name, t.argType, seq[:i+1]))
					}
					if t.extreme {
						want = want2
					}
					if !valsClose(got, want, tol) || !valsClose(got, want2, tol) {
						cs := aggCase{Aggregate: t.name, ArgType: t.argType, Prefix: i + 1, Net: stream.ValsKey(m), Got: stream.ValKey(got), Want: stream.ValKey(want)}
						for _, s2 := range seq {
							if s2 < nv {
								cs.History = append(cs.History, "+"+stream.ValKey(t.dom[s2]))
							} else {
								cs.History = append(cs.History, "-"+stream.ValKey(t.dom[s2-nv]))
							}
						}
						which := "vs-reference"
						if valsClose(got, want, tol) {
							which = "vs-fresh-instance"
							cs.Want = stream.ValKey(want2)
						}
						r.Violation(fmt.Sprintf("C14/%s(%s)/%s", t.name, t.argType, which),
							fmt.Sprintf("%s over %s: after %v (prefix %d, net {%s}) reports %s, from scratch %s", t.name, t.argType, cs.History, i+1, cs.Net, cs.Got, cs.Want), cs)
						return
					}
					if i == len(seq)-1 && hasRetr && r.NeedSample() {
						cs := aggCase{Aggregate: t.name, ArgType: t.argType, Net: stream.ValsKey(m), Got: stream.ValKey(got), Want: stream.ValKey(want)}
						for _, s2 := range seq {
							if s2 < nv {
								cs.History = append(cs.History, "+"+stream.ValKey(t.dom[s2]))
							} else {
								cs.History = append(cs.History, "-"+stream.ValKey(t.dom[s2-nv]))
							}
						}
						r.Sample(cs)
					}
				}
			}
			rec = func() {
				states++
				if len(seq) == L {
					traces++
					trans += int64(L)
					defer func() {
						if p := recover(); p != nil {
							r.Violation(fmt.Sprintf("C14/%s(%s)/panic", t.name, t.argType), fmt.Sprintf("%s over %s: history %v panics: %v", t.name, t.argType, seq, p), aggCase{Aggregate: t.name, ArgType: t.argType, History: []string{fmt.Sprint(seq)}})
						}
					}()
					runMax()
					return
				}
				for s := 0; s < 2*nv; s++ {
					seq = append(seq, s)
					if valid(seq) {
						rec()
					}
					seq = seq[:len(seq)-1]
				}
			}
			rec()
			r.AddCounts(states, trans, traces)
			r.Eval(traces)
			r.Outcome(t.name + "/" + t.argType)
		})
		r.Extra["aggregates"] = len(aggregates.Aggregates)
	})
}
