package props

import (
	"fmt"
	"os"
	"strings"

	"verif/harness/internal/enum"
	"verif/harness/internal/findings"
	. "verif/harness/internal/refsql"
	"verif/harness/internal/runner"
)

var c01Cols = []string{"a", "b", "c"}

// domain rows: a in {NULL,0,1,2}, b in {NULL,'a','B','ab'}, c in {NULL,TRUE,FALSE}
func c01Domain() [][]V {
	as := []V{Null, Int(0), Int(1), Int(2)}
	bs := []V{Null, Str("a"), Str("B"), Str("ab")}
	cs := []V{Null, Bool(true), Bool(false)}
	var out [][]V
	for _, a := range as {
		for _, b := range bs {
			for _, c := range cs {
				out = append(out, []V{a, b, c})
			}
		}
	}
	return out
}

// number literal matching the table kind (CSV infers Int, JSON reads Float; no implicit coercion in octosql)
type numLit func(i int64) *Expr

func intLit(i int64) *Expr   { return Lit(Int(i)) }
func floatLit(i int64) *Expr { return Lit(Float(float64(i))) }

func c01Atoms(n numLit) []*Expr {
	return []*Expr{
		Op("=", Col("t.a"), n(1)),
		Op("<", Col("t.a"), n(2)),
		Op("isnull", Col("t.a")),
		Op("=", Col("t.b"), Lit(Str("a"))),
		Op("like", Col("t.b"), Lit(Str("a%"))),
		Col("t.c"),
		Op("!=", Col("t.a"), n(0)),
		Op("isnotnull", Col("t.b")),
		Op("in", Col("t.a"), n(0), n(2)),
		Op(">=", Col("t.b"), Lit(Str("ab"))),
	}
}

func c01Predicates(n numLit, depth int) []*Expr {
	atoms := c01Atoms(n)
	preds := append([]*Expr{}, atoms...)
	for _, a := range atoms {
		preds = append(preds, Op("not", a))
	}
	lits := []*Expr{Lit(Bool(true)), Lit(Bool(false))}
	for i, a := range atoms {
		for j, b := range atoms {
			if i < j {
				preds = append(preds, Op("and", a, b), Op("or", a, b))
				if depth >= 3 {
					preds = append(preds, Op("and", Op("not", a), b), Op("or", a, Op("not", b)), Op("not", Op("and", a, b)), Op("not", Op("or", a, b)))
				}
			}
		}
		for _, l := range lits {
			preds = append(preds, Op("and", a, l), Op("or", l, a))
		}
	}
	if depth >= 3 {
		for i := 0; i < len(atoms); i += 2 {
			for j := 1; j < len(atoms); j += 3 {
				for k := 2; k < len(atoms); k += 4 {
					preds = append(preds, Op("or", Op("and", atoms[i], atoms[j]), atoms[k]), Op("and", Op("or", atoms[i], atoms[j]), Op("not", atoms[k])))
				}
			}
		}
	}
	return preds
}

func c01Projections(n numLit) [][]Proj {
	return [][]Proj{
		{{Star: true}},
		{{E: Col("t.a")}},
		{{E: Col("t.b"), Alias: "x"}, {E: Col("t.a")}},
		{{E: Op("+", Col("t.a"), n(1)), Alias: "x"}, {E: Col("t.c")}},
		{{E: Op("*", Col("t.a"), Col("t.a")), Alias: "x"}},
		{{E: Op("neg", Col("t.a")), Alias: "x"}, {E: Col("t.b")}},
		{{E: Op("-", Col("t.a"), n(2)), Alias: "y"}, {E: Op("isnull", Col("t.b")), Alias: "z"}},
	}
}

type c01Gen struct {
	mk  func(alias string, cols []string, rows [][]V) *Table
	num numLit
}

// c01Queries enumerates the C01 query x table space (also reused by C04).
func c01Queries(depth, maxRows int) (queries []*Query, nDom, nS int) {
	dom := c01Domain()
	U := append(append([][]V{}, dom...), dom[13], dom[13], dom[47])
	// sub-domain for table family S (multisets)
	sub := [][]V{
		{Int(1), Str("a"), Bool(true)},
		{Int(1), Str("B"), Bool(false)},
		{Int(2), Str("a"), Null},
		{Null, Str("ab"), Bool(true)},
		{Int(0), Null, Bool(false)},
		{Int(2), Str("a"), Bool(true)},
	}
	var S [][][]V
	enum.Multisets(len(sub), maxRows, func(ms []int) {
		var t [][]V
		for _, i := range ms {
			t = append(t, sub[i])
		}
		S = append(S, t)
	})
	gens := []c01Gen{{mkCSV, intLit}, {mkJSON, floatLit}}
	for _, g := range gens {
		tu := g.mk("t", c01Cols, U)
		preds := c01Predicates(g.num, depth)
		projs := c01Projections(g.num)
		// F1: every predicate x two projections over U (filter / map over every row of the domain)
		for _, p := range preds {
			for _, pj := range [][]Proj{projs[0], projs[3]} {
				q := NewQuery()
				q.From = &From{Table: tu}
				q.Where = p
				q.Proj = pj
				queries = append(queries, q)
			}
		}
		// every projection with and without a predicate
		for _, pj := range projs {
			for _, p := range []*Expr{nil, preds[1]} {
				for _, d := range []bool{false, true} {
					q := NewQuery()
					q.From = &From{Table: tu}
					q.Where = p
					q.Proj = pj
					q.Distinct = d
					queries = append(queries, q)
				}
			}
		}
		// F2: DISTINCT / ORDER BY / LIMIT over all small multisets
		orders := [][]Order{nil, {{E: Col("t.a")}}, {{E: Col("t.a"), Desc: true}}, {{E: Col("t.b")}, {E: Col("t.a"), Desc: true}}, {{E: Col("t.c"), Desc: true}}}
		limits := []int{-1, 0, 1, 2, 3}
		for _, rows := range S {
			ts := g.mk("t", c01Cols, rows)
			for _, d := range []bool{false, true} {
				for _, ob := range orders {
					for _, lim := range limits {
						for pi, pj := range [][]Proj{projs[0], projs[2]} {
							if pi == 1 && (len(rows) < 2 || lim == 3) {
								continue
							}
							q := NewQuery()
							q.From = &From{Table: ts}
							q.Proj = pj
							q.Distinct = d
							q.OrderBy = ob
							q.Limit = lim
							queries = append(queries, q)
						}
					}
				}
			}
		}
		// F3: subquery in FROM and WITH, over U and a few multisets
		inner := func(t *Table) []*Query {
			var out []*Query
			for _, p := range []*Expr{nil, preds[0], preds[2]} {
				for _, d := range []bool{false, true} {
					for _, lim := range []int{-1, 2} {
						for _, ob := range [][]Order{nil, {{E: Col("t.a"), Desc: true}}} {
							q := NewQuery()
							q.From = &From{Table: t}
							q.Where = p
							q.Distinct = d
							q.Limit = lim
							q.OrderBy = ob
							q.Proj = []Proj{{Star: true}}
							out = append(out, q)
							q2 := cloneQuery(q)
							q2.Proj = []Proj{{E: Col("t.a"), Alias: "a"}, {E: Op("+", Col("t.a"), g.num(1)), Alias: "a1"}, {E: Col("t.b"), Alias: "b"}}
							out = append(out, q2)
						}
					}
				}
			}
			return out
		}
		tabs := []*Table{tu, g.mk("t", c01Cols, S[len(S)/2]), g.mk("t", c01Cols, S[len(S)-1])}
		for _, t := range tabs {
			for _, in := range inner(t) {
				for _, outerPred := range []*Expr{nil, Op("=", Col("s.a"), g.num(1)), Op("isnull", Col("s.b"))} {
					for _, lim := range []int{-1, 1} {
						q := NewQuery()
						q.From = &From{Sub: in, Alias: "s"}
						q.Where = outerPred
						q.Limit = lim
						q.Proj = []Proj{{Star: true}}
						queries = append(queries, q)
						// same through WITH
						if lim == -1 {
							w := NewQuery()
							w.With = []CTE{{Name: "s", Q: in}}
							w.From = &From{CTE: "s"}
							w.Where = outerPred
							w.Proj = []Proj{{E: Col("s.a")}, {E: Col("s.b")}}
							queries = append(queries, w)
							// the outer query uses ONE column of the subquery: whatever the inner DISTINCT / ORDER BY / LIMIT
							// computed over the other columns must not change
							one := NewQuery()
							one.From = &From{Sub: in, Alias: "s"}
							one.Where = outerPred
							one.Proj = []Proj{{E: Col("s.a")}}
							queries = append(queries, one)
						}
					}
				}
			}
		}
	}
	// F4: COALESCE over nullable columns feeding strict operators (projection, WHERE, NOT, through a subquery column)
	for _, g := range gens {
		co := func(c string) *Expr { return Op("coalesce", Col(c), Col(c)) }
		tabs := []*Table{g.mk("t", c01Cols, U), g.mk("t", c01Cols, S[len(S)/2]), g.mk("t", c01Cols, S[len(S)-1])}
		for _, t := range tabs {
			for _, w := range []*Expr{nil, Op("<", co("t.a"), g.num(2)), Op("not", Op("=", co("t.a"), g.num(1))), Op("like", co("t.b"), Lit(Str("a%"))),
				Op("or", Op("isnull", co("t.a")), co("t.c"))} {
				for _, p := range [][]Proj{{{Star: true}}, {{E: Op("+", co("t.a"), g.num(1)), Alias: "x"}, {E: co("t.b"), Alias: "y"}, {E: Op("not", co("t.c")), Alias: "z"}}} {
					q := NewQuery()
					q.From = &From{Table: t}
					q.Where = w
					q.Proj = p
					queries = append(queries, q)
				}
			}
			in := NewQuery()
			in.From = &From{Table: t}
			in.Proj = []Proj{{E: co("t.a"), Alias: "a"}, {E: co("t.b"), Alias: "b"}}
			for _, w := range []*Expr{nil, Op("<", Col("s.a"), g.num(2)), Op("not", Op("=", Col("s.a"), g.num(1)))} {
				o := NewQuery()
				o.From = &From{Sub: in, Alias: "s"}
				o.Where = w
				o.Proj = []Proj{{E: Op("+", Col("s.a"), g.num(1)), Alias: "x"}, {E: Col("s.b")}}
				queries = append(queries, o)
			}
		}
	}
	return queries, len(dom), len(S)
}

func init() {
	register("C01", "exploration", func(r *findings.Run) {
		defer cleanupTables()
		pool := runner.NewPool(0, strings.Fields(os.Getenv("VERIF_WORKER_ENV"))...)
		defer pool.Close()
		depth := r.Pick(2, 3)
		queries, nDom, nS := c01Queries(depth, r.Pick(3, 4))
		r.Bound = map[string]interface{}{"predicate_depth": depth, "domain_rows": nDom, "multiset_tables": nS, "queries": len(queries)}
		r.Rule = "grammar-enumerated single-source queries (WHERE trees over 10 atoms, 7 projections, DISTINCT, 5 ORDER BY forms, LIMIT 0..3, FROM-subquery and WITH nestings) x tables (one table holding every row of the 48-row domain a x b x c plus duplicates; every multiset of <=3 (4) rows of a 6-row sub-domain), as CSV (Int columns) and JSON lines (Float columns), run through the real root command in-process (-o json) and compared with the reference evaluator; COALESCE over nullable columns feeding strict operators; the top-level ORDER BY ... LIMIT queries over the small multiset tables are judged in -o batch_table as well (the table printer re-implements the cut); non-trivial = query whose reference result is non-empty and differs from the unfiltered input"
		r.Assume("tie order under ORDER BY is unspecified; a tie group split by LIMIT may contribute any of its members", "LIMIT without ORDER BY may return any min(n,N) rows",
			"queries octosql rejects at typecheck are counted, not judged", "CSV cannot distinguish NULL from the empty string: CSV tables hold no empty strings")
		cache := newFPCache()
		enum.Parallel(len(queries), func(i int) {
			if r.TimeUp() {
				return
			}
			q := queries[i]
			v := judge(pool, q, true)
			r.Eval(1)
			if v.Class == "rejected" {
				r.Reject(1)
				r.Outcome("rejected")
				return
			}
			if v.Class == "ambiguous" {
				r.Outcome("skipped: nested LIMIT admits several answers")
				return
			}
			if v.Class == "harness-unresolved" {
				panic("reference cannot evaluate: " + q.SQL() + ": " + v.Why)
			}
			r.Outcome(fmt.Sprintf("%s", orOK(v.Class)))
			want, _ := Eval(q)
			if len(want.Rows) > 0 && (q.Where != nil || q.Distinct || len(q.OrderBy) > 0 || q.Limit >= 0 || q.From.Sub != nil) {
				r.Nontrivial(q.SQL())
			}
			if v.Class != "" {
				reportMismatch(r, cache, "C01", q, v, sqlArgs(q.SQL(), "json", true), func(c *Query) verdict { return judge(pool, c, true) })
			} else if i%2500 == 7 {
				cs := mkCase(q, sqlArgs(q.SQL(), "json", true))
				cs.Got = RowsString(v.Got)
				r.Sample(cs)
			}
		})
		// the table printer (the default output of the CLI) re-implements ORDER BY + LIMIT: the top-level ORDER BY ... LIMIT
		// queries over the small multiset tables (duplicate rows straddling the cut) are also judged in -o batch_table
		var tableQs []*Query
		for _, q := range queries {
			if len(q.OrderBy) > 0 && q.Limit >= 1 && q.From.Table != nil && len(q.From.Table.Rows) <= 4 && q.Where == nil {
				tableQs = append(tableQs, q)
			}
		}
		if !r.Thorough() { // quick: every second one
			half := tableQs[:0]
			for i, q := range tableQs {
				if i%2 == 0 {
					half = append(half, q)
				}
			}
			tableQs = half
		}
		r.Extra["batch_table_queries"] = len(tableQs)
		enum.Parallel(len(tableQs), func(i int) {
			q := tableQs[i]
			v := c05Judge(pool, q, "batch_table")
			r.Eval(1)
			switch v.Class {
			case "rejected", "ambiguous", "harness-unresolved":
				return
			}
			r.Outcome("batch_table/" + orOK(v.Class))
			if v.Class != "" {
				reportMismatch(r, cache, "C01/batch_table", q, v, sqlArgs(q.SQL(), "batch_table", true), func(c *Query) verdict { return c05Judge(pool, c, "batch_table") })
			}
		})
		if r.Rejected*2 > r.Evaluations {
			fmt.Println("HARNESS ERROR: more than half of the generated queries were rejected at typecheck (vacuous run)")
			panic("vacuous")
		}
	})
}

func orOK(s string) string {
	if s == "" {
		return "match"
	}
	if i := strings.Index(s, "@"); i > 0 {
		return s[:i]
	}
	return s
}
