package props

// C08 — static types are sound.
//
// Part 1 (expressions): logical expressions built the way parser.ParseExpression builds them go through the REAL
//   logical.Expression.Typecheck -> physical.Expression.Materialize -> execution.Expression.Evaluate
// with every variable declared in one record scope; every value produced must belong to the physical.Expression.Type
// the typechecker computed. Part 2 (queries): SQL text goes through the real
//   sqlparser.Parse -> parser.ParseNode -> Typecheck -> [optimizer.Optimize] -> Materialize -> Run
// (the wiring of cmd/root.go without its printing) over a harness physical.Database whose tables hold only values that
// belong to their declared column types; every value of every produced record must belong to the type of its column
// in the typechecked plan's schema (that schema is what --describe prints).
//
// The membership predicate is c10Conform (plain Go, written in the harness; it never calls Value.Type() or Type.Is()).

import (
	"context"
	"fmt"
	"io"
	"log"
	"math"
	"os"
	"sort"
	"strings"
	"sync"
	"time"

	"github.com/cube2222/octosql/aggregates"
	"github.com/cube2222/octosql/execution"
	"github.com/cube2222/octosql/functions"
	"github.com/cube2222/octosql/logical"
	"github.com/cube2222/octosql/octosql"
	"github.com/cube2222/octosql/optimizer"
	"github.com/cube2222/octosql/parser"
	"github.com/cube2222/octosql/parser/sqlparser"
	"github.com/cube2222/octosql/physical"
	tvfs "github.com/cube2222/octosql/table_valued_functions"

	"verif/harness/internal/enum"
	"verif/harness/internal/findings"
)

// ---------------------------------------------------------------- small helpers

func c08T(t octosql.Type) string { return strings.ReplaceAll(t.String(), " ", "") }

func c08Kind(v octosql.Value) string {
	if v.TypeID == octosql.TypeIDNull {
		return "NULL"
	}
	return v.TypeID.String()
}

// c08Kinds: the top-level TypeID names of a type (own walker), e.g. "NULL|Int|Object".
func c08Kinds(t octosql.Type) string {
	if t.TypeID == octosql.TypeIDNull {
		return "NULL"
	}
	if t.TypeID != octosql.TypeIDUnion {
		return t.TypeID.String()
	}
	parts := make([]string, len(t.Union.Alternatives))
	for i, a := range t.Union.Alternatives {
		parts[i] = c08Kinds(a)
	}
	return strings.Join(parts, "|")
}

// c08AdmitsNull: own walker (the oracle never asks the repo).
func c08AdmitsNull(t octosql.Type) bool {
	switch t.TypeID {
	case octosql.TypeIDNull, octosql.TypeIDAny:
		return true
	case octosql.TypeIDUnion:
		for _, a := range t.Union.Alternatives {
			if c08AdmitsNull(a) {
				return true
			}
		}
	}
	return false
}

func c08DeclClass(t octosql.Type) string {
	switch {
	case t.TypeID == octosql.TypeIDAny:
		return "Any"
	case t.TypeID == octosql.TypeIDNull:
		return "NULL-only"
	case c08AdmitsNull(t):
		return "nullable"
	}
	return "non-nullable"
}

// ---------------------------------------------------------------- atoms (typed variables and literals)

type c08Atom struct {
	name  string
	typ   octosql.Type    // declared type of the variable (literals: unused)
	lit   bool            // literal constant: vals[0] is the constant
	vals  []octosql.Value // values of the declared type; NULL included iff the declared type admits it
	core  bool            // member of the reduced alphabet used for x IN (y, z)
	small bool            // member of the smallest alphabet: inner expressions of depth 2 in the quick tier
	fi    int             // index of the variable in the record scope (-1 for literals)
}

func c08Atoms(thorough bool) []c08Atom {
	null := octosql.NewNull()
	I, F, S, B := octosql.NewInt, octosql.NewFloat, octosql.NewString, octosql.NewBoolean
	T, D := octosql.NewTime, octosql.NewDuration
	L := func(vs ...octosql.Value) octosql.Value { return octosql.NewList(vs) }
	O := func(vs ...octosql.Value) octosql.Value { return octosql.NewStruct(vs) }
	oAB := c13StructT(octosql.StructField{Name: "a", Type: octosql.Int}, octosql.StructField{Name: "b", Type: octosql.String})
	oNB := c13StructT(octosql.StructField{Name: "a", Type: c13Nullable(octosql.Int)}, octosql.StructField{Name: "b", Type: octosql.String})
	type base struct {
		name string
		typ  octosql.Type
		vals []octosql.Value
		core bool
	}
	bases := []base{
		{"i", octosql.Int, []octosql.Value{I(0), I(-1), I(3)}, true},
		{"f", octosql.Float, []octosql.Value{F(0), F(-1.5), F(math.NaN())}, true},
		{"b", octosql.Boolean, []octosql.Value{B(true), B(false)}, true},
		{"s", octosql.String, []octosql.Value{S(""), S("x"), S("7"), S("2006")}, true},
		{"tm", octosql.Time, []octosql.Value{T(time.Unix(0, 0).UTC()), T(time.Time{}), T(time.Date(2020, 2, 29, 12, 0, 0, 0, time.UTC))}, true},
		{"d", octosql.Duration, []octosql.Value{D(0), D(-time.Second), D(time.Hour)}, true},
		{"l", c13ListT(octosql.Int), []octosql.Value{L(), L(I(1), I(2)), L(I(0))}, true},
		{"le", c13ListT(c13Nullable(octosql.Int)), []octosql.Value{L(), L(null), L(I(1), null)}, false},
		{"ls", c13ListT(octosql.String), []octosql.Value{L(), L(S("x"), S("7"))}, false},
		{"o", oAB, []octosql.Value{O(I(1), S("x")), O(I(0), S(""))}, true},
		{"on", oNB, []octosql.Value{O(null, S("x")), O(I(2), S("y"))}, false},
		{"t", c13TupleT(octosql.Int, octosql.String), []octosql.Value{octosql.NewTuple([]octosql.Value{I(1), S("x")})}, false},
	}
	if thorough {
		extra := map[string][]octosql.Value{
			"i":  {I(math.MaxInt64), I(math.MinInt64), I(1)},
			"f":  {F(math.Inf(1)), F(math.Copysign(0, -1)), F(2.5)},
			"s":  {S("1.5"), S(" 7"), S("-"), S("a%"), S("("), S("É")},
			"tm": {T(time.Date(1, 1, 1, 0, 0, 0, 0, time.UTC)), T(time.Date(9999, 12, 31, 23, 59, 59, 0, time.FixedZone("x", 3600)))},
			"d":  {D(math.MaxInt64), D(1)},
			"l":  {L(I(-1), I(5), I(7))},
			"le": {L(null, null)},
			"ls": {L(S(""))},
			"o":  {O(I(-1), S("b"))},
			"on": {O(null, S(""))},
			"t":  {octosql.NewTuple([]octosql.Value{I(0), S("")})},
		}
		for i := range bases {
			bases[i].vals = append(bases[i].vals, extra[bases[i].name]...)
		}
	}
	var out []c08Atom
	for _, b := range bases {
		out = append(out, c08Atom{name: b.name, typ: b.typ, vals: b.vals, core: b.core})
		nv := append([]octosql.Value{null}, b.vals...)
		coreN := b.core && b.name != "f" && b.name != "tm" && b.name != "d"
		out = append(out, c08Atom{name: "n" + b.name, typ: c13Nullable(b.typ), vals: nv, core: coreN})
	}
	sum := func(ts ...octosql.Type) octosql.Type {
		t := ts[0]
		for _, x := range ts[1:] {
			t = octosql.TypeSum(t, x)
		}
		return t
	}
	out = append(out,
		c08Atom{name: "u", typ: sum(octosql.Int, octosql.String), vals: []octosql.Value{I(1), S("x")}, core: true},
		c08Atom{name: "nu", typ: sum(octosql.Int, octosql.String, octosql.Null), vals: []octosql.Value{null, I(1), S("7")}},
		c08Atom{name: "uf", typ: sum(octosql.Int, octosql.Float), vals: []octosql.Value{I(2), F(0.5)}},
		c08Atom{name: "ub", typ: sum(octosql.Boolean, octosql.Int, octosql.Null), vals: []octosql.Value{null, B(true), I(1)}},
		c08Atom{name: "ou", typ: sum(oAB, octosql.Int), vals: []octosql.Value{O(I(1), S("x")), I(5)}, core: true},
		c08Atom{name: "nou", typ: sum(oAB, octosql.Int, octosql.Null), vals: []octosql.Value{null, O(I(1), S("x")), I(5)}},
		c08Atom{name: "ul", typ: sum(c13ListT(octosql.Int), octosql.String), vals: []octosql.Value{L(I(1)), S("x")}},
		c08Atom{name: "any", typ: octosql.Any, vals: []octosql.Value{null, I(1), S("x"), L(I(1))}},
		c08Atom{name: "nul", typ: octosql.Null, vals: []octosql.Value{null}},
		c08Atom{name: "l0", typ: octosql.Type{TypeID: octosql.TypeIDList}, vals: []octosql.Value{L()}},
	)
	lits := []struct {
		text string
		v    octosql.Value
	}{
		{"NULL", null}, {"1", I(1)}, {"0.5", F(0.5)}, {"'x'", S("x")}, {"'7'", S("7")}, {"TRUE", B(true)}, {"INTERVAL 1 SECOND", D(time.Second)},
	}
	for _, l := range lits {
		out = append(out, c08Atom{name: l.text, lit: true, vals: []octosql.Value{l.v}, core: true})
	}
	for i := range out {
		switch out[i].name {
		case "i", "ni", "s", "ns", "b", "nb", "l", "nl", "o", "no", "u", "ou", "NULL", "1", "'x'":
			out[i].small = true
		}
	}
	fi := 0
	for i := range out {
		if out[i].lit {
			out[i].fi = -1
			continue
		}
		out[i].fi = fi
		fi++
		for _, v := range out[i].vals {
			if res, why := c10Conform(v, out[i].typ); res != c10Conforms {
				panic(fmt.Sprintf("C08 harness bug: value %s of atom %s does not belong to its declared type %s (%s)", c13Str(v), out[i].name, out[i].typ, why))
			}
		}
	}
	return out
}

// ---------------------------------------------------------------- expression cases

type c08Expr struct {
	le    logical.Expression
	text  string
	atoms []int // variable atoms used (distinct, in order of first use); literals are not listed
	form  string
	core  bool // every atom used is in the reduced alphabet
	small bool // every atom used is in the smallest alphabet
}

type c08World struct {
	r     *findings.Run
	fns   map[string]physical.FunctionDetails
	atoms []c08Atom
	lab   *c13Lab
	base  []octosql.Value // one value per record field

	mu       sync.Mutex
	outcomes map[string]int64
	byForm   map[string]map[string]int64
	rejWhy   map[string]int64
	notes    map[string]string
	accepted []c08Expr
	keep     bool
	rejected int64
	evals    int64
	samples  map[string]bool
}

func (w *c08World) leaf(i int) c08Expr {
	a := w.atoms[i]
	if a.lit {
		return c08Expr{le: logical.NewConstant(a.vals[0]), text: a.name, form: "leaf", core: a.core, small: a.small}
	}
	return c08Expr{le: logical.NewVariable(a.name), text: a.name, atoms: []int{i}, form: "leaf", core: a.core, small: a.small}
}

func c08Merge(es ...c08Expr) (atoms []int, core, small bool) {
	core, small = true, true
	seen := map[int]bool{}
	for _, e := range es {
		core = core && e.core
		small = small && e.small
		for _, a := range e.atoms {
			if !seen[a] {
				seen[a] = true
				atoms = append(atoms, a)
			}
		}
	}
	return
}

func c08IsWord(s string) bool {
	for _, c := range s {
		if !(c >= 'a' && c <= 'z') && c != '_' && !(c >= '0' && c <= '9') {
			return false
		}
	}
	return true
}

func c08Call(name string, args ...c08Expr) c08Expr {
	les := make([]logical.Expression, len(args))
	txt := make([]string, len(args))
	for i, a := range args {
		les[i] = a.le
		txt[i] = a.text
	}
	var text string
	switch {
	case name == "[]" && len(args) == 2:
		text = txt[0] + "[" + txt[1] + "]"
	case (name == "is null" || name == "is not null") && len(args) == 1:
		text = "(" + txt[0] + " " + strings.ToUpper(name) + ")"
	case !c08IsWord(name) && len(args) == 2, (name == "in" || name == "not in" || name == "like") && len(args) == 2:
		text = "(" + txt[0] + " " + strings.ToUpper(name) + " " + txt[1] + ")"
	case !c08IsWord(name) && len(args) == 1:
		text = "(" + name + txt[0] + ")"
	default:
		text = name + "(" + strings.Join(txt, ", ") + ")"
	}
	atoms, core, small := c08Merge(args...)
	return c08Expr{le: logical.NewFunctionExpression(name, les), text: text, atoms: atoms, form: "function", core: core, small: small}
}

var c08CastTargets = []struct {
	name string
	id   octosql.TypeID
}{
	{"null", octosql.TypeIDNull}, {"int", octosql.TypeIDInt}, {"float", octosql.TypeIDFloat}, {"boolean", octosql.TypeIDBoolean},
	{"string", octosql.TypeIDString}, {"time", octosql.TypeIDTime}, {"duration", octosql.TypeIDDuration},
	{"list", octosql.TypeIDList}, {"object", octosql.TypeIDStruct},
}

func c08Cast(a c08Expr, k int) c08Expr {
	return c08Expr{le: logical.NewTypeCast(a.le, c08CastTargets[k].id), text: a.text + "::" + c08CastTargets[k].name, atoms: a.atoms, form: "cast", core: a.core, small: a.small}
}

func c08Coalesce(args ...c08Expr) c08Expr {
	les := make([]logical.Expression, len(args))
	txt := make([]string, len(args))
	for i, a := range args {
		les[i] = a.le
		txt[i] = a.text
	}
	atoms, core, small := c08Merge(args...)
	return c08Expr{le: logical.NewCoalesce(les), text: "COALESCE(" + strings.Join(txt, ", ") + ")", atoms: atoms, form: "coalesce", core: core, small: small}
}

func c08Field(a c08Expr, f string) c08Expr {
	return c08Expr{le: logical.NewObjectFieldAccess(a.le, f), text: a.text + "->" + f, atoms: a.atoms, form: "field-access", core: a.core, small: a.small}
}

func c08Tuple(args ...c08Expr) c08Expr {
	les := make([]logical.Expression, len(args))
	txt := make([]string, len(args))
	for i, a := range args {
		les[i] = a.le
		txt[i] = a.text
	}
	atoms, core, small := c08Merge(args...)
	return c08Expr{le: logical.NewTuple(les), text: "(" + strings.Join(txt, ", ") + ")", atoms: atoms, form: "tuple", core: core, small: small}
}

func c08AndOr(and bool, a, b c08Expr) c08Expr {
	atoms, core, small := c08Merge(a, b)
	if and {
		return c08Expr{le: logical.NewAnd(a.le, b.le), text: "(" + a.text + " AND " + b.text + ")", atoms: atoms, form: "and-or", core: core, small: small}
	}
	return c08Expr{le: logical.NewOr(a.le, b.le), text: "(" + a.text + " OR " + b.text + ")", atoms: atoms, form: "and-or", core: core, small: small}
}

// ---------------------------------------------------------------- labels (narrow classifiers, one per typing rule instance)

func c08Kids(p physical.Expression) []physical.Expression {
	switch p.ExpressionType {
	case physical.ExpressionTypeFunctionCall:
		return p.FunctionCall.Arguments
	case physical.ExpressionTypeAnd:
		return p.And.Arguments
	case physical.ExpressionTypeOr:
		return p.Or.Arguments
	case physical.ExpressionTypeCoalesce:
		return p.Coalesce.Arguments
	case physical.ExpressionTypeTuple:
		return p.Tuple.Arguments
	case physical.ExpressionTypeTypeAssertion:
		return []physical.Expression{p.TypeAssertion.Expression}
	case physical.ExpressionTypeTypeCast:
		return []physical.Expression{p.TypeCast.Expression}
	case physical.ExpressionTypeObjectFieldAccess:
		return []physical.Expression{p.ObjectFieldAccess.Object}
	}
	return nil
}

func c08StripAssertion(p physical.Expression) physical.Expression {
	for p.ExpressionType == physical.ExpressionTypeTypeAssertion {
		p = p.TypeAssertion.Expression
	}
	return p
}

// c08WithoutNull: t without its top-level NULL alternative (own walker, used for labels only).
func c08WithoutNull(t octosql.Type) octosql.Type {
	if t.TypeID != octosql.TypeIDUnion {
		return t
	}
	var alts []octosql.Type
	for _, a := range t.Union.Alternatives {
		if a.TypeID != octosql.TypeIDNull {
			alts = append(alts, a)
		}
	}
	if len(alts) == 1 {
		return alts[0]
	}
	return octosql.Type{TypeID: octosql.TypeIDUnion, Union: struct{ Alternatives []octosql.Type }{Alternatives: alts}}
}

func c08Label(p physical.Expression) string {
	kindsOf := func(args []physical.Expression) string {
		parts := make([]string, len(args))
		for i, a := range args {
			parts[i] = c08Kinds(a.Type)
		}
		return strings.Join(parts, ",")
	}
	switch p.ExpressionType {
	case physical.ExpressionTypeVariable:
		return "variable"
	case physical.ExpressionTypeConstant:
		return "constant/" + c08Kind(p.Constant.Value)
	case physical.ExpressionTypeFunctionCall:
		d := p.FunctionCall.FunctionDescriptor
		var parts []string
		if d.TypeFn == nil {
			for _, at := range d.ArgumentTypes {
				parts = append(parts, c08T(at))
			}
		} else {
			for _, a := range p.FunctionCall.Arguments {
				parts = append(parts, c08Kinds(c08WithoutNull(a.Type)))
			}
		}
		return "function/" + p.FunctionCall.Name + "(" + strings.Join(parts, ",") + ")"
	case physical.ExpressionTypeAnd:
		return "and/(" + kindsOf(p.And.Arguments) + ")"
	case physical.ExpressionTypeOr:
		return "or/(" + kindsOf(p.Or.Arguments) + ")"
	case physical.ExpressionTypeQueryExpression:
		return "subquery-expression"
	case physical.ExpressionTypeCoalesce:
		return "coalesce/(" + kindsOf(p.Coalesce.Arguments) + ")"
	case physical.ExpressionTypeTuple:
		return "tuple/(" + kindsOf(p.Tuple.Arguments) + ")"
	case physical.ExpressionTypeTypeAssertion:
		return "type-assertion/" + c08Kinds(p.TypeAssertion.Expression.Type) + "-as-" + c08Kinds(p.TypeAssertion.TargetType)
	case physical.ExpressionTypeTypeCast:
		return "cast/" + c08Kinds(p.TypeCast.Expression.Type) + "::" + p.TypeCast.TargetTypeID.String()
	case physical.ExpressionTypeObjectFieldAccess:
		src := c08StripAssertion(p.ObjectFieldAccess.Object)
		idx := -1
		var find func(t octosql.Type)
		find = func(t octosql.Type) {
			if t.TypeID == octosql.TypeIDStruct {
				for i, f := range t.Struct.Fields {
					if f.Name == p.ObjectFieldAccess.Field {
						idx = i
					}
				}
			}
			if t.TypeID == octosql.TypeIDUnion {
				for _, a := range t.Union.Alternatives {
					find(a)
				}
			}
		}
		find(src.Type)
		cls := "Object-in-union-with-other-types"
		switch c08Kinds(src.Type) {
		case "Object":
			cls = "Object"
		case "NULL|Object":
			cls = "nullable-Object"
		}
		return fmt.Sprintf("field-access/%s/field#%d", cls, idx)
	}
	return "expression/" + p.ExpressionType.String()
}

// c08Mismatch: "returns-<kind>-declared-<type>" plus the innermost reason when the top-level kind is admitted.
func c08Mismatch(v octosql.Value, t octosql.Type, why string) string {
	s := "returns-" + c08Kind(v) + "-declared-" + c08T(t)
	if why != "" && why != "typeid-mismatch" && !strings.HasPrefix(why, "no-alternative") {
		s += "/nested:" + why
	}
	return s
}

// ---------------------------------------------------------------- running one expression case

type c08Case struct {
	Part     string   `json:"part"`
	Expr     string   `json:"expr,omitempty"`
	SQL      string   `json:"sql,omitempty"`
	Optimize *bool    `json:"optimize,omitempty"`
	Vars     []string `json:"variables,omitempty"`
	Declared string   `json:"static_type,omitempty"`
	Column   string   `json:"column,omitempty"`
	Got      string   `json:"got,omitempty"`
	Blamed   string   `json:"blamed_subexpression,omitempty"`
	Note     string   `json:"note,omitempty"`
}

type c08Local struct {
	m          map[string]int64
	rej, evals int64
	nontrivial []string
	accepted   []c08Expr
}

func newC08Local() *c08Local { return &c08Local{m: map[string]int64{}} }

func (w *c08World) count(form, cls string, n int64, local *c08Local) {
	local.m[form+"\x00"+cls] += n
}

func (w *c08World) flush(local *c08Local) {
	for _, t := range local.nontrivial {
		w.r.Nontrivial(t)
	}
	w.mu.Lock()
	w.accepted = append(w.accepted, local.accepted...)
	rej, evals := local.rej, local.evals
	for k, n := range local.m {
		parts := strings.SplitN(k, "\x00", 2)
		w.outcomes[parts[1]] += n
		m := w.byForm[parts[0]]
		if m == nil {
			m = map[string]int64{}
			w.byForm[parts[0]] = m
		}
		m[parts[1]] += n
	}
	w.rejected += rej
	w.evals += evals
	w.mu.Unlock()
}

func (w *c08World) evalP(p physical.Expression, vals []octosql.Value) (v octosql.Value, ok bool) {
	defer func() {
		if x := recover(); x != nil {
			ok = false
		}
	}()
	x, err := p.Materialize(context.Background(), w.lab.penv)
	if err != nil {
		return v, false
	}
	v, err, pan := c13Eval(x, vals)
	return v, err == nil && pan == nil
}

// blame descends from a node whose value is outside its static type to the innermost such node.
func (w *c08World) blame(p physical.Expression, v octosql.Value, vals []octosql.Value) (physical.Expression, octosql.Value) {
	for {
		moved := false
		for _, k := range c08Kids(p) {
			kv, ok := w.evalP(k, vals)
			if !ok {
				continue
			}
			if res, _ := c10Conform(kv, k.Type); res == c10DoesNot {
				p, v, moved = k, kv, true
				break
			}
		}
		if !moved {
			return p, v
		}
	}
}

var c08WantSamples = map[string]bool{
	"nl[i]": true, "no->b": true, "nu::int": true,
}

// run typechecks, materializes and evaluates e under every assignment of its variables; returns whether it was accepted.
func (w *c08World) run(e c08Expr, local *c08Local) bool {
	p, x, rej, mf := w.lab.build(e.le)
	if rej != "" {
		w.count(e.form, "rejected-at-typecheck", 1, local)
		if strings.Contains(rej, "nil pointer") || strings.Contains(rej, "index out of range") || strings.Contains(rej, "runtime error") {
			w.mu.Lock()
			w.rejWhy["typecheck-crash: "+rej]++
			if _, ok := w.notes["typecheck-crash"]; !ok {
				w.notes["typecheck-crash"] = e.text + ": " + rej
			}
			w.mu.Unlock()
		}
		local.rej++
		return false
	}
	if mf != "" {
		w.count(e.form, "materialize-failed-skipped", 1, local)
		w.mu.Lock()
		if _, ok := w.notes["materialize-failed"]; !ok {
			w.notes["materialize-failed"] = e.text + ": " + mf
		}
		w.mu.Unlock()
		return false
	}
	sizes := make([]int, len(e.atoms))
	for i, a := range e.atoms {
		sizes[i] = len(w.atoms[a].vals)
	}
	vals := make([]octosql.Value, len(w.base))
	copy(vals, w.base)
	declClass := c08DeclClass(p.Type)
	var nEval int64
	produced := false
	one := func(idx []int) bool {
		for i, a := range e.atoms {
			vals[w.atoms[a].fi] = w.atoms[a].vals[idx[i]]
		}
		v, err, pan := c13Eval(x, vals)
		nEval++
		switch {
		case pan != nil:
			w.count(e.form, "panic-skipped", 1, local)
			return true
		case err != nil:
			w.count(e.form, "runtime-error", 1, local)
			return true
		}
		res, why := c10Conform(v, p.Type)
		switch res {
		case c10Ambiguous:
			w.count(e.form, "ambiguous-skipped", 1, local)
			return true
		case c10Conforms:
			produced = true
			nn := "non-NULL"
			if v.TypeID == octosql.TypeIDNull {
				nn = "NULL"
			}
			w.count(e.form, "conforms/"+nn+"-in-"+declClass, 1, local)
			if c08WantSamples[e.text] && v.TypeID == octosql.TypeIDNull {
				w.mu.Lock()
				if !w.samples[e.text] {
					w.samples[e.text] = true
					w.r.Sample(c08Case{Part: "expression", Expr: e.text, Vars: w.varDesc(e, idx), Declared: p.Type.String(), Got: c13Str(v), Note: "value belongs to the static type"})
				}
				w.mu.Unlock()
			}
			return true
		}
		// outside the static type: find the innermost node that breaks its own static type
		bp, bv := w.blame(p, v, vals)
		_, bwhy := c10Conform(bv, bp.Type)
		if bp.ExpressionType == physical.ExpressionTypeVariable {
			// Atoms are checked against their declared types at start, so the static type of this variable node has
			// changed since then: typechecking another expression mutated a type value it shares (types are passed
			// by value but unions share their alternatives slice).
			w.r.Violation("C08/variable-static-type-changed-during-typechecking",
				fmt.Sprintf("%s: variable %s holds %s, which belonged to its declared type when the variables were set up, but the variable node now has static type %s", e.text, bp.Variable.Name, c13Str(bv), bp.Type),
				c08Case{Part: "expression", Expr: e.text, Vars: w.varDesc(e, idx), Declared: bp.Type.String(), Got: c13Str(bv), Note: "a declared variable type was mutated by typechecking (shared union alternatives)"})
			return true
		}
		_ = why
		w.count(e.form, "violation", 1, local)
		fp := "C08/" + c08Label(bp) + "/" + c08Mismatch(bv, bp.Type, bwhy)
		cs := c08Case{Part: "expression", Expr: e.text, Vars: w.varDesc(e, idx), Declared: p.Type.String(), Got: c13Str(v)}
		what := fmt.Sprintf("%s with %s evaluates to %s, which is not a value of its static type %s", e.text, strings.Join(cs.Vars, ", "), c13Str(v), p.Type)
		if bp.ExpressionType != p.ExpressionType || c08Label(bp) != c08Label(p) {
			cs.Blamed = fmt.Sprintf("%s: value %s, static type %s", c08Label(bp), c13Str(bv), bp.Type)
			what += " (innermost offending subexpression: " + cs.Blamed + ")"
		}
		w.r.Violation(fp, what, cs)
		return true
	}
	if len(sizes) == 0 {
		one(nil)
	} else {
		enum.Product(sizes, one)
	}
	if produced && p.Type.TypeID != octosql.TypeIDAny {
		local.nontrivial = append(local.nontrivial, e.text)
	}
	local.evals += nEval
	if w.keep {
		local.accepted = append(local.accepted, e)
	}
	return true
}

func (w *c08World) varDesc(e c08Expr, idx []int) []string {
	out := make([]string, len(e.atoms))
	for i, a := range e.atoms {
		out[i] = fmt.Sprintf("%s: %s = %s", w.atoms[a].name, w.atoms[a].typ, c13Str(w.atoms[a].vals[idx[i]]))
	}
	return out
}

// c08Arities: argument counts for which some descriptor of the function can match.
func c08Arities(det physical.FunctionDetails, kinds []octosql.Type) []int {
	set := map[int]bool{}
	for _, d := range det.Descriptors {
		if d.TypeFn == nil {
			set[len(d.ArgumentTypes)] = true
			continue
		}
		for arity := 0; arity <= 3; arity++ {
			sizes := make([]int, arity)
			for i := range sizes {
				sizes[i] = len(kinds)
			}
			try := func(idx []int) bool {
				ts := make([]octosql.Type, arity)
				for i, x := range idx {
					ts[i] = kinds[x]
				}
				ok := false
				func() {
					defer func() { recover() }()
					_, ok = d.TypeFn(ts)
				}()
				if ok {
					set[arity] = true
					return false
				}
				return true
			}
			if arity == 0 {
				try(nil)
			} else {
				enum.Product(sizes, try)
			}
		}
	}
	var out []int
	for a := range set {
		out = append(out, a)
	}
	sort.Ints(out)
	return out
}

// ---------------------------------------------------------------- part 2: harness database

type c08Tbl struct {
	fields []physical.SchemaField
	rows   [][]octosql.Value
}

type c08DB struct{ tables map[string]*c08Tbl }

func (d *c08DB) ListTables(ctx context.Context) ([]string, error) {
	var out []string
	for n := range d.tables {
		out = append(out, n)
	}
	sort.Strings(out)
	return out, nil
}

func (d *c08DB) GetTable(ctx context.Context, name string, options map[string]string) (physical.DatasourceImplementation, physical.Schema, error) {
	t, ok := d.tables[name]
	if !ok {
		return nil, physical.Schema{}, fmt.Errorf("no such table: %s", name)
	}
	fields := make([]physical.SchemaField, len(t.fields))
	copy(fields, t.fields)
	return &c08TblImpl{t}, physical.NewSchema(fields, -1, physical.WithNoRetractions(true)), nil
}

type c08TblImpl struct{ t *c08Tbl }

func (i *c08TblImpl) Materialize(ctx context.Context, env physical.Environment, schema physical.Schema, pushedDownPredicates []physical.Expression) (execution.Node, error) {
	idx := make([]int, len(schema.Fields))
	for j, f := range schema.Fields {
		idx[j] = -1
		for k, tf := range i.t.fields {
			if tf.Name == f.Name {
				idx[j] = k
			}
		}
		if idx[j] == -1 {
			return nil, fmt.Errorf("harness table has no column %q", f.Name)
		}
	}
	return &c08TblNode{t: i.t, idx: idx}, nil
}

func (i *c08TblImpl) PushDownPredicates(newPredicates, pushedDownPredicates []physical.Expression) (rejected, pushedDown []physical.Expression, changed bool) {
	return newPredicates, pushedDownPredicates, false
}

type c08TblNode struct {
	t   *c08Tbl
	idx []int
}

func (n *c08TblNode) Run(ctx execution.ExecutionContext, produce execution.ProduceFn, metaSend execution.MetaSendFn) error {
	for _, row := range n.t.rows {
		vals := make([]octosql.Value, len(n.idx))
		for j, k := range n.idx {
			vals[j] = row[k]
		}
		if err := produce(execution.ProduceFromExecutionContext(ctx), execution.NewRecord(vals, false, time.Time{})); err != nil {
			return err
		}
	}
	return nil
}

type c08Col struct {
	name string
	typ  octosql.Type
	vals []octosql.Value
}

func c08MkTable(cols []c08Col, nrows int) *c08Tbl {
	t := &c08Tbl{}
	for _, c := range cols {
		t.fields = append(t.fields, physical.SchemaField{Name: c.name, Type: c.typ})
		if len(c.vals) < nrows {
			panic("C08 harness bug: column " + c.name + " has too few values")
		}
		for _, v := range c.vals {
			if res, why := c10Conform(v, c.typ); res != c10Conforms {
				panic(fmt.Sprintf("C08 harness bug: table value %s does not belong to column %s %s (%s)", c13Str(v), c.name, c.typ, why))
			}
		}
	}
	for i := 0; i < nrows; i++ {
		row := make([]octosql.Value, len(cols))
		for j, c := range cols {
			row[j] = c.vals[i]
		}
		t.rows = append(t.rows, row)
	}
	return t
}

func c08Database() (*c08DB, []c08Col, []c08Col) {
	null := octosql.NewNull()
	I, F, S, B := octosql.NewInt, octosql.NewFloat, octosql.NewString, octosql.NewBoolean
	T, D := octosql.NewTime, octosql.NewDuration
	L := func(vs ...octosql.Value) octosql.Value { return octosql.NewList(vs) }
	O := func(vs ...octosql.Value) octosql.Value { return octosql.NewStruct(vs) }
	Tu := func(vs ...octosql.Value) octosql.Value { return octosql.NewTuple(vs) }
	N := c13Nullable
	oAB := c13StructT(octosql.StructField{Name: "a", Type: octosql.Int}, octosql.StructField{Name: "b", Type: octosql.String})
	oNB := c13StructT(octosql.StructField{Name: "a", Type: N(octosql.Int)}, octosql.StructField{Name: "b", Type: octosql.String})
	t2020 := T(time.Date(2020, 2, 29, 12, 0, 0, 0, time.UTC))
	epoch := T(time.Unix(0, 0).UTC())
	// 4 rows; rows 0,1 form group g=1 (one non-NULL value in every nullable column), rows 2,3 form group g=2 (only NULLs there)
	tcols := []c08Col{
		{"g", octosql.Int, []octosql.Value{I(1), I(1), I(2), I(2)}},
		{"i", octosql.Int, []octosql.Value{I(0), I(-1), I(3), I(7)}},
		{"ni", N(octosql.Int), []octosql.Value{I(5), null, null, null}},
		{"f", octosql.Float, []octosql.Value{F(0), F(-1.5), F(math.NaN()), F(2.5)}},
		{"nf", N(octosql.Float), []octosql.Value{F(1.5), null, null, null}},
		{"b", octosql.Boolean, []octosql.Value{B(true), B(false), B(true), B(false)}},
		{"nb", N(octosql.Boolean), []octosql.Value{B(true), null, null, null}},
		{"s", octosql.String, []octosql.Value{S(""), S("x"), S("7"), S("2006")}},
		{"ns", N(octosql.String), []octosql.Value{S("1.5"), null, null, null}},
		{"tm", octosql.Time, []octosql.Value{epoch, T(time.Time{}), t2020, epoch}},
		{"ntm", N(octosql.Time), []octosql.Value{t2020, null, null, null}},
		{"d", octosql.Duration, []octosql.Value{D(0), D(-time.Second), D(time.Hour), D(time.Second)}},
		{"nd", N(octosql.Duration), []octosql.Value{D(time.Second), null, null, null}},
		{"l", c13ListT(octosql.Int), []octosql.Value{L(), L(I(1), I(2)), L(I(0)), L(I(3))}},
		{"nl", N(c13ListT(octosql.Int)), []octosql.Value{L(I(1)), null, null, null}},
		{"le", c13ListT(N(octosql.Int)), []octosql.Value{L(null), L(I(1), null), L(), L(null)}},
		{"lo", c13ListT(oAB), []octosql.Value{L(O(I(1), S("x"))), L(), L(O(I(2), S("y")), O(I(3), S(""))), L()}},
		{"o", oAB, []octosql.Value{O(I(1), S("x")), O(I(0), S("")), O(I(2), S("y")), O(I(3), S("z"))}},
		{"no", N(oAB), []octosql.Value{O(I(1), S("x")), null, null, null}},
		{"onf", oNB, []octosql.Value{O(null, S("x")), O(I(1), S("y")), O(null, S("")), O(null, S("z"))}},
		{"u", octosql.TypeSum(octosql.Int, octosql.String), []octosql.Value{I(1), S("x"), I(2), S("7")}},
		{"nu", octosql.TypeSum(octosql.TypeSum(octosql.Int, octosql.String), octosql.Null), []octosql.Value{S("y"), null, null, null}},
		{"ou", octosql.TypeSum(oAB, octosql.Int), []octosql.Value{O(I(1), S("x")), I(5), O(I(2), S("q")), I(6)}},
		{"tu", c13TupleT(octosql.Int, octosql.String), []octosql.Value{Tu(I(1), S("x")), Tu(I(2), S("y")), Tu(I(3), S("")), Tu(I(4), S("z"))}},
	}
	rcols := []c08Col{
		{"k", octosql.Int, []octosql.Value{I(0), I(3), I(9)}},
		{"nk", N(octosql.Int), []octosql.Value{I(5), null, I(9)}},
		{"v", octosql.String, []octosql.Value{S(""), S("x"), S("c")}},
	}
	db := &c08DB{tables: map[string]*c08Tbl{
		"t":  c08MkTable(tcols, 4),
		"e":  c08MkTable(tcols, 0),
		"r":  c08MkTable(rcols, 3),
		"re": c08MkTable(rcols, 0),
	}}
	return db, tcols, rcols
}

// ---------------------------------------------------------------- part 2: the query pipeline of cmd/root.go

type c08QRes struct {
	stage   string // "", or the stage that failed: parse, typecheck, materialize, run, panic
	msg     string
	plan    physical.Node  // typechecked plan (before optimization): its schema is what --describe prints
	names   []string       // column names as printed
	optTyps []octosql.Type // column types of the plan that was executed
	recs    []execution.Record
}

func c08RunQuery(fns map[string]physical.FunctionDetails, db *c08DB, sql string, optimize bool) (res c08QRes) {
	ctx := context.Background()
	env := physical.Environment{
		Aggregates: aggregates.Aggregates,
		Functions:  fns,
		Datasources: &physical.DatasourceRepository{
			Databases: map[string]func() (physical.Database, error){"h": func() (physical.Database, error) { return db, nil }},
		},
	}
	stage := "parse"
	defer func() {
		if x := recover(); x != nil {
			if stage == "typecheck" {
				res.stage, res.msg = "typecheck", fmt.Sprint(x)
				return
			}
			res.stage, res.msg = "panic", fmt.Sprintf("%s: %v", stage, x)
		}
	}()
	stmt, err := sqlparser.Parse(sql)
	if err != nil {
		return c08QRes{stage: "parse", msg: err.Error()}
	}
	sel, ok := stmt.(sqlparser.SelectStatement)
	if !ok {
		return c08QRes{stage: "parse", msg: "not a SELECT"}
	}
	lplan, _, err := parser.ParseNode(sel)
	if err != nil {
		return c08QRes{stage: "parse", msg: err.Error()}
	}
	stage = "typecheck"
	pplan, mapping := lplan.Typecheck(ctx, env, logical.Environment{
		CommonTableExpressions: map[string]logical.CommonTableExpression{},
		TableValuedFunctions: map[string]logical.TableValuedFunctionDescription{
			"max_diff_watermark": tvfs.MaxDiffWatermark, "tumble": tvfs.Tumble, "range": tvfs.Range, "poll": tvfs.Poll,
		},
		UniqueNameGenerator: map[string]int{},
	})
	res.plan = pplan
	rev := logical.ReverseMapping(mapping)
	for _, f := range pplan.Schema.Fields {
		res.names = append(res.names, rev[f.Name])
	}
	stage = "optimize"
	run := pplan
	if optimize {
		run = optimizer.Optimize(pplan)
	}
	for _, f := range run.Schema.Fields {
		res.optTyps = append(res.optTyps, f.Type)
	}
	stage = "materialize"
	xplan, err := run.Materialize(ctx, env)
	if err != nil {
		res.stage, res.msg = "materialize", err.Error()
		return
	}
	stage = "run"
	var mu sync.Mutex
	err = xplan.Run(execution.ExecutionContext{Context: ctx},
		func(pctx execution.ProduceContext, rec execution.Record) error {
			mu.Lock()
			res.recs = append(res.recs, rec)
			mu.Unlock()
			return nil
		},
		func(pctx execution.ProduceContext, msg execution.MetadataMessage) error { return nil })
	if err != nil {
		res.stage, res.msg = "run", err.Error()
	}
	return
}

// c08BlameColumn names the typing rule that produced output column col of plan node n.
func c08BlameColumn(n physical.Node, col int) string {
	byName := func(src physical.Node, name string) (int, bool) {
		for i, f := range src.Schema.Fields {
			if f.Name == name {
				return i, true
			}
		}
		return 0, false
	}
	if col < 0 || col >= len(n.Schema.Fields) {
		return "query/column-out-of-schema"
	}
	switch n.NodeType {
	case physical.NodeTypeMap:
		e := n.Map.Expressions[col]
		if e.ExpressionType == physical.ExpressionTypeVariable {
			if i, ok := byName(n.Map.Source, e.Variable.Name); ok {
				return c08BlameColumn(n.Map.Source, i)
			}
		}
		return c08Label(e)
	case physical.NodeTypeGroupBy:
		if col < len(n.GroupBy.Key) {
			e := n.GroupBy.Key[col]
			if e.ExpressionType == physical.ExpressionTypeVariable {
				if i, ok := byName(n.GroupBy.Source, e.Variable.Name); ok {
					return c08BlameColumn(n.GroupBy.Source, i)
				}
			}
			return c08Label(e)
		}
		a := col - len(n.GroupBy.Key)
		return "aggregate/" + n.GroupBy.Aggregates[a].Name + "(" + c08T(n.GroupBy.AggregateExpressions[a].Type) + ")"
	case physical.NodeTypeOuterJoin:
		kind := "outer"
		if n.OuterJoin.IsLeft && !n.OuterJoin.IsRight {
			kind = "left"
		} else if n.OuterJoin.IsRight && !n.OuterJoin.IsLeft {
			kind = "right"
		}
		side := "left"
		if col >= len(n.OuterJoin.Left.Schema.Fields) {
			side = "right"
		}
		return "outer-join/" + kind + "/column-of-" + side + "-input"
	case physical.NodeTypeFilter:
		return c08BlameColumn(n.Filter.Source, col)
	case physical.NodeTypeDistinct:
		return c08BlameColumn(n.Distinct.Source, col)
	case physical.NodeTypeOrderSensitiveTransform:
		return c08BlameColumn(n.OrderSensitiveTransform.Source, col)
	case physical.NodeTypeStreamJoin:
		if k := len(n.StreamJoin.Left.Schema.Fields); col >= k {
			return c08BlameColumn(n.StreamJoin.Right, col-k)
		}
		return c08BlameColumn(n.StreamJoin.Left, col)
	case physical.NodeTypeLookupJoin:
		if k := len(n.LookupJoin.Source.Schema.Fields); col >= k {
			return c08BlameColumn(n.LookupJoin.Joined, col-k)
		}
		return c08BlameColumn(n.LookupJoin.Source, col)
	case physical.NodeTypeUnnest:
		if n.Schema.Fields[col].Name == n.Unnest.Field {
			return "unnest"
		}
		return c08BlameColumn(n.Unnest.Source, col)
	case physical.NodeTypeDatasource:
		return "datasource-column"
	}
	return "node/" + n.NodeType.String()
}

type c08Query struct {
	sql   string
	class string
}

func c08Queries(fns map[string]physical.FunctionDetails, tcols, rcols []c08Col, thorough bool) []c08Query {
	var out []c08Query
	add := func(class, sql string) { out = append(out, c08Query{sql: sql, class: class}) }

	// (a) every column, plain and through every unary function / operator / cast / access form
	var unary []string
	for name, det := range fns {
		for _, d := range det.Descriptors {
			if d.TypeFn == nil && len(d.ArgumentTypes) == 1 || d.TypeFn != nil && name == "len" {
				unary = append(unary, name)
				break
			}
		}
	}
	sort.Strings(unary)
	for _, c := range tcols {
		x := "t." + c.name
		add("column", "SELECT "+x+" FROM h.t t")
		var exprs []string
		for _, fn := range unary {
			switch {
			case fn == "not":
				exprs = append(exprs, "NOT "+x)
			case fn == "is null" || fn == "is not null":
				exprs = append(exprs, x+" "+strings.ToUpper(fn))
			case !c08IsWord(fn):
				exprs = append(exprs, fn+" "+x)
			default:
				exprs = append(exprs, fn+"("+x+")")
			}
		}
		for _, ct := range c08CastTargets {
			switch ct.name {
			case "null": // not expressible: NULL is a reserved word in the cast grammar
			case "list":
				exprs = append(exprs, x+"::[]")
			case "object":
				exprs = append(exprs, x+"::{}")
			default:
				exprs = append(exprs, x+"::"+ct.name)
			}
		}
		exprs = append(exprs,
			x+"->a", x+"->b", x+"[0]", x+"[5]", "COALESCE("+x+")", "COALESCE("+x+", 1)", "COALESCE("+x+", t.ni)", "COALESCE(t.ni, "+x+")",
			x+" = t.ni", x+" < t.ni", x+" + t.ni", x+" + 1", x+" IN (1, 2)", x+" IN (t.l)", "t.ni IN ("+x+")", "("+x+", 1)",
			x+" AND t.nb", x+" OR t.nb", "position("+x+", 'x')", "parse_time('2006', "+x+")", x+" LIKE 'x%'", "substr("+x+", 1)",
			x+" * 2", x+" / t.ni", x+" - t.nd", x+" + t.ntm",
		)
		for _, e := range exprs {
			add("select-expression", "SELECT "+e+" FROM h.t t")
		}
		add("where", "SELECT "+x+" FROM h.t t WHERE "+x+" IS NOT NULL")
		add("distinct", "SELECT DISTINCT "+x+" FROM h.t t")
		add("cte", "WITH w AS (SELECT "+x+" AS c FROM h.t t) SELECT c FROM w")
		add("from-subquery-order-limit", "SELECT q.c FROM (SELECT "+x+" AS c, t.i AS k FROM h.t t ORDER BY k DESC LIMIT 2) q")
		add("group-key", "SELECT "+x+", COUNT(*) FROM h.t t GROUP BY "+x)
	}
	add("unnest", "SELECT t.i, unnest(t.l) FROM h.t t")
	add("unnest", "SELECT unnest(t.le) FROM h.t t")
	add("unnest", "SELECT unnest(t.lo) FROM h.t t")
	add("unnest", "SELECT unnest(t.nl) FROM h.t t")
	add("unnest", "SELECT q.x->b FROM (SELECT unnest(t.lo) AS x FROM h.t t) q")
	add("object-explosion", "SELECT t.o->* FROM h.t t")
	add("object-explosion", "SELECT t.onf->* FROM h.t t")
	add("object-explosion", "SELECT t.no->* FROM h.t t")
	add("star", "SELECT * FROM h.t t")
	add("star", "SELECT * FROM h.e t")

	// (b) aggregates over every column: grouped, ungrouped, over the empty table, DISTINCT variants
	aggs := []string{"count(%s)", "sum(%s)", "avg(%s)", "min(%s)", "max(%s)", "array_agg(%s)", "count(DISTINCT %s)", "sum(DISTINCT %s)", "avg(DISTINCT %s)", "array_agg(DISTINCT %s)"}
	for _, c := range tcols {
		x := "t." + c.name
		for _, a := range aggs {
			call := fmt.Sprintf(a, x)
			add("aggregate/grouped", "SELECT t.g, "+call+" FROM h.t t GROUP BY t.g")
			add("aggregate/ungrouped", "SELECT "+call+" FROM h.t t")
			add("aggregate/empty-table-grouped", "SELECT t.g, "+call+" FROM h.e t GROUP BY t.g")
			add("aggregate/empty-table-ungrouped", "SELECT "+call+" FROM h.e t")
			add("aggregate/filtered-to-nulls", "SELECT "+call+" FROM h.t t WHERE t.g = 2")
			if thorough {
				add("aggregate/counting-trigger", "SELECT t.g, "+call+" FROM h.t t GROUP BY t.g TRIGGER COUNTING 1")
			}
		}
	}
	add("aggregate/star", "SELECT t.g, COUNT(*) FROM h.t t GROUP BY t.g")
	add("aggregate/star", "SELECT COUNT(*) FROM h.e t")
	add("aggregate/expression", "SELECT t.g, sum(t.ni + 1), max(len(t.ns)), array_agg(t.ni + t.i), avg(t.nf * 2.0) FROM h.t t GROUP BY t.g")
	add("aggregate/expression", "SELECT t.g, sum(t.l[0]), max(t.no->a), min(t.onf->a), count(t.le[0]) FROM h.t t GROUP BY t.g")
	add("aggregate/expression", "SELECT t.g, sum(t.u::int), max(t.nu::int), array_agg(t.ou::{}) FROM h.t t GROUP BY t.g")
	add("aggregate/over-aggregate", "SELECT max(q.s), sum(q.c) FROM (SELECT t.g AS g, sum(t.ni) AS s, count(t.ni) AS c FROM h.t t GROUP BY t.g) q")

	// (c) joins: padded sides of outer joins must be nullable in the output schema
	type pair struct{ l, r string }
	pairs := []pair{{"h.t t", "h.r r"}, {"h.t t", "h.re r"}, {"h.e t", "h.r r"}, {"h.e t", "h.re r"}}
	kinds := []string{"LEFT JOIN", "RIGHT JOIN", "OUTER JOIN", "JOIN", "LOOKUP JOIN", "LEFT OUTER JOIN", "RIGHT OUTER JOIN"}
	ons := []string{"t.i = r.k", "t.ni = r.nk", "t.s = r.v", "t.i = r.k AND t.s = r.v", "r.k = t.i"}
	sels := []string{"*", "t.i, t.ni, t.s, r.k, r.nk, r.v", "upper(r.v), len(r.v), r.k + 1, COALESCE(r.v, 'z'), r.k IS NULL, r.nk + t.i, len(t.s), t.i + 1, t.o->b, t.l[0]"}
	for pi, p := range pairs {
		for _, k := range kinds {
			for oi, on := range ons {
				for si, s := range sels {
					if !thorough && pi > 0 && (oi > 0 || si > 0) {
						continue // quick: joins against empty inputs only with SELECT * and the first ON clause (every stream join allocates two 10000-slot channels)
					}
					add("join/"+strings.ToLower(strings.ReplaceAll(k, " ", "-")), "SELECT "+s+" FROM "+p.l+" "+k+" "+p.r+" ON "+on)
				}
			}
			add("join-then-group/"+strings.ToLower(strings.ReplaceAll(k, " ", "-")), "SELECT t.g, count(r.v), max(r.k), array_agg(r.nk), sum(t.i) FROM "+p.l+" "+k+" "+p.r+" ON t.i = r.k GROUP BY t.g")
			add("join-then-group/"+strings.ToLower(strings.ReplaceAll(k, " ", "-")), "SELECT r.v, count(t.i), max(t.ni), min(t.d) FROM "+p.l+" "+k+" "+p.r+" ON t.i = r.k GROUP BY r.v")
		}
	}
	for _, k := range []string{"LEFT JOIN", "RIGHT JOIN", "OUTER JOIN"} {
		add("join/subquery-inputs", "SELECT * FROM (SELECT t.i AS a, t.ni AS b FROM h.t t) x "+k+" (SELECT r.k AS c, r.v AS d FROM h.r r) y ON x.a = y.c")
		add("join/subquery-inputs", "SELECT x.a, y.m FROM (SELECT t.g AS a FROM h.t t) x "+k+" (SELECT r.k AS c, max(r.nk) AS m FROM h.r r GROUP BY r.k) y ON x.a = y.c")
		add("join/nested", "SELECT * FROM h.t t "+k+" h.r r ON t.i = r.k "+k+" h.r r2 ON r.k = r2.k")
		add("join/nested", "SELECT t.i, r.v, r2.nk FROM h.t t "+k+" h.r r ON t.i = r.k LEFT JOIN h.r r2 ON r.nk = r2.nk")
		add("join/self", "SELECT a.ni, b.ni, a.no, b.no FROM h.t a "+k+" h.t b ON a.i = b.ni")
	}

	// (d) subquery expressions
	add("subquery-expression", "SELECT t.i, (SELECT r.v FROM h.r r WHERE r.k = t.i) FROM h.t t")
	add("subquery-expression", "SELECT t.i, (SELECT r.nk FROM h.r r WHERE r.k = t.i) FROM h.t t")
	add("subquery-expression", "SELECT t.i, (SELECT r.k, r.v FROM h.r r WHERE r.k = t.i) FROM h.t t")
	add("subquery-expression", "SELECT t.i, (SELECT r.nk, r.v FROM h.re r) FROM h.t t")
	add("subquery-expression", "SELECT t.i IN (SELECT r.k FROM h.r r) FROM h.t t")
	add("subquery-expression", "SELECT t.ni IN (SELECT r.nk FROM h.r r) FROM h.t t")
	add("subquery-expression", "SELECT len((SELECT r.k FROM h.r r WHERE r.k > t.i)) FROM h.t t")
	add("subquery-expression", "SELECT (SELECT r.nk FROM h.r r)[0], (SELECT r.nk FROM h.r r)[1], (SELECT r.nk FROM h.re r)[0] FROM h.t t")
	add("subquery-expression", "SELECT (SELECT max(r.nk) FROM h.r r WHERE r.k = t.i) FROM h.t t")
	add("subquery-expression", "SELECT unnest((SELECT r.nk FROM h.r r WHERE r.k >= t.i)) FROM h.t t")
	add("subquery-expression", "SELECT COALESCE((SELECT r.nk FROM h.re r)[0], t.ni) FROM h.t t")
	return out
}

// ---------------------------------------------------------------- the check

func init() {
	register("C08", "exploration", func(r *findings.Run) {
		log.SetOutput(io.Discard) // int('x') / float('x') / parse_time log every failed parse
		defer log.SetOutput(os.Stderr)

		fns := functions.FunctionMap()
		atoms := c08Atoms(r.Thorough())
		var fields []physical.SchemaField
		var base []octosql.Value
		for _, a := range atoms {
			if !a.lit {
				fields = append(fields, physical.SchemaField{Name: a.name, Type: a.typ})
				base = append(base, a.vals[0])
			}
		}
		w := &c08World{r: r, fns: fns, atoms: atoms, lab: c13NewLab(fns, fields), base: base,
			outcomes: map[string]int64{}, byForm: map[string]map[string]int64{}, rejWhy: map[string]int64{}, notes: map[string]string{}, samples: map[string]bool{}, keep: true}

		r.Rule = "PART 1: over an alphabet of typed atoms (12 base types each declared as T and as T|NULL, 7 union-typed variables, an Any, a NULL-typed and an empty-list-typed variable, 7 literals; 2-4 values per variable incl. empty string/list, unparsable strings, 0, negatives, NaN, zero time, and NULL wherever the DECLARED type admits it) ALL expressions of these forms: every function of FunctionMap() at every arity some descriptor accepts applied to every atom tuple; atom::t for 9 target types; COALESCE of 1..2 (thorough 1..3) atoms; atom->a/b/zz; tuples and AND/OR of every atom pair; x IN (y,z) / NOT IN over the core atoms; depth 2: every unary form (arity-1 functions, casts, ->a/->b, COALESCE(e)/(e,1)/(e,NULL), e[0], e[5], e AND nb, e OR b) over every accepted depth-1 expression (quick: those built from the 15 atoms i ni s ns b nb l nl o no u ou NULL 1 'x'), and every binary form (arity-2 functions, AND, OR, COALESCE, tuple) with a depth-1 expression over those 15 atoms in one position and one of those atoms in the other (quick: depth-1 expressions that are casts, field accesses, COALESCE, AND/OR or function calls over at most one variable). Each is typechecked by the real typechecker (rejections counted), materialized, and evaluated under EVERY assignment of its variables; oracle: the value belongs to physical.Expression.Type (Any: everything; union: some alternative; lists element-wise, empty list in every list type; objects/tuples position-wise). " +
			"PART 2: SQL through sqlparser.Parse -> parser.ParseNode -> Typecheck -> [Optimize] -> Materialize -> Run over a harness physical.Database (tables t: 24 columns Int/Float/Boolean/String/Time/Duration/list/object/tuple/union, plain and nullable, 4 rows in two groups one of which holds only NULLs in the nullable columns; e: same schema, empty; r, re: join partners) with and without the optimizer: every column through every unary function/cast/access form, WHERE/DISTINCT/CTE/subquery/GROUP BY key, unnest, object explosion, every aggregate (count sum avg min max array_agg and DISTINCT variants) over every column grouped/ungrouped/over the empty table, LEFT/RIGHT/OUTER/inner/LOOKUP joins (also against empty inputs, nested, with subquery inputs, followed by GROUP BY), subquery expressions; oracle: every value of every produced record (retractions included) belongs to the type of its column in the typechecked plan's schema (what --describe prints). " +
			"non-trivial = accepted expression / query that produced at least one value and whose static type is not Any"
		r.Assume(
			"a run-time error, a typecheck rejection and a parse error are not violations (counted); a panic is C07's business (counted as panic-skipped)",
			"only values that belong to the declared variable / column types are fed in (checked at start with the same predicate); a NULL smuggled into a non-nullable declaration is out of scope",
			"when a value is outside the static type of the whole expression the fingerprint names the innermost subexpression whose own value is outside its own static type (one fingerprint per typing rule, not per enclosing expression)",
			"a tuple value shorter than its tuple type (COALESCE of tuples of different length) is skipped as ambiguous, as in C10",
			"part 2 judges against the schema before optimization because that is what --describe reports; the optimized plan's column types are compared with it and a difference is recorded as an outcome",
			"object field names are not checked (values are positional)",
		)

		nA := len(atoms)
		leaves := make([]c08Expr, nA)
		for i := range atoms {
			leaves[i] = w.leaf(i)
		}
		var core []int
		for i, a := range atoms {
			if a.core {
				core = append(core, i)
			}
		}

		// ------------------------------------------------ depth 1
		type job func(local *c08Local)
		var jobs []job
		// leaves themselves (constants get their type from Value.Type())
		jobs = append(jobs, func(local *c08Local) {
			for i := range leaves {
				w.run(leaves[i], local)
			}
		})
		kinds := []octosql.Type{}
		for _, k := range c11Kinds() {
			kinds = append(kinds, k.typ)
		}
		kinds = append(kinds, octosql.Null)
		var fnNames []string
		for n := range fns {
			fnNames = append(fnNames, n)
		}
		sort.Strings(fnNames)
		arityOf := map[string][]int{}
		for _, n := range fnNames {
			n := n
			arityOf[n] = c08Arities(fns[n], kinds)
			for _, ar := range arityOf[n] {
				ar := ar
				if ar == 0 {
					jobs = append(jobs, func(local *c08Local) { w.run(c08Call(n), local) })
					continue
				}
				for first := 0; first < nA; first++ {
					first := first
					jobs = append(jobs, func(local *c08Local) {
						sizes := make([]int, ar-1)
						for i := range sizes {
							sizes[i] = nA
						}
						args := make([]c08Expr, ar)
						args[0] = leaves[first]
						if ar == 1 {
							w.run(c08Call(n, args...), local)
							return
						}
						enum.Product(sizes, func(idx []int) bool {
							for i, x := range idx {
								args[i+1] = leaves[x]
							}
							w.run(c08Call(n, args...), local)
							return true
						})
					})
				}
			}
		}
		r.Extra["function_arities"] = arityOf
		coalesceMax := r.Pick(2, 3)
		for first := 0; first < nA; first++ {
			first := first
			jobs = append(jobs, func(local *c08Local) {
				a := leaves[first]
				for k := range c08CastTargets {
					w.run(c08Cast(a, k), local)
				}
				for _, f := range []string{"a", "b", "zz"} {
					w.run(c08Field(a, f), local)
				}
				w.run(c08Coalesce(a), local)
				for j := 0; j < nA; j++ {
					b := leaves[j]
					w.run(c08Coalesce(a, b), local)
					w.run(c08Tuple(a, b), local)
					w.run(c08AndOr(true, a, b), local)
					w.run(c08AndOr(false, a, b), local)
				}
			})
		}
		// x IN (y, z), x NOT IN (y, z) over the core atoms
		for _, x := range core {
			x := x
			jobs = append(jobs, func(local *c08Local) {
				for _, y := range core {
					for _, z := range core {
						tup := c08Tuple(leaves[y], leaves[z])
						w.run(c08Call("in", leaves[x], tup), local)
						w.run(c08Call("not in", leaves[x], tup), local)
					}
				}
			})
		}
		runJobs := func(js []job) {
			enum.Parallel(len(js), func(i int) {
				local := newC08Local()
				js[i](local)
				w.flush(local)
			})
		}
		runJobs(jobs)
		depth1 := w.accepted
		sort.Slice(depth1, func(i, j int) bool { return depth1[i].text < depth1[j].text })
		r.Extra["depth1_accepted_expressions"] = len(depth1)

		// COALESCE of 3 atoms (thorough): not used as inner expressions of depth 2
		w.keep = false
		if coalesceMax >= 3 {
			jobs = jobs[:0]
			for first := 0; first < nA; first++ {
				first := first
				jobs = append(jobs, func(local *c08Local) {
					for j := 0; j < nA; j++ {
						for k := 0; k < nA; k++ {
							w.run(c08Coalesce(leaves[first], leaves[j], leaves[k]), local)
						}
					}
				})
			}
			runJobs(jobs)
		}

		// ------------------------------------------------ depth 2: every unary form over every accepted depth-1 expression
		type unary struct {
			mk func(in c08Expr) c08Expr
		}
		var unaries []unary
		for _, n := range fnNames {
			n := n
			for _, ar := range arityOf[n] {
				if ar == 1 {
					unaries = append(unaries, unary{func(in c08Expr) c08Expr { return c08Call(n, in) }})
				}
			}
		}
		for k := range c08CastTargets {
			k := k
			unaries = append(unaries, unary{func(in c08Expr) c08Expr { return c08Cast(in, k) }})
		}
		atomByName := map[string]int{}
		for i, a := range atoms {
			atomByName[a.name] = i
		}
		lf := func(name string) c08Expr { return leaves[atomByName[name]] }
		unaries = append(unaries,
			unary{func(in c08Expr) c08Expr { return c08Field(in, "a") }},
			unary{func(in c08Expr) c08Expr { return c08Field(in, "b") }},
			unary{func(in c08Expr) c08Expr { return c08Coalesce(in) }},
			unary{func(in c08Expr) c08Expr { return c08Coalesce(in, lf("1")) }},
			unary{func(in c08Expr) c08Expr { return c08Coalesce(in, lf("NULL")) }},
			unary{func(in c08Expr) c08Expr { return c08Call("[]", in, lf("1")) }},
			unary{func(in c08Expr) c08Expr { return c08Call("[]", in, lf("i")) }},
			unary{func(in c08Expr) c08Expr { return c08AndOr(true, in, lf("nb")) }},
			unary{func(in c08Expr) c08Expr { return c08AndOr(false, in, lf("b")) }},
		)
		var inner []c08Expr
		for _, e := range depth1 {
			if e.form == "leaf" {
				continue
			}
			if r.Thorough() || e.small {
				inner = append(inner, e)
			}
		}
		r.Extra["depth2_inner_expressions"] = len(inner)
		r.Extra["depth2_unary_forms"] = len(unaries)
		enum.Parallel(len(inner), func(i int) {
			local := newC08Local()
			for _, u := range unaries {
				e := u.mk(inner[i])
				e.form = "depth2"
				w.run(e, local)
			}
			w.flush(local)
		})

		// depth 2, binary: every function of arity 2 (and AND/OR, COALESCE, tuple) with an accepted depth-1 expression over the
		// smallest alphabet in one position and an atom of the smallest alphabet in the other
		var binNames []string
		for _, n := range fnNames {
			for _, ar := range arityOf[n] {
				if ar == 2 {
					binNames = append(binNames, n)
				}
			}
		}
		var smallAtoms []int
		for i, a := range atoms {
			if a.small {
				smallAtoms = append(smallAtoms, i)
			}
		}
		var inner2 []c08Expr
		for _, e := range depth1 {
			if e.form != "leaf" && e.small && (r.Thorough() || e.form == "cast" || e.form == "field-access" || e.form == "coalesce" || e.form == "and-or" ||
				e.form == "function" && len(e.atoms) <= 1) {
				inner2 = append(inner2, e)
			}
		}
		r.Extra["depth2_binary_inner_expressions"] = len(inner2)
		r.Extra["depth2_binary_forms"] = (len(binNames) + 4) * 2 * len(smallAtoms)
		enum.Parallel(len(inner2), func(i int) {
			local := newC08Local()
			in := inner2[i]
			try := func(e c08Expr) {
				e.form = "depth2-binary"
				w.run(e, local)
			}
			for _, ai := range smallAtoms {
				o := leaves[ai]
				for _, n := range binNames {
					try(c08Call(n, in, o))
					try(c08Call(n, o, in))
				}
				try(c08AndOr(true, in, o))
				try(c08AndOr(true, o, in))
				try(c08AndOr(false, in, o))
				try(c08AndOr(false, o, in))
				try(c08Coalesce(in, o))
				try(c08Coalesce(o, in))
				try(c08Tuple(in, o))
				try(c08Tuple(o, in))
			}
			w.flush(local)
		})

		// ------------------------------------------------ part 2: queries
		db, tcols, rcols := c08Database()
		queries := c08Queries(fns, tcols, rcols, r.Thorough())
		r.Extra["queries"] = len(queries)
		qClasses := map[string]int64{}
		var qmu sync.Mutex
		qOutcome := func(cls string) {
			qmu.Lock()
			qClasses[cls]++
			qmu.Unlock()
		}
		var qRejected, qEvals int64
		sampled := map[string]bool{}
		enum.Parallel(len(queries)*2, func(qi int) {
			q := queries[qi/2]
			opt := qi%2 == 1
			res := c08RunQuery(fns, db, q.sql, opt)
			qmu.Lock()
			qEvals++
			qmu.Unlock()
			if os.Getenv("VERIF_C08_DEBUG") != "" && res.stage != "" {
				fmt.Fprintf(os.Stderr, "C08 debug: %s [%s] %s\n", q.sql, res.stage, res.msg)
			}
			switch res.stage {
			case "parse":
				qOutcome("query/parse-error")
				qmu.Lock()
				qRejected++
				if _, ok := w.notes["parse-error"]; !ok {
					w.notes["parse-error"] = q.sql + ": " + res.msg
				}
				qmu.Unlock()
				return
			case "typecheck":
				qOutcome("query/rejected-at-typecheck")
				qmu.Lock()
				qRejected++
				qmu.Unlock()
				return
			case "materialize":
				qOutcome("query/materialize-failed-skipped")
				return
			case "panic":
				qOutcome("query/panic-skipped")
				qmu.Lock()
				if _, ok := w.notes["query-panic"]; !ok {
					w.notes["query-panic"] = q.sql + ": " + res.msg
				}
				qmu.Unlock()
				return
			}
			// a run-time error ends the stream; the records produced before it are still judged
			described := res.plan.Schema.Fields
			for j := range described {
				if j < len(res.optTyps) && c08T(res.optTyps[j]) != c08T(described[j].Type) {
					qOutcome("query/optimizer-changed-column-type")
					qmu.Lock()
					if _, ok := w.notes["optimizer-changed-column-type"]; !ok {
						w.notes["optimizer-changed-column-type"] = fmt.Sprintf("%s: column %d described %s, optimized plan %s", q.sql, j, described[j].Type, res.optTyps[j])
					}
					qmu.Unlock()
				}
			}
			bad, nullIn, amb := false, false, false
			for _, rec := range res.recs {
				if len(rec.Values) != len(described) {
					r.Violation("C08/query/"+q.class+"/record-width", fmt.Sprintf("%s (optimize=%v) produced a record with %d values, the schema has %d columns", q.sql, opt, len(rec.Values), len(described)),
						c08Case{Part: "query", SQL: q.sql, Optimize: &opt})
					bad = true
					continue
				}
				for j, v := range rec.Values {
					if v.TypeID == octosql.TypeIDNull {
						nullIn = true
					}
					cres, why := c10Conform(v, described[j].Type)
					if cres == c10Ambiguous {
						amb = true
						continue
					}
					if cres == c10Conforms {
						continue
					}
					bad = true
					fp := "C08/" + c08BlameColumn(res.plan, j) + "/" + c08Mismatch(v, described[j].Type, why)
					r.Violation(fp,
						fmt.Sprintf("%s (optimize=%v): column %q is described as %s but a record holds %s (record %s, retraction=%v)", q.sql, opt, res.names[j], described[j].Type, c13Str(v), c13Strs(rec.Values), rec.Retraction),
						c08Case{Part: "query", SQL: q.sql, Optimize: &opt, Column: res.names[j], Declared: described[j].Type.String(), Got: c13Str(v)})
				}
			}
			switch {
			case bad:
				qOutcome("query/violation")
			case res.stage == "run":
				qOutcome("query/runtime-error")
			case len(res.recs) == 0:
				qOutcome("query/conforms-no-rows")
			case amb:
				qOutcome("query/ambiguous-skipped")
			case nullIn:
				qOutcome("query/conforms-with-NULLs")
			default:
				qOutcome("query/conforms-without-NULLs")
			}
			if !bad && len(res.recs) > 0 {
				anyTyped := true
				for _, f := range described {
					if f.Type.TypeID != octosql.TypeIDAny {
						anyTyped = false
					}
				}
				if !anyTyped {
					r.Nontrivial("query " + q.sql)
				}
				if nullIn && !opt && (q.class == "join/left-join" || q.class == "aggregate/grouped" || q.class == "subquery-expression") {
					qmu.Lock()
					if !sampled[q.class] {
						sampled[q.class] = true
						var ts []string
						for j, f := range described {
							ts = append(ts, res.names[j]+": "+f.Type.String())
						}
						var rs []string
						for _, rec := range res.recs {
							rs = append(rs, c13Strs(rec.Values))
						}
						sort.Strings(rs)
						if len(rs) > 4 {
							rs = rs[:4]
						}
						r.Sample(c08Case{Part: "query", SQL: q.sql, Optimize: &opt, Declared: strings.Join(ts, "; "), Got: strings.Join(rs, " / "), Note: "every value belongs to its column type"})
					}
					qmu.Unlock()
				}
			}
		})

		// ------------------------------------------------ evidence
		r.Eval(w.evals + qEvals)
		r.Reject(w.rejected + qRejected)
		for cls, n := range w.outcomes {
			for i := int64(0); i < n; i++ {
				r.Outcome(cls)
			}
		}
		for cls, n := range qClasses {
			for i := int64(0); i < n; i++ {
				r.Outcome(cls)
			}
		}
		r.Extra["outcomes_by_form"] = w.byForm
		r.Extra["query_outcomes"] = qClasses
		if len(w.rejWhy) > 0 {
			r.Extra["typecheck_crashes_counted_as_rejections"] = w.rejWhy
		}
		r.Extra["notes_first_case_of_each_skipped_class"] = w.notes
		var atomDesc []string
		for _, a := range atoms {
			if a.lit {
				atomDesc = append(atomDesc, "literal "+a.name)
				continue
			}
			vs := make([]string, len(a.vals))
			for i, v := range a.vals {
				vs[i] = c13Str(v)
			}
			atomDesc = append(atomDesc, fmt.Sprintf("%s: %s in {%s}", a.name, a.typ, strings.Join(vs, ", ")))
		}
		r.Bound = map[string]interface{}{"atoms": atomDesc, "core_atoms": len(core), "expression_depth": 2, "coalesce_arguments": coalesceMax,
			"tables": "t(24 columns, 4 rows), e(empty), r(3 columns, 3 rows), re(empty)", "optimizer": "on and off"}
	})
}
