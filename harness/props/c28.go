package props

// C28 — Installed plugins are discovered and versions resolved correctly.
//
// Three exhaustive enumerations:
//  (1) discovery:  generated plugin directory trees -> real manager.PluginManager{}.ListInstalledPlugins() in-process
//  (2) resolution: real binary + marker-writing stub plugin binaries + octosql.yml with a version constraint
//  (3) install selection: real binary `plugin install repo/name[@constraint]` against a loopback repository/manifest
//
// Satisfaction of a constraint is decided by the same Masterminds/semver library (as the task allows); which of
// the satisfying versions is the highest is decided by c28Cmp, an independent implementation of semver precedence.

import (
	"encoding/json"
	"fmt"
	"net"
	"net/http"
	"os"
	"path/filepath"
	"regexp"
	"sort"
	"strconv"
	"strings"
	"sync"
	"time"

	"github.com/Masterminds/semver"
	"github.com/cube2222/octosql/plugins/manager"

	"verif/harness/internal/enum"
	"verif/harness/internal/findings"
	"verif/harness/internal/runner"
)

var c28Names = []string{"a", "a_b", "my-db", "x-y-z"}
var c28Repos = []string{"core", "extra"}
var c28Versions = []string{"0.1.0", "0.2.0", "1.0.0", "1.1.0-beta", "2.0.0-rc.1"}
var c28Constraints = []string{"", "*", "^0.1", ">=1.0.0", "<1.0.0", "1.1.0-beta", ">=2.0.0-0"}

// second alphabet (discovery: always; resolution/install: thorough): prereleases of one release, whose order
// needs numeric comparison of identifiers (beta.2 < beta.11) and "release above its prereleases"
var c28VersionsB = []string{"1.1.0-beta", "1.1.0-beta.2", "1.1.0-beta.11", "1.1.0-rc.1", "1.1.0"}
var c28ConstraintsB = []string{"", "*", ">=1.1.0-0", "<1.1.0", "1.1.0-beta.2", ">1.1.0-beta.2"}

// ---------------------------------------------------------------- independent semver precedence

type c28Ver struct {
	nums [3]int
	pre  []string
}

func c28Parse(s string) c28Ver {
	var v c28Ver
	core := s
	if i := strings.Index(s, "+"); i >= 0 {
		core = s[:i]
	}
	if i := strings.Index(core, "-"); i >= 0 {
		v.pre = strings.Split(core[i+1:], ".")
		core = core[:i]
	}
	parts := strings.Split(core, ".")
	for i := 0; i < 3 && i < len(parts); i++ {
		n, err := strconv.Atoi(parts[i])
		if err != nil {
			panic("c28: bad version " + s)
		}
		v.nums[i] = n
	}
	return v
}

func c28IsNum(s string) bool {
	if s == "" {
		return false
	}
	for _, c := range s {
		if c < '0' || c > '9' {
			return false
		}
	}
	return true
}

// c28Cmp: semver 2.0.0 §11 precedence. -1 / 0 / +1.
func c28Cmp(a, b string) int {
	x, y := c28Parse(a), c28Parse(b)
	for i := 0; i < 3; i++ {
		if x.nums[i] != y.nums[i] {
			if x.nums[i] < y.nums[i] {
				return -1
			}
			return 1
		}
	}
	switch {
	case len(x.pre) == 0 && len(y.pre) == 0:
		return 0
	case len(x.pre) == 0:
		return 1 // a release is higher than any of its prereleases
	case len(y.pre) == 0:
		return -1
	}
	for i := 0; i < len(x.pre) && i < len(y.pre); i++ {
		p, q := x.pre[i], y.pre[i]
		if p == q {
			continue
		}
		pn, qn := c28IsNum(p), c28IsNum(q)
		switch {
		case pn && qn:
			pi, _ := strconv.Atoi(p)
			qi, _ := strconv.Atoi(q)
			if pi < qi {
				return -1
			}
			return 1
		case pn:
			return -1 // numeric identifiers are lower than alphanumeric ones
		case qn:
			return 1
		case p < q:
			return -1
		default:
			return 1
		}
	}
	switch {
	case len(x.pre) < len(y.pre):
		return -1
	case len(x.pre) > len(y.pre):
		return 1
	}
	return 0
}

func c28IsPre(v string) bool { return len(c28Parse(v).pre) > 0 }

// c28Expected: highest version (own comparison) among those the library says satisfy the constraint.
// constraint "" means "no constraint given": mode "star" = treated as "*" (what root.go documents for a database
// without a version), mode "nonpre" = highest non-prerelease (what the statement says for install).
func c28Expected(versions []string, constraint string, absentMode string) (string, bool) {
	var sat []string
	if constraint == "" && absentMode == "nonpre" {
		for _, v := range versions {
			if !c28IsPre(v) {
				sat = append(sat, v)
			}
		}
	} else {
		cs := constraint
		if cs == "" {
			cs = "*"
		}
		c, err := semver.NewConstraint(cs)
		if err != nil {
			panic("c28: constraint " + cs + ": " + err.Error())
		}
		for _, v := range versions {
			if c.Check(semver.MustParse(v)) {
				sat = append(sat, v)
			}
		}
	}
	if len(sat) == 0 {
		return "", false
	}
	best := sat[0]
	for _, v := range sat[1:] {
		if c28Cmp(v, best) > 0 {
			best = v
		}
	}
	return best, true
}

func c28Subset(alphabet []string, mask int) []string {
	var out []string
	for i, v := range alphabet {
		if mask&(1<<i) != 0 {
			out = append(out, v)
		}
	}
	return out
}

// ---------------------------------------------------------------- trees

type c28Plugin struct {
	Repo     string   `json:"repo"`
	Name     string   `json:"name"`
	Versions []string `json:"versions"`
}

const c28Stub = "#!/bin/sh\necho \"$0\" >> \"$C28_MARKER\"\nexit 7\n"

func c28MakeTree(root string, plugins []c28Plugin, stub bool) {
	for _, p := range plugins {
		full := "octosql-plugin-" + p.Name
		for _, v := range p.Versions {
			d := filepath.Join(root, p.Repo, full, v)
			if err := os.MkdirAll(d, 0o755); err != nil {
				panic(err)
			}
			if stub {
				if err := os.WriteFile(filepath.Join(d, full), []byte(c28Stub), 0o755); err != nil {
					panic(err)
				}
			}
		}
	}
}

// ---------------------------------------------------------------- (1) discovery

type c28Ref struct{ Repo, Name string }

func c28Discover(dir string) (out []manager.PluginMetadata, err error, pan string) {
	defer func() {
		if x := recover(); x != nil {
			pan = fmt.Sprint(x)
		}
	}()
	os.Setenv("OCTOSQL_PLUGIN_DIR", dir)
	defer os.Unsetenv("OCTOSQL_PLUGIN_DIR")
	out, err = (&manager.PluginManager{}).ListInstalledPlugins()
	return
}

func c28CheckDiscovery(r *findings.Run, scratch string, plugins []c28Plugin) {
	dir, err := os.MkdirTemp(scratch, "d")
	if err != nil {
		panic(err)
	}
	defer os.RemoveAll(dir)
	c28MakeTree(dir, plugins, false)
	got, lerr, pan := c28Discover(dir)
	r.Eval(1)
	replay := map[string]interface{}{"part": "discovery", "plugins": plugins}
	desc := func() string { b, _ := json.Marshal(plugins); return string(b) }
	if pan != "" {
		r.Outcome("discovery:panic")
		r.Violation("C28/discovery/panic@ListInstalledPlugins", "ListInstalledPlugins panicked ("+pan+") for tree "+desc(), replay)
		return
	}
	if lerr != nil {
		r.Outcome("discovery:error")
		r.Violation("C28/discovery/error-on-valid-tree", "ListInstalledPlugins failed ("+lerr.Error()+") for tree "+desc(), replay)
		return
	}
	nontrivial := false
	for _, p := range plugins {
		if len(p.Versions) >= 2 || strings.Contains(p.Name, "-") {
			nontrivial = true
		}
	}
	if nontrivial {
		r.Nontrivial("disc:" + desc())
	}
	// discovered references (multiset)
	type entry struct {
		md   manager.PluginMetadata
		used bool
	}
	entries := make([]*entry, len(got))
	var gotRefs []string
	for i := range got {
		entries[i] = &entry{md: got[i]}
		gotRefs = append(gotRefs, got[i].Reference.Repository+"/"+got[i].Reference.Name)
	}
	find := func(repo, name string) *entry {
		for _, e := range entries {
			if !e.used && e.md.Reference.Repository == repo && e.md.Reference.Name == name {
				return e
			}
		}
		return nil
	}
	clean := true
	checkVersions := func(p c28Plugin, e *entry) {
		var gv []string
		for _, v := range e.md.Versions {
			gv = append(gv, v.Number.String())
		}
		want := append([]string{}, p.Versions...)
		sort.Slice(want, func(i, j int) bool { return c28Cmp(want[i], want[j]) > 0 })
		a, b := append([]string{}, gv...), append([]string{}, want...)
		sort.Strings(a)
		sort.Strings(b)
		if strings.Join(a, ",") != strings.Join(b, ",") {
			clean = false
			r.Violation("C28/discovery/version-set-differs", fmt.Sprintf("plugin %s/%s installed with versions %v, ListInstalledPlugins reports %v", p.Repo, p.Name, p.Versions, gv), replay)
			return
		}
		if strings.Join(gv, ",") != strings.Join(want, ",") {
			clean = false
			r.Violation("C28/discovery/versions-not-sorted-highest-first", fmt.Sprintf("plugin %s/%s: versions reported as %v, expected highest first %v (root.go takes the first satisfying one and Versions[0] as default)", p.Repo, p.Name, gv, want), replay)
		}
	}
	var pending []c28Plugin
	for _, p := range plugins {
		if e := find(p.Repo, p.Name); e != nil {
			e.used = true
			checkVersions(p, e)
		} else {
			pending = append(pending, p)
		}
	}
	for _, p := range pending {
		clean = false
		if i := strings.LastIndex(p.Name, "-"); i >= 0 {
			if e := find(p.Repo, p.Name[i+1:]); e != nil {
				e.used = true
				r.Outcome("discovery:dash-name-truncated")
				r.Violation("C28/discovery/name-with-dash-truncated", fmt.Sprintf("plugin installed as %s/%s (directory octosql-plugin-%s) is listed as %s/%s; all discovered: %v", p.Repo, p.Name, p.Name, p.Repo, p.Name[i+1:], gotRefs), replay)
				checkVersions(p, e)
				continue
			}
		}
		r.Outcome("discovery:plugin-missing")
		r.Violation("C28/discovery/installed-plugin-not-listed", fmt.Sprintf("plugin %s/%s is installed but not listed; discovered: %v", p.Repo, p.Name, gotRefs), replay)
	}
	for _, e := range entries {
		if !e.used {
			clean = false
			r.Outcome("discovery:phantom")
			r.Violation("C28/discovery/phantom-plugin-listed", fmt.Sprintf("ListInstalledPlugins lists %s/%s which was never installed; tree %s", e.md.Reference.Repository, e.md.Reference.Name, desc()), replay)
		}
	}
	if clean {
		r.Outcome(fmt.Sprintf("discovery:exact:%d-plugins", len(plugins)))
	}
	if r.NeedSample() && len(plugins) == 2 && len(plugins[0].Versions) == 3 && len(plugins[1].Versions) == 2 {
		r.Sample(map[string]interface{}{"part": "discovery", "installed": plugins, "discovered": gotRefs})
	}
}

// ---------------------------------------------------------------- (2) resolution at startup

func c28Scratch() string {
	base := os.Getenv("VERIF_SCRATCH")
	if base == "" {
		base = os.TempDir()
		if st, err := os.Stat("/dev/shm"); err == nil && st.IsDir() {
			if f, err := os.CreateTemp("/dev/shm", "probe"); err == nil { // tmpfs: directory trees are created ~10x faster
				f.Close()
				os.Remove(f.Name())
				base = "/dev/shm"
			}
		}
	}
	d, err := os.MkdirTemp(base, "c28-")
	if err != nil {
		panic(err)
	}
	return d
}

func c28Yaml(repo, name, constraint string) string {
	s := "databases:\n  - name: mydb\n    type: " + repo + "/" + name + "\n"
	if constraint != "" {
		s += "    version: \"" + constraint + "\"\n"
	}
	return s
}

func c28ConstraintLabel(c string) string {
	if c == "" {
		return "absent"
	}
	return c
}

func c28CheckResolution(r *findings.Run, scratch, tag string, slots []c28Ref, alpha, cons []string) {
	type job struct {
		slot       c28Ref
		mask       int
		constraint string
		pluginDir  string
		// first: constraint of another database of the SAME plugin type configured before mydb ("\x00" = none).
		// Every configured database resolves on its own: the other database must not influence mydb.
		first string
		// otherAfter: the other database is listed after mydb instead of before it
		otherAfter bool
	}
	var jobs []job
	nsub := 1 << len(alpha)
	for si, slot := range slots {
		for mask := 1; mask < nsub; mask++ {
			pd := filepath.Join(scratch, fmt.Sprintf("res%s-%d-%d", tag, si, mask))
			c28MakeTree(pd, []c28Plugin{{slot.Repo, slot.Name, c28Subset(alpha, mask)}}, true)
			for _, c := range cons {
				jobs = append(jobs, job{slot, mask, c, pd, "\x00", false})
				if mask == nsub-1 || mask == nsub/2+1 {
					for _, c1 := range cons {
						if c1 != c {
							jobs = append(jobs, job{slot, mask, c, pd, c1, false}, job{slot, mask, c, pd, c1, true})
						}
					}
				}
			}
		}
	}
	enum.Parallel(len(jobs), func(i int) {
		j := jobs[i]
		versions := c28Subset(alpha, j.mask)
		home := filepath.Join(scratch, fmt.Sprintf("home-r%s-%d", tag, i))
		if err := os.MkdirAll(filepath.Join(home, ".octosql"), 0o755); err != nil {
			panic(err)
		}
		yaml := c28Yaml(j.slot.Repo, j.slot.Name, j.constraint)
		if j.first != "\x00" {
			other := strings.Replace(c28Yaml(j.slot.Repo, j.slot.Name, j.first), "name: mydb", "name: other", 1)
			if j.otherAfter {
				yaml = yaml + strings.TrimPrefix(other, "databases:\n")
			} else {
				yaml = other + strings.TrimPrefix(yaml, "databases:\n")
			}
		}
		if err := os.WriteFile(filepath.Join(home, ".octosql", "octosql.yml"), []byte(yaml), 0o644); err != nil {
			panic(err)
		}
		marker := filepath.Join(home, "marker")
		res := c28Run([]string{"SELECT * FROM mydb.t"}, func() { os.Remove(marker) },
			"HOME="+home, "OCTOSQL_PLUGIN_DIR="+j.pluginDir, "C28_MARKER="+marker)
		r.Eval(1)
		mb, _ := os.ReadFile(marker)
		executed := strings.Fields(strings.TrimSpace(string(mb)))
		os.RemoveAll(home)
		label := c28ConstraintLabel(j.constraint)
		if j.first != "\x00" {
			label += "(after-another-database-of-the-same-plugin)"
			if j.otherAfter {
				label = c28ConstraintLabel(j.constraint) + "(before-another-database-of-the-same-plugin)"
			}
		}
		replay := map[string]interface{}{"part": "resolution", "plugin": c28Plugin{j.slot.Repo, j.slot.Name, versions}, "constraint": label,
			"config": yaml, "query": "SELECT * FROM mydb.t", "exit": res.Exit, "stderr": c28Trunc(res.Err), "executed": executed}
		if res.Hang || res.Crash != "" {
			r.Outcome("resolution:" + res.Class())
			r.Violation("C28/resolution/"+res.Class(), fmt.Sprintf("octosql %s with %s/%s versions %v constraint %s: %s", res.Class(), j.slot.Repo, j.slot.Name, versions, label, c28Trunc(res.Crash)), replay)
			return
		}
		want, ok := c28Expected(versions, j.constraint, "star")
		if j.first != "\x00" {
			if _, firstOK := c28Expected(versions, j.first, "star"); !firstOK {
				ok = false // the other configured database cannot be resolved: start-up must fail
			}
		}
		dash := strings.Contains(j.slot.Name, "-")
		var gotVer string
		if len(executed) > 0 {
			// .../<repo>/octosql-plugin-<name>/<version>/octosql-plugin-<name>
			gotVer = filepath.Base(filepath.Dir(executed[0]))
		}
		if len(versions) >= 2 {
			r.Nontrivial(fmt.Sprintf("res:%s/%s:%d:%s", j.slot.Repo, j.slot.Name, j.mask, label))
		}
		what := fmt.Sprintf("installed %s/%s versions %v, database version constraint %s: ", j.slot.Repo, j.slot.Name, versions, label)
		switch {
		case !ok && len(executed) == 0 && res.Exit != 0:
			r.Outcome("resolution:none-satisfies->error")
		case !ok && len(executed) > 0:
			r.Outcome("resolution:unsatisfying-executed")
			r.Violation("C28/resolution/unsatisfying-version-executed:"+label, what+"no installed version satisfies the constraint, but version "+gotVer+" was executed", replay)
		case !ok:
			r.Outcome("resolution:none-satisfies-but-exit-0")
			r.Violation("C28/resolution/no-error-when-unsatisfiable:"+label, what+"no installed version satisfies the constraint, octosql exited 0", replay)
		case len(executed) == 0:
			if dash {
				r.Outcome("resolution:dash-name-not-resolved")
				r.Violation("C28/resolution/name-with-dash-not-resolved", what+"expected version "+want+" to be started, octosql failed: "+c28Trunc(res.Err), replay)
			} else {
				r.Outcome("resolution:not-resolved")
				r.Violation("C28/resolution/satisfying-version-not-resolved:"+label, what+"expected version "+want+" to be started, octosql failed: "+c28Trunc(res.Err), replay)
			}
		case len(executed) > 1:
			r.Outcome("resolution:executed-more-than-once")
			r.Violation("C28/resolution/plugin-started-more-than-once", what+fmt.Sprintf("plugin binaries started: %v", executed), replay)
		case gotVer != want:
			r.Outcome("resolution:wrong-version")
			r.Violation("C28/resolution/not-highest-satisfying:"+label, what+"version "+gotVer+" was started, the highest satisfying one is "+want, replay)
		default:
			if want != c28Highest(versions) {
				r.Outcome("resolution:highest-satisfying(below-overall-highest)")
			} else {
				r.Outcome("resolution:highest-satisfying(=overall-highest)")
			}
			if r.NeedSample() && len(versions) == 3 && j.constraint == "<1.0.0" {
				r.Sample(replay)
			}
		}
	})
}

func c28Highest(vs []string) string {
	best := vs[0]
	for _, v := range vs[1:] {
		if c28Cmp(v, best) > 0 {
			best = v
		}
	}
	return best
}

// c28Run runs the real binary; a run that hits the 90 s horizon is repeated (up to 2 more times, alone) before it
// is reported as a hang, so that an overloaded machine does not produce false alarms.
var c28RetryMu sync.Mutex

func c28Run(args []string, prepare func(), env ...string) runner.Result {
	prepare()
	res := runner.RunBinary(args, nil, env...)
	for try := 0; res.Hang && try < 2; try++ {
		c28RetryMu.Lock()
		prepare()
		res = runner.RunBinary(args, nil, env...)
		c28RetryMu.Unlock()
	}
	return res
}

func c28Trunc(s string) string {
	s = strings.TrimSpace(s)
	if i := strings.LastIndex(s, "\nError: "); i >= 0 { // cobra prints the usage text before the error
		s = s[i+1:]
	}
	if len(s) > 400 {
		s = s[:400] + "…"
	}
	return s
}

// ---------------------------------------------------------------- (3) install selection

type c28InstallCase struct {
	slot     c28Ref
	versions []string // manifest order as served
	mu       sync.Mutex
	dl       []string // versions requested for download
}

type c28Server struct {
	ln    net.Listener
	base  string
	mu    sync.Mutex
	cases map[string]*c28InstallCase
}

func c28StartServer() *c28Server {
	ln, err := net.Listen("tcp", "127.0.0.1:0")
	if err != nil {
		panic(err)
	}
	s := &c28Server{ln: ln, base: "http://" + ln.Addr().String(), cases: map[string]*c28InstallCase{}}
	mux := http.NewServeMux()
	// /case/<id>/<repo>.json | /case/<id>/manifest.json | /case/<id>/dl/<version>/plugin.tar.gz
	mux.HandleFunc("/case/", func(w http.ResponseWriter, req *http.Request) {
		parts := strings.Split(strings.TrimPrefix(req.URL.Path, "/case/"), "/")
		s.mu.Lock()
		c := s.cases[parts[0]]
		s.mu.Unlock()
		if c == nil || len(parts) < 2 {
			http.NotFound(w, req)
			return
		}
		prefix := s.base + "/case/" + parts[0]
		switch {
		case parts[1] == "core.json" || parts[1] == "extra.json":
			slug := strings.TrimSuffix(parts[1], ".json")
			repo := map[string]interface{}{"name": slug + " repository", "description": "verif", "slug": slug, "plugins": []interface{}{}}
			if slug == c.slot.Repo {
				repo["plugins"] = []interface{}{map[string]interface{}{"name": c.slot.Name, "description": "verif test plugin",
					"file_extensions": []string{}, "manifest_url": prefix + "/manifest.json"}}
			}
			json.NewEncoder(w).Encode(repo)
		case parts[1] == "manifest.json":
			var vs []interface{}
			for _, v := range c.versions {
				vs = append(vs, map[string]string{"number": v})
			}
			json.NewEncoder(w).Encode(map[string]interface{}{"binary_download_url_pattern": prefix + "/dl/{{version}}/plugin_{{os}}_{{arch}}.tar.gz", "versions": vs})
		case parts[1] == "dl" && len(parts) >= 3:
			c.mu.Lock()
			c.dl = append(c.dl, parts[2])
			c.mu.Unlock()
			http.NotFound(w, req)
		default:
			http.NotFound(w, req)
		}
	})
	go http.Serve(ln, mux)
	return s
}

var c28DownloadingRe = regexp.MustCompile(`(?m)^Downloading ([^/\s]+)/(\S+?)@(\S+?)\.\.\.$`)

func c28CheckInstall(r *findings.Run, scratch, tag string, slots []c28Ref, alpha, cons []string) {
	srv := c28StartServer()
	defer srv.ln.Close()
	type job struct {
		slot       c28Ref
		mask       int
		constraint string
	}
	var jobs []job
	nsub := 1 << len(alpha)
	for _, slot := range slots {
		for mask := 1; mask < nsub; mask++ {
			for _, c := range cons {
				jobs = append(jobs, job{slot, mask, c})
			}
		}
	}
	enum.Parallel(len(jobs), func(i int) {
		j := jobs[i]
		versions := c28Subset(alpha, j.mask)
		// serve the manifest in a rotated ascending order (never sorted descending unless it has one element):
		// GetManifest documents "sorted descending" and must establish that itself
		served := append([]string{}, versions...)
		if k := j.mask % len(served); k > 0 {
			served = append(served[k:], served[:k]...)
		}
		id := tag + strconv.Itoa(i)
		c := &c28InstallCase{slot: j.slot, versions: served}
		srv.mu.Lock()
		srv.cases[id] = c
		srv.mu.Unlock()
		home := filepath.Join(scratch, "home-i-"+id)
		if err := os.MkdirAll(filepath.Join(home, ".octosql", "repositories"), 0o755); err != nil {
			panic(err)
		}
		prefix := srv.base + "/case/" + id
		if j.slot.Repo != "core" {
			b, _ := json.Marshal(map[string]string{"url": prefix + "/" + j.slot.Repo + ".json"})
			os.WriteFile(filepath.Join(home, ".octosql", "repositories", j.slot.Repo), b, 0o644)
		}
		arg := j.slot.Repo + "/" + j.slot.Name
		if j.constraint != "" {
			arg += "@" + j.constraint
		}
		res := c28Run([]string{"plugin", "install", arg}, func() { c.mu.Lock(); c.dl = nil; c.mu.Unlock() },
			"HOME="+home, "OCTOSQL_PLUGIN_DIR="+filepath.Join(home, "plugins"), "OCTOSQL_PLUGIN_REPOSITORY_OFFICIAL_URL="+prefix+"/core.json")
		r.Eval(1)
		os.RemoveAll(home)
		c.mu.Lock()
		dl := append([]string{}, c.dl...)
		c.mu.Unlock()
		srv.mu.Lock()
		delete(srv.cases, id)
		srv.mu.Unlock()
		label := c28ConstraintLabel(j.constraint)
		var announced []string
		for _, m := range c28DownloadingRe.FindAllStringSubmatch(res.Out, -1) {
			announced = append(announced, m[3])
		}
		replay := map[string]interface{}{"part": "install", "command": "octosql plugin install " + arg, "manifest_versions_as_served": served,
			"stdout": c28Trunc(res.Out), "stderr": c28Trunc(res.Err), "exit": res.Exit, "download_requests": dl}
		if res.Hang || res.Crash != "" {
			r.Outcome("install:" + res.Class())
			r.Violation("C28/install/"+res.Class(), fmt.Sprintf("octosql plugin install %s (manifest %v): %s %s", arg, served, res.Class(), c28Trunc(res.Crash)), replay)
			return
		}
		want, ok := c28Expected(versions, j.constraint, "nonpre")
		if len(versions) >= 2 {
			r.Nontrivial(fmt.Sprintf("inst:%s/%s:%d:%s", j.slot.Repo, j.slot.Name, j.mask, label))
		}
		what := fmt.Sprintf("plugin install %s with manifest versions %v: ", arg, served)
		// the two observables must agree with each other
		if len(announced) != len(dl) || (len(dl) == 1 && announced[0] != dl[0]) {
			r.Outcome("install:observables-disagree")
			r.Violation("C28/install/announced-and-downloaded-version-differ", what+fmt.Sprintf("printed %v, requested %v", announced, dl), replay)
			return
		}
		switch {
		case !ok && len(dl) == 0 && res.Exit != 0:
			r.Outcome("install:none-matches->error")
		case !ok && len(dl) > 0:
			r.Outcome("install:unmatching-selected")
			r.Violation("C28/install/unmatching-version-selected:"+label, what+"no version matches, yet "+dl[0]+" was selected", replay)
		case !ok:
			r.Outcome("install:none-matches-but-exit-0")
			r.Violation("C28/install/no-error-when-no-version-matches:"+label, what+"no version matches and octosql exited 0", replay)
		case len(dl) == 0:
			r.Outcome("install:nothing-selected")
			r.Violation("C28/install/matching-version-not-selected:"+label, what+"expected "+want+" to be selected; octosql: "+c28Trunc(res.Err), replay)
		case len(dl) > 1:
			r.Outcome("install:several-downloads")
			r.Violation("C28/install/several-versions-downloaded", what+fmt.Sprintf("download requests %v", dl), replay)
		case dl[0] != want:
			r.Outcome("install:wrong-version")
			r.Violation("C28/install/not-highest-matching:"+label, what+"selected "+dl[0]+", the highest matching version is "+want, replay)
		default:
			if want != c28Highest(versions) {
				r.Outcome("install:highest-matching(below-overall-highest)")
			} else {
				r.Outcome("install:highest-matching(=overall-highest)")
			}
			if r.NeedSample() && len(versions) == 4 && j.constraint == "" {
				r.Sample(replay)
			}
		}
	})
}

// ----------------------------------------------------------------

func init() {
	register("C28", "exploration", func(r *findings.Run) {
		r.Rule = "exhaustive: (1) every plugin tree = k distinct (repository,name) slots from {core,extra}x{a,a_b,my-db,x-y-z}, each with a non-empty subset of the 5 versions " +
			"(quick k<=2 with all subsets; thorough additionally k=3 with 7 representative subsets each) -> ListInstalledPlugins must list exactly the installed (repository,name) pairs, " +
			"each with exactly its versions, highest first; (2) slots (quick: core/a, extra/my-db; thorough: all 8) x version subset x 7 constraints: real binary, stub plugin binaries record which version directory is started -> " +
			"must be the highest installed version satisfying the constraint (absent = '*'), or an error if none; for two version subsets also with a second database of the same plugin under every other constraint, listed before and listed after the queried one (each database resolves on its own); (3) slots core/a (thorough also extra/my-db, extra/a_b, core/x-y-z) x manifest subset x 7 constraints: " +
			"`plugin install` -> printed and requested version = highest matching (absent: highest non-prerelease), or an error if none. " +
			"a second alphabet B of prereleases of one release (numeric identifier order) is used for single-plugin discovery and, in thorough, for (2) and (3) with core/a. " +
			"non-trivial: a case with >=2 versions (order matters) or a dashed name"
		r.Bound = map[string]interface{}{"versions_B": c28VersionsB, "constraints_B": c28ConstraintsB, "names": c28Names, "repositories": c28Repos, "versions": c28Versions, "constraints": c28Constraints,
			"plugins_per_tree": r.Pick(2, 3)}
		r.Assume(
			"constraint satisfaction is decided by Masterminds/semver (same library as octosql); only the choice among satisfying versions is judged, with an independent precedence comparison",
			"a database without `version:` is treated as constraint '*' (root.go), so with only prereleases installed an error is expected (the library's '*' excludes prereleases)",
			"discovery demands the order 'highest first' because root.go takes the first satisfying entry and Versions[0] for default databases",
			"the download in part (3) is answered with 404; the selection is observed on the 'Downloading repo/name@version...' line and on the requested URL, which must agree",
		)
		scratch := c28Scratch()
		defer os.RemoveAll(scratch)

		var slots []c28Ref
		for _, repo := range c28Repos {
			for _, n := range c28Names {
				slots = append(slots, c28Ref{repo, n})
			}
		}
		nsub := 1 << len(c28Versions)
		t0 := time.Now()

		// (1) discovery — in-process, sequential (OCTOSQL_PLUGIN_DIR is process-global; manager reads it on every call)
		for _, s := range slots {
			for m := 1; m < nsub; m++ {
				c28CheckDiscovery(r, scratch, []c28Plugin{{s.Repo, s.Name, c28Subset(c28Versions, m)}})
			}
		}
		for _, s := range []c28Ref{{"core", "a"}, {"extra", "x-y-z"}} {
			for m := 1; m < 1<<len(c28VersionsB); m++ {
				c28CheckDiscovery(r, scratch, []c28Plugin{{s.Repo, s.Name, c28Subset(c28VersionsB, m)}})
			}
		}
		for i := range slots {
			for j := i + 1; j < len(slots); j++ {
				for m1 := 1; m1 < nsub; m1++ {
					for m2 := 1; m2 < nsub; m2++ {
						c28CheckDiscovery(r, scratch, []c28Plugin{
							{slots[i].Repo, slots[i].Name, c28Subset(c28Versions, m1)},
							{slots[j].Repo, slots[j].Name, c28Subset(c28Versions, m2)}})
					}
				}
			}
		}
		if r.Thorough() {
			rep := []int{1, 31, 24, 7, 10, 21, 16} // {0.1.0}, all, both prereleases, releases, mixed...
			for i := range slots {
				for j := i + 1; j < len(slots); j++ {
					for k := j + 1; k < len(slots); k++ {
						for _, m1 := range rep {
							for _, m2 := range rep {
								for _, m3 := range rep {
									c28CheckDiscovery(r, scratch, []c28Plugin{
										{slots[i].Repo, slots[i].Name, c28Subset(c28Versions, m1)},
										{slots[j].Repo, slots[j].Name, c28Subset(c28Versions, m2)},
										{slots[k].Repo, slots[k].Name, c28Subset(c28Versions, m3)}})
								}
							}
						}
					}
				}
			}
		}
		r.Extra["discovery_trees"] = r.Evaluations
		t1 := time.Now()
		r.Extra["discovery_wall_s"] = int(t1.Sub(t0).Seconds())

		// (2) resolution at startup — real binary
		before := r.Evaluations
		resSlots := slots
		if !r.Thorough() {
			resSlots = []c28Ref{{"core", "a"}, {"extra", "my-db"}}
		}
		c28CheckResolution(r, scratch, "", resSlots, c28Versions, c28Constraints)
		if r.Thorough() {
			c28CheckResolution(r, scratch, "B", []c28Ref{{"core", "a"}}, c28VersionsB, c28ConstraintsB)
		}
		r.Extra["resolution_runs"] = r.Evaluations - before
		t2 := time.Now()
		r.Extra["resolution_wall_s"] = int(t2.Sub(t1).Seconds())

		// (3) install selection — real binary against a loopback repository
		before = r.Evaluations
		instSlots := []c28Ref{{"core", "a"}}
		if r.Thorough() {
			instSlots = append(instSlots, c28Ref{"extra", "my-db"}, c28Ref{"extra", "a_b"}, c28Ref{"core", "x-y-z"})
		}
		c28CheckInstall(r, scratch, "", instSlots, c28Versions, c28Constraints)
		if r.Thorough() {
			c28CheckInstall(r, scratch, "B", []c28Ref{{"core", "a"}}, c28VersionsB, c28ConstraintsB)
		}
		r.Extra["install_runs"] = r.Evaluations - before
		r.Extra["install_wall_s"] = int(time.Since(t2).Seconds())
	})
}
