package props

import (
	"fmt"
	"os"
	"os/exec"
	"path/filepath"
	"regexp"
	"runtime"
	"strings"
	"time"

	"verif/harness/internal/findings"
	"verif/harness/internal/runner"
	"verif/harness/internal/stream"
)

// ---- part (a): JSON pipeline termination under the H2 controller ----

func c29JSON(r *findings.Run) {
	type scen struct {
		lines, bad, stop, maxDev int
	}
	var scens []scen
	for _, lines := range []int{65, 129, 200, 321} {
		for _, stop := range []int{1, 64, 65, lines} {
			scens = append(scens, scen{lines, -1, stop, -1})
		}
		// a malformed line beyond the 100-row preview, at the start / end of a later batch
		for _, bad := range []int{101, 128, lines - 1} {
			if bad >= 101 && bad < lines {
				scens = append(scens, scen{lines, bad, 0, -1})
			}
		}
	}
	// enough batches to fill the 128-slot output channel: only orders within a deviation bound
	big := 8400
	scens = append(scens, scen{big, -1, 1, r.Pick(0, 1)}, scen{big, -1, 4097, r.Pick(0, 1)}, scen{big, 8399, 0, r.Pick(0, 1)}, scen{big, -1, 0, r.Pick(0, 1)})
	for _, workers := range []int{1, 2, 4} {
		workers := workers
		r.Sharded(8, workers, func(shard, n int) {
			if runtime.GOMAXPROCS(0) != workers {
				panic("GOMAXPROCS mismatch")
			}
			dir, err := os.MkdirTemp("", "vjson29")
			if err != nil {
				panic(err)
			}
			defer os.RemoveAll(dir)
			plain, plainWant := jsonSchedFile(dir, 130, -1)
			for si, sc := range scens {
				if si%n != shard {
					continue
				}
				path, want := jsonSchedFile(dir, sc.lines, sc.bad)
				batches := (sc.lines + 63) / 64
				jsonOrders(path, batches, sc.stop, sc.maxDev, func(run stream.JSONRun, choices []int) bool {
					r.AddCounts(1, int64(len(run.Chosen)+1), 1)
					r.Eval(1)
					r.Sum("json_schedules", 1)
					cs := map[string]interface{}{"lines": sc.lines, "workers": workers, "malformed_line": sc.bad, "consumer_stops_after": sc.stop, "choices": append([]int{}, choices...), "released": run.Chosen, "records": len(run.Records)}
					name := "json"
					switch {
					case sc.stop > 0:
						name = "json/early-stop"
					case sc.bad >= 0:
						name = "json/parse-error"
					}
					if run.Stuck != "" {
						r.Violation("C29/"+name+"/stuck", fmt.Sprintf("%v: Run did not return: %s", cs, run.Stuck), cs)
						return false
					}
					if run.Panic != nil {
						r.Violation("C29/"+name+"/panic", fmt.Sprintf("%v: panic %v", cs, run.Panic), cs)
						return true
					}
					// sanity of what came out (prefix property)
					for i := range run.Records {
						if i < len(want) && run.Records[i] != want[i] {
							r.Violation("C29/"+name+"/wrong-record", fmt.Sprintf("%v: record %d is %s", cs, i, run.Records[i]), cs)
							return true
						}
					}
					expectErr := sc.stop > 0 || sc.bad >= 0
					if expectErr != (run.Err != nil) {
						r.Violation("C29/"+name+"/unexpected-result", fmt.Sprintf("%v: err=%v", cs, run.Err), cs)
						return true
					}
					// the pool is global: a wedged worker shows up in the next, uncontrolled query of this process
					next := stream.RunJSON(plain, 3, false, nil, 0)
					if next.Stuck != "" || next.Err != nil || len(next.Records) != len(plainWant) {
						r.Violation("C29/"+name+"/next-query-in-same-process-fails", fmt.Sprintf("%v: following plain query: stuck=%q err=%v records=%d", cs, next.Stuck, next.Err, len(next.Records)), cs)
						return false
					}
					r.Nontrivial(fmt.Sprint(cs))
					r.Outcome(fmt.Sprintf("%s workers=%d returned", name, workers))
					if len(run.Chosen) > 2 && len(choices) > 0 && len(choices)%3 == 0 && sc.lines < 1000 {
						r.Sample(cs)
					}
					return true
				})
			}
		})
	}
}

// ---- part (b): joins under the H1 controller with a stopping consumer or a failing source ----

func c29Joins(r *findings.Run) {
	opts := stream.ScriptOpts{Keys: []int{1}, Times: []int{1, 2}, RecTimes: []int{0, 1, 2}, MaxLen: 2, Retractions: false, Watermarks: true}
	scripts := stream.GenScripts(opts)
	type jjob struct {
		k      joinKind
		l, rr  []stream.Ev
		stopAt int
	}
	var jobs []jjob
	kinds := joinKinds
	if !r.Thorough() {
		kinds = []joinKind{joinKinds[0], joinKinds[3]} // quick: inner and full outer (left/right share the full join's code paths)
	}
	for _, k := range kinds {
		for _, l := range scripts {
			for _, rr := range scripts {
				for _, stop := range []int{1, 2} {
					jobs = append(jobs, jjob{k, l, rr, stop})
				}
				// a source that fails at each position of the left / right script
				for i := 0; i <= len(l); i++ {
					fl := append(append([]stream.Ev{}, l[:i]...), stream.Ev{Kind: stream.Fail})
					jobs = append(jobs, jjob{k, fl, rr, 0})
				}
				for i := 0; i <= len(rr); i++ {
					fr := append(append([]stream.Ev{}, rr[:i]...), stream.Ev{Kind: stream.Fail})
					jobs = append(jobs, jjob{k, l, fr, 0})
				}
			}
		}
	}
	r.Extra["join_termination_jobs"] = len(jobs)
	r.Sharded(16, 1, func(shard, n int) {
		for i, j := range jobs {
			if i%n != shard {
				continue
			}
			stream.Schedules(len(j.l)+1, len(j.rr)+1, func(s []int) bool {
				sched := append([]int{}, s...)
				res := stream.RunJoin(buildJoin(j.k, 1), j.l, j.rr, sched, j.stopAt)
				r.AddCounts(1, int64(len(sched)), 1)
				r.Eval(1)
				r.Sum("join_schedules", 1)
				cs := c19Case{Kind: j.k.Name, Left: stream.Strs(j.l), Right: stream.Strs(j.rr), Schedule: stream.SchedStr(sched)}
				name := "join/failing-source"
				if j.stopAt > 0 {
					name = "join/consumer-stops"
				}
				if res.Stuck {
					r.Violation("C29/"+name+"/stuck/"+j.k.Name, fmt.Sprintf("%v (consumer stops after %d): Run did not return", cs, j.stopAt), cs)
					return true
				}
				if res.Panic != nil {
					r.Violation("C29/"+name+"/panic/"+j.k.Name, fmt.Sprintf("%v (consumer stops after %d): panic %v", cs, j.stopAt, res.Panic), cs)
					return true
				}
				if j.stopAt == 0 && res.Err == nil {
					r.Violation("C29/"+name+"/error-lost/"+j.k.Name, fmt.Sprintf("%v: a source failed but the join returned no error", cs), cs)
					return true
				}
				r.Outcome(fmt.Sprintf("%s err=%v", name, res.Err != nil))
				r.Nontrivial(fmt.Sprint(cs, j.stopAt))
				return true
			})
		}
	})
}

// ---- part (c): nested use of the global parser pool (LOOKUP JOIN re-runs a JSON source while another one is mid-flight) ----

func c29Nested(r *findings.Run) {
	if r.ShardChild() {
		return
	}
	dir := tablesDir()
	small, _ := jsonSchedFile(dir, 5, -1)
	// 9000 lines = 141 batches: more than the 128 output tokens of one source, so every bounded queue of the pipeline fills up
	sizes, procsList := []int{200, 1000, 9000}, []int{1, 4}
	if r.Thorough() {
		sizes, procsList = []int{200, 1000, 2000, 3000, 9000, 20000}, []int{1, 2, 4}
	}
	for _, lines := range sizes {
		left, _ := jsonSchedFile(dir, lines, -1)
		for _, procs := range procsList {
			for _, q := range []string{
				fmt.Sprintf("SELECT COUNT(*) AS c FROM %s a LOOKUP JOIN %s b ON a.i = b.i", left, small),
				fmt.Sprintf("SELECT COUNT(*) AS c FROM %s a LOOKUP JOIN (SELECT * FROM %s c LIMIT 1) b ON a.i >= b.i", left, small),
				fmt.Sprintf("SELECT COUNT(*) AS c FROM %s a WHERE a.i IN (SELECT b.i FROM %s b)", left, small),
			} {
				args := sqlArgs(q, "json", true)
				res := runner.RunBinary(args, nil, fmt.Sprintf("GOMAXPROCS=%d", procs))
				r.Eval(1)
				r.AddCounts(1, 1, 1)
				if res.Hang {
					// a deadlock is permanent: it must reproduce
					res = runner.RunBinary(args, nil, fmt.Sprintf("GOMAXPROCS=%d", procs))
				}
				cs := map[string]interface{}{"sql": q, "gomaxprocs": procs, "left_lines": lines}
				r.Outcome(fmt.Sprintf("nested-pool-use procs=%d %s", procs, res.Class()))
				switch {
				case res.Hang:
					r.Violation("C29/nested-json-sources/no-termination", fmt.Sprintf("GOMAXPROCS=%d: %s did not finish within 90 s (twice)", procs, q), cs)
					return // every further scenario would cost another 3 minutes
				case res.Crash != "":
					r.Violation("C29/nested-json-sources/crash", fmt.Sprintf("GOMAXPROCS=%d: %s crashed: %s", procs, q, oneLineC04(res.Crash)), cs)
				case res.Exit != 0:
					r.Violation("C29/nested-json-sources/error", fmt.Sprintf("GOMAXPROCS=%d: %s failed: %s", procs, q, oneLineC04(res.Err)), cs)
				default:
					r.Nontrivial(fmt.Sprint(cs))
				}
			}
		}
	}
}

// ---- race pass: the same kinds of executions, free running, under the race detector ----

var raceHead = regexp.MustCompile(`(?m)^(Read|Write|Previous read|Previous write) at .*\n((?:  .*\n)+)`)
var raceFn = regexp.MustCompile(`github\.com/cube2222/octosql/[^\s(]+`)

func raceFingerprints(stderr string) []string {
	var out []string
	for _, rep := range strings.Split(stderr, "WARNING: DATA RACE")[1:] {
		var fns []string
		for _, m := range raceHead.FindAllStringSubmatch(rep, 2) {
			f := raceFn.FindString(m[2])
			if f == "" {
				f = "?"
			}
			fns = append(fns, strings.TrimPrefix(f, "github.com/cube2222/octosql/"))
		}
		out = append(out, strings.Join(fns, "<->"))
	}
	return out
}

func c29Races(r *findings.Run) {
	if r.ShardChild() {
		return
	}
	// build the in-process worker with the race detector
	verifDir := findings.VerifDir()
	build := exec.Command("go", "build", "-race", "-tags", "verif", "-o", filepath.Join(verifDir, ".cache", "bin", "vrun-race"), "./cmd/vrun")
	build.Dir = filepath.Join(verifDir, "harness")
	if out, err := build.CombinedOutput(); err != nil {
		fmt.Printf("HARNESS ERROR: cannot build vrun with -race: %v\n%s\n", err, out)
		panic("race build failed")
	}
	dir := tablesDir()
	big, _ := jsonSchedFile(dir, 8400, -1)
	bad, _ := jsonSchedFile(dir, 400, 399)
	small, _ := jsonSchedFile(dir, 300, -1)
	mid, _ := jsonSchedFile(dir, 700, -1)
	q := func(sql string, mode string) runner.BatchReq {
		return runner.BatchReq{Args: sqlArgs(sql, mode, true)}
	}
	reqs := []runner.BatchReq{
		q(fmt.Sprintf("SELECT COUNT(*) AS c FROM %s t", big), "json"),
		q(fmt.Sprintf("SELECT * FROM %s t LIMIT 1", big), "json"),
		q(fmt.Sprintf("SELECT * FROM %s t LIMIT 65", big), "csv"),
		q(fmt.Sprintf("SELECT t.i FROM %s t ORDER BY t.i DESC LIMIT 3", big), "json"),
		q(fmt.Sprintf("SELECT * FROM %s t", bad), "json"),
		q(fmt.Sprintf("SELECT COUNT(*) AS c FROM %s a JOIN %s b ON a.i = b.i WHERE a.s LIKE 'r1%%' AND b.s ~ 'r.*' AND b.s ~* 'R1.*'", mid, mid), "json"),
		q(fmt.Sprintf("SELECT COUNT(*) AS c FROM %s a LEFT JOIN %s b ON a.i = b.i WHERE a.s LIKE 'r2%%' OR b.s LIKE 'r2_'", mid, small), "json"),
		q(fmt.Sprintf("SELECT COUNT(*) AS c FROM %s a OUTER JOIN %s b ON a.i = b.i", small, mid), "batch_table"),
		q(fmt.Sprintf("SELECT a.i FROM %s a JOIN %s b ON a.i = b.i LIMIT 2", mid, big), "json"),
		q(fmt.Sprintf("SELECT a.i FROM %s a JOIN %s b ON a.i = b.i", small, bad), "json"),
		q(fmt.Sprintf("SELECT a.i, b.i FROM %s a LOOKUP JOIN (SELECT * FROM %s c LIMIT 1) b ON a.i >= b.i", small, mid), "json"),
		q(fmt.Sprintf("SELECT DISTINCT a.s FROM %s a JOIN %s b ON a.i = b.i WHERE b.s ~ '^r[0-9]$'", small, small), "json"),
		q(fmt.Sprintf("SELECT a.i FROM %s a WHERE a.i IN (SELECT b.i FROM %s b WHERE b.s LIKE 'r1%%') ORDER BY a.i LIMIT 5", small, mid), "stream_native"),
		q(fmt.Sprintf("SELECT COUNT(*) AS c FROM %s t", small), "json"),
		// stdin can be read once per process (the real binary runs one query per process), so one stdin scenario only,
		// and it is the LAST request: the reader goroutine abandoned by the LIMIT keeps reading descriptor 0, which in
		// this in-process worker becomes the request pipe again afterwards (it would swallow the next request)
		{Args: sqlArgs("SELECT * FROM stdin.json t LIMIT 70", "json", true), Stdin: big},
	}
	for _, procs := range []int{1, 2, 4, 16} {
		res, stderr, exit, hang := runner.RunBatch("vrun-race", reqs, 10*time.Minute, fmt.Sprintf("GOMAXPROCS=%d", procs), "GORACE=halt_on_error=0")
		r.Eval(int64(len(res)))
		r.Sum("race_pass_queries", int64(len(res)))
		if hang {
			hung := ""
			if len(res) < len(reqs) {
				hung = reqs[len(res)].Args[0]
			}
			r.Violation("C29/race-pass/hang", fmt.Sprintf("GOMAXPROCS=%d: the free-running batch did not finish within 10 minutes (after %d of %d queries; running: %s)", procs, len(res), len(reqs), hung), map[string]interface{}{"gomaxprocs": procs, "completed": len(res), "query_running": hung})
			return // every further pool size would cost another 10 minutes
		}
		for i, x := range res {
			// vacuity guard: every scenario must really execute (only the file with the malformed line may fail)
			wantErr := strings.Contains(reqs[i].Args[0], bad)
			if x.Crash == "" && (x.Err != "") != wantErr {
				fmt.Printf("HARNESS ERROR: race-pass scenario %d (%s) ended unexpectedly: err=%q\n", i, reqs[i].Args[0], x.Err)
				panic("race pass scenario did not run as intended")
			}
			if x.Crash != "" {
				r.Violation("C29/race-pass/crash", fmt.Sprintf("GOMAXPROCS=%d: worker died during query %d (%v): %s", procs, i, reqs[i].Args[0], oneLineC04(stderr)), map[string]interface{}{"gomaxprocs": procs, "query": reqs[i].Args[0]})
			}
		}
		fps := raceFingerprints(stderr)
		r.Outcome(fmt.Sprintf("race pass GOMAXPROCS=%d races=%d exit=%d", procs, len(fps), exit))
		seen := map[string]bool{}
		for _, fp := range fps {
			if seen[fp] {
				continue
			}
			seen[fp] = true
			idx := strings.Index(stderr, "WARNING: DATA RACE")
			excerpt := stderr[idx:]
			if len(excerpt) > 3000 {
				excerpt = excerpt[:3000]
			}
			r.Violation("C29/data-race/"+fp, fmt.Sprintf("GOMAXPROCS=%d: the race detector reports a data race between %s", procs, fp), map[string]interface{}{"gomaxprocs": procs, "report_excerpt": excerpt, "queries": len(reqs)})
		}
	}
}

func init() {
	register("C29", "model_checking", func(r *findings.Run) {
		defer cleanupTables()
		r.Rule = "termination, exhaustively over schedules: (a) the real JSON reader/worker-pool/reorder pipeline under the H2 controller: every delivery order of the parsed batches (pools of 1, 2, 4 workers) x consumer stopping after record j in {1,64,65,last} x a malformed line in a later batch, plus 8400-line files (more batches than the 128-slot output channel) within a deviation bound, each followed by a plain JSON query in the same process (the pool is global); (b) the four join kinds under the H1 controller: every interleaving x consumer stopping after 1 or 2 outputs x a source failing at every position; Run must return. (c) nested use of the global parser pool: a JSON source re-run for every record of a 200/1000/9000-line (thorough: also 2000/3000/20000) JSON source, the largest with more batches than one source's 128 output tokens, (LOOKUP JOIN, IN-subquery) on the real binary with GOMAXPROCS 1, 2, 4 must finish. (d) data races: a separate free-running pass of 15 query scenarios (JSON scans with LIMIT/errors, joins with LIKE/~/~* in both branches, outer joins, lookup join over a LIMITed JSON source, IN-subquery, stdin) in a -race build with GOMAXPROCS 1,2,4,16; state = (scenario, schedule prefix)"
		r.Assume("a controlled execution that has not returned after 120 s is reported as stuck", "the race pass is NOT schedule-exhaustive: a cooperative controller's hand-offs hide races from the detector, so races are looked for in free-running executions only",
			"hooks H1 and H2 report every step; one message/batch decision at a time")
		r.Bound = map[string]interface{}{"json_sizes": []int{65, 129, 200, 321, 8400}, "json_worker_pools": []int{1, 2, 4}, "big_file_deviation_bound": r.Pick(0, 1), "join_events_per_side": 2, "race_pass_gomaxprocs": []int{1, 2, 4, 16}}
		c29JSON(r)
		c29Joins(r)
		c29Nested(r)
		c29Races(r)
	})
}
