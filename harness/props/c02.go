package props

import (
	"fmt"
	"time"

	"github.com/cube2222/octosql/octosql"

	"verif/harness/internal/enum"
	"verif/harness/internal/findings"
	. "verif/harness/internal/refsql"
	"verif/harness/internal/runner"
	"verif/harness/internal/stream"
)

func c02Tables(maxRows int) (ls, rs [][][]V) {
	lc := [][]V{{Null, Int(1)}, {Int(1), Int(1)}, {Int(1), Int(2)}, {Int(2), Int(1)}}
	rc := [][]V{{Null, Int(1)}, {Int(1), Int(1)}, {Int(1), Int(3)}, {Int(2), Int(2)}}
	enum.Multisets(len(lc), maxRows, func(ms []int) {
		var t [][]V
		for _, i := range ms {
			t = append(t, lc[i])
		}
		ls = append(ls, t)
	})
	enum.Multisets(len(rc), maxRows, func(ms []int) {
		var t [][]V
		for _, i := range ms {
			t = append(t, rc[i])
		}
		rs = append(rs, t)
	})
	return
}

type c02Shape struct {
	name string
	mk   func(l, r *Table) *Query
}

func c02Shapes() []c02Shape {
	star := []Proj{{Star: true}}
	eq := func() *Expr { return Op("=", Col("l.k"), Col("r.k")) }
	join := func(kind string, l, r *Table, on *Expr) *From {
		return &From{Join: &Join{Kind: kind, L: &From{Table: l}, R: &From{Table: r}, On: on}}
	}
	q := func(f *From, where *Expr, proj []Proj) *Query {
		x := NewQuery()
		x.From = f
		x.Where = where
		x.Proj = proj
		return x
	}
	return []c02Shape{
		{"inner-eq", func(l, r *Table) *Query { return q(join("JOIN", l, r, eq()), nil, star) }},
		{"inner-eq-flipped", func(l, r *Table) *Query { return q(join("JOIN", l, r, Op("=", Col("r.k"), Col("l.k"))), nil, star) }},
		{"inner-eq-and-lt", func(l, r *Table) *Query {
			return q(join("JOIN", l, r, Op("and", eq(), Op("<", Col("l.v"), Col("r.w")))), nil, star)
		}},
		{"inner-theta-lt", func(l, r *Table) *Query { return q(join("JOIN", l, r, Op("<", Col("l.k"), Col("r.k"))), nil, star) }},
		{"inner-2key", func(l, r *Table) *Query {
			return q(join("JOIN", l, r, Op("and", eq(), Op("=", Col("l.v"), Col("r.w")))), nil, star)
		}},
		{"inner-expr-key", func(l, r *Table) *Query {
			return q(join("JOIN", l, r, Op("=", Op("+", Col("l.k"), Lit(Int(1))), Col("r.k"))), nil, star)
		}},
		{"inner-eq-where-left", func(l, r *Table) *Query { return q(join("JOIN", l, r, eq()), Op("=", Col("l.v"), Lit(Int(1))), star) }},
		{"inner-eq-where-right", func(l, r *Table) *Query { return q(join("JOIN", l, r, eq()), Op(">", Col("r.w"), Lit(Int(1))), star) }},
		{"inner-where-only", func(l, r *Table) *Query {
			return q(join("JOIN", l, r, Lit(Bool(true))), Op("and", eq(), Op("isnotnull", Col("l.v"))), star)
		}},
		{"inner-using", func(l, r *Table) *Query {
			f := join("JOIN", l, r, nil)
			f.Join.Using = []string{"k"}
			return q(f, nil, []Proj{{E: Col("l.v")}, {E: Col("r.w")}})
		}},
		{"lookup-eq", func(l, r *Table) *Query { return q(join("LOOKUP JOIN", l, r, eq()), nil, star) }},
		{"lookup-eq-where", func(l, r *Table) *Query {
			return q(join("LOOKUP JOIN", l, r, eq()), Op("=", Col("r.w"), Lit(Int(1))), star)
		}},
		{"left-eq", func(l, r *Table) *Query { return q(join("LEFT JOIN", l, r, eq()), nil, star) }},
		{"right-eq", func(l, r *Table) *Query { return q(join("RIGHT JOIN", l, r, eq()), nil, star) }},
		{"outer-eq", func(l, r *Table) *Query { return q(join("OUTER JOIN", l, r, eq()), nil, star) }},
		{"left-2key", func(l, r *Table) *Query {
			return q(join("LEFT JOIN", l, r, Op("and", eq(), Op("=", Col("l.v"), Col("r.w")))), nil, star)
		}},
		{"left-eq-where-isnull", func(l, r *Table) *Query {
			return q(join("LEFT JOIN", l, r, eq()), Op("isnull", Col("r.w")), star)
		}},
		{"nested-3", func(l, r *Table) *Query {
			l2 := *l
			l2.Alias = "m"
			inner := join("JOIN", l, r, eq())
			f := &From{Join: &Join{Kind: "JOIN", L: inner, R: &From{Table: &l2}, On: Op("=", Col("r.k"), Col("m.k"))}}
			return q(f, nil, star)
		}},
		{"nested-left-then-inner", func(l, r *Table) *Query {
			l2 := *l
			l2.Alias = "m"
			inner := join("LEFT JOIN", l, r, eq())
			f := &From{Join: &Join{Kind: "JOIN", L: inner, R: &From{Table: &l2}, On: Op("=", Col("l.v"), Col("m.v"))}}
			return q(f, nil, star)
		}},
	}
}

func init() {
	register("C02", "model_checking", func(r *findings.Run) {
		defer cleanupTables()
		pool := runner.NewPool(0)
		defer pool.Close()
		ls, rs := c02Tables(r.Pick(2, 3))
		shapes := c02Shapes()
		type cs struct {
			shape string
			q     *Query
			opt   bool
		}
		var cases []cs
		for _, lrows := range ls {
			for _, rrows := range rs {
				l := mkCSV("l", []string{"k", "v"}, lrows)
				rt := mkCSV("r", []string{"k", "w"}, rrows)
				for _, s := range shapes {
					q := s.mk(l, rt)
					cases = append(cases, cs{s.name, q, true}, cs{s.name, q, false})
				}
			}
		}
		joinLen := r.Pick(2, 3)
		r.Bound = map[string]interface{}{"rows_per_side": r.Pick(2, 3), "left_tables": len(ls), "right_tables": len(rs), "query_shapes": len(shapes), "sql_cases": len(cases), "schedule_events_per_side": joinLen}
		r.Rule = "part A: 19 join query shapes (inner eq / flipped / eq+lt / theta / 2 keys / expression key / WHERE conjuncts / USING / LOOKUP / LEFT / RIGHT / OUTER / nested) x every pair of multisets of <=2 (3) rows over 4 candidate rows per side (NULL and duplicate keys) x optimizer on/off through the real root command vs the reference nested-loop join; part B: the real StreamJoin/OuterJoin nodes under every interleaving of every pair of scripts (keys {NULL,1}, duplicates, <=2 (3) records per side, zero event times; a changelog-vs-one-row family with retractions; a family with event times {1,2} and per-side watermarks) via the join controller: final output must equal the SQL join whichever side ends first; non-trivial = case with at least one matching and one non-matching pair"
		r.Assume("equality never matches NULL", "rejections at typecheck are counted (e.g. non-equality outer join predicates)", "hook H1 for part B")
		cache := newFPCache()
		if r.ShardChild() {
			cases = nil // part A is done once, by the parent process
		}
		enum.Parallel(len(cases), func(i int) {
			if r.TimeUp() {
				return
			}
			c := cases[i]
			v := judge(pool, c.q, c.opt)
			r.Eval(1)
			switch v.Class {
			case "rejected":
				r.Reject(1)
				r.Outcome("rejected/" + c.shape)
				return
			case "ambiguous":
				return
			case "harness-unresolved":
				panic("reference cannot evaluate: " + c.q.SQL() + ": " + v.Why)
			}
			r.Outcome(orOK(v.Class))
			want, _ := Eval(c.q)
			if len(want.Rows) > 0 {
				r.Nontrivial(fmt.Sprint(c.q.SQL(), c.opt))
			}
			if v.Class != "" {
				opt := c.opt
				prop := "C02/optimize=" + fmt.Sprint(opt)
				reportMismatch(r, cache, prop, c.q, v, sqlArgs(c.q.SQL(), "json", opt), func(q *Query) verdict { return judge(pool, q, opt) })
			} else if i%1900 == 5 {
				s := mkCase(c.q, sqlArgs(c.q.SQL(), "json", c.opt))
				s.Got = RowsString(v.Got)
				r.Sample(s)
			}
		})
		pool.Close()

		// part B: schedules
		jopts := stream.ScriptOpts{Keys: []int{-1, 1}, Payloads: []int{1, 2}, Times: []int{0}, MaxLen: joinLen}
		js := stream.GenScripts(jopts)
		type jjob struct {
			k    joinKind
			l, r []stream.Ev
		}
		var jjobs []jjob
		for _, k := range joinKinds {
			for _, l := range js {
				for _, rr := range js {
					jjobs = append(jjobs, jjob{k, l, rr})
				}
			}
		}
		// asymmetric family with retractions: nested joins feed a join a changelog (insert, retraction, re-insert of the
		// same key), so each node must also be right when one input is such a changelog and the other sends one row
		{
			long := stream.GenScripts(stream.ScriptOpts{Keys: []int{-1, 1}, Payloads: []int{1}, Times: []int{0}, MaxLen: r.Pick(3, 4), Retractions: true})
			short := stream.GenScripts(stream.ScriptOpts{Keys: []int{-1, 1}, Payloads: []int{1}, Times: []int{0}, MaxLen: 1})
			for _, k := range joinKinds {
				for _, l := range long {
					if len(l) < 3 {
						continue
					}
					for _, s := range short {
						jjobs = append(jjobs, jjob{k, l, s}, jjob{k, s, l})
					}
				}
			}
		}
		// event-time family: records with event times {1,2} and per-side watermarks go through the join's event-time buffers
		// (released by the minimum watermark, the rest at the end of both inputs); the final output must still be the SQL join
		{
			ts := stream.GenScripts(stream.ScriptOpts{Keys: []int{-1, 1}, Payloads: []int{1}, Times: []int{1, 2}, MaxLen: joinLen, Watermarks: true})
			for _, k := range joinKinds {
				for _, l := range ts {
					for _, rr := range ts {
						jjobs = append(jjobs, jjob{k, l, rr})
					}
				}
			}
			r.Extra["event_time_scripts"] = len(ts)
		}
		r.Extra["schedule_script_pairs"] = len(jjobs)
		r.Sharded(16, 1, func(shard, n int) {
			for i, j := range jjobs {
				if i%n != shard {
					continue
				}
				stream.Schedules(len(j.l)+1, len(j.r)+1, func(s []int) bool {
					sched := append([]int{}, s...)
					res := stream.RunJoin(buildJoin(j.k, 2), j.l, j.r, sched, 0)
					r.AddCounts(1, int64(len(sched)), 1)
					r.Sum("join_schedules", 1)
					cs := c19Case{Kind: j.k.Name, Left: stream.Strs(j.l), Right: stream.Strs(j.r), Schedule: stream.SchedStr(sched), Log: stream.LogStrs(res.Log)}
					if res.Stuck || res.Panic != nil || res.Err != nil {
						r.Violation("C02/node/"+j.k.Name+"/abnormal", fmt.Sprintf("%v: stuck=%v panic=%v err=%v", cs, res.Stuck, res.Panic, res.Err), cs)
						return true
					}
					want := refJoin(j.k, consolidateScript(j.l, time.Time{}, true), consolidateScript(j.r, time.Time{}, true), 2)
					got := consolidateLog(res.Log, len(res.Log))
					if !got.Equal(want) {
						cs.Got, cs.Want = got.String(), want.String()
						nullKey := ""
						for _, e := range append(append([]stream.Ev{}, j.l...), j.r...) {
							if e.Kind == stream.Rec && e.Vals[0].TypeID == octosql.TypeIDNull {
								nullKey = "/null-key-involved"
							}
						}
						r.Violation("C02/node/"+j.k.Name+"/"+diffClass(got, want)+nullKey,
							fmt.Sprintf("%s join node, left %v right %v schedule %s: final output %s != SQL join %s", j.k.Name, cs.Left, cs.Right, cs.Schedule, got, want), cs)
					} else if len(want) > 0 {
						r.Nontrivial(fmt.Sprint(cs.Kind, cs.Left, cs.Right, cs.Schedule))
					}
					return true
				})
			}
		})
	})
}
