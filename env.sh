# sourced by check and setup.sh; VERIF_DIR defaults to the directory holding this file
export VERIF_DIR=${VERIF_DIR:-$(cd "$(dirname "${BASH_SOURCE[0]}")" && pwd)}
export GOFLAGS=-mod=mod GOPROXY=off GOSUMDB=off GOTOOLCHAIN=local
export GOMODCACHE=${GOMODCACHE:-/root/go/pkg/mod}
export GOCACHE=${VERIF_GOCACHE:-/verif/.cache/gocache}
export OCTOSQL_NO_TELEMETRY=1
export REPO_DIR=${REPO_DIR:-/repo}
mkdir -p $VERIF_DIR/.cache/bin $GOCACHE
