# sourced by check and setup.sh
export GOFLAGS=-mod=mod GOPROXY=off GOSUMDB=off GOTOOLCHAIN=local
export GOMODCACHE=${GOMODCACHE:-/root/go/pkg/mod}
export GOCACHE=/verif/.cache/gocache
export OCTOSQL_NO_TELEMETRY=1
export VERIF_DIR=/verif
export REPO_DIR=${REPO_DIR:-/repo}
mkdir -p /verif/.cache/bin /verif/.cache/gocache
