#!/bin/bash
# regenerates harness/go.mod from /repo/go.mod (require block + replace of parquet-go must be carried over)
set -e
cd "$(dirname "$0")"
. ./env.sh
cd harness
{
  echo "module verif/harness"
  echo
  echo "go 1.22"
  echo
  awk '/^require \(/{p=1} p{print} /^\)/{p=0}' $REPO_DIR/go.mod
  echo "require github.com/cube2222/octosql v0.0.0"
  echo "replace github.com/cube2222/octosql => $REPO_DIR"
  grep '^replace ' $REPO_DIR/go.mod
} > go.mod.new
if ! cmp -s go.mod.new go.mod.gen 2>/dev/null; then
  cp go.mod.new go.mod; cp go.mod.new go.mod.gen
  cp $REPO_DIR/go.sum go.sum
fi
rm -f go.mod.new
