#!/bin/bash
# ./mutate.sh <patch> <ID> [tier] [--notests]
# Applies a property-breaking patch to /repo, checks that it compiles and that the repo's own test
# suite still passes, runs the check (expected: exit 1 with a VIOLATION line), then reverts /repo.
set -u
SELF=$(dirname "$(readlink -f "$0")")
PATCH=$(readlink -f "$1"); ID=$2; TIER=${3:-quick}; NOTESTS=${4:-}
. "$SELF/env.sh"
LOG=$(mktemp -d)
cd ${REPO_DIR:-/repo}
if ! git diff --quiet; then echo "mutate: /repo has uncommitted changes"; exit 2; fi
git apply "$PATCH" || { echo "mutate: patch does not apply"; exit 2; }
trap 'git -C ${REPO_DIR:-/repo} checkout -- . ; git -C ${REPO_DIR:-/repo} clean -fdq; rm -rf $LOG' EXIT
if [ -z "$NOTESTS" ]; then
  if ! go build ./... 2>$LOG/build.log; then echo "mutate: does not compile"; cat $LOG/build.log; exit 2; fi
  if ! go test -vet=off -count=1 ./... >$LOG/tests.log 2>&1; then echo "mutate: repo tests FAIL with this patch (not a valid mutant)"; tail -5 $LOG/tests.log; exit 2; fi
  echo "mutate: repo tests pass with patch"
fi
cd "$SELF"
./check "$ID" "$TIER" > $LOG/check.log 2>&1
rc=$?
grep -E "^VIOLATION|^KNOWN-FINDING" $LOG/check.log | head -5
tail -1 $LOG/check.log
if [ $rc -eq 1 ] && grep -q "^VIOLATION property=$ID" $LOG/check.log; then echo "mutate: DETECTED ($PATCH by $ID $TIER)"; exit 0; fi
echo "mutate: NOT DETECTED (rc=$rc)"; exit 1
