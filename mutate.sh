#!/bin/bash
# ./mutate.sh <patch> <ID> [tier] [--notests]
# Applies a property-breaking patch to /repo, checks that it compiles and that the repo's own test
# suite still passes, runs the check (expected: exit 1 with a VIOLATION line), then reverts /repo.
set -u
PATCH=$(readlink -f "$1"); ID=$2; TIER=${3:-quick}; NOTESTS=${4:-}
. "$(dirname "$(readlink -f "$0")")/env.sh"
cd ${REPO_DIR:-/repo}
if ! git diff --quiet; then echo "mutate: /repo has uncommitted changes"; exit 2; fi
git apply "$PATCH" || { echo "mutate: patch does not apply"; exit 2; }
trap 'git -C ${REPO_DIR:-/repo} checkout -- . ; git -C ${REPO_DIR:-/repo} clean -fdq' EXIT
if [ -z "$NOTESTS" ]; then
  if ! go build ./... 2>/tmp/mutate_build.log; then echo "mutate: does not compile"; cat /tmp/mutate_build.log; exit 2; fi
  if ! go test -vet=off -count=1 ./... >/tmp/mutate_tests.log 2>&1; then echo "mutate: repo tests FAIL with this patch (not a valid mutant)"; tail -5 /tmp/mutate_tests.log; exit 2; fi
  echo "mutate: repo tests pass with patch"
fi
cd "$(dirname "$(readlink -f "$0")")"
./check "$ID" "$TIER" > /tmp/mutate_check.log 2>&1
rc=$?
grep -E "^VIOLATION|^KNOWN-FINDING" /tmp/mutate_check.log | head -5
tail -1 /tmp/mutate_check.log
if [ $rc -eq 1 ] && grep -q "^VIOLATION property=$ID" /tmp/mutate_check.log; then echo "mutate: DETECTED ($PATCH by $ID $TIER)"; exit 0; fi
echo "mutate: NOT DETECTED (rc=$rc)"; exit 1
