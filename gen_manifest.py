#!/usr/bin/env python3
"""Regenerates MANIFEST.json from the table below (keeps it schema-valid)."""
import json, subprocess
props = [json.loads(l) for l in open('/verif/properties.jsonl')]
ids = [p['id'] for p in props]
# id -> (category, technique, text, note, design_ref)
checks = {
 'C01': ('exploration', 'grammar-bounded exhaustive query x table enumeration through the real root command (in-process) against a reference SQL evaluator',
         'About 18k (query, table) cases: WHERE trees over 10 atoms, projections, DISTINCT, ORDER BY, LIMIT, FROM-subquery and WITH nestings over a table holding the whole 48-row NULL-heavy domain and over every small multiset of rows, as CSV (Int) and JSON (Float); printed rows must equal the reference as a multiset, in order under ORDER BY (tie groups as multisets).',
         'Bounded grammar and domains; nested LIMIT that admits several answers is skipped; typecheck rejections counted.', '3/C01'),
 'C02': ('model_checking', 'exhaustive query-shape x table-pair enumeration through the real root command (optimizer on and off) + exhaustive schedule enumeration of the real join nodes (hook H1)',
         '19 join shapes (inner/theta/multi-key/expression key/WHERE conjuncts/USING/LOOKUP/LEFT/RIGHT/OUTER/nested) x every pair of small row multisets with NULL and duplicate keys x optimize on/off vs a reference nested-loop join; the StreamJoin/OuterJoin nodes under every interleaving of every pair of scripts incl. NULL keys: final output = SQL join whichever side ends first.',
         'Bounded rows per side; hook H1 for the schedule part.', '3/C02'),
 'C05': ('exploration', 'exhaustive enumeration of LIMIT x ORDER BY x row multisets x placement x all five output modes through the real root command, with a parser per output format',
         'LIMIT 0..4, four ORDER BY forms, every multiset of <=4 rows over 3 (4) distinct rows, top level / nested in FROM / over a retracting counting-triggered GROUP BY, in live_table, batch_table, csv, json and stream_native: exactly min(n,N) rows, the first n of the sort order, duplicates counted individually.',
         'Short comma/quote-free values so all formats parse unambiguously; tie order unspecified.', '3/C05'),
 'C08': ('exploration', 'exhaustive enumeration of well-typed expressions/queries through the real typecheck->materialize->evaluate path with a conformance predicate on every produced value',
         'Every function descriptor on every well-typed argument combination over a 42-atom alphabet (T and T|NULL variables, unions, Any, literals), casts, COALESCE, field access, indexing, tuples, AND/OR, IN, compositions of depth 2; 3.4k queries over a harness database (aggregates over all-NULL groups and empty tables, every join kind, subquery expressions) with and without the optimizer: each runtime value must belong to the static type.',
         'Only sources whose values match their schema; panics/rejections counted, not judged.', '3/C08'),
 'C09': ('exploration', 'exhaustive pair/triple enumeration over a value universe on the real Compare/Hash/CompareValueSlices/HashManyValues',
         'All pairs and triples of an 86-value (1091 thorough) universe incl. NaN payloads, signed zeros, infinities, instants in two locations, nested lists/objects/tuples: reflexive, antisymmetric, transitive, equal => same hash, bytewise strings, NULL first.',
         'Finite universe; the CLI-observable half (ORDER BY/GROUP BY/DISTINCT agreeing) is covered through C01/C03 query checks, not here.', '3/C09'),
 'C10': ('model_checking', 'explicit-state closure of the type constructors (BFS, structural dedup) with the algebra laws checked on every state and state pair',
         'Types reachable from the primitives by List/Struct/Tuple/TypeSum to depth 2 (3 restricted, thorough); Is reflexive, TypeSum upper bound/commutative/idempotent, TypeIntersection contained in both, NonNullable, value-in-its-own-type for the C09 universe.',
         'Only constructor-built types; pair laws over {depth<=1} x all states.', '3/C10'),
 'C11': ('exploration', 'exhaustive enumeration of boolean expression trees x {T,F,N}^3 through the real typecheck+materialize+evaluate path',
         'All AND/OR/NOT trees of depth <=2 (3 thorough, up to variable renaming) under all 27 assignments vs a Kleene reference; every Strict function descriptor with NULL in every argument subset; IS [NOT] NULL on every value kind; the real Filter node keeps exactly TRUE rows.',
         'Depth bound; depth-3 trees one representative per variable renaming.', '3/C11'),
 'C12': ('exploration', 'exhaustive (string, pattern) pair enumeration over a 22-symbol metacharacter/multibyte alphabet on the real function implementations',
         'LIKE vs a recursive rune matcher (cross-checked with a second model), ~ and ~* vs Go regexp, upper/lower/replace/reverse/substr/position/len vs plain Go, all strings <=2 x patterns <=2 (3 thorough).',
         'Byte- or rune-indexed answers both accepted for substr/position/len; dangling escapes undefined.', '3/C12'),
 'C13': ('exploration', 'exhaustive argument-tuple enumeration over edge-value alphabets through the real typecheck+materialize+evaluate path',
         'Every descriptor of the arithmetic/conversion/time functions, IN/NOT IN, COALESCE and list indexing on all tuples of boundary values vs plain Go arithmetic; undefined cases skipped.',
         'Only what descriptions/the statement define is judged (division by zero, int(NaN) etc. skipped).', '3/C13'),
 'C14': ('model_checking', 'explicit-state exploration of add/retract histories replayed on fresh instances of the real aggregates, compared with a from-scratch reference and a fresh-instance differential',
         'All prefix-valid add/retract histories up to length 6 (8 thorough) over 3 values per type for every aggregate descriptor; Trigger() checked at every prefix with a non-empty net multiset.',
         'Bounded history length and value domains; NaN/signed zero excluded (C09); float sums within 1e-9 relative tolerance.', '3/C14'),
 'C15': ('model_checking', 'explicit-state exploration of valid changelogs on every real execution node + exhaustive schedule enumeration for the joins (hook H1)',
         'Every valid changelog up to the length bound on each single-input node (filter, map, distinct, simple and triggered group-by, order by, event-time buffer, lookup join, unnest) and every interleaving of every pair of per-side changelogs on the four join kinds; checks the output never retracts an absent row and that the consolidated output equals the batch operator on the consolidated input.',
         'Bounded length/alphabet; NULL join keys excluded here (C02); LIMIT not in the property list.', '3/C15'),
 'C16': ('model_checking', 'explicit-state exploration of watermarked streams x all trigger configurations on the real group-by nodes',
         'All 19 trigger configurations x every valid watermarked stream (retractions, same instant in two time zones, zero event times) up to the length bound; final consolidated output must equal the batch grouping.',
         'Bounded length; no late records; trigger stacks built as the planner builds them.', '3/C16'),
 'C17': ('model_checking', 'same explorer as C16 with a step-wise reference trigger model',
         'At every COUNTING firing point, every forwarded watermark and at end of stream the consolidated output is compared with the reference trigger model.',
         'COUNTING oracle evaluated on zero-event-time streams (processing order = arrival order); no late records.', '3/C17'),
 'C18': ('model_checking', 'explicit-state exploration of watermarked changelogs on every real node/TVF/pipeline + exhaustive schedule enumeration for joins (hook H1)',
         'Every valid watermarked changelog up to the length bound through every single-input node, the event-time buffer (exact release order oracle), tumble, max_diff_watermark, a max_diff_watermark->tumble->group-by pipeline, and every interleaving of watermarked per-side scripts through the four joins and join->group-by: watermarks never regress and no record is emitted with a non-zero event time at or below a forwarded watermark.',
         'No late input records (a zero-event-time record after a watermark on the same input counts as late: weaker reading); bounded length.', '3/C18'),
 'C20': ('exploration', 'exhaustive time-sequence x configuration enumeration on the real max_diff_watermark node',
         'All time sequences up to length 4 (6 thorough) over 7 instants incl. one before 1970, x max_diff {0,1s,2s} x resolution {default,1s,2s}: watermark value, strict increase, emission whenever it grows, pass/drop rule and event time.',
         'max_diff<0 and resolution<=0 out of contract.', '3/C20'),
 'C21': ('exploration', 'exhaustive enumeration of times/lengths/offsets (tumble), (start,end) pairs (range) and snapshot triples (poll) on the real nodes',
         'tumble window laws with big-integer arithmetic from Go zero time; range emits [start,end) once ascending; poll rounds = retractions of previous snapshot, current snapshot, watermark.',
         'Real clock of poll only observed through order relations.', '3/C21'),
 'C22': ('model_checking', 'explicit-state exploration of changelogs with watermarks on the real output wrapper',
         'Every valid changelog with watermarks up to length 5 (7 thorough): at each forwarded watermark emitted == input up to it, nothing emitted that was not in the input, everything emitted by end of stream.',
         'No late records; retraction event time not before its insert.', '3/C22'),
 'C25': ('exploration', 'exhaustive enumeration of edge-case strings/numbers/nested values through the real JSON and CSV formatters, decoded by independent decoders',
         'Every byte 0x00-0x7F, multibyte and invalid UTF-8, all ordered pairs (triples thorough) over a 22-char edge set, numeric extremes, NaN/Inf, nested values, union-typed columns: each JSON line must be valid JSON decoding to the row; each CSV record decodes (own RFC 4180 decoder) to the scalar texts.',
         'Time/Duration text not judged; nested values in CSV out of scope; invalid UTF-8 only needs a valid line.', '3/C25'),
 'C30': ('exploration', 'grammar-based exhaustive statement enumeration + corpus mutation through Parse/String/Parse with a strict structural tree diff',
         'Depth-bounded generator covering every OctoSQL extension in sql.y, every string literal of the vendored parser tests and tests/scenarios queries (and their one-word mutations, thorough): print, re-parse, trees must be equal and printing idempotent.',
         'Statements the parser rejects are counted, not judged.', '3/C30'),
 'C19': ('model_checking', 'stateless exhaustive schedule enumeration of the real join loops under a controller (hook H1)',
         'Every interleaving of every pair of valid per-side scripts (bounded length, 2 keys, 3 times, plus a retraction family) is executed on the real StreamJoin/OuterJoin; at every forwarded watermark and at end of stream the consolidated output must equal the reference join of the inputs up to that point.',
         'Assumes hook H1 reports every message taken (one message in flight at a time, so the schedule is the order the join sees); bounded script length; values compared, not output event times.', '3/C19'),
}
na_reason = 'check not built yet in this round (planned, see DESIGN.md section 3); not claimed until it runs'
hooks_commits = subprocess.run(['git','-C','/repo','log','--format=%h %s'],capture_output=True,text=True).stdout.splitlines()
hook_shas = [l.split()[0] for l in hooks_commits if 'verif hook' in l]
m = {
 'version': 1,
 'setup_cmd': './setup.sh',
 'hooks': {
   'guard': 'verif',
   'enable': 'go build -tags verif (the harness module replaces github.com/cube2222/octosql with /repo, so every check compiles the current working tree)',
   'baseline_off_cmd': "cd /repo && GOFLAGS=-mod=mod GOPROXY=off GOSUMDB=off GOTOOLCHAIN=local go test -json -vet=off -count=1 -timeout 25m ./...",
   'source_commits': hook_shas,
   'add_only': True,
 },
 'engines': [
   {'name': 'vcheck', 'path': 'harness/cmd/vcheck', 'serves_properties': sorted(checks.keys()),
    'kind_free_text': 'hand-written Go explorers: controlled join scheduler (hook H1), history/sequence enumerators over the real execution nodes, bounded exhaustive input/program enumeration against reference models'},
 ],
 'checks': [],
 'not_applicable': [],
 'notes': 'Known findings and repaired defects: /verif/known_findings.txt. Replays are written to /verif/replays/<id>/.',
}
for i in ids:
    if i in checks:
        cat, tech, text, note, ref = checks[i]
        m['checks'].append({
          'property_id': i,
          'quick_cmd': f'./check {i} quick',
          'thorough_cmd': f'./check {i} thorough',
          'evidence_file': f'/verif/evidence/{i}.json',
          'replay_cmd_template': f'./check {i} replay {{path}}',
          'engine': 'vcheck',
          'level_claimed': {'category': cat, 'text': text, 'design_ref': 'DESIGN.md §' + ref},
          'level_note': note,
          'technique': tech,
        })
    else:
        m['not_applicable'].append({'property_id': i, 'reason': na_reason})
json.dump(m, open('/verif/MANIFEST.json','w'), indent=1)
print('checks:', len(m['checks']), 'not_applicable:', len(m['not_applicable']))
